#!/bin/sh
# Offline setup: syntax-check every TLA+ module with SANY and byte-compile the harness.
set -e
HERE="$(cd "$(dirname "$0")" && pwd)"
cd "$HERE"
rc=0
for f in spec/*.tla; do
  [ -e "$f" ] || continue
  if ! (cd spec && java -cp /opt/veriftools/tla/tla2tools.jar:/opt/veriftools/tla/CommunityModules-deps.jar tla2sany.SANY "$(basename "$f")" > /tmp/sany_$$.log 2>&1) || grep -q -e "Semantic errors" -e "\*\*\* Errors" -e "Fatal errors" /tmp/sany_$$.log; then
    echo "SANY failed on $f"; cat /tmp/sany_$$.log; rc=1
  fi
done
rm -f /tmp/sany_$$.log
/venv/bin/python -m compileall -q harness >/dev/null || rc=1
/venv/bin/python -c "import EasyFEA, gmsh, numpy, scipy; print('EasyFEA from', EasyFEA.__file__)" || rc=1
mkdir -p evidence
exit $rc
