SPECIFICATION Spec
CONSTANTS
  Sims = {"s1"}
  Meshes = {"A", "B"}
  Folders = {"", "f1"}
  MaxVer = 1
  MaxSolve = 1
  MaxIter = 1
  MaxMesh = 2
  Defect = "none"
  CacheOn = TRUE
  StoreOn = TRUE
  Acts <- AllActs
  Emit = FALSE
VIEW view
INVARIANT TypeOK
INVARIANT NoStale
INVARIANT GeoCacheCurrent
INVARIANT MapsCurrent
INVARIANT Observing
PROPERTY AppendOnly
PROPERTY PureRead
PROPERTY Restores
PROPERTY Pinned
