SPECIFICATION Spec
CONSTANTS
  MaxOps = 4
  Defect = "alias_c"
  Emit = FALSE
  WithSource = TRUE
INVARIANT FlagSound
INVARIANT Paired
INVARIANT EmitOK
PROPERTY ReadIsCurrent
CHECK_DEADLOCK FALSE
