SPECIFICATION Spec
CONSTANTS
  Dims = {2, 3}
  Vals <- ValsSet
  Emit = TRUE
INVARIANT Partition
INVARIANT EmitOK
INVARIANT Homogeneous
INVARIANT EmitScales
