------------------------------ MODULE Spectrum ------------------------------
(* C02 -- expected spectral attributes of the assembled matrices, per configuration.        *)
(* The module enumerates the configuration space (physics x dimension x element type x      *)
(* density x thickness) and states, as exact values, what the assembled matrices must        *)
(* satisfy; the harness builds each configuration with the real code and compares.           *)
(*   kernel(K) = rigid-body modes (elasticity, beams) / constants (heat conduction)          *)
(*   M (C for heat) symmetric positive definite, entries summing to rho * measure * thickness*)
(*   beam mass positive semi-definite with translational mass rho * A * L                    *)
EXTENDS Rat, FiniteSets, TLC, Json

CONSTANTS Elems1D, Elems2D, Elems3D, Rhos, Thicks, Emit

VARIABLE cfg
vars == <<cfg>>

Phys == {"elastic", "thermal", "beamEB", "beamTimo"}
ElemsOf(d) == CASE d = 1 -> Elems1D [] d = 2 -> Elems2D [] d = 3 -> Elems3D

(* integer domains: a 3 segment, a 3 x 2 rectangle, a 3 x 2 x 2 box *)
Measure(d) == CASE d = 1 -> RI(3) [] d = 2 -> RI(6) [] d = 3 -> RI(12)
(* beam: length 3, rectangular section 1/2 x 1/4 *)
BeamArea == R(1, 8)
BeamDirs == {"ur", "ul", "dl", "dr"}

(* shape of the domain: the integer box, or a disk / cylinder whose boundary elements of degree >= 2 have CURVED edges, so that *)
(* the Jacobian of the geometric map varies inside an element (simplices included).  None of the spectral attributes depends  *)
(* on it; the measure of the round domain is the one of the mesh (C07 settles measures), not a rational of this module.       *)
Shapes == {"box", "round"}
(* unit of length as a power of ten (the same body in metres or in micrometres): the kernel, the definiteness class and the    *)
(* symmetry do not depend on it and the mass total scales by 10^(dim * unit) - no coefficient of an assembled matrix is "small" *)
(* in an absolute sense.                                                                                                       *)
Units == {0, -6}

Configs ==
         {[phys |-> "elastic", dim |-> d, elem |-> e, rho |-> r, thick |-> t, dir |-> "ur", shape |-> sh, unit |-> un] : d \in {2, 3}, e \in Elems2D \cup Elems3D, r \in Rhos, t \in Thicks, sh \in Shapes, un \in Units}
    \cup {[phys |-> "thermal", dim |-> d, elem |-> e, rho |-> r, thick |-> t, dir |-> "ur", shape |-> sh, unit |-> un] : d \in {1, 2, 3}, e \in Elems1D \cup Elems2D \cup Elems3D, r \in Rhos, t \in Thicks, sh \in Shapes, un \in Units}
    \* dir: the quadrant the member is drawn towards (up-right, up-left, down-left, down-right): the local frame of a member
    \* drawn towards -x is a reflection of the global one in 2-D, and none of the expected attributes depends on it
    \cup {[phys |-> p, dim |-> d, elem |-> e, rho |-> r, thick |-> One, dir |-> q, shape |-> "box", unit |-> un] : un \in Units, p \in {"beamEB", "beamTimo"}, d \in {1, 2, 3}, e \in Elems1D, r \in Rhos, q \in BeamDirs}

Valid(c) ==
    /\ c.phys \in {"elastic", "thermal"} => c.elem \in ElemsOf(c.dim)
    /\ (c.dim # 2 /\ c.phys \in {"elastic", "thermal"}) => c.thick = One      \* thickness only exists in 2D
    /\ (c.unit # 0) => (c.shape = "box" /\ c.thick = One /\ c.dir = "ur")
    /\ (c.shape = "round") => (c.dim \in {2, 3} /\ c.thick = One)
    /\ (c.dim = 1 /\ c.phys \in {"beamEB", "beamTimo"}) => c.dir \in {"ur", "ul"}       \* a 1-D member is drawn towards +x or -x

RigidModes(d) == (d * (d + 1)) \div 2      \* translations + rotations
ExpKernel(c) ==
    CASE c.phys = "elastic" -> RigidModes(c.dim)
      [] c.phys = "thermal" -> 1
      [] c.phys \in {"beamEB", "beamTimo"} -> IF c.dim = 1 THEN 1 ELSE RigidModes(c.dim)
DofN(c) ==
    CASE c.phys = "elastic" -> c.dim
      [] c.phys = "thermal" -> 1
      [] OTHER -> CASE c.dim = 1 -> 1 [] c.dim = 2 -> 3 [] c.dim = 3 -> 6
(* sum of the mass-matrix entries coupling one translational direction with itself *)
ExpMassSum(c) ==
    IF c.phys \in {"beamEB", "beamTimo"} THEN Mul3(c.rho, BeamArea, RI(3))
    ELSE Mul3(c.rho, Measure(c.dim), c.thick)
MassDefinite(c) == c.phys \in {"elastic", "thermal"}      \* beams: rotational inertia is neglected -> semi-definite

Expect(c) == [cfg |-> c, kernel |-> ExpKernel(c), dofn |-> DofN(c), massSum |-> ExpMassSum(c), massFrom |-> IF c.shape = "round" THEN "mesh" ELSE "domain", massDefinite |-> MassDefinite(c)]

(* large element groups (more than 2^15 elements, a number that is not a multiple of 2^15): whatever is computed group by group   *)
(* or block by block must cover every element.  Attributes that need no dense analysis: the constant / rigid modes are in the      *)
(* kernel, no dof of a used node has a zero diagonal entry, the energy of a unit linear field is k x measure (heat) and the mass   *)
(* total is rho x measure.  LargeConfigs are emitted separately ("LARGE") and replayed on structured grids.                         *)
LargeConfigs == [phys : {"elastic", "thermal"}, elem : {"TRI3", "QUAD4"}, cells : {182}]      \* 182 x 182 cells: 33 124 QUAD4 / 66 248 TRI3
LargeExpect(c) == [cfg |-> c, elements |-> IF c.elem = "QUAD4" THEN c.cells * c.cells ELSE 2 * c.cells * c.cells, kernel |-> IF c.phys = "elastic" THEN 3 ELSE 1,
                   measure |-> One, unitFieldEnergy |-> IF c.phys = "thermal" THEN Two ELSE Zero]      \* unit square, conductivity 2: int k |grad x|^2 = 2
EmitLarge == (Emit /\ cfg.phys = "elastic" /\ cfg.dim = 2 /\ cfg.elem = "TRI3" /\ cfg.unit = 0 /\ cfg.shape = "box" /\ cfg.thick = One) =>
                 \A c \in LargeConfigs : PrintT(<<"LARGE", ToJson(LargeExpect(c))>>)

Init == cfg \in {c \in Configs : Valid(c)}
Next == UNCHANGED cfg
Spec == Init /\ [][Next]_vars

(* consistency of the table itself *)
TableOK ==
    /\ ExpKernel(cfg) <= DofN(cfg) * 2                                   \* a two-node structure can carry the kernel
    /\ IsPos(ExpMassSum(cfg))
    /\ (cfg.phys = "elastic" /\ cfg.dim = 3) => ExpKernel(cfg) = 6
EmitOK == Emit => PrintT(<<"CASE", ToJson(Expect(cfg))>>)
=============================================================================
