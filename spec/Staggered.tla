------------------------------ MODULE Staggered ------------------------------
(* The staggered driver of a phase-field step ( PhaseField.Solve ): damage and displacement are solved in turn until the  *)
(* chosen criterion is met or maxIter is reached.  One action per sub-solve, one for the test, one for the return.         *)
(*    SolveDamage    d_k from the displacement of the previous pass                                                        *)
(*    SolveElastic   u_k from d_k; the criterion (option 0..3 of the documentation) is evaluated on (d_k, u_k)             *)
(*    Return         hands (u, d, converged) to the caller and leaves them as the state of the simulation                  *)
(* Arrays are tokens (who computed them).  What a caller relies on when it saves the step:                                 *)
(*    LastPair       the returned displacement was solved with the returned damage of the same pass, both are the last     *)
(*                   ones computed, and they are the state of the simulation; with the solver that takes the maximum of    *)
(*                   old and new damage the returned damage is that maximum ("max")                                        *)
(*    Bounded        1 <= Niter <= maxIter, and Niter is the number of passes made                                         *)
(*    FlagHonest     converged = TRUE only if the criterion held at the last pass; FALSE only if maxIter was reached       *)
(*    FirstHit       no pass is made after one at which the criterion held                                                 *)
EXTENDS Integers, Sequences, TLC

CONSTANTS MaxIter,      \* maxIter argument ( > 1 )
          Solver,       \* "History" | "HistoryDamage" | "BoundConstrain"
          Defect        \* "none" | "return_previous_u" | "extra_pass"   (negative self-tests)

VARIABLES pc,           \* "top" | "afterD" | "done"
          k,            \* passes made
          conv,         \* criterion at the last pass
          dTok, uTok,   \* tokens of the last damage / displacement computed (0: the state before the call)
          ret,          \* what was returned: [u, d, converged, niter] or "none"
          prm           \* [maxIter, solver] of this call
vars == <<pc, k, conv, dTok, uTok, ret, prm>>

Start(maxIter, solver) == prm = [maxIter |-> maxIter, solver |-> solver] /\ pc = "top" /\ k = 0 /\ conv = FALSE /\ dTok = 0 /\ uTok = 0 /\ ret = "none"

Init == Start(MaxIter, Solver)

MayIterate == (~conv \/ Defect = "extra_pass") /\ k < prm.maxIter
SolveDamage(t) == pc = "top" /\ MayIterate /\ pc' = "afterD" /\ k' = k + 1 /\ dTok' = t /\ UNCHANGED <<conv, uTok, ret, prm>>
SolveElastic(t, crit) == pc = "afterD" /\ pc' = "top" /\ uTok' = t /\ conv' = crit /\ UNCHANGED <<k, dTok, ret, prm>>
Returned == [u |-> IF Defect = "return_previous_u" /\ k > 1 THEN uTok - 1 ELSE uTok, d |-> IF prm.solver = "HistoryDamage" THEN "max" ELSE dTok, converged |-> conv, niter |-> k]
Return == pc = "top" /\ ~MayIterate /\ k >= 1 /\ pc' = "done" /\ ret' = Returned /\ UNCHANGED <<k, conv, dTok, uTok, prm>>

(* design check: the token of pass k is k, the criterion is free *)
Next == SolveDamage(k + 1) \/ (\E c \in BOOLEAN : SolveElastic(k, c)) \/ Return
Spec == Init /\ [][Next]_vars

LastPair == pc = "done" => ret.u = uTok /\ uTok = k /\ (ret.d = dTok \/ (prm.solver = "HistoryDamage" /\ ret.d = "max")) /\ dTok = k
Bounded == pc = "done" => ret.niter = k /\ 1 <= k /\ k <= prm.maxIter
FlagHonest == pc = "done" => (ret.converged = conv) /\ (~ret.converged => k = prm.maxIter)
FirstHit == [][conv => k' = k]_vars
==============================================================================
