SPECIFICATION Spec
CONSTANTS
  MaxMoves = 2
  Motions = {"translate", "rotz", "rotx", "mirx", "miry", "far"}
  Emit = TRUE
INVARIANT Isometry
INVARIANT Parity
INVARIANT EmitOK
