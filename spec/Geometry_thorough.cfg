SPECIFICATION Spec
CONSTANTS
  MaxMoves = 2
  Motions = {"translate", "rotz", "rotx", "mirx", "miry"}
  Emit = TRUE
INVARIANT Isometry
INVARIANT Parity
INVARIANT EmitOK
