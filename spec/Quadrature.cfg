SPECIFICATION Spec
INVARIANT Report
