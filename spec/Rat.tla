-------------------------------- MODULE Rat --------------------------------
(* Exact rational arithmetic for TLC.  A rational is a reduced pair <<n, d>>, d > 0.     *)
(* TLC integers are 32-bit; TLC reports an overflow as an error (never a wrong value),  *)
(* so the lattices used by the specifications are chosen small enough (DESIGN.md §4).   *)
EXTENDS Integers, Sequences

RECURSIVE GCD(_, _)
GCD(a, b) == IF b = 0 THEN a ELSE GCD(b, a % b)

AbsI(a) == IF a < 0 THEN -a ELSE a

Norm(n, d) ==
    LET s == IF d < 0 THEN -1 ELSE 1
        g == GCD(AbsI(n), AbsI(d))
    IN  IF n = 0 THEN <<0, 1>> ELSE <<s * (n \div g), (s * d) \div g>>

R(n, d)  == Norm(n, d)
RI(n)    == <<n, 1>>
Zero     == <<0, 1>>
One      == <<1, 1>>
Half     == <<1, 2>>
Two      == <<2, 1>>

IsRat(q) == /\ q \in Int \X Int /\ q[2] > 0 /\ GCD(AbsI(q[1]), q[2]) = 1

Add(p, q) ==
    LET g == GCD(p[2], q[2])
        l == (p[2] \div g) * q[2]
    IN  Norm(p[1] * (l \div p[2]) + q[1] * (l \div q[2]), l)
Neg(p)    == <<-p[1], p[2]>>
Sub(p, q) == Add(p, Neg(q))
Mul(p, q) ==
    LET g1 == GCD(AbsI(p[1]), q[2])
        g2 == GCD(AbsI(q[1]), p[2])
    IN  IF p[1] = 0 \/ q[1] = 0 THEN Zero
        ELSE <<(p[1] \div g1) * (q[1] \div g2), (p[2] \div g2) * (q[2] \div g1)>>
Inv(p)    == IF p[1] > 0 THEN <<p[2], p[1]>> ELSE <<-p[2], -p[1]>>
Div(p, q) == Mul(p, Inv(q))
Sq(p)     == Mul(p, p)

Lt(p, q)  == LET g == GCD(p[2], q[2]) IN p[1] * (q[2] \div g) < q[1] * (p[2] \div g)
Leq(p, q) == LET g == GCD(p[2], q[2]) IN p[1] * (q[2] \div g) <= q[1] * (p[2] \div g)
IsZero(p) == p[1] = 0
IsPos(p)  == p[1] > 0
Sign(p)   == IF p[1] > 0 THEN 1 ELSE IF p[1] < 0 THEN -1 ELSE 0
AbsR(p)   == <<AbsI(p[1]), p[2]>>
MaxR(p, q) == IF Leq(p, q) THEN q ELSE p
MinR(p, q) == IF Leq(p, q) THEN p ELSE q

Add3(a, b, c)    == Add(a, Add(b, c))
Add4(a, b, c, d) == Add(Add(a, b), Add(c, d))
Mul3(a, b, c)    == Mul(a, Mul(b, c))

(* sums over sequences of rationals *)
RECURSIVE SumSeq(_)
SumSeq(s) == IF s = <<>> THEN Zero ELSE Add(Head(s), SumSeq(Tail(s)))

(* dot product of two equal-length sequences of rationals *)
RECURSIVE Dot(_, _)
Dot(a, b) == IF a = <<>> THEN Zero ELSE Add(Mul(Head(a), Head(b)), Dot(Tail(a), Tail(b)))

(* 2x2 systems (matrices as <<<<a,b>>,<<c,d>>>>), Cramer *)
Det2(m)      == Sub(Mul(m[1][1], m[2][2]), Mul(m[1][2], m[2][1]))
MatVec2(m, x) == <<Add(Mul(m[1][1], x[1]), Mul(m[1][2], x[2])),
                   Add(Mul(m[2][1], x[1]), Mul(m[2][2], x[2]))>>
Solve2(m, b) ==
    LET d == Det2(m)
    IN  <<Div(Sub(Mul(b[1], m[2][2]), Mul(m[1][2], b[2])), d),
          Div(Sub(Mul(m[1][1], b[2]), Mul(b[1], m[2][1])), d)>>
VAdd2(x, y)  == <<Add(x[1], y[1]), Add(x[2], y[2])>>
VSub2(x, y)  == <<Sub(x[1], y[1]), Sub(x[2], y[2])>>
VScale2(c, x) == <<Mul(c, x[1]), Mul(c, x[2])>>
MAdd2(a, b)  == <<VAdd2(a[1], b[1]), VAdd2(a[2], b[2])>>
MScale2(c, a) == <<VScale2(c, a[1]), VScale2(c, a[2])>>
=============================================================================
