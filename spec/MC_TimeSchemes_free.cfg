SPECIFICATION Spec
CONSTANTS
  AlgoPrms <- AlgoPrmsFree
  Mats <- MatsFree
  States <- StatesFree
  Loads <- LoadsZero
  Gs <- GsOne
  ConsSet <- FreeOnly
  MaxSteps = 1
  Emit = TRUE
  Refusals <- NoRefusals
  MatChange = FALSE
  Mutant = "none"
INVARIANT LatticeAdmissible
INVARIANT RefusedKeeps
INVARIANT Motion
INVARIANT Prescribed
INVARIANT UpdateRel
INVARIANT Conserve
INVARIANT Dissipate
INVARIANT NewmarkEquilibrium
INVARIANT Family
INVARIANT Affine
INVARIANT Homogeneous
INVARIANT EmitOK
