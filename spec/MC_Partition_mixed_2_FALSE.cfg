SPECIFICATION Spec
CONSTANTS
  MeshName = "mixed"
  N = 2
  GhostsByType = FALSE
  SegFollows = FALSE
INVARIANT Elems
INVARIANT NodesOK
INVARIANT Rows
