SPECIFICATION Spec
CONSTANTS
  SysNames <- Names
  SysDef <- Systems
  DirChoices <- Dirs
  NeuChoices <- Neus
  MaxConds = 3
  Emit = TRUE
INVARIANT Holds
INVARIANT EmitOK
