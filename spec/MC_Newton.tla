---- MODULE MC_Newton ----
EXTENDS Newton
StiffsQ == {One, RI(8)}
RatesQ == {Zero, Half, R(3, 4)}
StartsQ == {RI(3), R(-3, 4), Zero}
AbsQ == {R(5, 64), R(5, 8192)}
RelQ == {R(5, 64), R(5, 1048576)}
IncQ == {R(5, 16), R(5, 1048576)}
ItersQ == {2, 4, 7}
====
