--------------------------- MODULE MC_Constraints ---------------------------
EXTENDS Constraints
Cn(ns, us, vs) == [nodes |-> ns, unks |-> us, vals |-> vs]
X == <<"x">>
Systems ==
  [ chain |-> [nn |-> 4, dofn |-> 1, unknowns |-> <<"x">>, orphans |-> {},
               k |-> << <<2,-2,0,0>>, <<-2,3,-1,0>>, <<0,-1,4,-3>>, <<0,0,-3,3>> >>],
    vec   |-> [nn |-> 2, dofn |-> 2, unknowns |-> <<"x","y">>, orphans |-> {},
               k |-> << <<4,1,-2,0>>, <<1,3,0,-1>>, <<-2,0,5,1>>, <<0,-1,1,2>> >>],
    orph  |-> [nn |-> 4, dofn |-> 1, unknowns |-> <<"x">>, orphans |-> {2},
               k |-> << <<2,-2,0,0>>, <<-2,5,0,-3>>, <<0,0,0,0>>, <<0,-3,0,3>> >>],
    (* an operator that is NOT symmetric (diffusion 4,2,6 plus advection [[-1,1],[-1,1]] per element, as a user weak form with a   *)
    (* convection term assembles): the coupling block to the prescribed dofs is A[free, known], not the transpose of A[known, free] *)
    adv   |-> [nn |-> 4, dofn |-> 1, unknowns |-> <<"x">>, orphans |-> {},
               k |-> << <<3,-3,0,0>>, <<-5,6,-1,0>>, <<0,-3,8,-5>>, <<0,0,-7,7>> >>] ]
Names == {"chain", "vec", "orph", "adv"}
Dirs ==
  [ chain |-> {Cn(<<0>>, X, <<RI(0)>>), Cn(<<0,3>>, X, <<RI(1)>>), Cn(<<3>>, X, <<R(1,2)>>), Cn(<<0>>, X, <<RI(-2)>>), Cn(<<2,1>>, X, <<R(1,4)>>)},
    vec   |-> {Cn(<<0>>, <<"x","y">>, <<RI(0), RI(1)>>), Cn(<<0>>, <<"y","x">>, <<R(1,2), RI(-1)>>), Cn(<<1>>, <<"y">>, <<RI(2)>>), Cn(<<1,0>>, <<"x">>, <<RI(1)>>)},
    orph  |-> {Cn(<<0>>, X, <<RI(0)>>), Cn(<<2>>, X, <<RI(1)>>), Cn(<<3,0>>, X, <<R(1,2)>>)},
    adv   |-> {Cn(<<0>>, X, <<RI(1)>>), Cn(<<3>>, X, <<R(1,2)>>), Cn(<<0,3>>, X, <<RI(-2)>>), Cn(<<1>>, X, <<RI(0)>>)} ]
Neus ==
  [ chain |-> {Cn(<<3>>, X, <<RI(3)>>), Cn(<<1,2>>, X, <<RI(2)>>), Cn(<<0,3>>, X, <<RI(-1)>>)},
    vec   |-> {Cn(<<1>>, <<"y","x">>, <<RI(2), RI(-1)>>), Cn(<<0,1>>, <<"x","y">>, <<RI(2), RI(4)>>), Cn(<<1>>, <<"x">>, <<RI(3)>>)},
    orph  |-> {Cn(<<3>>, X, <<RI(3)>>), Cn(<<2>>, X, <<RI(5)>>), Cn(<<1,3>>, X, <<RI(2)>>)},
    adv   |-> {Cn(<<3>>, X, <<RI(3)>>), Cn(<<1,2>>, X, <<RI(2)>>)} ]
=============================================================================
