---------------------------- MODULE Constraints ----------------------------
(* C04 -- boundary conditions and the reduced solve of EasyFEA, over exact rationals.       *)
(*   dof lookup:   (node, unknown name) -> node * dof_n + index of the name                  *)
(*   Dirichlet:    a dof entered several times holds the SUM of the entered values           *)
(*                 (documented convention of the elimination solver)                         *)
(*   point load:   the given total is split evenly over the selected nodes                   *)
(*   solve:        x_c prescribed,  A_ff x_f = b_f - A_fc x_c ;  orphan dofs get a unit      *)
(*                 diagonal so they do not make the system singular                          *)
(* TLC computes x exactly (Cramer, <= 3 free dofs) for every bounded sequence of conditions; *)
(* the harness replays each behaviour through add_dirichlet/add_neumann/Solve with every     *)
(* installed linear-solver back end and through the Lagrange-multiplier route.               *)
EXTENDS Rat, FiniteSets, TLC, Json

CONSTANTS
    SysNames, SysDef,   \* [name -> [nn, dofn, unknowns (Seq of names), k (matrix, ints), orphans (set of nodes)]]
    DirChoices,         \* [name -> set of records [nodes: Seq(node), unks: Seq(name), vals: Seq(Rat)]]
    NeuChoices,         \* same shape
    MaxConds,           \* number of conditions entered before the solve
    MaxRounds,          \* number of condition sets solved one after the other on the same object (1: no Reset)
    Emit

VARIABLES sys, dirs, neus, x, phase, hist,
          prev      \* the rounds solved before on the same object (Reset = Bc_Init(): the conditions are cleared, the object is kept)
vars == <<sys, dirs, neus, x, phase, hist, prev>>

Def == SysDef[sys]
NDof == Def.nn * Def.dofn
Dofs == 0..(NDof - 1)

IndexOf(seq, e) == CHOOSE i \in 1..Len(seq) : seq[i] = e
DofOf(node, unk) == node * Def.dofn + (IndexOf(Def.unknowns, unk) - 1)

(* entries <<dof, value>> produced by one condition: node-major, unknowns in the order GIVEN by the caller *)
Entries(c, split) ==
    LET nN == Len(c.nodes)  nU == Len(c.unks)
    IN  [k \in 1..(nN * nU) |->
           LET a == ((k - 1) \div nU) + 1   u == ((k - 1) % nU) + 1
           IN  <<DofOf(c.nodes[a], c.unks[u]), IF split THEN Div(c.vals[u], RI(nN)) ELSE c.vals[u]>>]

RECURSIVE SumFor(_, _)
SumFor(es, d) == IF es = <<>> THEN Zero ELSE Add(IF Head(es)[1] = d THEN Head(es)[2] ELSE Zero, SumFor(Tail(es), d))

RECURSIVE Flatten(_)
Flatten(ss) == IF ss = <<>> THEN <<>> ELSE Head(ss) \o Flatten(Tail(ss))

DirEntries == Flatten([i \in 1..Len(dirs) |-> Entries(dirs[i], FALSE)])
NeuEntries == Flatten([i \in 1..Len(neus) |-> Entries(neus[i], TRUE)])
Known == {DirEntries[i][1] : i \in 1..Len(DirEntries)}
Free  == Dofs \ Known
OrphanDofs == {n * Def.dofn + c : n \in Def.orphans, c \in 0..(Def.dofn - 1)}

(* system matrix with the unit diagonal on orphan dofs *)
Aij(i, j) == Add(RI(Def.k[i + 1][j + 1]), IF i = j /\ i \in OrphanDofs THEN One ELSE Zero)
B(i) == SumFor(NeuEntries, i)
Xc(i) == SumFor(DirEntries, i)

(* right-hand side of the reduced system for free dof i *)
RECURSIVE AicXc(_, _)
AicXc(i, ks) == IF ks = {} THEN Zero ELSE LET c == CHOOSE c \in ks : TRUE IN Add(Mul(Aij(i, c), Xc(c)), AicXc(i, ks \ {c}))
Rhs(i) == Sub(B(i), AicXc(i, Known))

SetToSeq(S) == LET F[T \in SUBSET S] == IF T = {} THEN <<>> ELSE LET m == CHOOSE m \in T : \A o \in T : m <= o IN <<m>> \o F[T \ {m}] IN F[S]
FSeq == SetToSeq(Free)

Det1(f) == Aij(f[1], f[1])
D2(a, b, c, d) == Sub(Mul(a, d), Mul(b, c))
Det3M(m) == Add3(Mul(m[1][1], D2(m[2][2], m[2][3], m[3][2], m[3][3])),
                 Neg(Mul(m[1][2], D2(m[2][1], m[2][3], m[3][1], m[3][3]))),
                 Mul(m[1][3], D2(m[2][1], m[2][2], m[3][1], m[3][2])))
MatF(f) == [i \in 1..Len(f) |-> [j \in 1..Len(f) |-> Aij(f[i], f[j])]]
ReplCol(m, col, v) == [i \in 1..Len(m) |-> [j \in 1..Len(m) |-> IF j = col THEN v[i] ELSE m[i][j]]]
DetM(m) == CASE Len(m) = 1 -> m[1][1]
             [] Len(m) = 2 -> D2(m[1][1], m[1][2], m[2][1], m[2][2])
             [] Len(m) = 3 -> Det3M(m)
Regular == Len(FSeq) \in 0..3 /\ (Len(FSeq) > 0 => ~IsZero(DetM(MatF(FSeq))))

Solution ==
    LET f == FSeq
        m == MatF(f)
        r == [i \in 1..Len(f) |-> Rhs(f[i])]
        d == DetM(m)
        xf == [i \in 1..Len(f) |-> Div(DetM(ReplCol(m, i, r)), d)]
    IN  [i \in 1..NDof |-> IF (i - 1) \in Known THEN Xc(i - 1) ELSE xf[IndexOf(f, i - 1)]]

---------------------------------------------------------------------------
Init == /\ sys \in SysNames /\ dirs = <<>> /\ neus = <<>> /\ x = <<>> /\ phase = "enter" /\ hist = <<>> /\ prev = <<>>

AddDir(c) ==
    /\ phase = "enter" /\ Len(dirs) + Len(neus) < MaxConds
    /\ dirs' = Append(dirs, c)
    /\ hist' = Append(hist, [op |-> "dir", c |-> c])
    /\ UNCHANGED <<sys, neus, x, phase, prev>>

AddNeu(c) ==
    /\ phase = "enter" /\ Len(dirs) + Len(neus) < MaxConds
    /\ neus' = Append(neus, c)
    /\ hist' = Append(hist, [op |-> "neu", c |-> c])
    /\ UNCHANGED <<sys, dirs, x, phase, prev>>

Solve ==
    /\ phase = "enter" /\ dirs # <<>> /\ Regular
    /\ x' = Solution
    /\ phase' = "solved"
    /\ hist' = Append(hist, [op |-> "solve", c |-> [nodes |-> <<>>, unks |-> <<>>, vals |-> <<>>]])
    /\ UNCHANGED <<sys, dirs, neus, prev>>

(* Bc_Init() after a solve: the conditions are cleared and another set is entered and solved ON THE SAME OBJECT.  The solution of  *)
(* a round is a function of that round's conditions alone (Solution reads dirs and neus, nothing of prev): whatever the object  *)
(* keeps from one solve to the next (factorisations, maps, vectors) must not show.                                              *)
RoundRec == [steps |-> hist, x |-> x, known |-> Known, free |-> Free, dir |-> DirEntries, neu |-> NeuEntries]
Reset ==
    /\ phase = "solved" /\ Len(prev) + 1 < MaxRounds
    /\ prev' = Append(prev, RoundRec)
    /\ dirs' = <<>> /\ neus' = <<>> /\ hist' = <<>> /\ phase' = "enter"
    /\ UNCHANGED <<sys, x>>

Next == \/ \E c \in DirChoices[sys] : AddDir(c)
        \/ \E c \in NeuChoices[sys] : AddNeu(c)
        \/ Solve
        \/ Reset
Spec == Init /\ [][Next]_vars

---------------------------------------------------------------------------
(* the definition is self-consistent: constrained dofs hold the sums, free rows are in equilibrium *)
RECURSIVE RowDot(_, _)
RowDot(i, js) == IF js = {} THEN Zero ELSE LET j == CHOOSE j \in js : TRUE IN Add(Mul(Aij(i, j), x[j + 1]), RowDot(i, js \ {j}))
Holds ==
    phase = "solved" =>
      /\ \A c \in Known : x[c + 1] = Xc(c)
      /\ \A i \in Free : RowDot(i, Dofs) = B(i)
      /\ \A o \in OrphanDofs \cap Free : x[o + 1] = B(o)

EmitChain == (Emit /\ phase = "solved" /\ MaxRounds > 1 /\ Len(prev) + 1 = MaxRounds) =>
    PrintT(<<"CHAIN", ToJson([sys |-> sys, rounds |-> Append(prev, RoundRec)])>>)
EmitOK == (Emit /\ phase = "solved" /\ MaxRounds = 1) =>
    PrintT(<<"BEH", ToJson([sys |-> sys, steps |-> hist, x |-> x, known |-> Known, free |-> Free,
                             dir |-> DirEntries, neu |-> NeuEntries])>>)
=============================================================================
