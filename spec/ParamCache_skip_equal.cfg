SPECIFICATION Spec
CONSTANTS
  MaxOps = 5
  Defect = "skip_equal"
  Emit = TRUE
INVARIANT FlagSound
INVARIANT EmitOK
PROPERTY ReadIsCurrent
CHECK_DEADLOCK FALSE
