SPECIFICATION Spec
CONSTANTS
  MaxOps = 5
  Defect = "skip_equal"
  WithSource = FALSE
  Emit = TRUE
INVARIANT FlagSound
INVARIANT EmitOK
PROPERTY ReadIsCurrent
CHECK_DEADLOCK FALSE
