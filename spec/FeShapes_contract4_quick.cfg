SPECIFICATION Spec
CONSTANTS
  NeSet = {3}
  NpgSet = {1, 3}
  Dims = {3}
  MaxRank = 4
  Ops = {"dot", "ddot", "matmul"}
  Emit = TRUE
INVARIANT TypeRule
INVARIANT EmitOK
