SPECIFICATION Spec
CONSTANTS
  Sims = {"s1"}
  Meshes = {"A", "B"}
  Folders = {"", "f1", "f2"}
  MaxVer = 2
  MaxSolve = 2
  MaxIter = 3
  MaxMesh = 2
  Defect = "none"
  CacheOn = FALSE
  StoreOn = TRUE
  Acts <- AllActs
  Emit = FALSE
VIEW view
INVARIANT TypeOK
INVARIANT NoStale
INVARIANT GeoCacheCurrent
INVARIANT MapsCurrent
INVARIANT Observing
PROPERTY AppendOnly
PROPERTY PureRead
PROPERTY Restores
PROPERTY Pinned
