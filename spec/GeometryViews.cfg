SPECIFICATION SpecV
CONSTANTS
  MaxMoves = 1
  Motions = {"translate", "rotz", "mirx", "rotx"}
  Views = {"rotz", "mirx", "translate"}
  MaxViews = 1
  Emit = TRUE
INVARIANT Isometry
INVARIANT Parity
INVARIANT FrameIsFoldOfMoves
INVARIANT EmitV
PROPERTY PureView
