-------------------------- MODULE InelasticCommit --------------------------
(* C19 (commit discipline) -- a simulation with a history-dependent material keeps a         *)
(* COMMITTED state zOld and a TRIAL state z.  Constitutive integration is pure: solving,     *)
(* querying results or reading stored iterations never changes the committed state; only      *)
(* saving a converged step commits the trial state, and restoring an iteration brings back    *)
(* the state committed with it.  States are abstracted to tokens (content hashes in traces).  *)
EXTENDS Integers, Sequences, FiniteSets, TLC, Json

CONSTANTS MaxSolve, MaxIter, Emit
VARIABLES zOld, z, u, nsolve, store, act
vars == <<zOld, z, u, nsolve, store, act>>
view == <<zOld, z, u, nsolve, store>>

Init == zOld = 0 /\ z = 0 /\ u = 0 /\ nsolve = 0 /\ store = <<>> /\ act = [name |-> "Init", arg |-> 0]

(* Newton loop at a new load level: many integrations from the SAME committed state; the last one leaves the trial state *)
Solve == /\ nsolve < MaxSolve
         /\ nsolve' = nsolve + 1 /\ u' = nsolve + 1 /\ z' = nsolve + 1
         /\ act' = [name |-> "Solve", arg |-> nsolve + 1]
         /\ UNCHANGED <<zOld, store>>
Result == /\ act' = [name |-> "Result", arg |-> 0] /\ UNCHANGED view
SaveIter == /\ Len(store) < MaxIter
            /\ zOld' = z
            /\ store' = Append(store, [u |-> u, z |-> z])
            /\ act' = [name |-> "SaveIter", arg |-> 0]
            /\ UNCHANGED <<z, u, nsolve>>
SetIter(i) == /\ i \in 1..Len(store)
              /\ u' = store[i].u /\ zOld' = store[i].z /\ z' = store[i].z
              /\ act' = [name |-> "SetIter", arg |-> i]
              /\ UNCHANGED <<nsolve, store>>
GetResults(i) == /\ i \in 1..Len(store) /\ act' = [name |-> "GetResults", arg |-> i] /\ UNCHANGED view

Next == Solve \/ Result \/ SaveIter \/ (\E i \in 1..MaxIter : SetIter(i) \/ GetResults(i))
Spec == Init /\ [][Next]_vars

(* integration never modifies the committed state: only SaveIter / SetIter do *)
Pure == [][(act'.name \in {"Solve", "Result", "GetResults"}) => zOld' = zOld]_vars
Commit == [][(act'.name = "SaveIter") => (zOld' = z /\ store'[Len(store')].z = z)]_vars
StoreFrozen == [][\A i \in 1..Len(store) : store'[i] = store[i]]_vars
EmitOK == Emit => PrintT(<<"ST", ToJson([lvl |-> TLCGet("level"), act |-> act, zOld |-> zOld, z |-> z, u |-> u, nstore |-> Len(store), store |-> store])>>)
=============================================================================
