SPECIFICATION Spec
CONSTANTS
  MeshName = "tris"
  N = 2
  GhostsByType = FALSE
  SegFollows = FALSE
INVARIANT Elems
INVARIANT NodesOK
INVARIANT Rows
