--------------------------- MODULE Trace_Lifecycle ---------------------------
(* Direction B for Lifecycle.tla: events recorded at the linearisation points of the cache / store protocol    *)
(* while the REPOSITORY'S OWN tests run (harness/trace_plugin.py wraps _Simu.Assembly, Get_K_C_M_F, Save_Iter,    *)
(* Set_Iter from outside the repository).  The trace specification keeps, per simulation, the projection of      *)
(* Lifecycle.tla's state that the events expose                                                                   *)
(*     asm[s]   the configuration the cached matrices were assembled from   (Lifecycle: asm[s])                    *)
(*     nres[s]  the number of stored iterations                             (Lifecycle: Len(results[s]))            *)
(* and judges every event against the same statements as Lifecycle.tla:                                            *)
(*     NoStale     an observation served from the cache shows the configuration it was assembled from              *)
(*     FlagHonoured an observation made while the flag is raised re-assembles                                       *)
(*     AppendOnly  Save_Iter adds exactly one entry           PureRead  Set_Iter leaves the number of entries alone  *)
(* The verdict is total: every event is consumed, failing events are collected with the clause they fail.          *)
EXTENDS Integers, Sequences, FiniteSets, TLC, Json, IOUtils
Trace == JsonDeserialize(IOEnv.LC_TRACE)
Events == Trace.events
NSims == Trace.nsims
VARIABLES i, asm, nres, bad
vars == <<i, asm, nres, bad>>

Init == i = 1 /\ asm = [s \in 1..NSims |-> 0] /\ nres = [s \in 1..NSims |-> -1] /\ bad = {}
E == Events[i]
Fail(clause) == bad' = bad \cup {[at |-> i, sim |-> E.s, clause |-> clause, test |-> E.t]}
Assemble == E.k = "asm" /\ asm' = [asm EXCEPT ![E.s] = E.c] /\ UNCHANGED <<nres, bad>>
Observe ==
    /\ E.k = "obs"
    /\ asm' = IF E.rebuilt = 1 THEN [asm EXCEPT ![E.s] = E.c] ELSE asm
    /\ IF E.rebuilt = 0 /\ asm[E.s] # E.c THEN Fail("NoStale")
       ELSE IF E.need = 1 /\ E.rebuilt = 0 THEN Fail("FlagHonoured")
       ELSE UNCHANGED bad
    /\ UNCHANGED nres
Save ==
    /\ E.k = "save"
    /\ nres' = [nres EXCEPT ![E.s] = E.n]
    /\ IF E.n # E.before + 1 \/ (nres[E.s] >= 0 /\ E.before # nres[E.s]) THEN Fail("AppendOnly") ELSE UNCHANGED bad
    /\ UNCHANGED asm
SetIter ==
    /\ E.k = "set"
    /\ nres' = [nres EXCEPT ![E.s] = E.n]
    /\ IF E.n # E.before \/ (nres[E.s] >= 0 /\ E.before # nres[E.s]) THEN Fail("PureRead") ELSE UNCHANGED bad
    /\ UNCHANGED asm
Next == i <= Len(Events) /\ i' = i + 1 /\ (Assemble \/ Observe \/ Save \/ SetIter)
Spec == Init /\ [][Next]_vars

Done == i = Len(Events) + 1
Report == Done => PrintT(<<"VERDICT", ToJson([events |-> Len(Events), sims |-> NSims, bad |-> bad,
                                             observations |-> Cardinality({j \in 1..Len(Events) : Events[j].k = "obs"}),
                                             cached |-> Cardinality({j \in 1..Len(Events) : Events[j].k = "obs" /\ Events[j].rebuilt = 0}),
                                             saves |-> Cardinality({j \in 1..Len(Events) : Events[j].k = "save"}),
                                             restores |-> Cardinality({j \in 1..Len(Events) : Events[j].k = "set"})])>>)
=============================================================================
