---------------------------- MODULE TimeSchemes ----------------------------
(* C05 -- the eight time-integration algorithms of EasyFEA, written from the            *)
(* *documented* definitions (Solvers.AlgoType docstrings, Hughes 1987), over exact       *)
(* rationals, for a 2-dof system  K u_t + C v_t + M a_t = F_t.                            *)
(*                                                                                        *)
(* The system matrix and right-hand side are DERIVED from the evaluation-point states     *)
(* (affine maps of the step unknown x), not tabulated:                                    *)
(*      A = Res(e_j) - Res(0),   b = F - Res(0).                                          *)
(* The implementation has three hand-written case tables (evaluation points, matrix       *)
(* weights, history right-hand side) plus a corrector; the conformance harness replays    *)
(* every transition of this module through the real Solve() and compares u, v, a, the     *)
(* weights and the evaluation-point states.                                               *)
EXTENDS Rat, TLC, Json

CONSTANTS
    AlgoPrms,     \* set of records [algo, dt, al, be, ga]  (al = alpha, or theta for parabolic)
    Mats,         \* set of records [k, c, m] : 2x2 matrices of rationals
    States,       \* set of initial <<u, v, a>> (2-vectors of rationals)
    Loads,        \* set of load vectors F (2-vectors)
    Gs,           \* set of prescribed values for dof 2
    ConsSet,      \* subset of BOOLEAN: is dof 2 constrained?
    MaxSteps,     \* length of step sequences explored
    Emit,         \* BOOLEAN: print every completed behaviour as JSON (for replay)
    Mutant,       \* "none", or the name of a deliberately wrong definition (negative self-tests)
    MatChange,    \* BOOLEAN: may K, C, M be replaced (by another element of Mats) between two steps?
    Refusals      \* set of INADMISSIBLE parameter records: a set-call with one of them is refused by the library (a step may follow it)

VARIABLES u, v, a,   \* current state (2-vectors of Rat)
          mat,       \* the system [k, c, m]
          cons,      \* dof 2 constrained?
          hist       \* sequence of step records (the behaviour so far)

vars == <<u, v, a, mat, cons, hist>>

---------------------------------------------------------------------------
(* Derived parameters: hht_newmark forces beta, gamma from alpha *)
Beta(p)  == IF p.algo = "hht_newmark" THEN Mul(R(1, 4), Sq(Add(One, p.al))) ELSE p.be
Gamma(p) == IF p.algo = "hht_newmark" THEN Add(Half, p.al) ELSE p.ga

(* ---- per-dof maps: s = <<u_i, v_i, a_i>> old state of the dof, x = step unknown ---- *)
(* Newmark corrector (Hughes ch. 9):  utilde = u + dt v + dt^2/2 (1-2b) a                *)
NmA(p, s, x) ==
    Div(Sub(x, Add3(s[1], Mul(p.dt, s[2]), Mul3(Div(Sq(p.dt), Two), Sub(One, Mul(Two, Beta(p))), s[3]))),
        Mul(Beta(p), Sq(p.dt)))
NmV(p, s, x) ==
    Add(s[2], Mul(p.dt, Add(Mul(Sub(One, Gamma(p)), s[3]), Mul(Gamma(p), NmA(p, s, x)))))

MidV(p, s, x) == IF Mutant = "midpoint_velocity"
                 THEN Sub(Mul(Div(One, p.dt), Sub(x, s[1])), s[2])      \* wrong on purpose
                 ELSE Sub(Mul(Div(Two, p.dt), Sub(x, s[1])), s[2])
MidA(p, s, x) == Sub(Mul(Div(Two, p.dt), Sub(MidV(p, s, x), s[2])), s[3])

BeV(p, s, x) == Div(Sub(x, s[1]), p.dt)
BeA(p, s, x) == IF Mutant = "euler_accel"
                THEN Div(Sub(BeV(p, s, x), s[2]), Sq(p.dt))              \* wrong on purpose
                ELSE Div(Sub(BeV(p, s, x), s[2]), p.dt)

(* generalised trapezoidal (Hughes ch. 8): u' = u + dt((1-th) v + th v')                  *)
ParV(p, s, x) == Div(Sub(x, Add(s[1], Mul3(Sub(One, p.al), p.dt, s[2]))), Mul(p.al, p.dt))

Shift(al, new, old) == Add(Mul(Sub(One, al), new), Mul(al, old))

(* new state <<u', v', a'>> of one dof as a function of the step unknown x *)
New(p, s, x) ==
    CASE p.algo \in {"newmark", "hht", "hht_newmark"} -> <<x, NmV(p, s, x), NmA(p, s, x)>>
      [] p.algo = "midpoint"       -> <<x, MidV(p, s, x), MidA(p, s, x)>>
      [] p.algo = "euler_implicit" -> <<x, BeV(p, s, x), BeA(p, s, x)>>
      [] p.algo = "euler_explicit" -> <<Add(s[1], Mul(p.dt, s[2])), Add(s[2], Mul(p.dt, x)), x>>
      [] p.algo = "parabolic"      -> <<x, ParV(p, s, x), s[3]>>

(* evaluation-point state <<u_t, v_t, a_t>> of one dof *)
Eval(p, s, x) ==
    LET n == New(p, s, x) IN
    CASE p.algo \in {"newmark", "euler_implicit"} -> n
      [] p.algo = "hht"            -> <<Shift(p.al, n[1], s[1]), Shift(p.al, n[2], s[2]), Shift(p.al, n[3], s[3])>>
      [] p.algo = "hht_newmark"    -> <<Shift(p.al, n[1], s[1]), n[2], n[3]>>
      [] p.algo = "midpoint"       -> <<Shift(Half, n[1], s[1]), Shift(Half, n[2], s[2]), Shift(Half, n[3], s[3])>>
      [] p.algo = "euler_explicit" -> <<s[1], s[2], x>>
      [] p.algo = "parabolic"      -> <<x, n[2], Zero>>

DofState(su, sv, sa, i) == <<su[i], sv[i], sa[i]>>

(* row i of K u_t + C v_t + M a_t for the unknown vector xv *)
Res(p, mt, su, sv, sa, xv, i) ==
    LET e1 == Eval(p, DofState(su, sv, sa, 1), xv[1])
        e2 == Eval(p, DofState(su, sv, sa, 2), xv[2])
    IN  Add3(Add(Mul(mt.k[i][1], e1[1]), Mul(mt.k[i][2], e2[1])),
             Add(Mul(mt.c[i][1], e1[2]), Mul(mt.c[i][2], e2[2])),
             Add(Mul(mt.m[i][1], e1[3]), Mul(mt.m[i][2], e2[3])))

O2 == <<Zero, Zero>>
E1 == <<One, Zero>>
E2 == <<Zero, One>>

(* the weights given to K, C, M: derivatives of the evaluation-point states w.r.t. x *)
Coefs(p) ==
    LET z == <<Zero, Zero, Zero>>
        d1 == Eval(p, z, One)
        d0 == Eval(p, z, Zero)
    IN  <<Sub(d1[1], d0[1]), Sub(d1[2], d0[2]), Sub(d1[3], d0[3])>>

(* the step unknown: row equations on free dofs, prescribed value on the constrained dof *)
Unknown(p, mt, cs, F, g, su, sv, sa) ==
    IF cs
    THEN LET x2 == IF p.algo = "euler_explicit" THEN Zero ELSE g
             r0 == Res(p, mt, su, sv, sa, <<Zero, x2>>, 1)
             r1 == Res(p, mt, su, sv, sa, <<One, x2>>, 1)
         IN  <<Div(Sub(F[1], r0), Sub(r1, r0)), x2>>
    ELSE LET r0 == <<Res(p, mt, su, sv, sa, O2, 1), Res(p, mt, su, sv, sa, O2, 2)>>
             A  == <<<<Sub(Res(p, mt, su, sv, sa, E1, 1), r0[1]), Sub(Res(p, mt, su, sv, sa, E2, 1), r0[1])>>,
                     <<Sub(Res(p, mt, su, sv, sa, E1, 2), r0[2]), Sub(Res(p, mt, su, sv, sa, E2, 2), r0[2])>>>>
         IN  Solve2(A, VSub2(F, r0))

Regular(p, mt, cs) ==   \* the step system is uniquely solvable
    LET z == O2 IN
    IF cs THEN ~IsZero(Sub(Res(p, mt, z, z, z, <<One, Zero>>, 1), Res(p, mt, z, z, z, O2, 1)))
    ELSE LET r0 == <<Res(p, mt, z, z, z, O2, 1), Res(p, mt, z, z, z, O2, 2)>>
             A == <<<<Sub(Res(p, mt, z, z, z, E1, 1), r0[1]), Sub(Res(p, mt, z, z, z, E2, 1), r0[1])>>,
                    <<Sub(Res(p, mt, z, z, z, E1, 2), r0[2]), Sub(Res(p, mt, z, z, z, E2, 2), r0[2])>>>>
         IN ~IsZero(Det2(A))

(* "no refused call before this step" - a record, so that the field has one type *)
NoQ == [algo |-> "none", dt |-> Zero, al |-> Zero, be |-> Zero, ga |-> Zero]

StepRec(p, mt, cs, F, g, su, sv, sa) ==
    LET x  == Unknown(p, mt, cs, F, g, su, sv, sa)
        n1 == New(p, DofState(su, sv, sa, 1), x[1])
        n2 == New(p, DofState(su, sv, sa, 2), x[2])
        e1 == Eval(p, DofState(su, sv, sa, 1), x[1])
        e2 == Eval(p, DofState(su, sv, sa, 2), x[2])
    IN  [p |-> p, F |-> F, g |-> g, cons |-> cs,
         pre |-> <<su, sv, sa>>,
         x |-> x,
         post |-> <<<<n1[1], n2[1]>>, <<n1[2], n2[2]>>, <<n1[3], n2[3]>>>>,
         evalv |-> <<<<e1[1], e2[1]>>, <<e1[2], e2[2]>>, <<e1[3], e2[3]>>>>,
         res |-> <<Res(p, mt, su, sv, sa, x, 1), Res(p, mt, su, sv, sa, x, 2)>>,
         coefs |-> Coefs(p), matv |-> mt, refused |-> NoQ]

---------------------------------------------------------------------------
Init ==
    /\ \E s \in States : u = s[1] /\ v = s[2] /\ a = s[3]
    /\ mat \in Mats
    /\ cons \in ConsSet
    /\ hist = <<>>

(* a step with the matrices mt: when MatChange holds, K, C, M may have been re-assembled since the previous step (a parameter, *)
(* the density or the damping changed) while the algorithm, its parameters and the step size stay what they were             *)
Step(p, F, g, mt) ==
    /\ Len(hist) < MaxSteps
    /\ Regular(p, mt, cons)
    /\ LET r == StepRec(p, mt, cons, F, g, u, v, a) IN
          /\ u' = r.post[1] /\ v' = r.post[2] /\ a' = r.post[3]
          /\ hist' = Append(hist, [r EXCEPT !.matv = mt])
    /\ mat' = mt
    /\ UNCHANGED cons

(* what the two setters accept (their assertions): a positive step; alpha in [0, 1/3] for hht_newmark, in [0, 1) for the other  *)
(* second-order schemes                                                                                                          *)
Admissible(p) ==
    /\ Lt(Zero, p.dt)
    /\ CASE p.algo = "hht_newmark" -> Leq(Zero, p.al) /\ Leq(p.al, R(1, 3))
         [] p.algo = "parabolic"   -> TRUE
         [] OTHER                  -> Leq(Zero, p.al) /\ Lt(p.al, One)

(* A set-call with inadmissible parameters q is REFUSED (it raises) and a refused call changes nothing: the step that follows it *)
(* WITHOUT a new set-call is a step of the scheme, parameters and step size that were in force before (those of the previous    *)
(* step).  The mutant is the design in which the scheme is switched before the parameters are examined: the refused call leaves *)
(* the NAME of q with the parameters of the previous call.                                                                     *)
StepAfterRefusal(q, F, g) ==
    /\ hist # <<>> /\ Len(hist) < MaxSteps
    /\ LET p0 == hist[Len(hist)].p
           p  == IF Mutant = "refused_switches" /\ q.algo # "parabolic" /\ p0.algo # "parabolic" THEN [p0 EXCEPT !.algo = q.algo] ELSE p0
       IN  /\ Regular(p, mat, cons)
           /\ LET r == StepRec(p, mat, cons, F, g, u, v, a) IN
                 /\ u' = r.post[1] /\ v' = r.post[2] /\ a' = r.post[3]
                 /\ hist' = Append(hist, [r EXCEPT !.refused = q])
    /\ UNCHANGED <<mat, cons>>

Next == \/ \E p \in AlgoPrms, F \in Loads, g \in Gs, mt \in (IF MatChange THEN Mats ELSE {mat}) : Step(p, F, g, mt)
        \/ \E q \in Refusals, F \in Loads, g \in Gs : StepAfterRefusal(q, F, g)

Spec == Init /\ [][Next]_vars

---------------------------------------------------------------------------
(* Properties, stated on the last step of the behaviour *)
Last == hist[Len(hist)]
Free(r) == IF r.cons THEN {1} ELSE {1, 2}

(* discrete equation of motion at the evaluation point, on every free dof *)
Motion == hist # <<>> => \A i \in Free(Last) : Last.res[i] = Last.F[i]

(* constrained dof holds the prescribed value (the step unknown; a^n = 0 for euler_explicit) *)
Prescribed == (hist # <<>> /\ Last.cons) =>
                 Last.x[2] = IF Last.p.algo = "euler_explicit" THEN Zero ELSE Last.g

(* One step is LINEAR in (previous state, load, prescribed value): the data scaled by k gives the step scaled by k, whatever  *)
(* the magnitude.  TLC confirms it on k = 2, 1/2 for every step it explores; the harness replays behaviours with the data      *)
(* scaled by powers of ten (a displacement of 1e-13 m is as good a state as one of order one), expecting the scaled step.      *)
ScaleStep(k, r) == StepRec(r.p, r.matv, r.cons, VScale2(k, r.F), Mul(k, r.g), VScale2(k, r.pre[1]), VScale2(k, r.pre[2]), VScale2(k, r.pre[3]))
Homogeneous ==
    hist # <<>> =>
    \A k \in {Two, Half} :
        LET r == Last  s == ScaleStep(k, r) IN
          /\ s.post = <<VScale2(k, r.post[1]), VScale2(k, r.post[2]), VScale2(k, r.post[3])>>
          /\ s.x = VScale2(k, r.x)

(* the lattices are what they claim to be, and a refused call changed nothing: the step after it is a step of the previous scheme *)
LatticeAdmissible == (\A p \in AlgoPrms : Admissible(p)) /\ (\A q \in Refusals : ~Admissible(q))
RefusedKeeps == (Len(hist) > 1 /\ Last.refused.algo # "none") => Last.p = hist[Len(hist) - 1].p

(* documented update relations between old and new state *)
UpdateRel ==
    hist # <<>> =>
    LET r == Last  p == r.p  dt == p.dt
        U == r.pre[1]  V == r.pre[2]  A == r.pre[3]
        U1 == r.post[1]  V1 == r.post[2]  A1 == r.post[3]
    IN \A i \in {1, 2} :
        CASE p.algo \in {"newmark", "hht", "hht_newmark"} ->
               /\ U1[i] = Add3(U[i], Mul(dt, V[i]),
                               Mul(Div(Sq(dt), Two), Add(Mul(Sub(One, Mul(Two, Beta(p))), A[i]), Mul3(Two, Beta(p), A1[i]))))
               /\ V1[i] = Add(V[i], Mul(dt, Add(Mul(Sub(One, Gamma(p)), A[i]), Mul(Gamma(p), A1[i]))))
          [] p.algo = "midpoint" ->
               /\ Sub(U1[i], U[i]) = Mul(Div(dt, Two), Add(V1[i], V[i]))
               /\ Sub(V1[i], V[i]) = Mul(Div(dt, Two), Add(A1[i], A[i]))
          [] p.algo = "euler_implicit" ->
               /\ U1[i] = Add(U[i], Mul(dt, V1[i]))
               /\ V1[i] = Add(V[i], Mul(dt, A1[i]))
          [] p.algo = "euler_explicit" ->
               /\ U1[i] = Add(U[i], Mul(dt, V[i]))
               /\ V1[i] = Add(V[i], Mul(dt, A1[i]))
          [] p.algo = "parabolic" ->
               /\ U1[i] = Add(U[i], Mul(dt, Add(Mul(Sub(One, p.al), V[i]), Mul(p.al, V1[i]))))
               /\ A1[i] = A[i]

Energy(mt, su, sv) ==
    Mul(Half, Add(Dot(sv, MatVec2(mt.m, sv)), Dot(su, MatVec2(mt.k, su))))

ZeroMat(m) == \A i, j \in {1, 2} : IsZero(m[i][j])

Equilibrium(mt, su, sv, sa) ==
    VAdd2(MatVec2(mt.k, su), VAdd2(MatVec2(mt.c, sv), MatVec2(mt.m, sa))) = O2

AvgAccel(p) == p.algo = "newmark" /\ p.be = R(1, 4) /\ p.ga = Half

(* exact conservation for average-acceleration Newmark and midpoint, free vibration *)
Conserve ==
    (hist # <<>> /\ ~Last.cons /\ ZeroMat(mat.c) /\ Last.F = O2) =>
      LET r == Last IN
      ((r.p.algo = "midpoint") \/ (AvgAccel(r.p) /\ Equilibrium(mat, r.pre[1], r.pre[2], r.pre[3])))
        => Energy(mat, r.post[1], r.post[2]) = Energy(mat, r.pre[1], r.pre[2])

(* backward Euler never increases the energy (no load) *)
Dissipate ==
    (hist # <<>> /\ ~Last.cons /\ Last.F = O2 /\ Last.p.algo = "euler_implicit") =>
      Leq(Energy(mat, Last.post[1], Last.post[2]), Energy(mat, Last.pre[1], Last.pre[2]))

(* Newmark leaves a state in equilibrium at n+1 (so conservation applies from step 2 on) *)
NewmarkEquilibrium ==
    (hist # <<>> /\ ~Last.cons /\ Last.p.algo = "newmark") =>
      VAdd2(MatVec2(mat.k, u), VAdd2(MatVec2(mat.c, v), MatVec2(mat.m, a))) = Last.F

(* documented family relations: hht(0) = newmark, hht(1/2,1/4,1/2) = midpoint, hht_newmark(0) = newmark(1/4,1/2) *)
SamePost(r, p2) ==
    StepRec(p2, mat, r.cons, r.F, r.g, r.pre[1], r.pre[2], r.pre[3]).post = r.post
Family ==
    hist # <<>> =>
    LET r == Last  p == r.p IN
      /\ (p.algo = "hht" /\ IsZero(p.al)) => SamePost(r, [p EXCEPT !.algo = "newmark"])
      /\ (p.algo = "hht" /\ p.al = Half /\ p.be = R(1, 4) /\ p.ga = Half) => SamePost(r, [p EXCEPT !.algo = "midpoint"])
      /\ (p.algo = "hht_newmark" /\ IsZero(p.al)) => SamePost(r, [p EXCEPT !.algo = "newmark", !.be = R(1, 4), !.ga = Half])

(* weights of K, C, M are independent of the state (affine maps) -- checked by construction of Coefs *)

(* A scheme is chosen by the member of the enumeration or by its NAME (the enumeration is a string enumeration and the setter *)
(* accepts both): the scheme, its derived parameters and its admissibility tests are the same for the two spellings.  The    *)
(* behaviours carry the spelling the replay must use for each of them; it alternates with the content of the behaviour so that *)
(* every scheme is driven both ways.                                                                                           *)
Spelling == IF (Len(hist) > 0 /\ (hist[1].p.dt[1] + hist[1].p.al[1] + hist[1].p.be[2] + hist[1].p.ga[2]) % 2 = 1) THEN "name" ELSE "member"

(* ---- the one-step maps as per-dof WEIGHT TABLES (real systems of any size) ---------------------------------------------- *)
(* New and Eval act dof by dof and are linear in c = (x, u_i, v_i, a_i).  Weights(p) tabulates them on the four unit inputs:   *)
(* new[j] / eval[j] is the triple <<u, v, a>> answered to the j-th unit input.  `Affine` lets TLC confirm on every step of     *)
(* every configuration that the tables ARE the maps (the map applied to the dof's data = the combination of the table columns, *)
(* no constant part); the harness then applies the tables to the vectors of real simulations (Elastic with Rayleigh damping,   *)
(* Thermal, Beam; hundreds of dofs, several dofs per node): the returned u, v, a must be the `new` combination of the step      *)
(* unknown and the old state, and K u_t + C v_t + M a_t with the `eval` combination must equal the load on every free dof.     *)
Unit4(j) == [k \in 1..4 |-> IF k = j THEN One ELSE Zero]
Weights(p) == [new  |-> [j \in 1..4 |-> LET c == Unit4(j) IN New(p, <<c[2], c[3], c[4]>>, c[1])],
               eval |-> [j \in 1..4 |-> LET c == Unit4(j) IN Eval(p, <<c[2], c[3], c[4]>>, c[1])]]
Comb(W, c) == [k \in 1..3 |-> Add(Add(Mul(c[1], W[1][k]), Mul(c[2], W[2][k])), Add(Mul(c[3], W[3][k]), Mul(c[4], W[4][k])))]
Affine ==
    hist # <<>> =>
    LET r == Last  p == r.p  W == Weights(p)  z == <<Zero, Zero, Zero>> IN
      /\ New(p, z, Zero) = z /\ Eval(p, z, Zero) = z
      /\ \A i \in {1, 2} :
            LET c == <<r.x[i], r.pre[1][i], r.pre[2][i], r.pre[3][i]>> IN
              /\ Comb(W.new, c)  = <<r.post[1][i], r.post[2][i], r.post[3][i]>>
              /\ Comb(W.eval, c) = <<r.evalv[1][i], r.evalv[2][i], r.evalv[3][i]>>
(* listed as an invariant only by the configuration that exports the tables (one line per parameter record) *)
EmitWT == (Emit /\ Len(hist) = 1) => PrintT(<<"WT", ToJson([p |-> hist[1].p, beta |-> Beta(hist[1].p), gamma |-> Gamma(hist[1].p), coefs |-> Coefs(hist[1].p), wt |-> Weights(hist[1].p)])>>)

(* emission of complete behaviours for the replay harness *)
EmitOK ==
    (Emit /\ Len(hist) = MaxSteps) =>
        PrintT(<<"BEH", ToJson([mat |-> mat, cons |-> cons, spelling |-> Spelling, steps |-> hist])>>)
=============================================================================
