------------------------------ MODULE HyperLaws ------------------------------
(* C18 (laws) -- hyperelastic kinematics and stored energies in exact rational arithmetic.        *)
(* The state is a deformation gradient F built by composing, on the left, stretches, simple        *)
(* shears and rotations by the Pythagorean angle; every stretch has a determinant that is a          *)
(* perfect cube, so J^(1/3) (variable cb) stays rational and the isochoric invariants                *)
(* I1 J^(-2/3), I2 J^(-4/3) of the Neo-Hookean / Mooney-Rivlin energies are exact.                    *)
(* For each state: C = F^T F, invariants, and for SaintVenantKirchhoff(lambda, mu, K),                *)
(* NeoHookean(K), MooneyRivlin(K1, K2, K) the energy W and the second Piola-Kirchhoff stress           *)
(* S = 2 dW/dC.  Checked on the model: det F = cb^3; W = 0 and S = 0 in the reference                  *)
(* configuration; a superposed rotation (the Rotate action) changes neither W nor S; for the            *)
(* quadratic part of Saint-Venant-Kirchhoff the central difference of W equals S : D exactly.           *)
(* Every state is replayed into HyperElasticState / Compute_W / Compute_dWde (harness/props/c18.py).    *)
EXTENDS Rat, Sequences, FiniteSets, TLC, Json

CONSTANTS Dim, Stretches, Shears, Rotations, MaxMoves, Emit, Mutant
VARIABLES F, cb, moves, prevF
vars == <<F, cb, moves, prevF>>

Id3 == << <<One, Zero, Zero>>, <<Zero, One, Zero>>, <<Zero, Zero, One>> >>
MatMul3(m, n) == [i \in 1..3 |-> [j \in 1..3 |-> Add3(Mul(m[i][1], n[1][j]), Mul(m[i][2], n[2][j]), Mul(m[i][3], n[3][j]))]]
Transp3(m) == [i \in 1..3 |-> [j \in 1..3 |-> m[j][i]]]
MAdd3(a, b) == [i \in 1..3 |-> [j \in 1..3 |-> Add(a[i][j], b[i][j])]]
MSub3(a, b) == [i \in 1..3 |-> [j \in 1..3 |-> Sub(a[i][j], b[i][j])]]
MScale3(c, a) == [i \in 1..3 |-> [j \in 1..3 |-> Mul(c, a[i][j])]]
Tr3(m) == Add3(m[1][1], m[2][2], m[3][3])
DDot3(a, b) == SumSeq([k \in 1..9 |-> Mul(a[((k - 1) \div 3) + 1][((k - 1) % 3) + 1], b[((k - 1) \div 3) + 1][((k - 1) % 3) + 1])])
Det3(m) == Add3(Mul(m[1][1], Sub(Mul(m[2][2], m[3][3]), Mul(m[2][3], m[3][2]))),
                Neg(Mul(m[1][2], Sub(Mul(m[2][1], m[3][3]), Mul(m[2][3], m[3][1])))),
                Mul(m[1][3], Sub(Mul(m[2][1], m[3][2]), Mul(m[2][2], m[3][1]))))
Cof(m, i, j) ==
    LET r == CASE i = 1 -> <<2, 3>> [] i = 2 -> <<1, 3>> [] i = 3 -> <<1, 2>>
        c == CASE j = 1 -> <<2, 3>> [] j = 2 -> <<1, 3>> [] j = 3 -> <<1, 2>>
        minor == Sub(Mul(m[r[1]][c[1]], m[r[2]][c[2]]), Mul(m[r[1]][c[2]], m[r[2]][c[1]]))
    IN  IF (i + j) % 2 = 0 THEN minor ELSE Neg(minor)
Inv3(m) == LET d == Det3(m) IN [i \in 1..3 |-> [j \in 1..3 |-> Div(Cof(m, j, i), d)]]

Diag(a, b, c) == << <<a, Zero, Zero>>, <<Zero, b, Zero>>, <<Zero, Zero, c>> >>
C35 == R(3, 5)  S45 == R(4, 5)

(* moves: name -> <<matrix, cube root of its determinant>> *)
Mv(m) ==
    CASE m = "s222" -> <<Diag(Two, Two, Two), Two>>
      [] m = "s211h" -> <<Diag(Two, One, Half), One>>
      [] m = "s241" -> <<Diag(Two, RI(4), One), Two>>
      [] m = "sh4h" -> <<Diag(Half, RI(4), Half), One>>
      [] m = "shhh" -> <<Diag(Half, Half, Half), Half>>
      [] m = "p24" -> <<Diag(Two, RI(4), One), Two>>
      [] m = "p2h" -> <<Diag(Two, Half, One), One>>
      [] m = "phq" -> <<Diag(Half, R(1, 4), One), Half>>
      [] m = "p42" -> <<Diag(RI(4), Two, One), Two>>
      [] m = "kxy" -> << << <<One, Half, Zero>>, <<Zero, One, Zero>>, <<Zero, Zero, One>> >>, One>>
      [] m = "kyx" -> << << <<One, Zero, Zero>>, <<One, One, Zero>>, <<Zero, Zero, One>> >>, One>>
      [] m = "kxz" -> << << <<One, Zero, Half>>, <<Zero, One, Zero>>, <<Zero, Zero, One>> >>, One>>
      [] m = "kzy" -> << << <<One, Zero, Zero>>, <<Zero, One, Zero>>, <<Zero, RI(-1), One>> >>, One>>
      [] m = "rz" -> << << <<C35, Neg(S45), Zero>>, <<S45, C35, Zero>>, <<Zero, Zero, One>> >>, One>>
      [] m = "rx" -> << << <<One, Zero, Zero>>, <<Zero, C35, Neg(S45)>>, <<Zero, S45, C35>> >>, One>>
      [] m = "ry" -> << << <<C35, Zero, S45>>, <<Zero, One, Zero>>, <<Neg(S45), Zero, C35>> >>, One>>

(* material parameters (the harness builds the laws with the same numbers) *)
SvkL == Two      SvkM == RI(3)    SvkK == Half
NhK == Two
MrK1 == Two      MrK2 == R(3, 2)  MrK == RI(3)
Params == [svk |-> [lmbda |-> SvkL, mu |-> SvkM, K |-> SvkK], nh |-> [K |-> NhK], mr |-> [K1 |-> MrK1, K2 |-> MrK2, K |-> MrK]]

(* ---- kinematics ---- *)
CG(f)   == MatMul3(Transp3(f), f)
GL(f)   == MScale3(Half, MSub3(CG(f), Id3))
I1of(c) == Tr3(c)
I2of(c) == Mul(Half, Sub(Sq(Tr3(c)), Tr3(MatMul3(c, c))))

(* ---- energies and stresses, f the deformation gradient, q = J^(1/3) ---- *)
WsvkQuad(e) == Add(Mul3(Half, SvkL, Sq(Tr3(e))), Mul(SvkM, Tr3(MatMul3(e, e))))
SsvkQuad(e) == MAdd3(MScale3(Mul(SvkL, Tr3(e)), Id3), MScale3(Mul(Two, SvkM), e))
Wsvk(f, q) == LET i3 == Sq(Mul3(q, q, q)) IN Add(WsvkQuad(GL(f)), Mul3(Half, SvkK, Sq(Sub(i3, One))))
Ssvk(f, q) == LET i3 == Sq(Mul3(q, q, q)) IN
    MAdd3(SsvkQuad(GL(f)), MScale3(Mul3(Mul(Two, SvkK), Sub(i3, One), i3), Inv3(CG(f))))
IsoS1(c, q) == MScale3(Inv(Sq(q)), MSub3(Id3, MScale3(Div(I1of(c), RI(3)), Inv3(c))))                       \* d(I1 J^-2/3)/dC
IsoS2(c, q) == MScale3(Inv(Sq(Sq(q))), MSub3(MSub3(MScale3(I1of(c), Id3), c), MScale3(Div(Mul(Two, I2of(c)), RI(3)), Inv3(c))))   \* d(I2 J^-4/3)/dC
Wnh(f, q) == Mul(NhK, Sub(Div(I1of(CG(f)), Sq(q)), RI(3)))
Snh(f, q) == MScale3(Mul(Two, NhK), IsoS1(CG(f), q))
Wmr(f, q) == LET c == CG(f)  j == Mul3(q, q, q) IN
    Add3(Mul(MrK, Sq(Sub(j, One))), Mul(MrK1, Sub(Div(I1of(c), Sq(q)), RI(3))), Mul(MrK2, Sub(Div(I2of(c), Sq(Sq(q))), RI(3))))
Smr(f, q) == LET c == CG(f)  j == Mul3(q, q, q) IN
    MAdd3(MAdd3(MScale3(Mul(Two, MrK1), IsoS1(c, q)), MScale3(Mul(Two, MrK2), IsoS2(c, q))),
          MScale3(Mul3(Mul(Two, MrK), Sub(j, One), j), Inv3(c)))

Obs(f, q) == [Wsvk |-> Wsvk(f, q), Wnh |-> Wnh(f, q), Wmr |-> Wmr(f, q), Ssvk |-> Ssvk(f, q), Snh |-> Snh(f, q), Smr |-> Smr(f, q)]

(* ---- transitions ---- *)
AbsMax(f) == \A i, j \in 1..3 : Leq(AbsR(f[i][j]), RI(4)) /\ f[i][j][2] <= 10
Init == F = Id3 /\ cb = One /\ moves = <<>> /\ prevF = Id3
Apply(m) ==
    LET nf == MatMul3(Mv(m)[1], F)  nq == Mul(Mv(m)[2], cb) IN
    /\ Len(moves) < MaxMoves
    /\ AbsMax(nf) /\ Leq(nq, Two) /\ Leq(Half, nq)
    /\ F' = nf /\ cb' = nq /\ moves' = Append(moves, m) /\ prevF' = F
Stretch == \E m \in Stretches : Apply(m)
Shear   == \E m \in Shears : Apply(m)
Rotate  == \E m \in Rotations : Apply(m)
Next == Stretch \/ Shear \/ Rotate
Spec == Init /\ [][Next]_vars

(* ---- properties of the model ---- *)
CubeRoot == Det3(F) = Mul3(cb, cb, cb) /\ IsPos(cb)
ZeroM == [i \in 1..3 |-> [j \in 1..3 |-> Zero]]
Reference == moves = <<>> => LET o == Obs(F, cb) IN
    /\ o.Wsvk = Zero /\ o.Wnh = Zero /\ o.Wmr = Zero
    /\ o.Ssvk = ZeroM /\ o.Snh = ZeroM /\ o.Smr = ZeroM
(* a rotation superposed on the current configuration changes neither the energies nor the PK2 stresses;   *)
(* Mutant = "nonobjective" replaces E by the small-strain tensor in the oracle and must be rejected          *)
ObsM(f, q) == IF Mutant = "nonobjective"
              THEN [Obs(f, q) EXCEPT !.Wsvk = WsvkQuad(MSub3(MScale3(Half, MAdd3(f, Transp3(f))), Id3))]
              ELSE Obs(f, q)
Objective == [][Rotate => ObsM(F', cb') = ObsM(F, cb)]_vars
SymmetricS == LET o == Obs(F, cb) IN o.Ssvk = Transp3(o.Ssvk) /\ o.Snh = Transp3(o.Snh) /\ o.Smr = Transp3(o.Smr)
(* exact derivative for the quadratic energy: W(E + D) - W(E - D) = 2 S(E) : D for every symmetric D *)
SymBasis == { [i \in 1..3 |-> [j \in 1..3 |-> IF (i = p /\ j = r) \/ (i = r /\ j = p) THEN Half ELSE Zero]] : p \in 1..3, r \in 1..3 }
QuadDerivative == LET e == GL(F) IN \A d \in SymBasis :
    Sub(WsvkQuad(MAdd3(e, d)), WsvkQuad(MSub3(e, d))) = Mul(Two, DDot3(SsvkQuad(e), d))
(* energies are non-negative on the lattice (polyconvex laws; SVK's quadratic part is a positive form) *)
NonNegative == LET o == Obs(F, cb) IN ~Lt(o.Wnh, Zero) /\ ~Lt(o.Wmr, Zero) /\ ~Lt(WsvkQuad(GL(F)), Zero)

IsRot(m) == m \in Rotations
EmitOK == Emit => PrintT(<<"CASE", ToJson([dim |-> Dim, moves |-> moves, F |-> F, prevF |-> prevF, cb |-> cb,
                                           lastRot |-> (moves # <<>> /\ IsRot(moves[Len(moves)])), obs |-> Obs(F, cb), params |-> Params])>>)
=============================================================================
