SPECIFICATION Spec
CONSTANTS
  NeSet = {1, 2, 3}
  NpgSet = {1, 2, 3}
  Dims = {2, 3}
  MaxRank = 4
  Ops = {"matmul", "dot", "ddot", "tensorprod"}
  Emit = TRUE
INVARIANT TypeRule
INVARIANT EmitOK
