------------------------- MODULE Trace_HyperEnergy -------------------------
(* C18 (direction B) -- free-motion runs recorded from real HyperElastic simulations.  Each trace is one   *)
(* program of HyperOps.tla; each saved step carries the relative deviation of kinetic + stored energy        *)
(* from its initial value in parts per billion (integers), the number of Newton iterations, and whether       *)
(* the step converged.  The abstract model of a conserving option is a machine whose only reachable           *)
(* states have |E_k - E_0| <= Tol E_0: a step that leaves the band is not a behaviour of the model.             *)
(* A trace of a non-conserving option is only classified (drifted or not): it documents the sensitivity.       *)
EXTENDS Integers, Sequences, FiniteSets, TLC, Json, IOUtils
CONSTANT TolPpb
Traces == JsonDeserialize(IOEnv.HY_TRACES)
VARIABLE k
vars == <<k>>
Tr == Traces[k]
Idx == 1..Len(Tr.steps)
OutOfBand == {i \in Idx : Tr.steps[i].drift_ppb > TolPpb}
Growth == {i \in Idx : i > 1 /\ Tr.steps[i].drift_ppb > 8 * Tr.steps[i - 1].drift_ppb + TolPpb}   \* sudden jumps
Verdict == [id |-> Tr.id, conserving |-> Tr.conserving,
            nsteps |-> Len(Tr.steps),
            leftBand |-> IF Tr.conserving THEN OutOfBand ELSE {},
            jumps |-> IF Tr.conserving THEN Growth ELSE {},
            drifted |-> OutOfBand # {},
            maxDrift |-> IF Idx = {} THEN 0 ELSE CHOOSE m \in {Tr.steps[i].drift_ppb : i \in Idx} : \A i \in Idx : Tr.steps[i].drift_ppb <= m]
Init == k = 1
Next == k < Len(Traces) /\ k' = k + 1
Spec == Init /\ [][Next]_vars
Report == PrintT(<<"VERDICT", ToJson(Verdict)>>)
=============================================================================
