------------------------------- MODULE Splits -------------------------------
(* C17 (splits) -- exact spectral split of the strain for an isotropic material.               *)
(* Strain states  eps = Q diag(l) Q^T  with principal values l on an integer lattice (every     *)
(* multiplicity and sign pattern: zero strain, hydrostatic, uniaxial, mixed) and rational        *)
(* rotations Q.  Expected (Miehe 2010):                                                          *)
(*      eps+- = Q diag(<l>+-) Q^T ,  sig+- = lam <tr eps>+- I + 2 mu eps+- ,                      *)
(*      psi+- = lam/2 <tr eps>+-^2 + mu sum <l_i>+-^2                                            *)
(* and for EVERY split:  sig+ + sig- = C : eps ,  psi+ + psi- = 1/2 eps : C : eps  (checked on    *)
(* the module's own expectations by TLC and on the implementation's output by the harness).       *)
EXTENDS Rat, FiniteSets, Sequences, TLC, Json

CONSTANTS Dims, Vals, Emit
VARIABLE st
vars == <<st>>

ValsSet == -2..2
Lam == RI(4)   Mu == RI(4)      \* E = 10, nu = 1/4  (3-D and plane strain)

C35 == R(3, 5)  S45 == R(4, 5)
Q2 == [id |-> << <<One, Zero>>, <<Zero, One>> >>, r35 |-> << <<C35, Neg(S45)>>, <<S45, C35>> >>]
Q3 == [id |-> << <<One, Zero, Zero>>, <<Zero, One, Zero>>, <<Zero, Zero, One>> >>,
       rz |-> << <<C35, Neg(S45), Zero>>, <<S45, C35, Zero>>, <<Zero, Zero, One>> >>,
       quat |-> << <<R(-7, 9), R(4, 9), R(4, 9)>>, <<R(4, 9), R(-1, 9), R(8, 9)>>, <<R(4, 9), R(8, 9), R(-1, 9)>> >>]
(* quat: rotation by pi about (1,2,2)/3 -> 2 n n^T - I, a rational rotation that is not about a coordinate axis *)

Pos(x) == IF IsPos(x) THEN x ELSE Zero
NegP(x) == IF IsPos(Neg(x)) THEN x ELSE Zero

RECURSIVE SumF(_, _, _)
SumF(f(_), n, i) == IF i > n THEN Zero ELSE Add(f(i), SumF(f, n, i + 1))
Conj(d, Q, l) == [r \in 1..d |-> [c \in 1..d |-> LET t(k) == Mul3(Q[r][k], l[k], Q[c][k]) IN SumF(t, d, 1)]]
TrV(d, l) == LET t(k) == l[k] IN SumF(t, d, 1)
Iden(d) == [r \in 1..d |-> [c \in 1..d |-> IF r = c THEN One ELSE Zero]]
MAdd(d, A, B) == [r \in 1..d |-> [c \in 1..d |-> Add(A[r][c], B[r][c])]]
MScale(d, k, A) == [r \in 1..d |-> [c \in 1..d |-> Mul(k, A[r][c])]]

Case(d, qn, l) ==
    LET Q == IF d = 2 THEN Q2[qn] ELSE Q3[qn]
        lp == [k \in 1..d |-> Pos(l[k])]
        lm == [k \in 1..d |-> NegP(l[k])]
        tr == TrV(d, l)
        eps == Conj(d, Q, l)
        sigP == MAdd(d, MScale(d, Mul(Lam, Pos(tr)), Iden(d)), MScale(d, Mul(Two, Mu), Conj(d, Q, lp)))
        sigM == MAdd(d, MScale(d, Mul(Lam, NegP(tr)), Iden(d)), MScale(d, Mul(Two, Mu), Conj(d, Q, lm)))
        sq(v) == LET t(k) == Sq(v[k]) IN SumF(t, d, 1)
        psiP == Add(Mul3(Half, Lam, Sq(Pos(tr))), Mul(Mu, sq(lp)))
        psiM == Add(Mul3(Half, Lam, Sq(NegP(tr))), Mul(Mu, sq(lm)))
    IN  [dim |-> d, q |-> qn, l |-> l, eps |-> eps, sigP |-> sigP, sigM |-> sigM, psiP |-> psiP, psiM |-> psiM,
         sig |-> MAdd(d, MScale(d, Mul(Lam, tr), Iden(d)), MScale(d, Mul(Two, Mu), eps)),
         psi |-> Add(Mul3(Half, Lam, Sq(tr)), Mul(Mu, sq(l)))]

RECURSIVE Tuples(_, _)
Tuples(S, n) == IF n = 0 THEN {<<>>} ELSE {<<x>> \o t : x \in S, t \in Tuples(S, n - 1)}

Init == \E d \in Dims : \E qn \in (IF d = 2 THEN DOMAIN Q2 ELSE DOMAIN Q3) : \E l \in Tuples(Vals, d) :
            st = Case(d, qn, [k \in 1..d |-> RI(l[k])])
Next == UNCHANGED st
Spec == Init /\ [][Next]_vars

Partition == /\ MAdd(st.dim, st.sigP, st.sigM) = st.sig
             /\ Add(st.psiP, st.psiM) = st.psi
             /\ ~IsPos(Neg(st.psiP)) /\ ~IsPos(Neg(st.psiM))
(* the split is positively homogeneous: a strain k times as large (k > 0) has k times the split stresses and k^2 times the   *)
(* split energies - there is no intrinsic strain scale, so an implementation may not compare strains (or their principal       *)
(* values) with an absolute tolerance.  Checked here for k = 1/2 and k = 3 on every lattice state; the harness replays every   *)
(* state at the magnitudes Scales (powers of ten) and divides the results back.                                                *)
ScaledCase(k) == Case(st.dim, st.q, [i \in 1..st.dim |-> Mul(k, st.l[i])])
HomogeneousFor(k) == LET c == ScaledCase(k) IN
    /\ c.sigP = MScale(st.dim, k, st.sigP) /\ c.sigM = MScale(st.dim, k, st.sigM)
    /\ c.psiP = Mul3(k, k, st.psiP) /\ c.psiM = Mul3(k, k, st.psiM)
Homogeneous == HomogeneousFor(Half) /\ HomogeneousFor(RI(3))
Scales == <<-3, -6, -9, 0>>         \* exponents of ten of the strain magnitudes the states are replayed at
EmitOK == Emit => PrintT(<<"STRAIN", ToJson(st)>>)
EmitScales == (Emit /\ st.dim = 2 /\ st.q = "id" /\ \A i \in 1..2 : st.l[i] = Zero) => PrintT(<<"SCALES", ToJson(Scales)>>)
=============================================================================
