SPECIFICATION Spec
CONSTANTS
  MeshNames <- Names
  MeshDef <- MeshDefs
  DofNs = {1, 2}
  Orders <- OrdersAll
  Patterns <- PatternsAll
  MaxAsm = 6
  Complex = {"real", "all", "tail"}
  Defect = "none"
  Emit = TRUE
VIEW view
INVARIANT Exact
INVARIANT MemoCurrent
INVARIANT EmitOK
