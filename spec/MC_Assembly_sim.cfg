SPECIFICATION Spec
CONSTANTS
  MeshNames <- Names
  MeshDef <- MeshDefs
  DofNs = {1, 2}
  Orders <- OrdersAll
  Patterns <- PatternsAll
  MaxAsm = 6
  Complex = {FALSE, TRUE}
  Defect = "none"
  Emit = TRUE
VIEW view
INVARIANT Exact
INVARIANT MemoCurrent
INVARIANT EmitOK
