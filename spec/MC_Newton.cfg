SPECIFICATION Spec
CONSTANTS
  Stiffs <- StiffsQ
  Rates <- RatesQ
  Starts <- StartsQ
  AbsTols <- AbsQ
  RelTols <- RelQ
  IncTols <- IncQ
  MaxIters <- ItersQ
  Emit = TRUE
INVARIANT TypeOK
INVARIANT ReturnedResidual
INVARIANT FirstHit
INVARIANT NoFalseFailure
INVARIANT EmitOK
CHECK_DEADLOCK FALSE
