SPECIFICATION Spec
CONSTANTS
  MeshName = "quads"
  N = 3
  GhostsByType = FALSE
  SegFollows = TRUE
INVARIANT Elems
INVARIANT NodesOK
INVARIANT Rows
