------------------------------- MODULE Newton -------------------------------
(* C04 (Newton-incremental solves) -- the driver that turns "solve A(u) du = -R(u)" into a solution.     *)
(* One iteration = one assembly at the current iterate u_k, one linear solve for du, the update            *)
(* u_(k+1) = u_k + du, then the convergence test on three quantities measured AT u_k:                       *)
(*      |R(u_k)| < absTol   or   |R(u_k)| / |R(u_1)| < relTol   or   |du| < incTol.                         *)
(* The driver returns at the FIRST iteration whose test holds and refuses to return (raises) when none of   *)
(* the maxIter iterations passes it.  The model problem is the one the harness builds with a `_Simu`        *)
(* subclass: one free dof, a spring of stiffness a whose equilibrium is u*, and a (deliberately inexact)    *)
(* tangent a / (1 - q): the error e_k = u_k - u* contracts by the factor q at every update, so every        *)
(* quantity is an exact rational (q = 0 is the exact tangent: a linear problem solved in one update).       *)
(* What a user relies on (and C04 states): a solve that returns has a residual below what the criterion     *)
(* that fired promises, and a solve whose iterates do meet a criterion within maxIter does return.          *)
EXTENDS Rat, Integers, Sequences, FiniteSets, TLC, Json

CONSTANTS Stiffs, Rates, Starts, AbsTols, RelTols, IncTols, MaxIters, Emit

VARIABLES prm, k, e, norms, status, fired
vars == <<prm, k, e, norms, status, fired>>

Params == [a : Stiffs, q : Rates, e0 : Starts, abs : AbsTols, rel : RelTols, inc : IncTols, maxIter : MaxIters]

Init == /\ prm \in Params /\ k = 0 /\ e = prm.e0 /\ norms = <<>> /\ status = "run" /\ fired = {}

NormAt(err) == Mul(prm.a, AbsR(err))
Incr(err) == Mul(Sub(One, prm.q), AbsR(err))           \* |du| = (1 - q) |e_k|
(* relative norm: |R(u_k)| / |R(u_1)|; when the first residual is zero the quotient is 0/0, which no comparison satisfies *)
RelHolds(n, first) == ~IsZero(first) /\ Lt(Div(n, first), prm.rel)
Criteria(err, first) ==
    LET n == NormAt(err) IN
    (IF Lt(n, prm.abs) THEN {"abs"} ELSE {}) \cup (IF RelHolds(n, first) THEN {"rel"} ELSE {}) \cup (IF Lt(Incr(err), prm.inc) THEN {"inc"} ELSE {})

Iterate ==
    /\ status = "run" /\ k < prm.maxIter
    /\ LET n == NormAt(e)
           first == IF norms = <<>> THEN n ELSE norms[1]
           c == Criteria(e, first)
       IN  /\ k' = k + 1
           /\ norms' = Append(norms, n)
           /\ e' = Mul(prm.q, e)                         \* the update is applied before the test is read
           /\ fired' = c
           /\ status' = IF c # {} THEN "converged" ELSE IF k + 1 = prm.maxIter THEN "failed" ELSE "run"
           /\ UNCHANGED prm
Done == status # "run" /\ UNCHANGED vars
Next == Iterate \/ Done
Spec == Init /\ [][Next]_vars

TypeOK == k \in 0..prm.maxIter /\ Len(norms) = k /\ status \in {"run", "converged", "failed"}
(* the promise to the caller: the returned iterate u_(k+1) has a residual below the bound of the criterion that fired *)
Bound(c) == CASE c = "abs" -> prm.abs
              [] c = "rel" -> Mul(prm.rel, norms[1])
              [] c = "inc" -> Div(Mul(prm.a, prm.inc), Sub(One, prm.q))
ReturnedResidual == (status = "converged") => \E c \in fired : Leq(NormAt(e), Bound(c)) /\ (IsZero(NormAt(e)) \/ Lt(NormAt(e), Bound(c)))
(* first hit: no earlier iterate met a criterion (otherwise the driver iterated more than it had to) *)
RECURSIVE Pow(_, _)
Pow(x, n) == IF n = 0 THEN One ELSE Mul(x, Pow(x, n - 1))
ErrAt(j) == Mul(Pow(prm.q, j - 1), prm.e0)               \* error at the iterate the j-th iteration starts from
FirstHit == (status = "converged") => \A j \in 1..(k - 1) : Criteria(ErrAt(j), NormAt(prm.e0)) = {}
NoFalseFailure == (status = "failed") => (k = prm.maxIter /\ \A j \in 1..k : Criteria(ErrAt(j), NormAt(prm.e0)) = {})
(* claim rejected in the negative self-test: "the test is read after the update" - then no earlier iteration would have left *)
(* an iterate that already passes; the driver reads the test one update earlier, so it often iterates once more than that    *)
TestAfterUpdate == (status = "converged") => \A j \in 1..(k - 1) : Criteria(ErrAt(j + 1), NormAt(prm.e0)) = {}

EmitOK == (Emit /\ status # "run") => PrintT(<<"RUN", ToJson([prm |-> prm, iters |-> k, status |-> status, fired |-> fired, err |-> e, norms |-> norms])>>)
=============================================================================
