----------------------------- MODULE IndexWidth -----------------------------
(* C03 -- width of the integer type in which the assembly computes its slot keys.                   *)
(* The reduction map of _Simu (Assembly.tla: `slots`) locates the CSR slot of the contribution      *)
(* (row r, column c) by a binary search of the row-major key  r * N + c  in the sorted keys of the  *)
(* pattern, N = number of dofs.  The element dof tables the keys are formed from inherit nothing    *)
(* from the caller: whatever the integer type of the connectivity (gmsh and readers produce 32-bit  *)
(* and 64-bit arrays), the key must be evaluated in a type in which N * N fits, otherwise two's     *)
(* complement wrap-around makes the keys non-monotone (the binary search then returns a wrong       *)
(* slot) and, beyond that, not even injective (two entries share a slot).                           *)
(* The module proves the threshold on scaled-down widths (TLC integers are 32-bit themselves) and   *)
(* enumerates the (index type, size class) configurations the harness builds at real scale.         *)
EXTENDS Integers, FiniteSets, TLC, Json

CONSTANTS Sizes, Widths, Emit

VARIABLE cfg
vars == <<cfg>>

Pow2(w) == 2 ^ w
(* value of x in a signed two's-complement integer of w bits *)
Wrap(x, w) == LET m == Pow2(w)  y == x % m IN IF y >= Pow2(w - 1) THEN y - m ELSE y
Key(r, c, n, w) == Wrap(Wrap(r * n, w) + c, w)
Pairs(n) == (0..(n - 1)) \X (0..(n - 1))
Lin(p, n) == p[1] * n + p[2]

Fits(n, w) == n * n <= Pow2(w - 1)
Monotone(n, w) == \A p, q \in Pairs(n) : Lin(p, n) < Lin(q, n) => Key(p[1], p[2], n, w) < Key(q[1], q[2], n, w)
Injective(n, w) == \A p, q \in Pairs(n) : Key(p[1], p[2], n, w) = Key(q[1], q[2], n, w) => p = q
Exact(n, w) == \A p \in Pairs(n) : Key(p[1], p[2], n, w) = Lin(p, n)

(* index types and size classes of the real-scale replay: "over32" = the smallest interesting system with N * N > 2^31 *)
IndexTypes == {"int32", "int64"}
SizeClasses == {"small", "over32", "blocks"}       \* "blocks": more than 2^22 element entries in one slot (a summation done block by block must add every block)
Configs == [n : Sizes, w : Widths] \cup [itype : IndexTypes, size : SizeClasses]

Init == cfg \in Configs
Next == UNCHANGED cfg
Spec == Init /\ [][Next]_vars

Scaled(c) == "n" \in DOMAIN c
(* the binary search is right exactly when the product fits; injectivity survives a little longer, which is why *)
(* a too-narrow key corrupts silently instead of failing                                                        *)
Threshold == Scaled(cfg) =>
    /\ Fits(cfg.n, cfg.w) <=> Exact(cfg.n, cfg.w)
    /\ Fits(cfg.n, cfg.w) <=> Monotone(cfg.n, cfg.w)
    /\ Fits(cfg.n, cfg.w) => Injective(cfg.n, cfg.w)
(* summation by blocks of b entries: the blocks [st, min(st + b, n)) for st = 0, b, 2b, ... cover 0..n-1 exactly once; pairing the  *)
(* starts with their successors (st_i, st_(i+1)) loses the last block - the claim PairedStartsCover is rejected by TLC                *)
BlockStarts(n, b) == {kk * b : kk \in 0..((n - 1) \div b)}
Block(n, b, st) == {i \in 0..(n - 1) : st <= i /\ i < st + b}
BlocksCover == Scaled(cfg) => LET n == cfg.n * cfg.n  b == cfg.w IN UNION {Block(n, b, st) : st \in BlockStarts(n, b)} = 0..(n - 1)
PairedStartsCover == Scaled(cfg) => LET n == cfg.n * cfg.n  b == cfg.w  S == BlockStarts(n, b)
                                   IN UNION {{i \in 0..(n - 1) : st <= i /\ i < st + b} : st \in {x \in S : x + b \in S}} = 0..(n - 1)
(* claim rejected by TLC in the negative self-test: "the keys only have to be injective" (they are for n = 3, w = 4: 9 > 8) *)
InjectiveIsEnough == Scaled(cfg) => (Injective(cfg.n, cfg.w) => Monotone(cfg.n, cfg.w))
(* what the implementation owes at real scale: keys exact in 64 bits for every index type *)
Required(c) == [cfg |-> c, keyBits |-> 64, ndofAtLeast |-> IF c.size = "over32" THEN 46341 ELSE IF c.size = "blocks" THEN 131073 ELSE 1,
                ndofAtMost |-> IF c.size = "over32" THEN 60000 ELSE IF c.size = "blocks" THEN 160000 ELSE 2000]
EmitOK == (Emit /\ ~Scaled(cfg)) => PrintT(<<"CASE", ToJson(Required(cfg))>>)
=============================================================================
