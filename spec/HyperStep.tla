------------------------------ MODULE HyperStep ------------------------------
(* C18 (operators, one step) -- the stress options of the hyperelastic time step on a bar in          *)
(* uniaxial strain, in exact rational arithmetic, differentiated exactly with dual numbers.            *)
(*                                                                                                      *)
(* The bar (length L, section A = height x thickness, density rho) is clamped at x = 0; its end          *)
(* displacement u is the single unknown (displacement gradient g = u / L, Green-Lagrange strain           *)
(* e = g + g^2/2, strain-displacement operator B = (1 + g) / L).  A state of the model is one step        *)
(* (law, stress option, time scheme, u0, u1, dt):                                                          *)
(*   u_t = u0 + coefK (u1 - u0)        base point of the scheme (midpoint 1/2, newmark 1, hht 1 - alpha, alpha = 1/4)   *)
(*   pointwise :  S = W'(e(u_t))                                                                            *)
(*   gonzalez  :  S = s_mid + alpha_g De,  alpha_g = (DW - s_mid De) / De^2  (0 when De^2 <= 1e-10)          *)
(*   quadrature:  S = sum_k w_k W'(e0 + s_k De)   (Clenshaw-Curtis, 1 / 2 / 3 / 4 points)                        *)
(*   quadA     :  the same rule refined per element along 1, 3, 5, 9, .. points until the energy defect is     *)
(*                within the tolerance: for the polynomial laws (W' at most quadratic) the accepted rule is     *)
(*                exact, stress and tangent are those of the 3-point rule                                      *)
(*   R = A (1 + g_t) S                  internal force on the unknown                                        *)
(* and, for midpoint, the velocities (v0, v1) for which (u0, v0) -> (u1, v1) is exactly one step:            *)
(*   v0 = Du/dt + R dt / (2 m),  v1 = Du/dt - R dt / (2 m),   m = rho A L / 3.                                *)
(* Checked on the model: dR/du1 computed with dual numbers is what the documented tangent formula gives       *)
(* (coefK K = dR/du1); the discrete-gradient identity R Du = DW (A L) for gonzalez and for exact              *)
(* quadratures; conservation of 1/2 m v^2 + A L W over the step.  A pointwise stress must violate the          *)
(* identity (negative configuration).  Every state is replayed on a one-element QUAD4 / HEXA8 bar.             *)
EXTENDS Rat, Sequences, FiniteSets, TLC, Json

CONSTANTS Laws, Options, Schemes, U0s, U1s, Dts, Emit, Claim
VARIABLES step
vars == <<step>>

(* ---- dual numbers over the rationals: <<value, derivative>> ---- *)
DC(c)      == <<c, Zero>>
DAdd(x, y) == <<Add(x[1], y[1]), Add(x[2], y[2])>>
DSub(x, y) == <<Sub(x[1], y[1]), Sub(x[2], y[2])>>
DMul(x, y) == <<Mul(x[1], y[1]), Add(Mul(x[1], y[2]), Mul(x[2], y[1]))>>
DDiv(x, y) == <<Div(x[1], y[1]), Div(Sub(Mul(x[2], y[1]), Mul(x[1], y[2])), Sq(y[1]))>>
DSq(x)     == DMul(x, x)

(* ---- bar ---- *)
Len0 == One        Height == One      Thick == Half      Rho == R(3, 2)
Area == Mul(Height, Thick)
Mass == Div(Mul3(Rho, Area, Len0), RI(3))
Vol  == Mul(Area, Len0)

(* ---- laws: W(e) and W'(e) on dual numbers; "vol" is K (J - 1)^2 with J = 1 + g, given through g ---- *)
CubA == RI(3)   CubB == Two      \* W = 3 e^2 + 2 e^3      (user energy through automatic differentiation)
SvkC == RI(6)                    \* W = (lambda/2 + mu + 2 K) e^2 with lambda = 2, mu = 3, K = 1 : Saint-Venant-Kirchhoff in uniaxial strain
VolK == RI(3)                    \* W = 3 (J - 1)^2          (MooneyRivlin(K1 = 0, K2 = 0, K = 3))
Polynomial(law) == law \in {"cubic", "svk"}
Wd(law, e) == CASE law = "cubic" -> DAdd(DMul(DC(CubA), DSq(e)), DMul(DC(CubB), DMul(e, DSq(e))))
                [] law = "svk" -> DMul(DC(SvkC), DSq(e))
dWd(law, e) == CASE law = "cubic" -> DAdd(DMul(DC(Mul(Two, CubA)), e), DMul(DC(Mul(RI(3), CubB)), DSq(e)))
                 [] law = "svk" -> DMul(DC(Mul(Two, SvkC)), e)
(* through the displacement gradient g (dual): e = g + g^2/2, J = 1 + g *)
Eg(g) == DAdd(g, DMul(DC(Half), DSq(g)))
WofG(law, g)  == IF law = "vol" THEN DMul(DC(VolK), DSq(g)) ELSE Wd(law, Eg(g))
dWofG(law, g) == IF law = "vol" THEN DDiv(DMul(DC(Mul(Two, VolK)), g), DAdd(DC(One), g)) ELSE dWd(law, Eg(g))   \* dW/de = 2 K (J - 1) / J

CoefK(s) == CASE s = "midpoint" -> Half [] s = "newmark" -> One [] s = "hht" -> R(3, 4)   \* hht with alpha = 1/4
Eps0 == R(1, 1048576)  \* the guard on De^2 is 1e-10 in the implementation; 2^-20 here (no lattice point has 1e-10 < De^2 <= 2^-20)

(* the stress of the step, as a dual number in u1; u0, u1d end displacements (u1d dual) *)
Stress(law, opt, sch, u0, u1d) ==
    LET g0 == DC(Div(u0, Len0))
        g1 == DDiv(u1d, DC(Len0))
        ck == DC(CoefK(sch))
        gt == DAdd(g0, DMul(ck, DSub(g1, g0)))
        e0 == Eg(g0)  e1 == Eg(g1)  de == DSub(e1, e0)
    IN  CASE opt = "pointwise" -> dWofG(law, gt)
          [] opt = "gonzalez" ->
               LET sm == dWofG(law, gt)
                   n  == DSub(DSub(WofG(law, g1), WofG(law, g0)), DMul(sm, de))
               IN  IF Leq(Sq(de[1]), Eps0) THEN sm ELSE DAdd(sm, DMul(DDiv(n, DSq(de)), de))
          [] opt = "quad1" -> dWd(law, DAdd(e0, DMul(DC(Half), de)))
          [] opt = "quad2" -> DMul(DC(Half), DAdd(dWd(law, e0), dWd(law, e1)))
          [] opt \in {"quad3", "quadA"} -> DAdd(DMul(DC(R(1, 6)), DAdd(dWd(law, e0), dWd(law, e1))), DMul(DC(R(2, 3)), dWd(law, DAdd(e0, DMul(DC(Half), de)))))
          [] opt = "quad4" -> DAdd(DMul(DC(R(1, 18)), DAdd(dWd(law, e0), dWd(law, e1))),                         \* Clenshaw-Curtis on 4 points: s = 0, 1/4, 3/4, 1
                                   DMul(DC(R(4, 9)), DAdd(dWd(law, DAdd(e0, DMul(DC(R(1, 4)), de))), dWd(law, DAdd(e0, DMul(DC(R(3, 4)), de))))))

Residual(law, opt, sch, u0, u1d) ==
    LET g0 == DC(Div(u0, Len0))  g1 == DDiv(u1d, DC(Len0))
        gt == DAdd(g0, DMul(DC(CoefK(sch)), DSub(g1, g0)))
    IN  DMul(DMul(DC(Area), DAdd(DC(One), gt)), Stress(law, opt, sch, u0, u1d))

(* ---- the documented tangents, evaluated with plain rationals (no differentiation) ---- *)
V(x) == x[1]
d2W(law, e) == CASE law = "cubic" -> Add(Mul(Two, CubA), Mul3(RI(6), CubB, e)) [] law = "svk" -> Mul(Two, SvkC)
d2WofG(law, g) == IF law = "vol" THEN Div(Mul(Two, VolK), Mul3(Add(One, g), Add(One, g), Add(One, g))) ELSE d2W(law, V(Eg(DC(g))))   \* d2W/de2 = 2 K / J^3
(* returns K such that CoefK K = dR/du1, built from the formulas in the operators' documentation *)
DocTangent(law, opt, sch, u0, u1) ==
    LET g0 == Div(u0, Len0)  g1 == Div(u1, Len0)  ck == CoefK(sch)
        gt == Add(g0, Mul(ck, Sub(g1, g0)))
        bt == Div(Add(One, gt), Len0)  b1 == Div(Add(One, g1), Len0)          \* B(u_t), B(u_{n+1})
        e0 == V(Eg(DC(g0)))  e1 == V(Eg(DC(g1)))  de == Sub(e1, e0)
        sig == V(Stress(law, opt, sch, u0, DC(u1)))
        geo == Div(sig, Sq(Len0))                                              \* grad^T S grad for one unknown
    IN  CASE opt = "pointwise" -> Mul(Vol, Add(Mul3(bt, d2WofG(law, gt), bt), geo))
          [] opt = "gonzalez" ->
               LET sm == V(dWofG(law, DC(gt)))  cm == d2WofG(law, gt)  s1 == V(dWofG(law, DC(g1)))
                   n  == Sub(Sub(V(WofG(law, DC(g1))), V(WofG(law, DC(g0)))), Mul(sm, de))
                   on == ~Leq(Sq(de), Eps0)
                   inv == IF on THEN Inv(Sq(de)) ELSE Zero
                   al == Mul(n, inv)
                   gg == Sub(Mul(inv, Sub(Sub(Mul(b1, s1), Mul3(Half, bt, Mul(cm, de))), Mul(b1, sm))), Mul3(Mul3(n, inv, inv), Two, Mul(b1, de)))
               IN  Mul(Vol, Add(Add(Mul3(bt, cm, bt), geo), Mul(Two, Add(Mul3(al, bt, b1), Mul3(bt, de, gg)))))
          [] opt \in {"quad1", "quad2", "quad3", "quad4", "quadA"} ->
               LET pts == CASE opt = "quad1" -> << <<Half, One>> >>
                            [] opt = "quad2" -> << <<Zero, Half>>, <<One, Half>> >>
                            [] opt \in {"quad3", "quadA"} -> << <<Zero, R(1, 6)>>, <<Half, R(2, 3)>>, <<One, R(1, 6)>> >>
                            [] opt = "quad4" -> << <<Zero, R(1, 18)>>, <<R(1, 4), R(4, 9)>>, <<R(3, 4), R(4, 9)>>, <<One, R(1, 18)>> >>
                   cq == SumSeq([k \in 1..Len(pts) |-> Mul3(Div(Mul(pts[k][2], pts[k][1]), ck), One, d2W(law, Add(e0, Mul(pts[k][1], de))))])
               IN  Mul(Vol, Add(Mul3(bt, cq, b1), geo))

(* ---- states ---- *)
Admissible(law, opt, sch) ==
    /\ (opt = "gonzalez" => sch = "midpoint")
    /\ (opt \in {"quad1", "quad2", "quad3", "quad4", "quadA"} => Polynomial(law))
Steps == { [law |-> l, opt |-> o, sch |-> s, u0 |-> a, u1 |-> b, dt |-> d] :
           l \in Laws, o \in Options, s \in Schemes, a \in U0s, b \in U1s, d \in Dts }
Init == step \in { s \in Steps : Admissible(s.law, s.opt, s.sch) }
Next == UNCHANGED step
Spec == Init /\ [][Next]_vars

Res(s)  == Residual(s.law, s.opt, s.sch, s.u0, <<s.u1, One>>)
Du(s)   == Sub(s.u1, s.u0)
DWtot(s) == Mul(Vol, Sub(V(WofG(s.law, DC(Div(s.u1, Len0)))), V(WofG(s.law, DC(Div(s.u0, Len0))))))
V0(s) == Add(Div(Du(s), s.dt), Div(Mul(V(Res(s)), s.dt), Mul(Two, Mass)))
V1(s) == Sub(Div(Du(s), s.dt), Div(Mul(V(Res(s)), s.dt), Mul(Two, Mass)))

(* the tangent contract: CoefK x (documented tangent) = dR/du1 (exact) *)
TangentIsDerivative == Mul(CoefK(step.sch), DocTangent(step.law, step.opt, step.sch, step.u0, step.u1)) = Res(step)[2]
(* discrete gradient: the work of the internal force over the step is the change of stored energy *)
Exact(s) == \/ s.opt = "gonzalez"
            \/ (s.opt \in {"quad3", "quad4", "quadA"} /\ s.sch = "midpoint")
            \/ (s.opt \in {"quad1", "quad2"} /\ s.sch = "midpoint" /\ s.law = "svk")
            \/ (Claim = "pointwise-conserves" /\ s.opt = "pointwise" /\ s.sch = "midpoint")
DiscreteGradient == Exact(step) => Mul(V(Res(step)), Du(step)) = DWtot(step)
(* 1/2 m (v1^2 - v0^2) + DW = 1/2 m (v1 - v0)(v1 + v0) + DW = 0 over the constructed step *)
Conservation == Exact(step) => Add(Mul3(Mul(Half, Mass), Sub(V1(step), V0(step)), Add(V1(step), V0(step))), DWtot(step)) = Zero
(* the constructed velocities satisfy the midpoint update and the momentum balance *)
IsMidpointStep == /\ Du(step) = Mul3(step.dt, Half, Add(V0(step), V1(step)))
                  /\ Add(Div(Mul(Mass, Sub(V1(step), V0(step))), step.dt), V(Res(step))) = Zero
(* with nothing moving, every option reduces to the pointwise stress *)
RestIsPointwise == step.u0 = step.u1 => V(Stress(step.law, step.opt, step.sch, step.u0, DC(step.u1))) = V(dWofG(step.law, DC(Div(step.u0, Len0))))

EmitOK == Emit => PrintT(<<"STEP", ToJson([step |-> step, R |-> V(Res(step)), dRdu1 |-> Res(step)[2], coefK |-> CoefK(step.sch),
                                          K |-> DocTangent(step.law, step.opt, step.sch, step.u0, step.u1), stress |-> V(Stress(step.law, step.opt, step.sch, step.u0, DC(step.u1))),
                                          v0 |-> V0(step), v1 |-> V1(step), dW |-> DWtot(step),
                                          exact |-> Exact(step),
                                          bar |-> [L |-> Len0, h |-> Height, t |-> Thick, rho |-> Rho, m |-> Mass]])>>)
=============================================================================
