---------------------------- MODULE ShapeTables ----------------------------
(* C06 -- shape-function tables as exact polynomials.                                        *)
(* The harness extracts, for every element family, the exact coefficient vectors of the      *)
(* tabulated functions N and of the tabulated derivative tables (by evaluating the library's  *)
(* own callables on a polynomial-ring object) and writes them to a JSON file.  This module    *)
(* states the properties as IDENTITIES BETWEEN POLYNOMIALS (hence at every point of the       *)
(* reference element) and TLC decides them for each family:                                   *)
(*   Kronecker   N_i(node_j) = delta_ij                                                       *)
(*   PU          sum_i N_i = 1                                                                *)
(*   Repro       sum_i m(node_i) N_i = m   for every monomial m of total degree <= order      *)
(*   DerivOK     the k-th tabulated derivative table is the k-th derivative of N              *)
(*   Hermite     value / slope interpolation pattern of the beam functions                    *)
EXTENDS Rat, FiniteSets, TLC, Json, IOUtils

Tables == JsonDeserialize(IOEnv.SHAPE_TABLES)     \* sequence of family records

VARIABLE k
vars == <<k>>

(* ---- polynomials: sequences of terms <<exponents (3-tuple), coefficient (Rat)>> ---- *)
Exps(p) == {p[t][1] : t \in 1..Len(p)}
RECURSIVE CoefFrom(_, _, _)
CoefFrom(p, e, t) == IF t > Len(p) THEN Zero ELSE Add(IF p[t][1] = e THEN p[t][2] ELSE Zero, CoefFrom(p, e, t + 1))
Coef(p, e) == CoefFrom(p, e, 1)
EqPoly(p, q) == \A e \in Exps(p) \cup Exps(q) : Coef(p, e) = Coef(q, e)

RECURSIVE DerivFrom(_, _, _)
DerivFrom(p, d, t) ==
    IF t > Len(p) THEN <<>>
    ELSE LET e == p[t][1] IN
         (IF e[d] > 0 THEN << <<[e EXCEPT ![d] = @ - 1], Mul(p[t][2], RI(e[d]))>> >> ELSE <<>>) \o DerivFrom(p, d, t + 1)
Deriv(p, d) == DerivFrom(p, d, 1)
RECURSIVE DerivN(_, _, _)
DerivN(p, d, n) == IF n = 0 THEN p ELSE DerivN(Deriv(p, d), d, n - 1)

RECURSIVE Pow(_, _)
Pow(x, n) == IF n = 0 THEN One ELSE Mul(x, Pow(x, n - 1))
RECURSIVE EvalFrom(_, _, _)
EvalFrom(p, x, t) ==
    IF t > Len(p) THEN Zero
    ELSE LET e == p[t][1] IN Add(Mul(p[t][2], Mul3(Pow(x[1], e[1]), Pow(x[2], e[2]), Pow(x[3], e[3]))), EvalFrom(p, x, t + 1))
Eval(p, x) == EvalFrom(p, x, 1)

(* coefficient of exponent e in  sum_i a[i] * P[i] *)
RECURSIVE CombCoef(_, _, _, _)
CombCoef(a, P, e, i) == IF i > Len(P) THEN Zero ELSE Add(Mul(a[i], Coef(P[i], e)), CombCoef(a, P, e, i + 1))
AllExps(P) == UNION {Exps(P[i]) : i \in 1..Len(P)}

Monomials(dim, ord) ==
    {e \in (0..ord) \X (0..ord) \X (0..ord) : e[1] + e[2] + e[3] <= ord /\ (dim < 3 => e[3] = 0) /\ (dim < 2 => e[2] = 0)}
MonoAt(e, x) == Mul3(Pow(x[1], e[1]), Pow(x[2], e[2]), Pow(x[3], e[3]))

---------------------------------------------------------------------------
T == Tables[k]
NN == Len(T.N)

KronFails == {<<i, j>> \in (1..NN) \X (1..Len(T.nodes)) : Eval(T.N[i], T.nodes[j]) # IF i = j THEN One ELSE Zero}
PUFails == {e \in AllExps(T.N) \cup {<<0, 0, 0>>} : CombCoef([i \in 1..NN |-> One], T.N, e, 1) # IF e = <<0, 0, 0>> THEN One ELSE Zero}
ReproFails ==
    {m \in Monomials(T.dim, T.order) :
        \E e \in AllExps(T.N) \cup {m} :
            CombCoef([i \in 1..NN |-> MonoAt(m, T.nodes[i])], T.N, e, 1) # IF e = m THEN One ELSE Zero}
(* T.D[n][i][d] : the tabulated n-th derivative of function i in direction d *)
DerivFails ==
    {<<n, i, d>> \in (1..Len(T.D)) \X (1..NN) \X (1..T.dim) : ~EqPoly(T.D[n][i][d], DerivN(T.N[i], d, n))}

(* Hermite beam functions: function 2j-1 carries the value at node j, function 2j the slope at node j.      *)
(* In reference coordinates the slope functions have derivative 1/2 at their own node (the element length   *)
(* factor is applied when the functions are mapped to the physical element).                                 *)
HermFails ==
    {<<f, j>> \in (1..NN) \X (1..Len(T.nodes)) :
        LET own == (f + 1) \div 2 = j
            isVal == f % 2 = 1
            v == Eval(T.N[f], T.nodes[j])
            s == Eval(Deriv(T.N[f], 1), T.nodes[j])
        IN  ~(/\ v = IF own /\ isVal THEN One ELSE Zero
              /\ s = IF own /\ ~isVal THEN Half ELSE Zero)}

Verdict ==
    IF T.kind = "lagrange"
    THEN [name |-> T.name, kind |-> T.kind, kron |-> KronFails, pu |-> PUFails, repro |-> ReproFails, deriv |-> DerivFails, herm |-> {}]
    ELSE [name |-> T.name, kind |-> T.kind, kron |-> {}, pu |-> {}, repro |-> {}, deriv |-> DerivFails, herm |-> HermFails]

Init == k = 1
Next == k < Len(Tables) /\ k' = k + 1
Spec == Init /\ [][Next]_vars

Report == PrintT(<<"VERDICT", ToJson(Verdict)>>)
=============================================================================
