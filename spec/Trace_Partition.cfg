SPECIFICATION Spec
CONSTANT GhostsByType = FALSE
INVARIANT Report
