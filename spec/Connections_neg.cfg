SPECIFICATION Spec
CONSTANTS
  Emit = FALSE
INVARIANT HingeIsWeld
