---------------------------- MODULE FrameIndiff ----------------------------
(* C10 -- frame indifference.  A problem carries four frames: the mesh, the material (or beam  *)
(* section) axes, the constraints and the loads.  Moving the whole problem composes the same    *)
(* isometry onto all four; the solution then lives in that frame: vectors are rotated by the    *)
(* linear part, rotation vectors of beams additionally by its determinant (axial vectors),       *)
(* scalars and energies are unchanged.  TLC explores the motion sequences (exact rational        *)
(* isometries of Geometry.tla); every state is replayed as a metamorphic test: the moved problem  *)
(* is built and solved with the real code and compared with the transformed baseline solution.    *)
EXTENDS Rat, FiniteSets, Sequences, TLC, Json

CONSTANTS MaxMoves, Motions, Partial, Emit
VARIABLES A, b, moves, part      \* part[p] = number of motions applied to part p (mesh, axes, bcs, loads)
INSTANCE Geometry WITH MaxMoves <- MaxMoves, Motions <- Motions, Emit <- FALSE, A <- A, b <- b, moves <- moves

Parts == {"mesh", "axes", "bcs", "loads"}
vars2 == <<A, b, moves, part>>
Init2 == Init /\ part = [p \in Parts |-> 0]
MoveAll(mv) == Move(mv) /\ part' = [p \in Parts |-> part[p] + 1]
(* a defective motion that forgets one part (negative self-test when Partial = TRUE) *)
MoveForgetting(mv, q) == Partial /\ Move(mv) /\ part' = [p \in Parts |-> IF p = q THEN part[p] ELSE part[p] + 1]
Next2 == \E mv \in Motions : MoveAll(mv) \/ \E q \in Parts : MoveForgetting(mv, q)
Spec2 == Init2 /\ [][Next2]_vars2

(* forms in which the axes and the loads of a beam problem are written.  The vertical axis of the section may be given        *)
(* perpendicular to the member or merely in the plane (member, vertical) - the frame is the orthonormalised one either way -;   *)
(* the load is a force at the tip or a force per unit length along the member, both given by their GLOBAL components.           *)
BeamForms == [yaxis : {"perp", "oblique"}, load : {"tip", "line"}]
EmitForms == (Emit /\ moves = <<>>) => PrintT(<<"FORMS", ToJson(BeamForms)>>)

AllFramesEqual == \A p, q \in Parts : part[p] = part[q]
EmitFrame == Emit => PrintT(<<"FRAME", ToJson([moves |-> moves, A |-> A, b |-> b, det |-> Det3(A)])>>)
=============================================================================
