SPECIFICATION Spec
CONSTANTS
  MeshNames <- NamesNeg
  MeshDef <- MeshDefs
  DofNs = {1}
  Orders <- OrdersAll
  Patterns <- PatternsTwo
  MaxAsm = 2
  Complex = {"real"}
  Defect = "no_ndof_in_key"
  Emit = FALSE
VIEW view
INVARIANT Exact
INVARIANT MemoCurrent
