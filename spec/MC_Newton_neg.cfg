SPECIFICATION Spec
CONSTANTS
  Stiffs <- StiffsQ
  Rates <- RatesQ
  Starts <- StartsQ
  AbsTols <- AbsQ
  RelTols <- RelQ
  IncTols <- IncQ
  MaxIters <- ItersQ
  Emit = FALSE
INVARIANT TestAfterUpdate
CHECK_DEADLOCK FALSE
