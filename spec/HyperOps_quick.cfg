SPECIFICATION Spec
CONSTANTS
  Elems2 = {"TRI3", "QUAD4", "TRI6"}
  Elems3 = {"TETRA4", "HEXA8", "PRISM6"}
  LawsAll = {"SVK", "SVQ", "NH", "MR", "CG", "HO", "AD"}
  Emit = TRUE
  Thorough = FALSE
INVARIANT TypeOK
INVARIANT EmitOK
CHECK_DEADLOCK FALSE
