------------------------------- MODULE Loads -------------------------------
(* C09 -- distributed loads: exact resultant and moment of a polynomial load density over an   *)
(* edge / face / the bulk of the integer box [0,3] x [0,2] (x [0,2]), times the thickness in    *)
(* 2-D, and the even split of a concentrated load.  TLC enumerates (dimension, load kind,        *)
(* region, density, thickness, value form) and computes the expectations in exact rationals;      *)
(* each state is replayed through add_lineLoad / add_surfLoad / add_volumeLoad /                  *)
(* add_pressureLoad / add_neumann on real meshes of every element type.                           *)
EXTENDS Rat, FiniteSets, Sequences, TLC, Json

CONSTANTS Dims, Thicks, Emit
VARIABLE cs
vars == <<cs>>

Box == <<3, 2, 2>>
(* a region: per axis either <<"fix", v>> or <<"int", a, b>> *)
Fix(v) == <<"fix", v, v>>
Itv(a, b) == <<"int", a, b>>
Regions2 == [right |-> <<Fix(3), Itv(0, 2)>>, top |-> <<Itv(0, 3), Fix(2)>>, left |-> <<Fix(0), Itv(0, 2)>>, bulk |-> <<Itv(0, 3), Itv(0, 2)>>]
Regions3 == [xmax |-> <<Fix(3), Itv(0, 2), Itv(0, 2)>>, zmax |-> <<Itv(0, 3), Itv(0, 2), Fix(2)>>, ymin |-> <<Itv(0, 3), Fix(0), Itv(0, 2)>>,
             edge |-> <<Fix(3), Fix(2), Itv(0, 2)>>, bulk |-> <<Itv(0, 3), Itv(0, 2), Itv(0, 2)>>]
(* outward unit normals of the planar faces (for pressure) *)
Normals == [right |-> <<1, 0, 0>>, top |-> <<0, 1, 0>>, left |-> <<-1, 0, 0>>, xmax |-> <<1, 0, 0>>, zmax |-> <<0, 0, 1>>, ymin |-> <<0, -1, 0>>]
RegionDim(r) == Cardinality({i \in 1..Len(r) : r[i][1] = "int"})

(* polynomials: sequences of <<exponents (3), integer coefficient>> *)
Polys == [one |-> << <<<<0,0,0>>, 1>> >>, lin |-> << <<<<0,0,0>>, 2>>, <<<<1,0,0>>, 1>>, <<<<0,1,0>>, -1>> >>,
          quad |-> << <<<<0,0,0>>, 1>>, <<<<2,0,0>>, 1>>, <<<<1,1,0>>, -2>>, <<<<0,0,1>>, 1>> >>, zero |-> <<>>]

RECURSIVE PowI(_, _)
PowI(x, n) == IF n = 0 THEN 1 ELSE x * PowI(x, n - 1)
AxisInt(ax, e) == IF ax[1] = "fix" THEN RI(PowI(ax[2], e)) ELSE R(PowI(ax[3], e + 1) - PowI(ax[2], e + 1), e + 1)
TermInt(reg, term) ==
    LET e == term[1] IN
    Mul(RI(term[2]), Mul3(AxisInt(reg[1], e[1]), AxisInt(reg[2], e[2]), IF Len(reg) = 3 THEN AxisInt(reg[3], e[3]) ELSE (IF e[3] = 0 THEN One ELSE Zero)))
RECURSIVE PolyInt(_, _)
PolyInt(reg, p) == IF p = <<>> THEN Zero ELSE Add(TermInt(reg, Head(p)), PolyInt(reg, Tail(p)))
(* multiply a polynomial by a coordinate *)
Times(p, ax) == [i \in 1..Len(p) |-> <<[p[i][1] EXCEPT ![ax] = @ + 1], p[i][2]>>]

(* resultant and first moments of a vector density (one polynomial per direction) *)
Resultant(reg, dens, t) == [d \in 1..Len(dens) |-> Mul(t, PolyInt(reg, dens[d]))]
(* moments about the origin: M_ab = int (x_a p_b) for all a, b (the harness combines them into the moment about any point) *)
Moments(reg, dens, t) == [a \in 1..3 |-> [b \in 1..Len(dens) |-> Mul(t, PolyInt(reg, Times(dens[b], a)))]]
Measure(reg) == PolyInt(reg, Polys.one)

Kinds2 == {"lineLoad", "surfLoad", "volumeLoad", "pressure", "point"}
Kinds3 == {"lineLoad", "surfLoad", "volumeLoad", "pressure", "point"}
RegFor(dim, kind) ==
    IF dim = 2 THEN CASE kind \in {"lineLoad", "surfLoad", "pressure", "point"} -> {"right", "top", "left"} [] kind = "volumeLoad" -> {"bulk"}
    ELSE CASE kind = "lineLoad" -> {"edge"} [] kind \in {"surfLoad", "pressure", "point"} -> {"xmax", "zmax", "ymin"} [] kind = "volumeLoad" -> {"bulk"}
(* does the 2-D thickness multiply the load ? (a line load is per unit length; surface / volume / pressure loads act through the thickness) *)
UsesThickness(dim, kind) == dim = 2 /\ kind \in {"surfLoad", "volumeLoad", "pressure"}

DensPairs == {<<"one", "zero">>, <<"lin", "one">>, <<"quad", "lin">>}
Cases ==
    {[dim |-> d, kind |-> k, region |-> r, dens |-> dp, thick |-> t, form |-> f, stray |-> s, dup |-> dp2, flood |-> fl, order |-> o] :
        d \in Dims, k \in Kinds2 \cup Kinds3, r \in {"right", "top", "left", "bulk", "xmax", "zmax", "ymin", "edge"}, dp \in DensPairs, t \in Thicks,
        f \in {"const", "func", "array"}, s \in BOOLEAN, dp2 \in BOOLEAN, fl \in BOOLEAN, o \in {"ascending", "permuted"}}
Valid(c) ==
    /\ c.region \in RegFor(c.dim, c.kind)
    /\ c.dim = 3 => c.thick = One
    /\ (c.form = "const") => c.dens = <<"one", "zero">>
    /\ (c.form = "array") => c.dens[1] \in {"one", "lin"}          \* a nodal array is interpolated: exact for fields in the element space
    /\ (c.kind = "pressure") => (c.dens = <<"one", "zero">> /\ c.form = "const")
    (* concentrated load: the total is given as a constant, or as nodal arrays (one array object shared by two unknowns and *)
    (* entered twice with a Bc_Init() in between, as a load-stepping loop does) - the total per unknown is the same        *)
    /\ (c.kind = "point") => (c.dens = <<"one", "zero">> /\ c.form \in {"const", "array"})
    /\ (c.stray) => c.kind \in {"lineLoad", "surfLoad"}
    (* flood: the stray nodes are ALL the nodes that lie on no boundary, on a mesh fine enough for the selection to hold more nodes *)
    (* than the boundary has - the loaded region is still the one the boundary nodes of the selection bound                          *)
    /\ (c.flood) => (c.stray /\ c.form # "array" /\ c.thick = One)
    (* a selection may list a node twice (two node sets sharing a corner concatenated): the loaded region is the same *)
    /\ (c.dup) => (c.form # "array" /\ ~c.stray /\ c.kind # "point")
    (* a selection is a LIST of node ids in any order (the selection helpers of the library return them unsorted on larger meshes); *)
    (* nodal arrays are given in the order of the list: the load does not depend on that order (the expectation has no such field)  *)
    /\ (c.order = "permuted") => (c.form = "array" /\ ~c.stray /\ ~c.dup /\ c.kind # "point")

Expect(c) ==
    LET reg == IF c.dim = 2 THEN Regions2[c.region] ELSE Regions3[c.region]
        t == IF UsesThickness(c.dim, c.kind) THEN c.thick ELSE One
        dens == IF c.dim = 2 THEN <<Polys[c.dens[1]], Polys[c.dens[2]]>> ELSE <<Polys[c.dens[1]], Polys[c.dens[2]], Polys.one>>
    IN  IF c.kind = "pressure"
        THEN [cfg |-> c, resultant |-> [d \in 1..c.dim |-> Mul3(t, Measure(reg), RI(Normals[c.region][d]))], moments |-> <<>>, measure |-> Measure(reg)]
        ELSE IF c.kind = "point"
        THEN [cfg |-> c, resultant |-> [d \in 1..c.dim |-> IF d = 1 \/ (d = 2 /\ c.form = "array") THEN RI(5) ELSE RI(-2)], moments |-> <<>>, measure |-> Measure(reg)]
        ELSE [cfg |-> c, resultant |-> Resultant(reg, dens, t), moments |-> Moments(reg, dens, t), measure |-> Measure(reg)]

(* ---- beams: a force per unit length q, given by its GLOBAL components, on a straight member of length 3 drawn from the     *)
(* origin along t (aligned with x, or inclined in the plane / in space).  Whatever shape functions carry the load (Lagrange    *)
(* for Timoshenko members, Hermitian for Euler-Bernoulli ones, which produce nodal couples too), the nodal forces sum to       *)
(* 3 q and forces and couples together have the moment (9/2) t x q about the origin.                                           *)
BeamDirs == [x |-> <<One, Zero, Zero>>, inclined2 |-> <<R(3,5), R(4,5), Zero>>, inclined3 |-> <<R(2,3), R(2,3), R(1,3)>>]
BeamLoads == [transverse |-> <<Zero, RI(-2), Zero>>, oblique |-> <<One, RI(-2), Zero>>, spatial |-> <<One, RI(-2), R(3,2)>>]
Cross(a, b) == <<Sub(Mul(a[2], b[3]), Mul(a[3], b[2])), Sub(Mul(a[3], b[1]), Mul(a[1], b[3])), Sub(Mul(a[1], b[2]), Mul(a[2], b[1]))>>
BeamCases == {[kind |-> "beamLine", dim |-> d, theory |-> th, dir |-> di, load |-> lo] :
                 d \in {2, 3}, th \in {"EB", "Timo"}, di \in DOMAIN BeamDirs, lo \in DOMAIN BeamLoads}
BeamValid(c) == /\ (c.dim = 2) => (c.dir # "inclined3" /\ c.load # "spatial")
ExpectBeam(c) == LET t == BeamDirs[c.dir]  q == BeamLoads[c.load] IN
    [cfg |-> c, t |-> t, q |-> q, resultant |-> [k \in 1..3 |-> Mul(RI(3), q[k])], moment |-> LET m == Cross(t, q) IN [k \in 1..3 |-> Mul(R(9, 2), m[k])], measure |-> RI(3)]
IsBeam(c) == c.kind = "beamLine"

Init == cs \in {c \in Cases : Valid(c)} \cup {c \in BeamCases : BeamValid(c)}
Next == UNCHANGED cs
Spec == Init /\ [][Next]_vars
(* sanity: the measure of a region is positive; a zero density has a zero resultant *)
OracleOK == IsBeam(cs) \/ IsPos(Expect(cs).measure)
EmitOK == Emit => PrintT(<<"CASE", ToJson(IF IsBeam(cs) THEN ExpectBeam(cs) ELSE Expect(cs))>>)
=============================================================================
