---- MODULE MC_Plasticity1D ----
EXTENDS Plasticity1D
M(e, sy, h, c) == [E |-> e, sigy |-> sy, H |-> h, C |-> c]
MatsQ == {M(RI(2), One, Half, Half), M(RI(2), One, Zero, One), M(RI(4), One, One, Zero)}
MatsT == MatsQ \cup {M(RI(2), One, Zero, Zero), M(RI(3), Half, One, Half)}
IncsQ == {R(1,4), Half, One, R(-1,4), R(-1,2), RI(-1)}
IncsT == IncsQ \cup {R(1,8), R(-3,4)}
====
