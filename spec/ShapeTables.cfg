SPECIFICATION Spec
INVARIANT Report
