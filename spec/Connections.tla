----------------------------- MODULE Connections -----------------------------
(* C04 (multi-point constraints) -- what a connection between the end nodes of two beam members states.        *)
(* A connection TIES some unknowns of the two nodes (equal values, enforced by Lagrange multipliers) and leaves  *)
(* the others FREE: on a free unknown no multiplier acts, so each of the two dofs satisfies its own assembled     *)
(* equation with the applied loads - which is what "the returned solution solves the stated system" means for    *)
(* a hinge.  kinds:  fixed (weld)  - every unknown tied;                                                          *)
(*                   hinged        - translations tied, the rotations named by the caller left free (2-D: the    *)
(*                                   only rotation rz; 3-D: the given axes, by default all three = a ball joint). *)
(* Hinges are stated for dim >= 2 (a 1-D member has no rotation).                                                 *)
EXTENDS FiniteSets, Sequences, TLC, Json

CONSTANTS Emit
VARIABLE c
vars == <<c>>

Unknowns(d) == CASE d = 1 -> {"x"} [] d = 2 -> {"x", "y", "rz"} [] d = 3 -> {"x", "y", "z", "rx", "ry", "rz"}
Rot(d) == Unknowns(d) \cap {"rx", "ry", "rz"}
Trans(d) == Unknowns(d) \ Rot(d)

(* the argument of the call: the set of rotation axes named by the caller, {} = none named (the default) *)
Args(d) == IF d = 3 THEN SUBSET Rot(3) ELSE {{}}
Cases == {[kind |-> "fixed", dim |-> d, arg |-> {}] : d \in {1, 2, 3}}
    \cup UNION {{[kind |-> "hinged", dim |-> d, arg |-> a] : a \in Args(d)} : d \in {2, 3}}

Free(cs) == IF cs.kind = "fixed" THEN {}
            ELSE IF cs.arg = {} THEN Rot(cs.dim) ELSE cs.arg
Tied(cs) == Unknowns(cs.dim) \ Free(cs)

Init == c \in Cases
Next == UNCHANGED c
Spec == Init /\ [][Next]_vars

Sound == /\ Tied(c) \cap Free(c) = {} /\ Tied(c) \cup Free(c) = Unknowns(c.dim)
         /\ Trans(c.dim) \subseteq Tied(c)                       \* a connection always transmits forces
         /\ (c.kind = "hinged") => Free(c) # {}                   \* a hinge that frees nothing is a weld
(* claim rejected in the negative self-test: "a hinge and a weld tie the same unknowns" *)
HingeIsWeld == Tied(c) = Unknowns(c.dim)
SetToSeq(S) == LET F[T \in SUBSET S] == IF T = {} THEN <<>> ELSE LET m == CHOOSE m \in T : TRUE IN <<m>> \o F[T \ {m}] IN F[S]
EmitOK == Emit => PrintT(<<"CONN", ToJson([kind |-> c.kind, dim |-> c.dim, arg |-> SetToSeq(c.arg), tied |-> SetToSeq(Tied(c)), free |-> SetToSeq(Free(c))])>>)
=============================================================================
