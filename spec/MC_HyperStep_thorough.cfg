SPECIFICATION Spec
CONSTANTS
  Laws = {"cubic", "svk", "vol"}
  Options = {"pointwise", "gonzalez", "quad1", "quad2", "quad3", "quad4", "quadA"}
  Schemes = {"midpoint", "newmark", "hht"}
  U0s <- MCU0t
  U1s <- MCU1t
  Dts <- MCDtt
  Emit = TRUE
  Claim = "none"
INVARIANT TangentIsDerivative
INVARIANT DiscreteGradient
INVARIANT Conservation
INVARIANT IsMidpointStep
INVARIANT RestIsPointwise
INVARIANT EmitOK
CHECK_DEADLOCK FALSE
