--------------------------- MODULE PhaseFieldHist ---------------------------
(* C17 (history) -- irreversibility of a phase-field fracture simulation along a load program.  *)
(* Abstract state per saved step: the level of the driving (history) energy H, of the nodal      *)
(* damage d, and the current load level.  A load program is a sequence of load levels (up, down, *)
(* zero); each step is  Solve ; SaveIter.  Irreversibility means:                                 *)
(*     History solver          : H never decreases between saved steps                            *)
(*     HistoryDamage / Bound   : d never decreases between saved steps                            *)
(*     no load                 : d stays zero                                                     *)
(* The levels are ordinal abstractions; traces recorded from the real simulation carry, per saved  *)
(* step, the number of integration points where the stored history decreased, the number of nodes  *)
(* where the stored damage decreased and the largest damage, and are validated against this        *)
(* module (Trace_PhaseFieldHist).                                                                  *)
EXTENDS Integers, Sequences, FiniteSets, TLC, Json

CONSTANTS Levels, Solvers, MaxSteps, Emit
VARIABLES solver, load, H, d, steps, act,
          query,    \* "none" | "between": results (driving energy, damage, in both forms) are READ between Solve and SaveIter of every step
          elem      \* element type of the mesh: QUAD4 has as many points for the history as for the stiffness, TRI3 has more
vars == <<solver, load, H, d, steps, act, query, elem>>

Max(a, b) == IF a > b THEN a ELSE b
Init == solver \in Solvers /\ query \in {"none", "between"} /\ elem \in {"QUAD4", "TRI3"} /\ load = 0 /\ H = 0 /\ d = 0 /\ steps = <<>> /\ act = "Init"

(* a read of results is not an action: it changes neither H nor d, whatever the place it is made from (the step below is the *)
(* same with and without it)                                                                                                 *)
(* one load step: the driving energy follows the load unless the history keeps its maximum; the damage follows the *)
(* driving energy unless the solver keeps it from decreasing                                                        *)
Step(l) ==
    /\ Len(steps) < MaxSteps
    /\ load' = l
    /\ LET drive == IF solver = "History" THEN Max(H, l) ELSE l
           dnew == IF solver = "History" THEN drive ELSE Max(d, drive)
       IN  /\ H' = drive
           /\ d' = dnew
           /\ steps' = Append(steps, [load |-> l, H |-> drive, d |-> dnew])
    /\ act' = "Step"
    /\ UNCHANGED <<solver, query, elem>>
Next == \E l \in Levels : Step(l)
Spec == Init /\ [][Next]_vars

HistoryMonotone == [][solver = "History" => H' >= H]_vars
DamageMonotone  == [][d' >= d]_vars
NoLoadNoDamage  == (\A i \in 1..Len(steps) : steps[i].load = 0) => d = 0
EmitOK == (Emit /\ Len(steps) = MaxSteps) => PrintT(<<"PROGRAM", ToJson([solver |-> solver, query |-> query, elem |-> elem, loads |-> [i \in 1..Len(steps) |-> steps[i].load]])>>)
=============================================================================
