SPECIFICATION Spec
CONSTANTS
  Levels = {0, 1, 2}
  Solvers = {"History", "HistoryDamage", "BoundConstrain"}
  MaxSteps = 4
  Emit = TRUE
INVARIANT NoLoadNoDamage
INVARIANT EmitOK
PROPERTY HistoryMonotone
PROPERTY DamageMonotone
