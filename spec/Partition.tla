----------------------------- MODULE Partition -----------------------------
(* C20 -- ownership bookkeeping of a partitioned mesh, a transcription of                   *)
(* Mesher.__Get_partitioned_groupElems (FEM/_mesher.py):                                     *)
(*   element types are processed in a fixed order, ranks 0..N-1 within a type;               *)
(*   a rank owns the nodes of its own elements that no OTHER rank has claimed so far         *)
(*   (the claim map is shared by all element types);                                         *)
(*   its ghost layer = elements of other ranks touching a node it owns (for that type).      *)
(* The same operators serve the exhaustive model (all assignments of small meshes) and the   *)
(* validation of partitions recorded from gmsh (Trace_Partition.tla).                         *)
EXTENDS Integers, Sequences, FiniteSets, TLC

(* a mesh: [nn, types], types = sequence of [dim, elems (sequence of node sets)]; an assignment: [t][e] -> rank set as *)
(* own[t][r] = set of element indices of type t assigned to rank r (ranks 1..N)                                          *)

NodesOf(elems, es) == UNION {elems[e] : e \in es}

(* processing steps in order: <<t, r>> *)
Steps(nT, N) == [i \in 1..(nT * N) |-> <<((i - 1) \div N) + 1, ((i - 1) % N) + 1>>]

(* claims after processing the first k steps; claims[r] = nodes claimed by rank r *)
RECURSIVE ClaimsAfter(_, _, _, _)
ClaimsAfter(mesh, own, N, k) ==
    IF k = 0 THEN [r \in 1..N |-> {}]
    ELSE LET prev == ClaimsAfter(mesh, own, N, k - 1)
             st == Steps(Len(mesh.types), N)[k]
             t == st[1]  r == st[2]
             others == UNION {prev[s] : s \in (1..N) \ {r}}
             mine == NodesOf(mesh.types[t].elems, own[t][r]) \ others
         IN  [prev EXCEPT ![r] = @ \cup mine]

(* nodes rank r owns for type t (what _Get_partitioned_data()[3] holds) *)
OwnedNodes(mesh, own, N, t, r) ==
    LET k == (t - 1) * N + r
        prev == ClaimsAfter(mesh, own, N, k - 1)
        others == UNION {prev[s] : s \in (1..N) \ {r}}
    IN  NodesOf(mesh.types[t].elems, own[t][r]) \ others

(* ghost layer of rank r for type t: foreign elements touching ANY node the rank owns at that point (through this type or an     *)
(* earlier one).  GhostsByType = "TRUE" is the defective variant found in the code (only the nodes owned through type t were used): *)
(* on a mesh with two main-dimension types a rank then misses elements of the other type touching its nodes.                       *)
CONSTANT GhostsByType
Ghosts(mesh, own, N, t, r) ==
    LET on == IF GhostsByType THEN OwnedNodes(mesh, own, N, t, r) ELSE ClaimsAfter(mesh, own, N, (t - 1) * N + r)[r]
        foreign == UNION {own[t][s] : s \in (1..N) \ {r}}
    IN  {e \in foreign : mesh.types[t].elems[e] \cap on # {}}

MainTypes(mesh) == LET d == CHOOSE d \in {mesh.types[t].dim : t \in 1..Len(mesh.types)} : \A t \in 1..Len(mesh.types) : mesh.types[t].dim <= d
                   IN  {t \in 1..Len(mesh.types) : mesh.types[t].dim = d}

(* ---- the property ---- *)
ElemsPartitioned(mesh, own, N) ==           \* every main-dimension element has exactly one owner
    \A t \in MainTypes(mesh) : \A e \in 1..Len(mesh.types[t].elems) : Cardinality({r \in 1..N : e \in own[t][r]}) = 1

MainNodes(mesh) == UNION {NodesOf(mesh.types[t].elems, 1..Len(mesh.types[t].elems)) : t \in MainTypes(mesh)}
MainOwned(mesh, own, N, r) == UNION {OwnedNodes(mesh, own, N, t, r) : t \in MainTypes(mesh)}
NodesPartitioned(mesh, own, N) ==           \* every node of the main mesh has exactly one owner among the main-dimension groups
    \A n \in MainNodes(mesh) : Cardinality({r \in 1..N : n \in MainOwned(mesh, own, N, r)}) = 1

(* a part holds its own elements plus EVERY element touching a node it owns: the rows of the owned dofs are complete *)
RowComplete(mesh, own, N) ==
    \A t \in MainTypes(mesh) : \A r \in 1..N :
        LET part == own[t][r] \cup Ghosts(mesh, own, N, t, r) IN
        \A n \in MainOwned(mesh, own, N, r) : \A e \in 1..Len(mesh.types[t].elems) : n \in mesh.types[t].elems[e] => e \in part
(* ... and nothing more than that *)
GhostMinimal(mesh, own, N) ==
    \A t \in MainTypes(mesh) : \A r \in 1..N : \A e \in Ghosts(mesh, own, N, t, r) :
        e \notin own[t][r] /\ mesh.types[t].elems[e] \cap ClaimsAfter(mesh, own, N, (t - 1) * N + r)[r] # {}

Good(mesh, own, N) == ElemsPartitioned(mesh, own, N) /\ NodesPartitioned(mesh, own, N) /\ RowComplete(mesh, own, N) /\ GhostMinimal(mesh, own, N)
=============================================================================
