SPECIFICATION Spec
CONSTANTS
  Mpi = FALSE
  Problems = {"elastic", "damage"}
  Ksps = {"cg", "gmres", "preonly", "bogus"}
  Pcs = {"gamg", "sor", "lu", "cholesky", "bogus"}
  Backends = {"petsc", "mumps", "bogus"}
  Defect = "none"
  Depth = 6
INVARIANT StoredValid
PROPERTY RefusalIsNoOp
PROPERTY Targeted
INVARIANT EmitTable
VIEW View
CHECK_DEADLOCK FALSE
