SPECIFICATION Spec
CONSTANTS
  AlgoPrms <- AlgoPrmsSwitch
  Mats <- MatsOne
  States <- StatesSwitch
  Loads <- LoadsSwitch
  Gs <- GsOne
  ConsSet <- BoolSet
  MaxSteps = 2
  Emit = FALSE
  Refusals <- BadPrmsSwitch
  MatChange = FALSE
  Mutant = "refused_switches"
INVARIANT LatticeAdmissible
INVARIANT RefusedKeeps
INVARIANT Motion
INVARIANT Prescribed
INVARIANT UpdateRel
INVARIANT Conserve
INVARIANT Dissipate
INVARIANT NewmarkEquilibrium
INVARIANT Family
INVARIANT Affine
INVARIANT EmitOK
