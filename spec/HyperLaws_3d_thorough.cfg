SPECIFICATION Spec
CONSTANTS
  Dim = 3
  Stretches = {"s222", "s211h", "s241", "sh4h", "shhh"}
  Shears = {"kxy", "kyx", "kxz", "kzy"}
  Rotations = {"rz", "rx", "ry"}
  MaxMoves = 3
  Emit = TRUE
  Mutant = "none"
INVARIANT CubeRoot
INVARIANT Reference
INVARIANT SymmetricS
INVARIANT QuadDerivative
INVARIANT NonNegative
INVARIANT EmitOK
PROPERTY Objective
CHECK_DEADLOCK FALSE
