------------------------------ MODULE Assembly ------------------------------
(* C03 -- assembly of the global K, C, M, F as the scatter-add of element arrays, computed *)
(* the way _Simu.__Assemble_csr does it: through a reduction map memoised per key           *)
(*        (dof_n, isMatrix, Ndof, contributing groups in the order they are fed).           *)
(* `Exact` states the property (result = definition of the scatter-add); the actions        *)
(* compute the result through the memo.  `Defect` selects deliberately wrong key designs.   *)
EXTENDS Integers, Sequences, FiniteSets, TLC, Json

CONSTANTS
    MeshNames,   \* names of the mesh variants
    MeshDef,     \* [MeshNames -> [nn: Nat, groups: Seq([npe: Nat, elems: Seq(Seq(Nat))])]]   nodes are 0-based like the code
    DofNs,       \* set of dofs-per-node values
    Orders,      \* [MeshNames -> set of group orders (sequences of group indices) a simulation may feed]
    Patterns,    \* set of records [K, C, M, F] : which positions of the order contribute to each slot (subsets of 1..Len(order))
    MaxAsm,      \* number of assemblies explored
    Complex,     \* subset of {"real", "all", "tail"}: element arrays real / complex for every group / complex for every group but the first one fed (mixed dtypes)
    Defect,      \* "none" | "sorted_key" | "no_groups_in_key" | "no_ndof_in_key"
    Emit

VARIABLES mesh, dofn, extra, ver, cache, last, act

vars == <<mesh, dofn, extra, ver, cache, last, act>>
view == <<mesh, dofn, extra, ver, cache, last>>

Groups(m) == MeshDef[m].groups
NdofOf(m, d, x) == MeshDef[m].nn * d + x

(* element value: a deterministic function of (slot, group, element, local row, local col, assembly number, part) *)
Val(slot, g, e, i, j, v, im) == ((g * 7 + e * 5 + i * 3 + j * 2 + slot * 11 + v * 13 + im * 17) % 7) - 3

GDof(m, d, g, e, l) ==   \* global dof of local dof l (1-based) of element e of group g; 0-based result like the code
    LET a == (l - 1) \div d   c == (l - 1) % d
    IN  Groups(m)[g].elems[e][a + 1] * d + c

NLoc(m, d, g) == Groups(m)[g].npe * d

(* flattened entry list in data order (ravel of (Ne, n, n)): sequence of [r, c, g, e, i, j] *)
RECURSIVE FlatE(_, _, _, _, _, _)
FlatE(m, d, g, e, k, isM) ==     \* entries of element e, starting at flat index k
    LET n == NLoc(m, d, g)
        tot == IF isM THEN n * n ELSE n
    IN  IF k > tot THEN <<>>
        ELSE LET i == IF isM THEN ((k - 1) \div n) + 1 ELSE k
                 j == IF isM THEN ((k - 1) % n) + 1 ELSE 1
             IN  <<[r |-> GDof(m, d, g, e, i), c |-> IF isM THEN GDof(m, d, g, e, j) ELSE 0, g |-> g, e |-> e, i |-> i, j |-> j]>>
                 \o FlatE(m, d, g, e, k + 1, isM)

RECURSIVE FlatG(_, _, _, _, _)
FlatG(m, d, g, e, isM) ==
    IF e > Len(Groups(m)[g].elems) THEN <<>> ELSE FlatE(m, d, g, e, 1, isM) \o FlatG(m, d, g, e + 1, isM)

RECURSIVE Flat(_, _, _, _)
Flat(m, d, gs, isM) == IF gs = <<>> THEN <<>> ELSE FlatG(m, d, Head(gs), 1, isM) \o Flat(m, d, Tail(gs), isM)

(* definition of the scatter-add: entry (r, c) is the sum of all element values landing there.            *)
(* Accumulation over the entry list: the k-th DATA entry is added at the position of the k-th MAP entry.  *)
(* With mapEnts = dataEnts this is the definition; with mapEnts = the memoised list it is what the code does. *)
RECURSIVE Acc(_, _, _, _, _, _, _)
Acc(M, mapEnts, dataEnts, k, slot, v, im) ==
    IF k > Len(dataEnts) THEN M
    ELSE LET h == mapEnts[k]  dd == dataEnts[k] IN
         Acc([M EXCEPT ![h.r + 1][h.c + 1] = @ + Val(slot, dd.g, dd.e, dd.i, dd.j, v, im)], mapEnts, dataEnts, k + 1, slot, v, im)

Mat(ents, n, ncol, slot, v, im, via, mapEnts) ==
    Acc([r \in 1..n |-> [c \in 1..ncol |-> 0]], IF via THEN mapEnts ELSE ents, ents, 1, slot, v, im)

(* insertion sort of a group order (used by the "sorted_key" defect: canonicalised key) *)
RECURSIVE Ins(_, _)
Ins(x, s) == IF s = <<>> THEN <<x>> ELSE IF x >= Head(s) THEN <<x>> \o s ELSE <<Head(s)>> \o Ins(x, Tail(s))
RECURSIVE SortDesc(_)
SortDesc(s) == IF s = <<>> THEN <<>> ELSE Ins(Head(s), SortDesc(Tail(s)))

KeyGroups(gs) == IF Defect = "sorted_key" THEN SortDesc(gs) ELSE gs
Key(m, d, isM, nd, gs) ==
    [mesh |-> m, dofn |-> d, isM |-> isM,
     ndof |-> IF Defect = "no_ndof_in_key" THEN 0 ELSE nd,
     gs |-> IF Defect = "no_groups_in_key" THEN <<>> ELSE KeyGroups(gs)]

Sub(order, pos) == \* sub-sequence of `order` at the positions in `pos`, in order
    LET F[i \in 0..Len(order)] == IF i = 0 THEN <<>> ELSE IF i \in pos THEN Append(F[i - 1], order[i]) ELSE F[i - 1]
    IN  F[Len(order)]

(* one slot assembled through the memo; returns [mat, cache] *)
AsmSlot(cch, m, d, x, order, pos, slot, isM, v, im) ==
    LET gs == Sub(order, pos)
        nd == NdofOf(m, d, x)
        k  == Key(m, d, isM, nd, gs)
        hit == \E ce \in cch : ce.key = k
        ents == Flat(m, d, gs, isM)
        newEntry == [key |-> k, ents |-> Flat(m, d, KeyGroups(gs), isM), ndof |-> nd]
        cc == IF hit \/ gs = <<>> THEN cch ELSE cch \cup {newEntry}     \* no contributing group: empty matrix, the memo is not consulted
        ce == IF gs = <<>> THEN newEntry ELSE CHOOSE z \in cc : z.key = k
    IN  [cache |-> cc,
         ok |-> Len(ce.ents) = Len(ents) /\ ce.ndof = nd,       \* the code asserts data.size == inv.size; the pattern has the memo's shape
         mat |-> IF gs = <<>> THEN [r \in 1..nd |-> [c \in 1..(IF isM THEN nd ELSE 1) |-> 0]]
                 ELSE Mat(ents, nd, IF isM THEN nd ELSE 1, slot, v, im, TRUE, ce.ents)]

Expected(m, d, x, order, pos, slot, isM, v, im) ==
    LET gs == Sub(order, pos)  nd == NdofOf(m, d, x)
    IN  Mat(Flat(m, d, gs, isM), nd, IF isM THEN nd ELSE 1, slot, v, im, FALSE, <<>>)

MinPos(ps) == CHOOSE p \in ps : \A q \in ps : p <= q
MDiff(x, y) == [r \in DOMAIN x |-> [c \in DOMAIN x[r] |-> x[r][c] - y[r][c]]]
(* imaginary part of K by definition: every contributing group ("all") or every one but the first fed ("tail") *)
ExpectedIm(m, d, x, order, pos, v, cx) ==
    IF cx = "all" \/ pos = {} THEN Expected(m, d, x, order, pos, 1, TRUE, v, 1)
    ELSE Expected(m, d, x, order, pos \ {MinPos(pos)}, 1, TRUE, v, 1)

---------------------------------------------------------------------------
Init ==
    /\ mesh \in MeshNames /\ dofn \in DofNs /\ extra = 0 /\ ver = 0 /\ cache = {}
    /\ last = [none |-> TRUE]
    /\ act = [name |-> "Init", mesh |-> mesh, dofn |-> dofn]

Assemble(order, pat, cx) ==
    /\ ver < MaxAsm
    /\ LET v == ver + 1
           k1 == AsmSlot(cache, mesh, dofn, extra, order, pat.K, 1, TRUE, v, 0)
           c1 == AsmSlot(k1.cache, mesh, dofn, extra, order, pat.C, 2, TRUE, v, 0)
           m1 == AsmSlot(c1.cache, mesh, dofn, extra, order, pat.M, 3, TRUE, v, 0)
           f1 == AsmSlot(m1.cache, mesh, dofn, extra, order, pat.F, 4, FALSE, v, 0)
           ki == IF cx = "real" THEN <<>>
                 ELSE IF cx = "all" \/ pat.K = {} THEN AsmSlot(f1.cache, mesh, dofn, extra, order, pat.K, 1, TRUE, v, 1).mat
                 ELSE MDiff(AsmSlot(f1.cache, mesh, dofn, extra, order, pat.K, 1, TRUE, v, 1).mat,
                            Expected(mesh, dofn, extra, order, {MinPos(pat.K)}, 1, TRUE, v, 1))     \* assembly is linear: tail = all - first
       IN  /\ cache' = f1.cache
           /\ ver' = v
           /\ last' = [none |-> FALSE, mesh |-> mesh, dofn |-> dofn, extra |-> extra, order |-> order, pat |-> pat, ver |-> v, cx |-> cx,
                       ok |-> k1.ok /\ c1.ok /\ m1.ok /\ f1.ok,
                       K |-> k1.mat, C |-> c1.mat, M |-> m1.mat, F |-> f1.mat, Ki |-> ki,
                       hits |-> Cardinality(cache) = Cardinality(f1.cache)]
    /\ act' = [name |-> "Assemble"]
    /\ UNCHANGED <<mesh, dofn, extra>>

(* a Lagrange condition (or, with one present, a Dirichlet condition) changes the system size; Bc_Init restores it *)
Resize(x) == /\ extra # x /\ extra' = x /\ act' = [name |-> "Resize", x |-> x] /\ UNCHANGED <<mesh, dofn, ver, cache, last>>

(* simu.mesh = other mesh / Set_Iter to an iteration of another mesh: memo cleared *)
SetMesh(m) == /\ m # mesh /\ mesh' = m /\ cache' = {} /\ extra' = 0 /\ act' = [name |-> "SetMesh", m |-> m] /\ UNCHANGED <<dofn, ver, last>>

Next ==
    (* constant quantifier bounds: TLC splits this into one action per instance (matters for simulation-mode emission) *)
    \/ \E o \in UNION {Orders[m] : m \in MeshNames}, p \in Patterns, cx \in Complex : o \in Orders[mesh] /\ Assemble(o, p, cx)
    \/ \E x \in {0, 1, 2} : Resize(x)
    \/ \E m \in MeshNames : SetMesh(m)

Spec == Init /\ [][Next]_vars

---------------------------------------------------------------------------
(* C03: every assembled object is the exact scatter-add, first assembly or a later one through the memo *)
Exact ==
    ~last.none =>
      /\ last.ok
      /\ last.K = Expected(last.mesh, last.dofn, last.extra, last.order, last.pat.K, 1, TRUE, last.ver, 0)
      /\ last.C = Expected(last.mesh, last.dofn, last.extra, last.order, last.pat.C, 2, TRUE, last.ver, 0)
      /\ last.M = Expected(last.mesh, last.dofn, last.extra, last.order, last.pat.M, 3, TRUE, last.ver, 0)
      /\ last.F = Expected(last.mesh, last.dofn, last.extra, last.order, last.pat.F, 4, FALSE, last.ver, 0)
      /\ last.cx # "real" => last.Ki = ExpectedIm(last.mesh, last.dofn, last.extra, last.order, last.pat.K, last.ver, last.cx)

(* memo entries belong to the current mesh *)
MemoCurrent == \A ce \in cache : ce.key.mesh = mesh

EmitOK == Emit => PrintT(<<"ST", ToJson([lvl |-> TLCGet("level"), act |-> act, mesh |-> mesh, dofn |-> dofn, extra |-> extra,
                                             nmemo |-> Cardinality(cache), last |-> IF act.name = "Assemble" THEN last ELSE [none |-> TRUE]])>>)
=============================================================================
