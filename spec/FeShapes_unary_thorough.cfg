SPECIFICATION Spec
CONSTANTS
  NeSet = {1, 2, 3}
  NpgSet = {1, 2, 3}
  Dims = {1, 2, 3}
  MaxRank = 4
  Ops = {"T", "reduce", "det", "inv", "trace", "transpose", "broadcast"}
  Emit = TRUE
INVARIANT TypeRule
INVARIANT EmitOK
