SPECIFICATION Spec
CONSTANTS
  Dims = {2, 3}
  Thicks <- ThQ
  Emit = TRUE
INVARIANT OracleOK
INVARIANT EmitOK
