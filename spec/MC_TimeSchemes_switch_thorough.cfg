SPECIFICATION Spec
CONSTANTS
  AlgoPrms <- AlgoPrmsSwitch
  Mats <- MatsOne
  States <- StatesSwitch
  Loads <- LoadsSwitch
  Gs <- GsOne
  ConsSet <- BoolSet
  MaxSteps = 3
  Emit = TRUE
  Refusals <- NoRefusals
  MatChange = FALSE
  Mutant = "none"
INVARIANT LatticeAdmissible
INVARIANT RefusedKeeps
INVARIANT Motion
INVARIANT Prescribed
INVARIANT UpdateRel
INVARIANT Conserve
INVARIANT Dissipate
INVARIANT NewmarkEquilibrium
INVARIANT Family
INVARIANT Affine
INVARIANT Homogeneous
INVARIANT EmitOK
