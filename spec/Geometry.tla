------------------------------ MODULE Geometry ------------------------------
(* C08 -- rigid motions of a mesh as an exact group action.  The state is the affine map       *)
(* (A, b) accumulated by a sequence of public motions - translations with rational components, *)
(* rotations by the Pythagorean angle atan2(4, 3) about a coordinate axis through a rational    *)
(* centre, reflections through rational planes - applied to an integer domain.  Expected,        *)
(* exactly: node coordinates A X + b; measure unchanged (|det A| = 1); the boundary normals      *)
(* close the domain (int n dS = 0, int x.n dS = dim * measure > 0, also after a reflection);      *)
(* a nodal polynomial field evaluated at the moved query points returns the polynomial's value.   *)
EXTENDS Rat, FiniteSets, Sequences, TLC, Json

CONSTANTS MaxMoves, Motions, Emit
VARIABLES A, b, moves
vars == <<A, b, moves>>

I3 == << <<One, Zero, Zero>>, <<Zero, One, Zero>>, <<Zero, Zero, One>> >>
O3 == <<Zero, Zero, Zero>>
MatVec3(m, x) == [i \in 1..3 |-> Add3(Mul(m[i][1], x[1]), Mul(m[i][2], x[2]), Mul(m[i][3], x[3]))]
MatMul3(m, n) == [i \in 1..3 |-> [j \in 1..3 |-> Add3(Mul(m[i][1], n[1][j]), Mul(m[i][2], n[2][j]), Mul(m[i][3], n[3][j]))]]
VAdd3(x, y) == [i \in 1..3 |-> Add(x[i], y[i])]
VSub3(x, y) == [i \in 1..3 |-> Sub(x[i], y[i])]
Det3(m) == Add3(Mul(m[1][1], Sub(Mul(m[2][2], m[3][3]), Mul(m[2][3], m[3][2]))),
                Neg(Mul(m[1][2], Sub(Mul(m[2][1], m[3][3]), Mul(m[2][3], m[3][1])))),
                Mul(m[1][3], Sub(Mul(m[2][1], m[3][2]), Mul(m[2][2], m[3][1]))))

C35 == R(3, 5)  S45 == R(4, 5)
RotZ == << <<C35, Neg(S45), Zero>>, <<S45, C35, Zero>>, <<Zero, Zero, One>> >>
RotX == << <<One, Zero, Zero>>, <<Zero, C35, Neg(S45)>>, <<Zero, S45, C35>> >>
MirX == << <<RI(-1), Zero, Zero>>, <<Zero, One, Zero>>, <<Zero, Zero, One>> >>
MirY == << <<One, Zero, Zero>>, <<Zero, RI(-1), Zero>>, <<Zero, Zero, One>> >>

(* a motion x -> L (x - c) + c + t *)
Lin(mv) == CASE mv = "translate" -> I3 [] mv = "far" -> I3 [] mv = "rotz" -> RotZ [] mv = "rotx" -> RotX [] mv = "mirx" -> MirX [] mv = "miry" -> MirY
Cen(mv) == CASE mv = "translate" -> O3 [] mv = "far" -> O3 [] mv = "rotz" -> <<One, Half, Zero>> [] mv = "rotx" -> <<Zero, One, Half>> [] mv = "mirx" -> <<Half, Zero, Zero>> [] mv = "miry" -> <<Zero, RI(-1), Zero>>
(* "far": a translation by 100 000 in the plane - a rigid motion like any other; round-off on the moved points is then 1e-11, *)
(* so whatever the code compares with an absolute threshold near 1e-12 shows up                                              *)
Tra(mv) == IF mv = "translate" THEN <<R(3, 2), RI(-1), Half>> ELSE IF mv = "far" THEN <<RI(100000), RI(100000), Zero>> ELSE O3
InPlane(mv) == mv \in {"rotz", "mirx", "miry", "far"} \/ mv = "translate2"

Init == A = I3 /\ b = O3 /\ moves = <<>>
Move(mv) ==
    /\ Len(moves) < MaxMoves
    /\ LET L == Lin(mv)  c == Cen(mv)  t == Tra(mv) IN
         /\ A' = MatMul3(L, A)
         /\ b' = VAdd3(VAdd3(MatVec3(L, VSub3(b, c)), c), t)
    /\ moves' = Append(moves, mv)
Next == \E mv \in Motions : Move(mv)
Spec == Init /\ [][Next]_vars

(* the accumulated map is an isometry: A A^T = I, |det A| = 1 *)
Transp3(m) == [i \in 1..3 |-> [j \in 1..3 |-> m[j][i]]]
Isometry == MatMul3(A, Transp3(A)) = I3 /\ AbsR(Det3(A)) = One
(* orientation flips exactly with an odd number of reflections *)
Parity == Det3(A) = IF Cardinality({i \in 1..Len(moves) : moves[i] \in {"mirx", "miry"}}) % 2 = 1 THEN RI(-1) ELSE One

(* query points in the un-moved frame (pentagon (0,0) (4,0) (5,2) (2,4) (0,3), height 2): interior, on an edge, at a vertex *)
Queries == << <<One, One, Half>>, <<RI(2), R(3, 2), One>>, <<R(5, 2), Half, R(1, 4)>>, <<RI(2), Zero, Zero>>, <<Zero, Zero, Zero>>, <<R(7, 2), R(5, 2), One>> >>
EmitOK == Emit => PrintT(<<"FRAME", ToJson([moves |-> moves, A |-> A, b |-> b, det |-> Det3(A),
                                            queries |-> Queries, moved |-> [i \in 1..Len(Queries) |-> VAdd3(MatVec3(A, Queries[i]), b)]])>>)
=============================================================================
