------------------------------ MODULE HyperOps ------------------------------
(* C18 (contract table) -- which residual each nonlinear element operator returns, with respect to      *)
(* which unknown its tangent is a derivative, and with which sign and chain factor it enters the          *)
(* Newton matrix A = coefK K + coefC C + coefM M of the step.  A state is one configuration               *)
(* (operator, dimension, element type, time scheme, law); TLC enumerates all admissible ones and the        *)
(* harness differentiates the residual numerically (central differences, Richardson) on a randomly          *)
(* displaced mesh for each of them.  A second family of states lists free-motion programs                   *)
(* (law, stress option, time step, mesh) whose recorded energies Trace_HyperEnergy.tla judges.              *)
EXTENDS Integers, Sequences, FiniteSets, TLC, Json

CONSTANTS Elems2, Elems3, LawsAll, Emit, Thorough
VARIABLES cfg
vars == <<cfg>>

Operators == {"pointwise", "gonzalez", "gonzalez-inconsistent", "quad1", "quad2", "quad3", "quad4", "quad5", "quad6", "quad-adaptive", "active", "kelvinvoigt", "pressure", "contact"}
Quads == {"quad1", "quad2", "quad3", "quad4", "quad5", "quad6", "quad-adaptive"}
Schemes == {"static", "midpoint", "newmark", "hht"}

(* the step unknown is u_{n+1}; chain is the factor the simulation applies to the returned tangent *)
Chain(op, sch) == CASE sch = "static" -> "1" [] sch = "midpoint" -> "1/2" [] sch = "newmark" -> "1" [] sch = "hht" -> "1-alpha"
(* sign of the relation  chain x K_e = sign x d(returned vector)/d(u_{n+1}) : the stress operators return the residual R_e,   *)
(* the surface operators return the force that goes to the right-hand side (slot F), hence -1                                 *)
Sign(op) == IF op \in {"pressure", "contact"} THEN -1 ELSE 1
(* operators whose tangent is exact (Newton-consistent); the others document an approximation *)
Consistent(op) == op # "gonzalez-inconsistent"
(* the work of the returned internal force over the step equals the change of stored energy: the discrete gradient (any law), and    *)
(* every quadrature rule for a quadratic energy (its strain-path integrand is linear), under the midpoint scheme                       *)
DiscreteGradient(op, sch, law) == sch = "midpoint" /\ (op \in {"gonzalez", "gonzalez-inconsistent"} \/ (op \in Quads /\ law = "SVQ"))     \* SVQ: Saint-Venant-Kirchhoff without the volumetric term K/2 (I3 - 1)^2, the quadratic energy

Admissible(op, dim, el, sch, law) ==
    /\ (dim = 2 => el \in Elems2) /\ (dim = 3 => el \in Elems3)
    /\ (op \in {"gonzalez", "gonzalez-inconsistent"} => sch = "midpoint")                 \* rejected otherwise by the simulation
    /\ (op \in Quads => sch # "static")     \* a dynamic scheme is required
    /\ (op = "kelvinvoigt" => sch # "static")                                               \* needs a velocity
    /\ (op = "pressure" => dim = 3 /\ law = "NH")                                           \* surface operators do not depend on the law
    /\ (op = "contact" => law = "NH")
    /\ (op \in {"active", "kelvinvoigt"} => law \in {"NH", "SVK"})
    /\ (law = "SVQ" => op \in Quads)
    /\ (~Thorough => (sch \in {"static", "midpoint"} \/ op \in {"quad3", "pointwise"}))
    /\ (~Thorough => (law \in {"NH", "HO", "AD"} \/ op = "pointwise" \/ (law = "SVQ" /\ op \in Quads /\ sch = "midpoint" /\ el \in {"QUAD4", "HEXA8"})))

Configs == { c \in [op : Operators, dim : {2, 3}, el : Elems2 \cup Elems3, sch : Schemes, law : LawsAll] : Admissible(c.op, c.dim, c.el, c.sch, c.law) }

(* free-motion programs *)
(* save = k : the driver stores an iteration (Save_Iter) every k-th step only; the steps in between are solved all the same *)
Programs == { [law |-> l, opt |-> o, dt |-> d, mesh |-> m, save |-> k, conserving |-> (o \in {"gonzalez", "quad-adaptive", "quad3"} /\ (o = "quad3" => l = "SVK"))] :
              l \in {"NH", "SVK", "MR", "HO"}, o \in {"gonzalez", "quad-adaptive", "quad3", "pointwise"}, d \in {1, 2, 4}, m \in {"2D-QUAD4", "2D-TRI6", "3D-HEXA8"}, k \in {1, 3} }
ProgramOK(p) == /\ (p.opt = "quad3" => p.law \in {"SVK", "NH"})
                /\ (p.save = 3 => (p.mesh = "2D-QUAD4" /\ p.dt = 2 /\ (Thorough \/ p.law = "NH")))
                /\ (~Thorough => (p.mesh # "3D-HEXA8" \/ (p.law = "NH" /\ p.dt = 2)) /\ (p.law \in {"NH", "SVK"} \/ (p.opt = "gonzalez" /\ p.dt = 2 /\ p.mesh = "2D-QUAD4")))

Init == cfg \in [kind : {"config"}, c : Configs] \cup [kind : {"program"}, c : {p \in Programs : ProgramOK(p)}]
Next == UNCHANGED cfg
Spec == Init /\ [][Next]_vars

(* every operator appears, in both dimensions where it exists *)
TypeOK == cfg.kind \in {"config", "program"}
EmitOK == Emit => IF cfg.kind = "config"
                  THEN PrintT(<<"CONFIG", ToJson([c |-> cfg.c, chain |-> Chain(cfg.c.op, cfg.c.sch), sign |-> Sign(cfg.c.op), consistent |-> Consistent(cfg.c.op), identity |-> DiscreteGradient(cfg.c.op, cfg.c.sch, cfg.c.law)])>>)
                  ELSE PrintT(<<"PROGRAM", ToJson(cfg.c)>>)
=============================================================================
