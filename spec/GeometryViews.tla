--------------------------- MODULE GeometryViews ---------------------------
(* C08 -- Geometry.tla extended with LOOKING at a mesh in a moved configuration.  Several queries take a nodal          *)
(* displacement field (Get_normals_e_pg / Get_GaussCoordinates_e_pg / Mesh.Get_normals with `displacementMatrix`):     *)
(* they answer for the configuration X + U without moving anything.  A view is therefore not a motion:                 *)
(*     View(mv)   the accumulated frame (A, b) is what it was; only the history records the view.                      *)
(* TLC: PureView (action property) and FrameIsFoldOfMoves (the frame is the composition of the MOTIONS of the history,  *)
(* whatever views lie in between).  The harness replays every history on real meshes: a view with the rigid map of mv    *)
(* as displacement field must return the normals / Gauss points of the moved configuration, twice in a row, and all     *)
(* later answers (coordinates, measure, closure of the normals, point location) are those of the frame (A, b).          *)
EXTENDS Geometry
CONSTANTS Views, MaxViews
VARIABLES hist
varsV == <<A, b, moves, hist>>

InitV == Init /\ hist = <<>>
NViews == Cardinality({i \in 1..Len(hist) : hist[i][1] = "view"})
MoveV(mv) == Move(mv) /\ hist' = Append(hist, <<"move", mv>>)
View(mv) == NViews < MaxViews /\ hist' = Append(hist, <<"view", mv>>) /\ UNCHANGED <<A, b, moves>>
NextV == (\E mv \in Motions : MoveV(mv)) \/ (\E mv \in Views : View(mv))
SpecV == InitV /\ [][NextV]_varsV

PureView == [][(Len(hist') > Len(hist) /\ hist'[Len(hist')][1] = "view") => (A' = A /\ b' = b)]_varsV

(* composition of the motions of the history, in order *)
StepA(mv, a) == MatMul3(Lin(mv), a)
StepB(mv, bb) == VAdd3(VAdd3(MatVec3(Lin(mv), VSub3(bb, Cen(mv))), Cen(mv)), Tra(mv))
MovesOf == SelectSeq(hist, LAMBDA h : h[1] = "move")
FoldA[n \in 0..Len(MovesOf)] == IF n = 0 THEN I3 ELSE StepA(MovesOf[n][2], FoldA[n - 1])
FoldB[n \in 0..Len(MovesOf)] == IF n = 0 THEN O3 ELSE StepB(MovesOf[n][2], FoldB[n - 1])
FrameIsFoldOfMoves == A = FoldA[Len(MovesOf)] /\ b = FoldB[Len(MovesOf)] /\ Len(MovesOf) = Len(moves)

EmitV == Emit => PrintT(<<"VFRAME", ToJson([moves |-> moves, hist |-> hist, A |-> A, b |-> b, det |-> Det3(A),
                                            maps |-> [mv \in Views |-> [L |-> Lin(mv), c |-> Cen(mv), t |-> Tra(mv)]],
                                            queries |-> Queries, moved |-> [i \in 1..Len(Queries) |-> VAdd3(MatVec3(A, Queries[i]), b)]])>>)
=============================================================================
