SPECIFICATION Spec
INVARIANT UnitLaw
INVARIANT Report
