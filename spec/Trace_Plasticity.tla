-------------------------- MODULE Trace_Plasticity --------------------------
(* Validation of constitutive-integration traces recorded from the library for every         *)
(* combination of yield surface, hardening, rate law and Maxwell branches (direction B).      *)
(* Laws without a closed form cannot be modelled exactly; the recorder reduces every step to   *)
(* the relations the property states (signs, counts, defect classes) and TLC requires them at  *)
(* EVERY step of every trace.                                                                  *)
EXTENDS Integers, Sequences, FiniteSets, TLC, Json, IOUtils
Traces == JsonDeserialize(IOEnv.PLASTICITY_TRACES)
VARIABLE k
vars == <<k>>
Tr == Traces[k]
Steps == {Tr.steps[i] : i \in 1..Len(Tr.steps)}
Bad(field) == {s.n : s \in {x \in Steps : x[field] # 1}}
Verdict == [id |-> Tr.id,
            admissible |-> Bad("admissible"),        \* f <= tol (rate independent only)
            multiplier |-> Bad("dp_nonneg"),         \* increments of the accumulated plastic strain >= 0
            traceless |-> Bad("traceless"),          \* von Mises / Hill plastic strain is deviatoric
            dissipation |-> Bad("dissipation"),      \* (sigma - X) : d eps_p - R dp >= 0
            tangent |-> Bad("tangent"),              \* algorithmic tangent = d sigma / d eps (finite differences, class 1 = consistent)
            solvers |-> Bad("solvers"),              \* both local solvers agree
            planestress |-> Bad("planestress"),      \* no out-of-plane stress in plane stress
            pure |-> Bad("pure"),                    \* Integrate left the committed state untouched
            nsteps |-> Cardinality(Steps)]
Init == k = 1
Next == k < Len(Traces) /\ k' = k + 1
Spec == Init /\ [][Next]_vars
Report == PrintT(<<"VERDICT", ToJson(Verdict)>>)
=============================================================================
