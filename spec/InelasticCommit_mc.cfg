SPECIFICATION Spec
CONSTANTS
  MaxSolve = 4
  MaxIter = 3
  Emit = FALSE
VIEW view
PROPERTY Pure
PROPERTY Commit
PROPERTY StoreFrozen

