SPECIFICATION Spec2
CONSTANTS
  MaxMoves = 2
  Motions = {"translate", "rotz", "rotx", "mirx", "miry"}
  Partial = FALSE
  Emit = TRUE
INVARIANT AllFramesEqual
INVARIANT Isometry
INVARIANT EmitFrame
INVARIANT EmitForms
