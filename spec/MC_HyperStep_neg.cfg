SPECIFICATION Spec
CONSTANTS
  Laws = {"cubic", "svk", "vol"}
  Options = {"pointwise", "gonzalez", "quad1", "quad2", "quad3", "quad4", "quadA"}
  Schemes = {"midpoint", "newmark", "hht"}
  U0s <- MCU0q
  U1s <- MCU1q
  Dts <- MCDtq
  Emit = TRUE
  Claim = "pointwise-conserves"
INVARIANT TangentIsDerivative
INVARIANT DiscreteGradient
INVARIANT Conservation
INVARIANT IsMidpointStep
INVARIANT RestIsPointwise
INVARIANT EmitOK
CHECK_DEADLOCK FALSE
