SPECIFICATION Spec
CONSTANTS
  MeshName = "mixed"
  N = 3
  GhostsByType = FALSE
  SegFollows = TRUE
INVARIANT Elems
INVARIANT NodesOK
INVARIANT Rows
