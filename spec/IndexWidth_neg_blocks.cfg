SPECIFICATION Spec
CONSTANTS
  Sizes = {1, 2, 3, 4, 5, 6, 7, 8, 11, 12}
  Widths = {4, 5, 6, 7, 8}
  Emit = FALSE
INVARIANT PairedStartsCover
