SPECIFICATION Spec
CONSTANTS
  MeshName = "tris"
  N = 3
  GhostsByType = FALSE
  SegFollows = TRUE
INVARIANT Elems
INVARIANT NodesOK
INVARIANT Rows
