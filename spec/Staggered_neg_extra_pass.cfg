SPECIFICATION Spec
CONSTANTS
  MaxIter = 4
  Solver = "History"
  Defect = "extra_pass"
INVARIANT LastPair
INVARIANT Bounded
INVARIANT FlagHonest
PROPERTY FirstHit
CHECK_DEADLOCK FALSE
