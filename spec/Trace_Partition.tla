-------------------------- MODULE Trace_Partition --------------------------
(* Validation of partitions recorded from the real mesher (direction B).  Each record holds  *)
(* the global connectivity per element type in processing order and, per (type, rank), the    *)
(* five arrays the library stores (owned elements, ghost elements, owned nodes, ghost nodes).  *)
(* Given the element assignment the outcome is deterministic: TLC recomputes owned nodes and   *)
(* ghost layers with the operators of Partition.tla, compares them with what was recorded and   *)
(* evaluates the partition invariants.  Node / element ids are shifted to 1-based.              *)
EXTENDS Partition, Json, IOUtils

Recs == JsonDeserialize(IOEnv.PARTITION_TRACES)

VARIABLE k
vars == <<k>>

ToSet(s) == {s[i] : i \in 1..Len(s)}
Rc == Recs[k]
Mesh == [nn |-> Rc.nn, types |-> [t \in 1..Len(Rc.types) |-> [dim |-> Rc.types[t].dim, elems |-> [e \in 1..Len(Rc.types[t].elems) |-> ToSet(Rc.types[t].elems[e])]]]]
NP == Rc.nproc
Own == [t \in 1..Len(Rc.types) |-> [r \in 1..NP |-> ToSet(Rc.types[t].ranks[r].own)]]

NodesMatch == \A t \in 1..Len(Rc.types) : \A r \in 1..NP : OwnedNodes(Mesh, Own, NP, t, r) = ToSet(Rc.types[t].ranks[r].nodes)
GhostsMatch == \A t \in 1..Len(Rc.types) : \A r \in 1..NP : Ghosts(Mesh, Own, NP, t, r) = ToSet(Rc.types[t].ranks[r].ghost)
GhostNodesMatch == \A t \in 1..Len(Rc.types) : \A r \in 1..NP :
    ToSet(Rc.types[t].ranks[r].ghostNodes) =
       NodesOf(Mesh.types[t].elems, Own[t][r] \cup ToSet(Rc.types[t].ranks[r].ghost)) \ ToSet(Rc.types[t].ranks[r].nodes)

Verdict == [id |-> Rc.id,
            nodesMatch |-> NodesMatch, ghostsMatch |-> GhostsMatch, ghostNodesMatch |-> GhostNodesMatch,
            elems |-> ElemsPartitioned(Mesh, Own, NP), nodes |-> NodesPartitioned(Mesh, Own, NP),
            rows |-> RowComplete(Mesh, Own, NP), minimal |-> GhostMinimal(Mesh, Own, NP)]

Init == k = 1
Next == k < Len(Recs) /\ k' = k + 1
Spec == Init /\ [][Next]_vars
Report == PrintT(<<"VERDICT", ToJson(Verdict)>>)
=============================================================================
