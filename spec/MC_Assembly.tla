----------------------------- MODULE MC_Assembly -----------------------------
EXTENDS Assembly
(* mesh variants; node ids 0-based as in the code.  group 1 = cells, group 2 = boundary group (user subclass), ... *)
G(npe, elems) == [npe |-> npe, elems |-> elems]
MeshDefs ==
  [ chain   |-> [nn |-> 4, groups |-> << G(2, << <<0,1>>, <<1,2>>, <<2,3>> >>), G(1, << <<0>>, <<3>> >>) >>],
    perm    |-> [nn |-> 4, groups |-> << G(2, << <<2,0>>, <<0,3>>, <<3,1>> >>), G(1, << <<2>>, <<1>> >>) >>],   \* chain renumbered by (2,0,3,1)
    orphan  |-> [nn |-> 4, groups |-> << G(2, << <<0,1>>, <<1,3>> >>), G(1, << <<3>> >>) >>],                    \* node 2 unused
    mixed   |-> [nn |-> 5, groups |-> << G(4, << <<0,1,2,3>> >>), G(3, << <<1,4,2>> >>), G(2, << <<0,1>>, <<1,4>> >>) >>] ]  \* QUAD4 + TRI3 + SEG2 boundary
Names == {"chain", "perm", "orphan", "mixed"}
NamesQuick == {"perm", "mixed"}
NamesNeg == {"chain"}
OrdersAll == [chain |-> {<<1,2>>, <<2,1>>}, perm |-> {<<1,2>>, <<2,1>>}, orphan |-> {<<1,2>>, <<2,1>>}, mixed |-> {<<1,2,3>>, <<2,1,3>>, <<3,1,2>>}]
OrdersCanon == [chain |-> {<<1,2>>}, perm |-> {<<1,2>>}, orphan |-> {<<1,2>>}, mixed |-> {<<1,2,3>>}]
Pat(k, c, m, f) == [K |-> k, C |-> c, M |-> m, F |-> f]
(* positions of the order contributing to each slot: all groups; cells only for M (boundary group gives None); F from the boundary only; nothing for C *)
PatternsAll == {Pat({1,2,3}, {1,2,3}, {1,2,3}, {1,2,3}), Pat({1,2,3}, {}, {1}, {2,3}), Pat({1,2}, {2}, {1,3}, {1}), Pat({2,3}, {1,2,3}, {}, {3})}
PatternsTwo == {Pat({1,2,3}, {1,2,3}, {1,2,3}, {1,2,3}), Pat({1,2,3}, {}, {1}, {2,3})}

(* theorem-like check: renumbering the nodes permutes the assembled matrix and changes nothing else *)
PermOf == <<2, 0, 3, 1>>   \* node i of "chain" is node PermOf[i+1] of "perm"
PermDof(d, r) == PermOf[(r \div d) + 1] * d + (r % d)
RenumberTheorem ==
    \A d \in {1, 2} : \A pos \in {{1}, {1, 2}, {2}} :
        LET A == Mat(Flat("chain", d, Sub(<<1,2>>, pos), TRUE), 4 * d, 4 * d, 1, 1, 0, FALSE, <<>>)
            B == Mat(Flat("perm", d, Sub(<<1,2>>, pos), TRUE), 4 * d, 4 * d, 1, 1, 0, FALSE, <<>>)
        IN  \A r, c \in 0..(4 * d - 1) : B[PermDof(d, r) + 1][PermDof(d, c) + 1] = A[r + 1][c + 1]
ASSUME RenumberTheorem
=============================================================================
