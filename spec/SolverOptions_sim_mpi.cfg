SPECIFICATION Spec
CONSTANTS
  Mpi = TRUE
  Problems = {"elastic", "damage"}
  Ksps = {"cg", "preonly", "bogus"}
  Pcs = {"gamg", "lu", "sor"}
  Backends = {"petsc", "mumps"}
  Defect = "none"
  Depth = 8
INVARIANT StoredValid
INVARIANT EmitBehaviour
PROPERTY RefusalIsNoOp
PROPERTY Targeted
CHECK_DEADLOCK FALSE
