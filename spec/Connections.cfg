SPECIFICATION Spec
CONSTANTS
  Emit = TRUE
INVARIANT Sound
INVARIANT EmitOK
