SPECIFICATION Spec
INVARIANT Report
