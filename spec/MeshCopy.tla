------------------------------ MODULE MeshCopy ------------------------------
(* C14 / C08 -- a mesh and its copies.  Mesh.copy() gives an independent mesh: what is computed on one (the geometry     *)
(* matrices every element group caches: Jacobians, their inverses, shape-function gradients, B matrices, measures) and    *)
(* what moves one never shows on the other.  State per mesh slot m:                                                        *)
(*     live[m]  the slot holds a mesh          gv[m]  version of its geometry          cv[m]  geometry version the cached  *)
(*     matrices were computed from (-1: nothing cached)            grp[m]  the slots whose cache is ONE object with m's     *)
(* Actions: Compute(m) (any query that fills / reads the cache), Move(m) (a motion other than a translation: the cache is   *)
(* dropped), Copy(m, n) (slot n := copy of m; the copy carries m's cached matrices - same geometry, so they are right).     *)
(* Defect = "shared_cache": the copy holds the SAME cache object as the original (filling or emptying it through one mesh    *)
(* fills / empties it for the other).  Invariant ReadCurrent: what a query on m reads was computed from m's geometry.         *)
EXTENDS Integers, Sequences, FiniteSets, TLC, Json
CONSTANTS Slots, MaxOps, MaxVer, Defect, Emit
VARIABLES live, gv, cv, grp, hist
vars == <<live, gv, cv, grp, hist>>

First == CHOOSE m \in Slots : \A n \in Slots : m <= n
Init == /\ live = [m \in Slots |-> m = First]
        /\ gv = [m \in Slots |-> 0] /\ cv = [m \in Slots |-> -1]
        /\ grp = [m \in Slots |-> {m}] /\ hist = <<>>
Bound == Len(hist) < MaxOps

Compute(m) ==
    /\ Bound /\ live[m]
    /\ cv' = IF cv[m] # -1 THEN cv ELSE [n \in Slots |-> IF n \in grp[m] THEN gv[m] ELSE cv[n]]
    /\ hist' = Append(hist, <<"Compute", m, m>>)
    /\ UNCHANGED <<live, gv, grp>>
Move(m) ==
    /\ Bound /\ live[m] /\ gv[m] < MaxVer
    (* geometry versions are global names: a moved mesh gets a version no other slot has *)
    /\ LET new == 1 + CHOOSE v \in 0..(MaxVer * Cardinality(Slots)) : (\A n \in Slots : gv[n] <= v) /\ (\E n \in Slots : gv[n] = v) IN
         gv' = [gv EXCEPT ![m] = new]
    /\ cv' = [n \in Slots |-> IF n \in grp[m] THEN -1 ELSE cv[n]]
    /\ hist' = Append(hist, <<"Move", m, m>>)
    /\ UNCHANGED <<live, grp>>
Copy(m, n) ==
    /\ Bound /\ live[m] /\ ~live[n] /\ m # n
    /\ live' = [live EXCEPT ![n] = TRUE]
    /\ gv' = [gv EXCEPT ![n] = gv[m]]
    /\ cv' = [cv EXCEPT ![n] = cv[m]]
    /\ grp' = IF Defect = "shared_cache"
              THEN [k \in Slots |-> IF k \in grp[m] \cup {n} THEN grp[m] \cup {n} ELSE grp[k]]
              ELSE grp
    /\ hist' = Append(hist, <<"Copy", m, n>>)
Next == \E m \in Slots : Compute(m) \/ Move(m) \/ \E n \in Slots : Copy(m, n)
Spec == Init /\ [][Next]_vars

ReadCurrent == \A m \in Slots : live[m] => cv[m] \in {-1, gv[m]}
Independent == \A m \in Slots : grp[m] = {m}
EmitOK == (Emit /\ Len(hist) = MaxOps) => PrintT(<<"OPS", ToJson([ops |-> hist])>>)
=============================================================================
