SPECIFICATION Spec
CONSTANT TolPpb = 100
INVARIANT Report
