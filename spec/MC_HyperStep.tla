---------------------------- MODULE MC_HyperStep ----------------------------
(* model values for HyperStep.tla (sets of rationals cannot be written in a cfg file) *)
EXTENDS HyperStep
MCU0q == {R(-1, 2), Zero, Half}
MCU1q == {R(-1, 2), Zero, Half, One}
MCDtq == {Half, Two}
MCU0t == {R(-1, 2), Zero, Half, One}
MCU1t == {R(-1, 2), Zero, Half, One, R(3, 2)}
MCDtt == {R(1, 4), Half, One, Two}
=============================================================================
