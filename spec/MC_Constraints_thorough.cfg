SPECIFICATION Spec
CONSTANTS
  SysNames <- Names
  SysDef <- Systems
  DirChoices <- Dirs
  NeuChoices <- Neus
  MaxConds = 4
  MaxRounds = 1
  Emit = TRUE
INVARIANT Holds
INVARIANT EmitOK
