---------------------------- MODULE Plasticity1D ----------------------------
(* C19 -- rate-independent von Mises plasticity with linear isotropic (H) and linear        *)
(* kinematic (Prager, C) hardening under UNIAXIAL STRESS, integrated exactly over rationals.  *)
(*   sigma = E (eps - epsp),   f = |sigma - C epsp| - (sigy + H p)                            *)
(*   (the 3-D back stress is X = 2/3 C epsp; its axial effect on the uniaxial test is C epsp) *)
(* closed-form return map:  dgamma = <f_trial> / (E + C + H),  depsp = dgamma sign(xi_trial)  *)
(* TLC explores every strain path of the increment lattice and checks admissibility,          *)
(* consistency, monotonicity of the accumulated plastic strain, non-negative dissipation and  *)
(* the algorithmic tangent; every path is then replayed through the library's 3-D code         *)
(* (MaterialPoint under uniaxial stress, both local solvers) and through the plane-stress      *)
(* integration.                                                                                *)
EXTENDS Rat, TLC, Json

CONSTANTS Materials,   \* set of records [E, sigy, H, C] (rationals)
          Incs,        \* strain increments
          Depth, Emit

VARIABLES mat, eps, epsp, p, sig, hist
vars == <<mat, eps, epsp, p, sig, hist>>

Xi(m, s, ep) == Sub(s, Mul(m.C, ep))
F(m, s, ep, pp) == Sub(AbsR(Xi(m, s, ep)), Add(m.sigy, Mul(m.H, pp)))

StepRec(m, e0, ep0, p0, de) ==
    LET e1 == Add(e0, de)
        str == Mul(m.E, Sub(e1, ep0))
        xtr == Xi(m, str, ep0)
        ftr == F(m, str, ep0, p0)
        dg == IF IsPos(ftr) THEN Div(ftr, Add3(m.E, m.C, m.H)) ELSE Zero
        sg == RI(Sign(xtr))
        ep1 == Add(ep0, Mul(dg, sg))
        p1 == Add(p0, dg)
        s1 == Mul(m.E, Sub(e1, ep1))
        tan == IF IsPos(ftr) THEN Div(Mul(m.E, Add(m.H, m.C)), Add3(m.E, m.H, m.C)) ELSE m.E
    IN  [deps |-> de, eps |-> e1, sig |-> s1, epsp |-> ep1, p |-> p1, dgamma |-> dg, ftrial |-> ftr,
         f |-> F(m, s1, ep1, p1), tangent |-> tan,
         dissipation |-> Sub(Sub(Mul(s1, Sub(ep1, ep0)), Mul3(m.C, ep1, Sub(ep1, ep0))), Mul3(m.H, p1, dg))]

Init == /\ mat \in Materials /\ eps = Zero /\ epsp = Zero /\ p = Zero /\ sig = Zero /\ hist = <<>>
Step(de) ==
    /\ Len(hist) < Depth
    /\ LET r == StepRec(mat, eps, epsp, p, de) IN
         /\ eps' = r.eps /\ epsp' = r.epsp /\ p' = r.p /\ sig' = r.sig
         /\ hist' = Append(hist, r)
    /\ UNCHANGED mat
Next == \E de \in Incs : Step(de)
Spec == Init /\ [][Next]_vars

Last == hist[Len(hist)]
Admissible    == hist # <<>> => ~IsPos(Last.f)                                    \* stress on or inside the yield surface
MultiplierPos == hist # <<>> => ~IsPos(Neg(Last.dgamma))                           \* dgamma >= 0
Consistency   == hist # <<>> => (IsPos(Last.dgamma) => IsZero(Last.f))             \* dgamma * f = 0
Dissipative   == hist # <<>> => ~IsPos(Neg(Last.dissipation))
(* with these linear laws the dissipation increment is sigy * dgamma *)
DissipationIs == hist # <<>> => Last.dissipation = Mul(mat.sigy, Last.dgamma)
PMonotone     == [][Leq(p, p')]_vars
(* no yield surface reached: exactly linear elastic *)
ElasticExact  == (hist # <<>> /\ IsZero(p)) => sig = Mul(mat.E, eps)
EmitOK == (Emit /\ Len(hist) = Depth) => PrintT(<<"PATH", ToJson([mat |-> mat, steps |-> hist])>>)
=============================================================================
