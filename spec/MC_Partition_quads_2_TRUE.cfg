SPECIFICATION Spec
CONSTANTS
  MeshName = "quads"
  N = 2
  GhostsByType = FALSE
  SegFollows = TRUE
INVARIANT Elems
INVARIANT NodesOK
INVARIANT Rows
