------------------------ MODULE Trace_PhaseFieldHist ------------------------
(* Validation of traces recorded from real phase-field runs (direction B): each saved step       *)
(* carries counts computed from the STORED iterations.                                            *)
EXTENDS Integers, Sequences, FiniteSets, TLC, Json, IOUtils
Traces == JsonDeserialize(IOEnv.PF_TRACES)
VARIABLE k
vars == <<k>>
Tr == Traces[k]
Steps == {Tr.steps[i] : i \in 1..Len(Tr.steps)}
Verdict == [id |-> Tr.id, solver |-> Tr.solver,
            historyDecreased |-> {s.n : s \in {x \in Steps : Tr.solver = "History" /\ x.hist_decreased > 0}},
            damageDecreased  |-> {s.n : s \in {x \in Steps : Tr.solver # "History" /\ x.damage_decreased > 0}},   \* the damage-based solvers
            damageWithoutLoad |-> {s.n : s \in {x \in Steps : x.loaded_so_far = 0 /\ x.damage_positive > 0}},
            damageOutOfRange |-> {s.n : s \in {x \in Steps : x.damage_out_of_range > 0}},
            nsteps |-> Cardinality(Steps)]
Init == k = 1
Next == k < Len(Traces) /\ k' = k + 1
Spec == Init /\ [][Next]_vars
Report == PrintT(<<"VERDICT", ToJson(Verdict)>>)
=============================================================================
