SPECIFICATION Spec
CONSTANTS
  MeshName = "tris"
  N = 2
  GhostsByType = FALSE
  SegFollows = TRUE
INVARIANT Elems
INVARIANT NodesOK
INVARIANT Rows
