SPECIFICATION Spec
CONSTANTS
  MaxIter = 4
  Solver = "History"
  Defect = "none"
INVARIANT LastPair
INVARIANT Bounded
INVARIANT FlagHonest
PROPERTY FirstHit
CHECK_DEADLOCK FALSE
