SPECIFICATION Spec
INVARIANT Report
