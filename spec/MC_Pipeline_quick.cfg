SPECIFICATION SpecP
CONSTANTS
  Elems2D = {"TRI3", "TRI6", "QUAD4", "QUAD8"}
  Elems3D = {"TETRA4", "HEXA8", "PRISM6"}
  Elems1D = {"SEG2", "SEG3", "SEG4", "SEG5"}
  Laws = {"iso", "ortho"}
  MeshKinds = {"unstructured", "renumbered", "mixed"}
  Maps = {"id", "shear", "mirror"}
  Fields2 <- F2
  Fields3 <- F3
  Emit = TRUE
INVARIANT OracleOK
INVARIANT EmitOK
