SPECIFICATION Spec
CONSTANTS
  Materials <- MatsT
  Incs <- IncsT
  Depth = 5
  Emit = TRUE
INVARIANT Admissible
INVARIANT MultiplierPos
INVARIANT Consistency
INVARIANT Dissipative
INVARIANT DissipationIs
INVARIANT ElasticExact
INVARIANT EmitOK
PROPERTY PMonotone
