SPECIFICATION Spec
CONSTANTS
  Materials <- MatsQ
  Incs <- IncsT
  Depth = 5
  Emit = TRUE
INVARIANT Admissible
INVARIANT MultiplierPos
INVARIANT Consistency
INVARIANT Dissipative
INVARIANT DissipationIs
INVARIANT ElasticExact
INVARIANT EmitOK
PROPERTY PMonotone
