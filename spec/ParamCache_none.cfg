SPECIFICATION Spec
CONSTANTS
  MaxOps = 5
  Defect = "none"
  Emit = TRUE
INVARIANT FlagSound
INVARIANT EmitOK
PROPERTY ReadIsCurrent
CHECK_DEADLOCK FALSE
