SPECIFICATION Spec
CONSTANTS
  MaxSolve = 8
  MaxIter = 5
  Emit = TRUE

PROPERTY Pure
PROPERTY Commit
PROPERTY StoreFrozen
INVARIANT EmitOK
