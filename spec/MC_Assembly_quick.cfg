SPECIFICATION Spec
CONSTANTS
  MeshNames <- NamesQuick
  MeshDef <- MeshDefs
  DofNs = {1, 2}
  Orders <- OrdersAll
  Patterns <- PatternsTwo
  MaxAsm = 2
  Complex = {"real"}
  Defect = "none"
  Emit = FALSE
VIEW view
INVARIANT Exact
INVARIANT MemoCurrent
