---------------------------- MODULE ElasticLaws ----------------------------
(* C11 -- linear elastic laws over exact rationals.  For every case (law class, engineering   *)
(* constants, material axes given as an orthonormal rational frame P, dimension, 2-D          *)
(* assumption) the module computes the COMPLIANCE in engineering (Voigt) notation in global   *)
(* axes:  S' = N(P) S N(P)^T  with S the documented compliance in material axes and N the      *)
(* strain (Bond) transformation built from P.  Plane stress = the (xx, yy, xy) sub-block.       *)
(* The harness records the compliance the library reports (Kelvin-Mandel converted to           *)
(* engineering components and snapped to rationals) and TLC compares exactly (direction B).     *)
EXTENDS Rat, FiniteSets, TLC, Json, IOUtils

Cases == JsonDeserialize(IOEnv.LAW_CASES)
VARIABLE k
vars == <<k>>
Cs == Cases[k]

Z6 == [i \in 1..6 |-> [j \in 1..6 |-> Zero]]
Set6(m, i, j, v) == [m EXCEPT ![i][j] = v]
Sym(m, i, j, v) == [[m EXCEPT ![i][j] = v] EXCEPT ![j][i] = v]
RECURSIVE Fill(_, _)
Fill(m, entries) == IF entries = <<>> THEN m ELSE Fill(Sym(m, entries[1][1], entries[1][2], entries[1][3]), Tail(entries))

(* documented compliances in material axes, engineering notation [11, 22, 33, 23, 13, 12] (shear: 1/G) *)
SIso(p) == LET e == p.E  v == p.v  g == Div(e, Mul(Two, Add(One, v))) IN
    Fill(Z6, << <<1,1,Inv(e)>>, <<2,2,Inv(e)>>, <<3,3,Inv(e)>>, <<1,2,Neg(Div(v,e))>>, <<1,3,Neg(Div(v,e))>>, <<2,3,Neg(Div(v,e))>>,
                <<4,4,Inv(g)>>, <<5,5,Inv(g)>>, <<6,6,Inv(g)>> >>)
STI(p) == LET gt == Div(p.Et, Mul(Two, Add(One, p.vt))) IN
    Fill(Z6, << <<1,1,Inv(p.El)>>, <<2,2,Inv(p.Et)>>, <<3,3,Inv(p.Et)>>, <<1,2,Neg(Div(p.vl,p.El))>>, <<1,3,Neg(Div(p.vl,p.El))>>, <<2,3,Neg(Div(p.vt,p.Et))>>,
                <<4,4,Inv(gt)>>, <<5,5,Inv(p.Gl)>>, <<6,6,Inv(p.Gl)>> >>)
SOrtho(p) ==
    Fill(Z6, << <<1,1,Inv(p.E1)>>, <<2,2,Inv(p.E2)>>, <<3,3,Inv(p.E3)>>, <<1,2,Neg(Div(p.v12,p.E1))>>, <<1,3,Neg(Div(p.v13,p.E1))>>, <<2,3,Neg(Div(p.v23,p.E2))>>,
                <<4,4,Inv(p.G23)>>, <<5,5,Inv(p.G13)>>, <<6,6,Inv(p.G12)>> >>)
SMat(c) == CASE c.cls = "Isotropic" -> SIso(c.prm) [] c.cls = "TransverselyIsotropic" -> STI(c.prm) [] c.cls = "Orthotropic" -> SOrtho(c.prm)
             [] c.cls = "Anisotropic" -> c.prm.S     \* the user gives the law itself: its compliance is part of the case

(* Voigt index -> tensor index pair *)
VI == << <<1,1>>, <<2,2>>, <<3,3>>, <<2,3>>, <<1,3>>, <<1,2>> >>
IsShear(I) == I > 3
(* strain transformation for engineering components: eps'_I = sum_J N[I][J] eps_J, with a = P (columns = material axes in global components) *)
NBond(P) ==
    [I \in 1..6 |-> [J \in 1..6 |->
        LET i == VI[I][1]  j == VI[I][2]  kk == VI[J][1]  l == VI[J][2]
            base == Add(Mul(P[i][kk], P[j][l]), IF kk # l THEN Mul(P[i][l], P[j][kk]) ELSE Zero)
        IN  Mul3(IF IsShear(I) THEN Two ELSE One, base, IF IsShear(J) THEN Half ELSE One)]]

RECURSIVE SumTo(_, _, _)
SumTo(f(_), n, i) == IF i > n THEN Zero ELSE Add(f(i), SumTo(f, n, i + 1))
MatMul6(A, B) == [i \in 1..6 |-> [j \in 1..6 |-> LET t(x) == Mul(A[i][x], B[x][j]) IN SumTo(t, 6, 1)]]
Transp6(A) == [i \in 1..6 |-> [j \in 1..6 |-> A[j][i]]]

SGlobal(c) == LET N == NBond(c.P) IN MatMul6(MatMul6(N, SMat(c)), Transp6(N))
Sub3 == <<1, 2, 6>>
SPlaneStress(c) == LET s == SGlobal(c) IN [i \in 1..3 |-> [j \in 1..3 |-> s[Sub3[i]][Sub3[j]]]]

Orthonormal(P) == \A i, j \in 1..3 : LET t(x) == Mul(P[x][i], P[x][j]) IN SumTo(t, 3, 1) = IF i = j THEN One ELSE Zero

Expected == IF Cs.dim = 3 THEN SGlobal(Cs) ELSE SPlaneStress(Cs)
Size == IF Cs.dim = 3 THEN 6 ELSE 3
Mismatch == IF Cs.dim = 2 /\ ~Cs.planeStress THEN {}      \* plane strain: decided numerically from the 3-D law (needs a 3x3 inverse)
            ELSE {<<i, j>> \in (1..Size) \X (1..Size) : Expected[i][j] # Cs.Sobs[i][j]}
Verdict == [id |-> Cs.id, frameOK |-> Orthonormal(Cs.P), mismatch |-> Mismatch,
            expected |-> [i \in 1..6 |-> [j \in 1..6 |-> SGlobal(Cs)[i][j]]]]

(* units: the compliance is homogeneous of degree -1 in the moduli (the same material with its moduli written in Pa instead *)
(* of GPa): S(k * moduli) = S(moduli) / k.  Checked here for k = 2 on the documented compliances; the harness builds every    *)
(* parametric case a second time with its moduli multiplied by 2^40 and multiplies the reported compliance back, so that an   *)
(* absolute threshold on a compliance or stiffness entry shows as a mismatch against the SAME exact expectation.              *)
Moduli == {"E", "El", "Et", "Gl", "E1", "E2", "E3", "G23", "G13", "G12"}
ScalePrm(p, kk) == [f \in DOMAIN p |-> IF f \in Moduli THEN Mul(kk, p[f]) ELSE p[f]]
UnitLaw == (Cs.cls # "Anisotropic") =>
    LET s1 == SMat(Cs)  s2 == SMat([Cs EXCEPT !.prm = ScalePrm(Cs.prm, Two)])
    IN  \A i, j \in 1..6 : s2[i][j] = Mul(Half, s1[i][j])

Init == k = 1
Next == k < Len(Cases) /\ k' = k + 1
Spec == Init /\ [][Next]_vars
Report == PrintT(<<"VERDICT", ToJson(Verdict)>>)
=============================================================================
