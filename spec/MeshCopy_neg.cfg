SPECIFICATION Spec
CONSTANTS
  Slots = {1, 2, 3}
  MaxOps = 6
  MaxVer = 3
  Defect = "shared_cache"
  Emit = FALSE
INVARIANT ReadCurrent
INVARIANT EmitOK
CHECK_DEADLOCK FALSE
