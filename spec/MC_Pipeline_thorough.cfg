SPECIFICATION SpecP
CONSTANTS
  Elems2D = {"TRI3", "TRI6", "TRI10", "TRI15", "QUAD4", "QUAD8", "QUAD9"}
  Elems3D = {"TETRA4", "TETRA10", "HEXA8", "HEXA20", "HEXA27", "PRISM6", "PRISM15", "PRISM18"}
  Elems1D = {"SEG2", "SEG3", "SEG4", "SEG5"}
  Laws = {"iso", "ti", "ortho", "aniso"}
  MeshKinds = {"unstructured", "renumbered", "mixed"}
  Maps = {"id", "shear", "mirror"}
  Fields2 <- F2
  Fields3 <- F3
  Emit = TRUE
INVARIANT OracleOK
INVARIANT EmitOK
