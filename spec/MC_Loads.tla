---- MODULE MC_Loads ----
EXTENDS Loads
ThQ == {One, Half}
====
