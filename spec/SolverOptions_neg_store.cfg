SPECIFICATION Spec
CONSTANTS
  Mpi = FALSE
  Problems = {"elastic", "damage"}
  Ksps = {"cg", "gmres", "preonly", "bogus"}
  Pcs = {"gamg", "sor", "lu", "cholesky", "bogus"}
  Backends = {"petsc", "mumps", "bogus"}
  Defect = "store_before_check"
  Depth = 6
INVARIANT StoredValid
PROPERTY RefusalIsNoOp
PROPERTY Targeted
VIEW View
CHECK_DEADLOCK FALSE
