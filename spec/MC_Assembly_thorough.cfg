SPECIFICATION Spec
CONSTANTS
  MeshNames <- Names
  MeshDef <- MeshDefs
  DofNs = {1, 2}
  Orders <- OrdersAll
  Patterns <- PatternsTwo
  MaxAsm = 2
  Complex = {"real", "all", "tail"}
  Defect = "none"
  Emit = FALSE
VIEW view
INVARIANT Exact
INVARIANT MemoCurrent
