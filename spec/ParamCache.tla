------------------------------ MODULE ParamCache ------------------------------
(* C11 (last clause) -- "changing a parameter changes the law on next read".  A material keeps the law      *)
(* (stiffness, compliance) it computed until one of its declared parameters is set.  Parameters may be        *)
(* fields (arrays, one value per element or per Gauss point); the descriptor stores the user's array BY        *)
(* REFERENCE, so the two ways a script changes a field parameter are                                            *)
(*     AssignNew          mat.E = new_array                                                                     *)
(*     MutateAndReassign  E_e[sel] *= 0.5 ; mat.E = E_e      (same object, new content)                          *)
(* Both are assignments through the descriptor and must invalidate the cached law.  A third thing a script does  *)
(*     MutateSource       E_e[sel] *= 0.5                    (nothing is assigned)                               *)
(* tells the material nothing: WHICH content the next read shows is outside the statement (the content the        *)
(* material was last told about, or the current one), but the stiffness and the compliance that are read must      *)
(* still be those of ONE content - mutually inverse (Paired).  Defect = "alias_c" models a law whose stiffness IS   *)
(* the caller's array while its compliance was computed when the array was handed over: rejected by TLC.           *)
(* Defect = "skip_equal" models a descriptor that skips the notification when the assigned value compares         *)
(* equal to the stored one - always true for the same object - and must be rejected by TLC.                        *)
EXTENDS Integers, Sequences, TLC, Json
CONSTANTS MaxOps, Defect, Emit,
          WithSource   \* BOOLEAN: are modifications of the array behind the material's back part of the behaviours?
VARIABLES content,   \* version of the content of the array object the material currently holds
          obj,       \* identity of that object
          dirty,     \* the material's update flag
          law,       \* content version the cached law was computed from (-1: none)
          told,      \* content version at the last assignment (what the material has been told about)
          hist       \* operations so far
vars == <<content, obj, dirty, law, told, hist>>

Init == content = 0 /\ obj = 0 /\ dirty = TRUE /\ law = -1 /\ told = 0 /\ hist = <<>>
Bound == Len(hist) < MaxOps
AssignNew == /\ Bound /\ obj' = obj + 1 /\ content' = content + 1 /\ dirty' = TRUE
             /\ told' = content' /\ hist' = Append(hist, "AssignNew") /\ UNCHANGED law
MutateAndReassign == /\ Bound /\ content' = content + 1 /\ obj' = obj
                     /\ dirty' = IF Defect = "skip_equal" THEN dirty ELSE TRUE
                     /\ told' = content' /\ hist' = Append(hist, "MutateAndReassign") /\ UNCHANGED law
MutateSource == /\ Bound /\ WithSource /\ content' = content + 1
                /\ hist' = Append(hist, "MutateSource") /\ UNCHANGED <<obj, dirty, law, told>>
Read == /\ Bound
        /\ IF dirty THEN law' = content /\ dirty' = FALSE ELSE UNCHANGED <<law, dirty>>
        /\ hist' = Append(hist, "Read") /\ UNCHANGED <<content, obj, told>>
Next == AssignNew \/ MutateAndReassign \/ MutateSource \/ Read
Spec == Init /\ [][Next]_vars

(* the law that is read is the law of the parameters as they are - of the content the material was told about, or of the   *)
(* a content the array had since then when it was modified behind the material's back (a parameter stored by reference shows  *)
(* the content of the last re-computation, a copied matrix the one handed over); nothing was modified => the current one       *)
ReadIsCurrent == [][Read => (told' <= law' /\ law' <= content')]_vars
FlagSound == (~dirty /\ told = content) => law = content
(* stiffness and compliance of one read come from one content *)
CSeen == IF Defect = "alias_c" THEN content ELSE law
SSeen == law
Paired == (law # -1) => CSeen = SSeen
EmitOK == Emit => (Len(hist) = MaxOps => PrintT(<<"OPS", ToJson([ops |-> hist])>>))
=============================================================================
