------------------------------ MODULE ParamCache ------------------------------
(* C11 (last clause) -- "changing a parameter changes the law on next read".  A material keeps the law      *)
(* (stiffness, compliance) it computed until one of its declared parameters is set.  Parameters may be        *)
(* fields (arrays, one value per element or per Gauss point); the descriptor stores the user's array BY        *)
(* REFERENCE, so the two ways a script changes a field parameter are                                            *)
(*     AssignNew          mat.E = new_array                                                                     *)
(*     MutateAndReassign  E_e[sel] *= 0.5 ; mat.E = E_e      (same object, new content)                          *)
(* Both are assignments through the descriptor and must invalidate the cached law.  (Mutating the array          *)
(* without assigning it again is outside the statement: nothing tells the material.)                             *)
(* Defect = "skip_equal" models a descriptor that skips the notification when the assigned value compares         *)
(* equal to the stored one - always true for the same object - and must be rejected by TLC.                        *)
EXTENDS Integers, Sequences, TLC, Json
CONSTANTS MaxOps, Defect, Emit
VARIABLES content,   \* version of the content of the array object the material currently holds
          obj,       \* identity of that object
          dirty,     \* the material's update flag
          law,       \* content version the cached law was computed from (-1: none)
          hist       \* operations so far
vars == <<content, obj, dirty, law, hist>>

Init == content = 0 /\ obj = 0 /\ dirty = TRUE /\ law = -1 /\ hist = <<>>
Bound == Len(hist) < MaxOps
AssignNew == /\ Bound /\ obj' = obj + 1 /\ content' = content + 1 /\ dirty' = TRUE
             /\ hist' = Append(hist, "AssignNew") /\ UNCHANGED law
MutateAndReassign == /\ Bound /\ content' = content + 1 /\ obj' = obj
                     /\ dirty' = IF Defect = "skip_equal" THEN dirty ELSE TRUE
                     /\ hist' = Append(hist, "MutateAndReassign") /\ UNCHANGED law
Read == /\ Bound
        /\ IF dirty THEN law' = content /\ dirty' = FALSE ELSE UNCHANGED <<law, dirty>>
        /\ hist' = Append(hist, "Read") /\ UNCHANGED <<content, obj>>
Next == AssignNew \/ MutateAndReassign \/ Read
Spec == Init /\ [][Next]_vars

(* the law that is read is the law of the parameters as they are *)
ReadIsCurrent == [][Read => law' = content']_vars
FlagSound == (~dirty) => law = content
EmitOK == Emit => (Len(hist) = MaxOps => PrintT(<<"OPS", ToJson([ops |-> hist])>>))
=============================================================================
