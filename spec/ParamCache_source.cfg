SPECIFICATION Spec
CONSTANTS
  MaxOps = 4
  Defect = "none"
  Emit = TRUE
  WithSource = TRUE
INVARIANT FlagSound
INVARIANT Paired
INVARIANT EmitOK
PROPERTY ReadIsCurrent
CHECK_DEADLOCK FALSE
