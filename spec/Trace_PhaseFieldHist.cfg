SPECIFICATION Spec
INVARIANT Report
