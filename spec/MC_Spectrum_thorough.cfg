SPECIFICATION Spec
CONSTANTS
  Elems1D = {"SEG2", "SEG3", "SEG4", "SEG5"}
  Elems2D = {"TRI3", "TRI6", "TRI10", "TRI15", "QUAD4", "QUAD8", "QUAD9"}
  Elems3D = {"TETRA4", "TETRA10", "HEXA8", "HEXA20", "HEXA27", "PRISM6", "PRISM15", "PRISM18"}
  Rhos <- RhosT
  Thicks <- ThicksT
  Emit = TRUE
INVARIANT TableOK
INVARIANT EmitOK
INVARIANT EmitLarge
