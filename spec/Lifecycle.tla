----------------------------- MODULE Lifecycle -----------------------------
(* Life cycle of EasyFEA simulations: lazy (re)assembly, caches, observers, boundary      *)
(* conditions, iteration store.  Written after Simulations/_simu.py, Utilities/_params.py, *)
(* _cache.py, _observers.py, FEM/_mesh.py, _group_elem.py: one action per public call,     *)
(* variables mirroring the implementation's own bookkeeping.                                *)
(*                                                                                          *)
(* Properties decided here:                                                                 *)
(*   C14  NoStale     - a cleared needUpdate flag implies the cached matrices belong to the *)
(*                      current configuration; element caches and sparsity maps are current *)
(*   C15  AppendOnly, Pinned, Restores, PureRead - the iteration store                      *)
(*   C03  MapsCurrent - a memoised sparsity map is only ever used with the connectivity it  *)
(*                      was built from                                                      *)
(* `Defect` switches on deliberately wrong variants of single actions; they are used as     *)
(* negative self-tests (TLC must find the violation) and document defects found in the code.*)
EXTENDS Integers, Sequences, FiniteSets, TLC, Json

CONSTANTS
    Sims,        \* simulations, all built on mesh "A" and sharing ONE model
    Meshes,      \* mesh objects that exist ("A" is the initial one)
    Folders,     \* save folders, "" = keep iterations in memory
    MaxVer,      \* bound on every version counter
    MaxSolve,    \* bound on the number of solves per simulation
    MaxIter,     \* bound on the number of saved iterations per simulation
    MaxMesh,     \* bound on the length of a simulation's mesh history
    Defect,      \* "none" | "coord_no_notify" | "setmesh_no_observe" | "setiter_keeps_maps" | "rho_no_update" | "bc_size_no_update" | "saveiter_wrong_mesh" | "move_keeps_simcache" | "load_drops_observers"
    CacheOn,     \* BOOLEAN: explore configuration-changing actions
    StoreOn,     \* BOOLEAN: explore iteration-store actions
    Acts,        \* set of enabled action names (lets a configuration focus on a group of actions)
    Emit         \* BOOLEAN: print every state as JSON (simulation mode -> replay harness)

VARIABLES
    par,         \* version of the shared model's parameters
    geomv,       \* [Meshes -> Nat]   geometry version of each mesh object
    geo,         \* [Meshes -> Int]   geometry version the mesh's element caches belong to, -1 = empty
    obs,         \* [Meshes -> SUBSET Sims]  observers registered on each mesh
    meshList,    \* [Sims -> Seq(Meshes)]    mesh history of the simulation
    cur,         \* [Sims -> Nat]     index of the current mesh in meshList (code: __indexMesh)
    rho,         \* [Sims -> Nat]     density version
    damp,        \* [Sims -> Nat]     Rayleigh damping version
    nlag,        \* [Sims -> 0..1]    number of Lagrange conditions (changes the system size)
    bcv,         \* [Sims -> Nat]     version of the boundary-condition set
    dyn,         \* [Sims -> BOOLEAN] time scheme: FALSE = elliptic, TRUE = a dynamic scheme
    need,        \* [Sims -> BOOLEAN] needUpdate
    asm,         \* [Sims -> config record | NoCfg]  what the cached K, C, M, F were assembled at
    maps,        \* [Sims -> SUBSET record]   memoised sparsity maps: key and the connectivity they were built on
    gcache,      \* [Sims -> record]          element matrices the simulation caches from the geometry (e.g. the constant mass matrices of HyperElastic): mesh and geometry version they were computed from
    live,        \* [Sims -> [u, va]] tokens of the current fields: 0 = zero field, n = result of the n-th solve
    nsolve,      \* [Sims -> Nat]
    results,     \* [Sims -> Seq(record)]     the iteration store
    folder,      \* [Sims -> Folders]
    loaded,      \* [Sims -> BOOLEAN] the simulation object has been written with Save() and replaced by Load_Simu()
    act          \* last action (name and arguments) -- observation only, hidden from the state view

vars  == <<par, geomv, geo, obs, meshList, cur, rho, damp, nlag, bcv, dyn, need, asm, maps, gcache, live, nsolve, results, folder, loaded, act>>
view  == <<par, geomv, geo, obs, meshList, cur, rho, damp, nlag, bcv, dyn, need, asm, maps, gcache, live, nsolve, results, folder, loaded>>

NoGeo == [mesh |-> "none", geom |-> -1]
NoCfg == [mesh |-> "none", geom |-> -1, par |-> -1, rho |-> -1, damp |-> -1, size |-> -1]

CurMesh(s) == meshList[s][cur[s]]
(* size of the linear system beyond the nodal dofs: with Lagrange conditions present the bordered system has one extra *)
(* row per Lagrange condition AND per Dirichlet dof, so it depends on the boundary-condition set as well              *)
SysSize(s) == IF nlag[s] = 0 THEN 0 ELSE nlag[s] + bcv[s]
Cfg(s) == [mesh |-> CurMesh(s), geom |-> geomv[CurMesh(s)], par |-> par, rho |-> rho[s], damp |-> damp[s], size |-> SysSize(s)]
MapKey(s) == [mesh |-> CurMesh(s), size |-> SysSize(s)]

(* After a Save/Load round trip the loaded object owns private copies of mesh and model.  With several simulations only the *)
(* store is read afterwards (the model is no longer shared).  With a single simulation the life cycle goes on with every     *)
(* action on the simulation itself and on ITS model (the handle of the model now names the loaded copy): the loaded object     *)
(* must hear its model exactly as the constructed one did ("unpickle_drops_observers" is the rejected design).  Mesh motions   *)
(* and replacements stay excluded after a load: a mesh of the history read back from disk has the geometry Save() wrote,       *)
(* the in-memory reading of the handles is not what the property prefers (DESIGN 0.6).                                          *)
AnyLoaded == \E s \in Sims : loaded[s]
AfterLoadActs == {"SetIter", "GetResults", "ResultAt"} \cup
                 (IF Cardinality(Sims) = 1 THEN {"SetParam", "SetRho", "SetDamping", "SetBc", "AddDirichlet", "AddLagrange", "SetAlgo", "GetKCMF", "Solve", "SaveIter"} ELSE {})
A(name, args) == /\ name \in Acts
                 /\ AnyLoaded => name \in AfterLoadActs
                 /\ act' = [name |-> name, args |-> args]
                 /\ (name # "SaveLoad") => UNCHANGED loaded
AllActs == {"SetParam", "SetRho", "SetDamping", "Translate", "Rotate", "Symmetry", "SetCoord", "SetMesh", "SetBc", "AddDirichlet",
            "AddLagrange", "SetAlgo", "GetKCMF", "Solve", "SaveIter", "SetIter", "GetResults", "ResultAt", "SetFolder", "SaveLoad"}

---------------------------------------------------------------------------
Init ==
    /\ par = 0
    /\ geomv = [m \in Meshes |-> 0]
    /\ geo = [m \in Meshes |-> -1]
    /\ obs = [m \in Meshes |-> IF m = "A" THEN Sims ELSE {}]
    /\ meshList = [s \in Sims |-> <<"A">>]
    /\ cur = [s \in Sims |-> 1]
    /\ rho = [s \in Sims |-> 0]
    /\ damp = [s \in Sims |-> 0]
    /\ nlag = [s \in Sims |-> 0]
    /\ bcv = [s \in Sims |-> 0]
    /\ dyn = [s \in Sims |-> FALSE]
    /\ need = [s \in Sims |-> TRUE]
    /\ asm = [s \in Sims |-> NoCfg]
    /\ maps = [s \in Sims |-> {}]
    /\ gcache = [s \in Sims |-> NoGeo]
    /\ live = [s \in Sims |-> [u |-> 0, va |-> 0]]
    /\ nsolve = [s \in Sims |-> 0]
    /\ results = [s \in Sims |-> <<>>]
    /\ folder = [s \in Sims |-> ""]
    /\ loaded = [s \in Sims |-> FALSE]
    /\ act = [name |-> "Init", args |-> <<>>]

(* ---- configuration changes ------------------------------------------------------- *)
(* model parameter descriptor: Need_Update on the model, which notifies every observer *)
SetParam ==
    /\ CacheOn /\ par < MaxVer
    /\ par' = par + 1
    /\ need' = [s \in Sims |-> IF Defect = "load_drops_observers" /\ loaded[s] THEN need[s] ELSE TRUE]
    /\ A("SetParam", <<>>)
    /\ UNCHANGED <<geomv, geo, obs, meshList, cur, rho, damp, nlag, bcv, dyn, asm, maps, gcache, live, nsolve, results, folder>>

SetRho(s) ==
    /\ CacheOn /\ rho[s] < MaxVer
    /\ rho' = [rho EXCEPT ![s] = @ + 1]
    /\ need' = IF Defect = "rho_no_update" THEN need ELSE [need EXCEPT ![s] = TRUE]
    /\ A("SetRho", <<s>>)
    /\ UNCHANGED <<par, geomv, geo, obs, meshList, cur, damp, nlag, bcv, dyn, asm, maps, gcache, live, nsolve, results, folder>>

SetDamping(s) ==
    /\ CacheOn /\ damp[s] < MaxVer
    /\ damp' = [damp EXCEPT ![s] = @ + 1]
    /\ need' = [need EXCEPT ![s] = TRUE]
    /\ A("SetDamping", <<s>>)
    /\ UNCHANGED <<par, geomv, geo, obs, meshList, cur, rho, nlag, bcv, dyn, asm, maps, gcache, live, nsolve, results, folder>>

(* Translate / Rotate / Symmetry: every group gets new coordinates (which empties its caches), observers are notified *)
Move(m, kind) ==
    /\ CacheOn /\ geomv[m] < MaxVer
    /\ geomv' = [geomv EXCEPT ![m] = @ + 1]
    /\ geo' = [geo EXCEPT ![m] = -1]
    /\ need' = [s \in Sims |-> IF s \in obs[m] THEN TRUE ELSE need[s]]
    /\ A(kind, <<m>>)
    /\ UNCHANGED <<par, obs, meshList, cur, rho, damp, nlag, bcv, dyn, asm, live, nsolve, results, folder>>
    /\ maps' = IF Defect = "move_keeps_simcache" THEN maps ELSE [s \in Sims |-> IF s \in obs[m] THEN {} ELSE maps[s]]
    /\ gcache' = IF Defect = "move_keeps_simcache" THEN gcache ELSE [s \in Sims |-> IF s \in obs[m] THEN NoGeo ELSE gcache[s]]

(* mesh.coord = X  ("re-coordinating"): same obligations as a motion *)
SetCoord(m) ==
    /\ CacheOn /\ geomv[m] < MaxVer
    /\ geomv' = [geomv EXCEPT ![m] = @ + 1]
    /\ geo' = [geo EXCEPT ![m] = -1]
    /\ need' = IF Defect = "coord_no_notify" THEN need
               ELSE [s \in Sims |-> IF s \in obs[m] THEN TRUE ELSE need[s]]
    /\ A("SetCoord", <<m>>)
    /\ UNCHANGED <<par, obs, meshList, cur, rho, damp, nlag, bcv, dyn, asm, live, nsolve, results, folder>>
    /\ maps' = IF Defect = "move_keeps_simcache" THEN maps ELSE [s \in Sims |-> IF s \in obs[m] THEN {} ELSE maps[s]]
    /\ gcache' = IF Defect = "move_keeps_simcache" THEN gcache ELSE [s \in Sims |-> IF s \in obs[m] THEN NoGeo ELSE gcache[s]]

(* simu.mesh = m : old meshes reset, memo cleared, flag raised, BCs and fields re-initialised, simulation observes m *)
SetMesh(s, m) ==
    /\ (CacheOn \/ StoreOn) /\ Len(meshList[s]) < MaxMesh
    /\ meshList' = [meshList EXCEPT ![s] = Append(@, m)]
    /\ cur' = [cur EXCEPT ![s] = Len(meshList[s]) + 1]
    /\ geo' = [x \in Meshes |-> IF \E i \in 1..Len(meshList[s]) : meshList[s][i] = x THEN -1 ELSE geo[x]]
    /\ obs' = IF Defect = "setmesh_no_observe" THEN obs ELSE [obs EXCEPT ![m] = @ \cup {s}]
    /\ maps' = [maps EXCEPT ![s] = {}]
    /\ gcache' = [gcache EXCEPT ![s] = NoGeo]
    /\ need' = [need EXCEPT ![s] = TRUE]
    /\ bcv' = [bcv EXCEPT ![s] = 0]
    /\ nlag' = [nlag EXCEPT ![s] = 0]
    /\ live' = [live EXCEPT ![s] = [u |-> 0, va |-> 0]]
    /\ A("SetMesh", <<s, m>>)
    /\ UNCHANGED <<par, geomv, rho, damp, dyn, asm, nsolve, results, folder>>

(* Bc_Init then a new set of Dirichlet/Neumann conditions.  If Lagrange conditions were present the size of the *)
(* system changes, so the cached matrices must be invalidated.                                                   *)
SetBc(s) ==
    /\ CacheOn /\ bcv[s] < MaxVer
    /\ bcv' = [bcv EXCEPT ![s] = @ + 1]
    /\ nlag' = [nlag EXCEPT ![s] = 0]
    /\ need' = IF nlag[s] # 0 /\ Defect # "bc_size_no_update" THEN [need EXCEPT ![s] = TRUE] ELSE need
    /\ A("SetBc", <<s>>)
    /\ UNCHANGED <<par, geomv, geo, obs, meshList, cur, rho, damp, dyn, asm, maps, gcache, live, nsolve, results, folder>>

(* one more Dirichlet condition on top of the current set (no Bc_Init) *)
AddDirichlet(s) ==
    /\ CacheOn /\ bcv[s] < MaxVer
    /\ bcv' = [bcv EXCEPT ![s] = @ + 1]
    /\ need' = IF nlag[s] # 0 /\ Defect # "bc_size_no_update" THEN [need EXCEPT ![s] = TRUE] ELSE need
    /\ A("AddDirichlet", <<s>>)
    /\ UNCHANGED <<par, geomv, geo, obs, meshList, cur, rho, damp, nlag, dyn, asm, maps, gcache, live, nsolve, results, folder>>

(* a Lagrange condition changes the size of the system: flag raised *)
AddLagrange(s) ==
    /\ CacheOn /\ nlag[s] = 0
    /\ nlag' = [nlag EXCEPT ![s] = 1]
    /\ need' = [need EXCEPT ![s] = TRUE]
    /\ A("AddLagrange", <<s>>)
    /\ UNCHANGED <<par, geomv, geo, obs, meshList, cur, rho, damp, bcv, dyn, asm, maps, gcache, live, nsolve, results, folder>>

SetAlgo(s, d) ==
    /\ dyn[s] # d
    /\ dyn' = [dyn EXCEPT ![s] = d]
    /\ A("SetAlgo", <<s, d>>)
    /\ UNCHANGED <<par, geomv, geo, obs, meshList, cur, rho, damp, nlag, bcv, need, asm, maps, gcache, live, nsolve, results, folder>>

(* ---- observation / solve ------------------------------------------------------------ *)
AssembleIfNeeded(s) ==
    IF need[s]
    THEN LET used == IF gcache[s].mesh = CurMesh(s) THEN gcache[s].geom ELSE geomv[CurMesh(s)]   \* a cached entry is reused as it is
         IN  /\ asm' = [asm EXCEPT ![s] = [Cfg(s) EXCEPT !.geom = used]]
             /\ gcache' = [gcache EXCEPT ![s] = [mesh |-> CurMesh(s), geom |-> used]]
             /\ geo' = [geo EXCEPT ![CurMesh(s)] = geomv[CurMesh(s)]]
             /\ maps' = [maps EXCEPT ![s] = @ \cup {MapKey(s)}]
             /\ need' = [need EXCEPT ![s] = FALSE]
    ELSE UNCHANGED <<asm, geo, maps, gcache, need>>

GetKCMF(s) ==
    /\ AssembleIfNeeded(s)
    /\ A("GetKCMF", <<s>>)
    /\ UNCHANGED <<par, geomv, obs, meshList, cur, rho, damp, nlag, bcv, dyn, live, nsolve, results, folder>>

Solve(s) ==
    /\ nsolve[s] < MaxSolve
    /\ AssembleIfNeeded(s)
    /\ nsolve' = [nsolve EXCEPT ![s] = @ + 1]
    /\ live' = [live EXCEPT ![s] = [u |-> nsolve[s] + 1, va |-> IF dyn[s] THEN nsolve[s] + 1 ELSE live[s].va]]
    /\ A("Solve", <<s>>)
    /\ UNCHANGED <<par, geomv, obs, meshList, cur, rho, damp, nlag, bcv, dyn, results, folder>>

(* ---- iteration store ----------------------------------------------------------------- *)
SaveIter(s) ==
    /\ StoreOn /\ Len(results[s]) < MaxIter
    /\ results' = [results EXCEPT ![s] =
          Append(@, [where |-> folder[s], mi |-> IF Defect = "saveiter_wrong_mesh" THEN Len(meshList[s]) ELSE cur[s], u |-> live[s].u, hasva |-> dyn[s], va |-> IF dyn[s] THEN live[s].va ELSE 0])]
    /\ A("SaveIter", <<s>>)
    /\ UNCHANGED <<par, geomv, geo, obs, meshList, cur, rho, damp, nlag, bcv, dyn, need, asm, maps, gcache, live, nsolve, folder>>

(* restore iteration i: fields come back, the mesh of that iteration becomes current (memo cleared, flag raised) *)
Restore(s, i, label) ==
    /\ StoreOn /\ i \in 1..Len(results[s])
    /\ LET r == results[s][i] IN
         /\ live' = [live EXCEPT ![s] = [u |-> r.u, va |-> IF dyn[s] /\ r.hasva THEN r.va ELSE 0]]
         /\ IF r.mi # cur[s]
            THEN /\ cur' = [cur EXCEPT ![s] = r.mi]
                 /\ maps' = IF Defect = "setiter_keeps_maps" THEN maps ELSE [maps EXCEPT ![s] = {}]
                 /\ gcache' = IF Defect = "setiter_keeps_maps" THEN gcache ELSE [gcache EXCEPT ![s] = NoGeo]
                 /\ need' = [need EXCEPT ![s] = TRUE]
                 (* Boundary conditions are lists of node ids of the mesh they were entered on; the code keeps them   *)
                 (* across the switch.  Environment step composed into this action: the user re-enters the default set *)
                 (* (Bc_Init + conditions) on the restored mesh before anything else happens.                          *)
                 /\ bcv' = [bcv EXCEPT ![s] = 0]
                 /\ nlag' = [nlag EXCEPT ![s] = 0]
            ELSE UNCHANGED <<cur, maps, gcache, need, bcv, nlag>>
    /\ A(label, <<s, i>>)
    /\ UNCHANGED <<par, geomv, geo, obs, meshList, rho, damp, dyn, asm, nsolve, results, folder>>
SetIter(s, i) == Restore(s, i, "SetIter")
(* a NAMED result asked for iteration i - Result(name, iter=i): the documented reading is "restore iteration i, then read", the  *)
(* simulation is left at iteration i.  The value is the one a read after an explicit SetIter gives, whatever the state the       *)
(* simulation was in (same fields by coincidence, another mesh with as many nodes ...).                                          *)
ResultAt(s, i) == Restore(s, i, "ResultAt")

GetResults(s, i) ==
    /\ StoreOn /\ i \in 1..Len(results[s])
    /\ A("GetResults", <<s, i>>)
    /\ UNCHANGED view

SetFolder(s, f) ==
    /\ StoreOn /\ folder[s] # f
    /\ folder' = [folder EXCEPT ![s] = f]
    /\ A("SetFolder", <<s, f>>)
    /\ UNCHANGED <<par, geomv, geo, obs, meshList, cur, rho, damp, nlag, bcv, dyn, need, asm, maps, gcache, live, nsolve, results>>

TwoActs == {"SetParam", "SetRho", "Translate", "SetCoord", "SetMesh", "GetKCMF", "Solve", "SaveIter", "SetIter"}

(* Save(folder) then Load_Simu(folder): the loaded object has the same mesh history, fields, flags and store; *)
(* Save() makes `folder` the save folder of the simulation.                                                 *)
SaveLoad(s, f) ==
    /\ StoreOn /\ f # "" /\ ~loaded[s]
    /\ loaded' = [loaded EXCEPT ![s] = TRUE]
    /\ folder' = [folder EXCEPT ![s] = f]
    /\ A("SaveLoad", <<s, f>>)
    /\ UNCHANGED <<par, geomv, geo, obs, meshList, cur, rho, damp, nlag, bcv, dyn, need, asm, maps, gcache, live, nsolve, results>>

Next ==
    \/ SetParam
    \/ \E s \in Sims : SetRho(s) \/ SetDamping(s) \/ SetBc(s) \/ AddDirichlet(s) \/ AddLagrange(s) \/ GetKCMF(s) \/ Solve(s) \/ SaveIter(s)
    \/ \E s \in Sims, d \in BOOLEAN : SetAlgo(s, d)
    \/ \E m \in Meshes, k \in {"Translate", "Rotate", "Symmetry"} : Move(m, k)
    \/ \E m \in Meshes : SetCoord(m)
    \/ \E s \in Sims, m \in Meshes : SetMesh(s, m)
    \/ \E s \in Sims, i \in 1..MaxIter : SetIter(s, i) \/ GetResults(s, i) \/ ResultAt(s, i)
    \/ \E s \in Sims, f \in Folders : SetFolder(s, f) \/ SaveLoad(s, f)

Spec == Init /\ [][Next]_vars

---------------------------------------------------------------------------
TypeOK ==
    /\ par \in 0..MaxVer
    /\ \A m \in Meshes : geomv[m] \in 0..MaxVer /\ geo[m] \in -1..MaxVer /\ obs[m] \subseteq Sims
    /\ \A s \in Sims : cur[s] \in 1..Len(meshList[s]) /\ Len(results[s]) <= MaxIter /\ folder[s] \in Folders

(* C14: nothing stale survives *)
NoStale ==
    /\ \A s \in Sims : ~need[s] => asm[s] = Cfg(s)
    /\ \A m \in Meshes : geo[m] \in {-1, geomv[m]}
(* C03 / C14: memoised sparsity maps belong to the current connectivity *)
MapsCurrent == \A s \in Sims : \A k \in maps[s] : k.mesh = CurMesh(s)
(* values a simulation caches from the geometry belong to the current geometry of the mesh they were computed on *)
GeoCacheCurrent == \A s \in Sims : gcache[s].mesh # "none" => gcache[s].geom = geomv[gcache[s].mesh]
(* every simulation observes the mesh it is currently using (what makes Move/SetCoord reach it) *)
Observing == \A s \in Sims : s \in obs[CurMesh(s)]

(* C15 *)
AppendOnly == [][\A s \in Sims : \A i \in 1..Len(results[s]) : Len(results'[s]) >= i /\ results'[s][i] = results[s][i]]_vars
PureRead   == [][\A s \in Sims, i \in 1..MaxIter : (act'.name = "GetResults") => view' = view]_vars
Restores   == [][\A s \in Sims : (act'.name \in {"SetIter", "ResultAt"} /\ act'.args[1] = s) =>
                    LET r == results[s][act'.args[2]] IN
                      /\ live'[s].u = r.u
                      /\ cur'[s] = r.mi
                      /\ (dyn[s] /\ r.hasva) => live'[s].va = r.va]_vars
Pinned     == [][\A s \in Sims : (act'.name = "SaveIter" /\ act'.args[1] = s) =>
                    /\ Len(results'[s]) = Len(results[s]) + 1
                    /\ results'[s][Len(results'[s])].where = folder[s]
                    /\ results'[s][Len(results'[s])].u = live[s].u
                    /\ results'[s][Len(results'[s])].mi = cur[s]]_vars

(* emission for the replay harness: one JSON object per state, in behaviour order (use -workers 1) *)
EmitOK ==
    Emit => PrintT(<<"ST", ToJson([lvl |-> TLCGet("level"), act |-> act,
                                   need |-> need, cur |-> cur, meshList |-> meshList, live |-> live,
                                   nres |-> [s \in Sims |-> Len(results[s])], results |-> results,
                                   cfg |-> [s \in Sims |-> Cfg(s)], asm |-> asm, dyn |-> dyn, bcv |-> bcv,
                                   folder |-> folder, loaded |-> loaded, geomv |-> geomv, nmaps |-> [s \in Sims |-> Cardinality(maps[s])]])>>)
=============================================================================
