SPECIFICATION Spec
CONSTANTS
  Mpi = TRUE
  Problems = {"elastic", "damage"}
  Ksps = {"cg", "gmres", "preonly", "bogus"}
  Pcs = {"gamg", "sor", "lu", "cholesky", "bogus"}
  Backends = {"petsc", "mumps", "bogus"}
  Defect = "none"
  Depth = 6
INVARIANT StoredValid
PROPERTY RefusalIsNoOp
PROPERTY Targeted
VIEW View
CHECK_DEADLOCK FALSE
