SPECIFICATION Spec
CONSTANTS
  Sims = {"s1", "s2"}
  Meshes = {"A", "B"}
  Folders = {"", "f1"}
  MaxVer = 1
  MaxSolve = 1
  MaxIter = 1
  MaxMesh = 2
  Defect = "none"
  CacheOn = TRUE
  StoreOn = TRUE
  Acts <- TwoActs
  Emit = FALSE
VIEW view
INVARIANT TypeOK
INVARIANT NoStale
INVARIANT MapsCurrent
INVARIANT Observing
PROPERTY AppendOnly
PROPERTY PureRead
PROPERTY Restores
PROPERTY Pinned
