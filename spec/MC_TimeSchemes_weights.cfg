SPECIFICATION Spec
CONSTANTS
  AlgoPrms <- AlgoPrmsThorough
  Mats <- MatsOne
  States <- StatesOne
  Loads <- LoadsZero
  Gs <- GsOne
  ConsSet <- FreeOnly
  MaxSteps = 1
  Emit = TRUE
  Refusals <- NoRefusals
  MatChange = FALSE
  Mutant = "none"
INVARIANT LatticeAdmissible
INVARIANT RefusedKeeps
INVARIANT Motion
INVARIANT UpdateRel
INVARIANT Affine
INVARIANT Homogeneous
INVARIANT EmitWT
