SPECIFICATION Spec
CONSTANTS
  AlgoPrms <- AlgoPrmsThorough
  Mats <- MatsOne
  States <- StatesOne
  Loads <- LoadsZero
  Gs <- GsOne
  ConsSet <- FreeOnly
  MaxSteps = 1
  Emit = TRUE
  MatChange = FALSE
  Mutant = "none"
INVARIANT Motion
INVARIANT UpdateRel
INVARIANT Affine
INVARIANT EmitWT
