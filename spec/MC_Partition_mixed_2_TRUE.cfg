SPECIFICATION Spec
CONSTANTS
  MeshName = "mixed"
  N = 2
  GhostsByType = FALSE
  SegFollows = TRUE
INVARIANT Elems
INVARIANT NodesOK
INVARIANT Rows
