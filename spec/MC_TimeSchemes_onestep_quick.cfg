SPECIFICATION Spec
CONSTANTS
  AlgoPrms <- AlgoPrmsQuick
  Mats <- MatsQuick
  States <- StatesBasis
  Loads <- LoadsQuick
  Gs <- GsOne
  ConsSet <- BoolSet
  MaxSteps = 1
  Emit = TRUE
  Refusals <- NoRefusals
  MatChange = FALSE
  Mutant = "none"
INVARIANT LatticeAdmissible
INVARIANT RefusedKeeps
INVARIANT Motion
INVARIANT Prescribed
INVARIANT UpdateRel
INVARIANT Conserve
INVARIANT Dissipate
INVARIANT NewmarkEquilibrium
INVARIANT Family
INVARIANT Affine
INVARIANT Homogeneous
INVARIANT EmitOK
