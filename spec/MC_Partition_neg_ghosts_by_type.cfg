SPECIFICATION Spec
CONSTANTS
  MeshName = "mixed"
  N = 2
  GhostsByType = TRUE
  SegFollows = TRUE
INVARIANT Elems
INVARIANT NodesOK
INVARIANT Rows
