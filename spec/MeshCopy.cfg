SPECIFICATION Spec
CONSTANTS
  Slots = {1, 2, 3}
  MaxOps = 6
  MaxVer = 3
  Defect = "none"
  Emit = TRUE
INVARIANT ReadCurrent
INVARIANT Independent
INVARIANT EmitOK
CHECK_DEADLOCK FALSE
