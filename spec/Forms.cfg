SPECIFICATION Spec
CONSTANTS
  Dims = {2, 3}
  Emit = TRUE
INVARIANT Duality
INVARIANT Homogeneous
INVARIANT EmitOK
