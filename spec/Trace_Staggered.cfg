SPECIFICATION TSpec
CONSTANTS
  MaxIter = 2
  Solver = "History"
  Defect = "none"
CHECK_DEADLOCK FALSE
