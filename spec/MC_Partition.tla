---------------------------- MODULE MC_Partition ----------------------------
(* Exhaustive model: every assignment of the cells of small meshes to N ranks.               *)
(* Environment assumption (SegFollows = TRUE): the partitioner puts a boundary element in the *)
(* part of the cell it bounds.  With SegFollows = FALSE boundary elements go anywhere: the    *)
(* violations TLC then finds are reported as design fragility, not as property violations.    *)
EXTENDS Partition

CONSTANTS MeshName, N, SegFollows

(* 2 x 2 quadrangles, 9 nodes, 8 boundary segments; gmsh processes SEG (id 1) before QUAD (id 3) *)
Quads == << {1,2,5,4}, {2,3,6,5}, {4,5,8,7}, {5,6,9,8} >>
QSegs == << {1,2}, {2,3}, {3,6}, {6,9}, {9,8}, {8,7}, {7,4}, {4,1} >>
QSegCell == <<1, 2, 2, 4, 4, 3, 3, 1>>
(* 6 triangles (a 2 x 1.5 strip), 7 nodes *)
Tris == << {1,2,5}, {2,6,5}, {2,3,6}, {3,7,6}, {3,4,7}, {1,5,6} >>
TSegs == << {1,2}, {2,3}, {3,4}, {4,7}, {7,6}, {5,1} >>
TSegCell == <<1, 3, 5, 5, 4, 1>>
(* mixed main dimension: 2 triangles + 2 quadrangles; gmsh order SEG (1), TRI (2), QUAD (3) *)
MTris == << {3,4,7}, {4,8,7} >>
MQuads == << {1,2,6,5}, {2,3,7,6} >>
MSegs == << {1,2}, {2,3}, {3,4}, {4,8}, {8,7}, {7,6}, {6,5}, {5,1} >>
MSegCell == << <<3,1>>, <<3,2>>, <<2,1>>, <<2,2>>, <<2,2>>, <<3,2>>, <<3,1>>, <<3,1>> >>    \* <<type index, cell index>>

T(dim, elems) == [dim |-> dim, elems |-> elems]
TheMesh == CASE MeshName = "quads" -> [nn |-> 9, types |-> <<T(1, QSegs), T(2, Quads)>>]
             [] MeshName = "tris"  -> [nn |-> 7, types |-> <<T(1, TSegs), T(2, Tris)>>]
             [] MeshName = "mixed" -> [nn |-> 8, types |-> <<T(1, MSegs), T(2, MTris), T(2, MQuads)>>]

VARIABLE own
vars == <<own>>

ByRank(f, n) == [r \in 1..N |-> {e \in 1..n : f[e] = r}]

Init ==
    CASE MeshName = "quads" ->
            \E c \in [1..4 -> 1..N] : \E s \in [1..8 -> 1..N] :
                /\ SegFollows => \A i \in 1..8 : s[i] = c[QSegCell[i]]
                /\ own = <<ByRank(s, 8), ByRank(c, 4)>>
      [] MeshName = "tris" ->
            \E c \in [1..6 -> 1..N] : \E s \in [1..6 -> 1..N] :
                /\ SegFollows => \A i \in 1..6 : s[i] = c[TSegCell[i]]
                /\ own = <<ByRank(s, 6), ByRank(c, 6)>>
      [] MeshName = "mixed" ->
            \E ct \in [1..2 -> 1..N] : \E cq \in [1..2 -> 1..N] : \E s \in [1..8 -> 1..N] :
                /\ SegFollows => \A i \in 1..8 : s[i] = (IF MSegCell[i][1] = 2 THEN ct ELSE cq)[MSegCell[i][2]]
                /\ own = <<ByRank(s, 8), ByRank(ct, 2), ByRank(cq, 2)>>
Next == UNCHANGED own
Spec == Init /\ [][Next]_vars

PartitionOK == Good(TheMesh, own, N)
Elems == ElemsPartitioned(TheMesh, own, N)
NodesOK == NodesPartitioned(TheMesh, own, N)
Rows == RowComplete(TheMesh, own, N)
=============================================================================
