---- MODULE MC_Pipeline ----
EXTENDS Pipeline
M2(a, b, c, d) == <<<<a, b>>, <<c, d>>>>
M3(a) == <<<<a[1], a[2], a[3]>>, <<a[4], a[5], a[6]>>, <<a[7], a[8], a[9]>>>>
I2 == M2(One, Zero, Zero, One)
I3 == M3(<<One, Zero, Zero, Zero, One, Zero, Zero, Zero, One>>)
(* affine maps: identity, a shear + stretch with positive determinant, and an orientation-reversing one (negative determinant) *)
Maps2 == [id |-> I2, shear |-> M2(R(3,2), Half, R(1,4), One), mirror |-> M2(RI(-1), R(1,4), Zero, R(5,4))]
Maps3 == [id |-> I3, shear |-> M3(<<R(3,2), Half, Zero, R(1,4), One, R(1,4), Zero, Zero, R(5,4)>>),
          mirror |-> M3(<<RI(-1), R(1,4), Zero, Zero, R(5,4), Zero, Half, Zero, One>>)]
(* basis of the linear fields (gradients) plus one combination with an offset; entries x 1/1000 in the harness *)
F2 == [g11 |-> M2(One, Zero, Zero, Zero), g12 |-> M2(Zero, One, Zero, Zero), g21 |-> M2(Zero, Zero, One, Zero), g22 |-> M2(Zero, Zero, Zero, One),
       mix |-> M2(RI(2), RI(-1), R(3,2), Half)]
F3 == [g11 |-> M3(<<One,Zero,Zero,Zero,Zero,Zero,Zero,Zero,Zero>>), g23 |-> M3(<<Zero,Zero,Zero,Zero,Zero,One,Zero,Zero,Zero>>),
       g31 |-> M3(<<Zero,Zero,Zero,Zero,Zero,Zero,One,Zero,Zero>>), g33 |-> M3(<<Zero,Zero,Zero,Zero,Zero,Zero,Zero,Zero,One>>),
       mix |-> M3(<<RI(2),RI(-1),Half,R(3,2),Half,One,RI(-1),R(1,4),RI(1)>>)]
ThermalG == [g1 |-> <<One, Zero, Zero>>, g2 |-> <<R(1,2), RI(-2), R(3,2)>>]

VARIABLE dummy
Expect(c) ==
    LET A == IF c.dim = 2 THEN Maps2[c.map] ELSE Maps3[c.map] IN
    [cfg |-> c, A |-> A,
     G |-> IF c.phys = "thermal" THEN <<SubSeq(ThermalG[c.field], 1, c.dim)>> ELSE IF c.dim = 2 THEN F2[c.field] ELSE F3[c.field],
     strain |-> IF c.phys = "thermal" THEN SubSeq(ThermalG[c.field], 1, c.dim) ELSE Strain(c.dim, IF c.dim = 2 THEN F2[c.field] ELSE F3[c.field]),
     measure |-> Measure(c.dim, A),
     orientation |-> Sign(IF c.dim = 2 THEN Det2R(A) ELSE Det3R(A))]

BeamAmp == R(1, 500)
ExpectB(c) == [cfg |-> c, A |-> I2, G |-> <<>>, strain |-> <<BeamAmp>>, measure |-> RI(3), orientation |-> 1, force |-> BeamExpect(c, BeamAmp)]
InitP == (cfg \in {c \in Configs : Valid(c)} \/ cfg \in {c \in BeamConfigs : BeamValid(c)}) /\ dummy = 0
NextP == UNCHANGED <<cfg, dummy>>
SpecP == InitP /\ [][NextP]_<<cfg, dummy>>
(* sanity of the oracle itself: the measure is positive and scales with |det A| *)
OracleOK == cfg.phys = "beam" \/ (IsPos(Expect(cfg).measure) /\ Expect(cfg).orientation # 0 /\ MeasureScales(cfg.dim, Expect(cfg).A))
EmitOK == Emit => PrintT(<<"CASE", ToJson(IF cfg.phys = "beam" THEN ExpectB(cfg) ELSE Expect(cfg))>>)
====
