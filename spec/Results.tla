------------------------------ MODULE Results ------------------------------
(* C16 -- which quantity a named result reads.  Def gives, per simulation kind, the meaning  *)
(* of every modelled result name as a token  <<field, component>> :                           *)
(*    field  "u" | "v" | "a"          the displacement / velocity / acceleration vector       *)
(*           "Ku"                      nodal internal forces K u                               *)
(*           "S" | "E"                 stress / strain (element mean of the Gauss-point values)*)
(*           "Eb" | "Fb" | "Sb"        beam generalised strains [ux', rx', ry', rz'], internal *)
(*                                     forces [N, Mx, My, Mz] and stresses (element means)     *)
(*    component  0-based index | "all" | "norm" | "vm" (von Mises norm at each Gauss point,    *)
(*               THEN averaged per element)                                                    *)
(* The harness sets the live fields to mutually distinguishable random arrays, evaluates every *)
(* advertised name and abstracts the returned array to the token it equals (direction B);      *)
(* TLC compares the observed token with Def.                                                   *)
EXTENDS Integers, Sequences, FiniteSets, TLC, Json, IOUtils

(* A request also names a FORM (nodal or element values).  Stored(t) says where the quantity *)
(* lives; the returned array must have one row per node (nodal form) or per element (element *)
(* form) whatever the two counts are -- SizeClass names the pairs (Nn, Ne) for which the size *)
(* of an array does not tell where it is stored, and every class must be witnessed.          *)
Obs == JsonDeserialize(IOEnv.RESULT_TABLE)     \* sequence of [sim, dim, dofn, name, node, Nn, Ne, size, tokens, avail]  (tokens: every candidate of the requested form the returned array equals)

VARIABLE k
vars == <<k>>

Tok(f, c) == <<f, c>>
Idx(ch) == CASE ch = "x" -> "0" [] ch = "y" -> "1" [] ch = "z" -> "2"

(* component names of a vector field with `n` components *)
Comp(prefix, field, n) ==
    [nm \in {prefix \o ch : ch \in (IF n >= 3 THEN {"x", "y", "z"} ELSE IF n = 2 THEN {"x", "y"} ELSE {"x"})} |->
        Tok(field, Idx(SubSeq(nm, Len(nm), Len(nm))))]

Voigt2 == [xx |-> "0", yy |-> "1", xy |-> "2"]
Voigt3 == [xx |-> "0", yy |-> "1", zz |-> "2", yz |-> "3", xz |-> "4", xy |-> "5"]
Tens(prefix, field, dim) ==
    LET V == IF dim = 2 THEN Voigt2 ELSE Voigt3 IN
    [nm \in {prefix \o c : c \in DOMAIN V} |-> Tok(field, V[SubSeq(nm, 2, 3)])]

Merge(f, g) == [x \in DOMAIN f \cup DOMAIN g |-> IF x \in DOMAIN f THEN f[x] ELSE g[x]]
RECURSIVE MergeAll(_)
MergeAll(s) == IF Len(s) = 1 THEN s[1] ELSE Merge(s[1], MergeAll(Tail(s)))

Kin(dim) == MergeAll(<<Comp("u", "u", dim), Comp("v", "v", dim), Comp("a", "a", dim),
                        [nm \in {"displacement"} |-> Tok("u", "all")], [nm \in {"displacement_norm"} |-> Tok("u", "norm")],
                        [nm \in {"displacement_matrix"} |-> Tok("u", "matrix")],      \* (x, y, z) columns, zero where the space has fewer
                        [nm \in {"speed"} |-> Tok("v", "all")], [nm \in {"speed_norm"} |-> Tok("v", "norm")],
                        [nm \in {"accel"} |-> Tok("a", "all")], [nm \in {"accel_norm"} |-> Tok("a", "norm")]>>)
Mech(dim) == MergeAll(<<Tens("S", "S", dim), Tens("E", "E", dim),
                         [nm \in {"Svm"} |-> Tok("S", "vm")], [nm \in {"Evm"} |-> Tok("E", "vm")],
                         [nm \in {"Stress"} |-> Tok("S", "all")], [nm \in {"Strain"} |-> Tok("E", "all")]>>)

BeamStrains(dofn) == CASE dofn = 1 -> <<"ux'">> [] dofn = 3 -> <<"ux'", "rz'">> [] dofn = 6 -> <<"ux'", "rx'", "ry'", "rz'">>
BeamIntForces(dofn) == CASE dofn = 1 -> <<"N">> [] dofn = 3 -> <<"N", "Mz">> [] dofn = 6 -> <<"N", "Mx", "My", "Mz">>
BeamStress(dofn) == CASE dofn = 1 -> <<"Sxx">> [] dofn = 3 -> <<"Sxx", "Syy", "Sxy">> [] dofn = 6 -> <<"Sxx", "Syy", "Szz", "Syz", "Sxz", "Sxy">>
BeamDofs(dofn) == CASE dofn = 1 -> <<"ux">> [] dofn = 3 -> <<"ux", "uy", "rz">> [] dofn = 6 -> <<"ux", "uy", "uz", "rx", "ry", "rz">>
BeamForces(dofn) == CASE dofn = 1 -> <<"fx">> [] dofn = 3 -> <<"fx", "fy", "cz">> [] dofn = 6 -> <<"fx", "fy", "fz", "cx", "cy", "cz">>
Digits == <<"0", "1", "2", "3", "4", "5">>
SeqTok(names, field) == [nm \in {names[i] : i \in 1..Len(names)} |-> Tok(field, Digits[CHOOSE i \in 1..Len(names) : names[i] = nm])]

(* element quantities whose VALUE this module does not define (energies per element, error indicators, the stress    *)
(* measures of the non-linear kinds): only the form of what is returned is judged -- one entry per node or per element *)
FormOnly(scalars, dim) ==
    Merge([nm \in scalars |-> Tok("any_e", "0")],
          MergeAll(<<[nm \in DOMAIN Mech(dim) |-> Tok("any_e", IF Mech(dim)[nm][2] = "all" THEN "all" ELSE "0")],
                     [nm \in {"Green-Lagrange", "Piola-Kirchhoff"} |-> Tok("any_e", "all")]>>))

Def(sim, dim, dofn) ==
    CASE sim = "Elastic"      -> MergeAll(<<Kin(dim), Mech(dim), [nm \in {"Wdef_e", "ZZ1_e"} |-> Tok("any_e", "0")]>>)
      [] sim = "HyperElastic" -> Merge(Kin(dim), FormOnly({"W_e"}, dim))
      [] sim = "PhaseField"   -> MergeAll(<<Comp("u", "u", dim), [nm \in {"displacement"} |-> Tok("u", "all")], [nm \in {"displacement_matrix"} |-> Tok("u", "matrix")],
                                            [nm \in DOMAIN FormOnly({"psiP", "Wdef_e"}, dim) \ {"Green-Lagrange", "Piola-Kirchhoff"} |-> FormOnly({"psiP", "Wdef_e"}, dim)[nm]],
                                            [nm \in {"displacement_norm"} |-> Tok("u", "norm")], [nm \in {"damage"} |-> Tok("d", "all")]>>)
      [] sim = "InElastic"    -> MergeAll(<<Comp("u", "u", dim), [nm \in {"displacement"} |-> Tok("u", "all")], [nm \in {"displacement_norm"} |-> Tok("u", "norm")],
                                            [nm \in {"displacement_matrix"} |-> Tok("u", "matrix")],
                                            Tens("E", "E", dim), [nm \in {"Evm"} |-> Tok("E", "vm")], [nm \in {"Strain"} |-> Tok("E", "all")],     \* the strain is kinematic: its value is defined
                                            [nm \in DOMAIN Tens("S", "S", dim) \cup {"Svm"} |-> Tok("any_e", "0")], [nm \in {"Stress"} |-> Tok("any_e", "all")],
                                            [nm \in {"p", "d", "D", "alpha"} |-> Tok("any_e", "0")]>>)      \* scalar internal variables
      [] sim = "Thermal"      -> [nm \in {"thermal", "thermalDot"} |-> IF nm = "thermal" THEN Tok("u", "all") ELSE Tok("v", "all")]
      [] sim = "WeakForms"    -> MergeAll(<<Comp("u", "u", dofn), Comp("v", "v", dofn), Comp("a", "a", dofn),
                                            [nm \in {"u"} |-> Tok("u", "all")], [nm \in {"v"} |-> Tok("v", "all")], [nm \in {"a"} |-> Tok("a", "all")]>>)
      [] sim = "Beam"         -> MergeAll(<<SeqTok(BeamDofs(dofn), "u"), SeqTok(BeamForces(dofn), "Ku"), [nm \in {"displacement"} |-> Tok("u", "all")],
                                            SeqTok(BeamStrains(dofn), "Eb"), SeqTok(BeamIntForces(dofn), "Fb"), SeqTok(BeamStress(dofn), "Sb"),
                                            [nm \in {"Strain"} |-> Tok("Eb", "all")], [nm \in {"Stress"} |-> Tok("Sb", "all")],
                                            [nm \in {"displacement_norm"} |-> Tok("ut", "norm")], [nm \in {"displacement_matrix"} |-> Tok("ut", "matrix")],   \* translations only
                                            [nm \in {"Ty", "Tz"} |-> Tok("any_e", "0")]>>)

(* where a quantity is stored, and how many components one entity carries *)
Stored(t) == IF t[1] \in {"u", "ut", "v", "a", "d", "Ku"} THEN "node" ELSE "elem"
NVoigt(dim) == IF dim = 1 THEN 1 ELSE IF dim = 2 THEN 3 ELSE 6
NComp(t, sim, dim, dofn) ==
    IF t[2] = "matrix" THEN 3 ELSE
    IF t[2] # "all" THEN 1
    ELSE CASE t[1] \in {"u", "v", "a"} -> (IF sim \in {"Beam", "WeakForms"} THEN dofn ELSE IF sim = "Thermal" THEN 1 ELSE dim)
           [] t[1] = "d" -> 1
           [] t[1] \in {"S", "E", "Sb"} -> NVoigt(dim)
           [] t[1] = "any_e" -> NVoigt(dim)
           [] t[1] = "Eb" -> Len(BeamStrains(dofn))
           [] OTHER -> 1
(* the finite-strain measures of a plane problem come as plane (3) or full (6) Voigt vectors: either is one tensor per entity *)
NCompSet(t, sim, dim, dofn) == IF t = <<"any_e", "all">> /\ sim = "HyperElastic" THEN {NVoigt(dim), 6} ELSE {NComp(t, sim, dim, dofn)}
(* the whole result a component belongs to must be advertised with it *)
Whole(t) == CASE t[1] = "Eb" -> "Strain" [] t[1] = "Sb" -> "Stress" [] t[1] = "S" -> "Stress" [] t[1] = "E" -> "Strain" [] OTHER -> ""

SizeClass(Nn, Ne) == IF Ne = 1 THEN "one-element" ELSE IF Nn = Ne THEN "equal" ELSE IF Nn % Ne = 0 THEN "multiple"
                     ELSE IF \E c \in 2..6 : (c * Nn) % Ne = 0 \/ (c * Ne) % Nn = 0 THEN "multiple-with-components" ELSE "generic"
Classes == {<<Obs[i].sim, SizeClass(Obs[i].Nn, Obs[i].Ne)>> : i \in 1..Len(Obs)}

(* "reactions on fully constrained boundaries balance the applied loads": the configurations on which the rule is replayed.  *)
(* A body clamped on x = 0 and loaded by a uniform traction on x = L: the sum of the reactions over the clamped dofs of one     *)
(* direction is minus the resultant of the traction in that direction, for every kind that offers reactions (the linear ones), *)
(* in 2-D and 3-D, on a coarse and on a finer mesh (node numbers of the boundary below / above the number of nodes), with the   *)
(* displacement problem named explicitly where the simulation has several problems.                                            *)
BalanceCases == {[sim |-> s, dim |-> d, fine |-> f, damaged |-> dm] :
                    s \in {"Elastic", "PhaseField"}, d \in {2, 3}, f \in BOOLEAN, dm \in BOOLEAN} \ {c \in [sim : {"Elastic"}, dim : {2, 3}, fine : BOOLEAN, damaged : {TRUE}] : TRUE}

O == Obs[k]
Verdict ==
    LET d == Def(O.sim, O.dim, O.dofn) IN
    [sim |-> O.sim, dim |-> O.dim, dofn |-> O.dofn, name |-> O.name, tokens |-> O.tokens, node |-> O.node, Nn |-> O.Nn, Ne |-> O.Ne, size |-> O.size,
     class |-> SizeClass(O.Nn, O.Ne),
     verdict |-> IF O.name \notin DOMAIN d THEN "unmodelled"
                 ELSE LET t == d[O.name] IN
                      IF O.size \notin {(IF O.node THEN O.Nn ELSE O.Ne) * n : n \in NCompSet(t, O.sim, O.dim, O.dofn)} THEN "wrong-form"
                      ELSE IF Whole(t) # "" /\ ~(\E i \in 1..Len(O.avail) : O.avail[i] = Whole(t)) THEN "orphan"
                      ELSE IF t[1] = "any_e" \/ (Stored(t) = "elem" /\ O.node) THEN "ok"       \* smoothing to the nodes: the form is judged, the values by the constant-field rule
                      ELSE IF \E i \in 1..Len(O.tokens) : O.tokens[i] = t THEN "ok" ELSE "mismatch",
     expected |-> IF O.name \in DOMAIN d THEN d[O.name] ELSE <<"?", "?">>]

Init == k = 1
Next == k < Len(Obs) /\ k' = k + 1
Spec == Init /\ [][Next]_vars
Report == PrintT(<<"VERDICT", ToJson(Verdict)>>) /\ (k = Len(Obs) => PrintT(<<"CLASSES", ToJson(Classes)>>) /\ PrintT(<<"BALANCE", ToJson(BalanceCases)>>))
=============================================================================
