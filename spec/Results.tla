------------------------------ MODULE Results ------------------------------
(* C16 -- which quantity a named result reads.  Def gives, per simulation kind, the meaning  *)
(* of every modelled result name as a token  <<field, component>> :                           *)
(*    field  "u" | "v" | "a"          the displacement / velocity / acceleration vector       *)
(*           "Ku"                      nodal internal forces K u                               *)
(*           "S" | "E"                 stress / strain (element mean of the Gauss-point values)*)
(*    component  0-based index | "all" | "norm" | "vm" (von Mises norm at each Gauss point,    *)
(*               THEN averaged per element)                                                    *)
(* The harness sets the live fields to mutually distinguishable random arrays, evaluates every *)
(* advertised name and abstracts the returned array to the token it equals (direction B);      *)
(* TLC compares the observed token with Def.                                                   *)
EXTENDS Integers, Sequences, FiniteSets, TLC, Json, IOUtils

Obs == JsonDeserialize(IOEnv.RESULT_TABLE)     \* sequence of [sim, dim, dofn, name, tokens]  (tokens: every candidate the returned array equals)

VARIABLE k
vars == <<k>>

Tok(f, c) == <<f, c>>
Idx(ch) == CASE ch = "x" -> "0" [] ch = "y" -> "1" [] ch = "z" -> "2"

(* component names of a vector field with `n` components *)
Comp(prefix, field, n) ==
    [nm \in {prefix \o ch : ch \in (IF n >= 3 THEN {"x", "y", "z"} ELSE IF n = 2 THEN {"x", "y"} ELSE {"x"})} |->
        Tok(field, Idx(SubSeq(nm, Len(nm), Len(nm))))]

Voigt2 == [xx |-> "0", yy |-> "1", xy |-> "2"]
Voigt3 == [xx |-> "0", yy |-> "1", zz |-> "2", yz |-> "3", xz |-> "4", xy |-> "5"]
Tens(prefix, field, dim) ==
    LET V == IF dim = 2 THEN Voigt2 ELSE Voigt3 IN
    [nm \in {prefix \o c : c \in DOMAIN V} |-> Tok(field, V[SubSeq(nm, 2, 3)])]

Merge(f, g) == [x \in DOMAIN f \cup DOMAIN g |-> IF x \in DOMAIN f THEN f[x] ELSE g[x]]
RECURSIVE MergeAll(_)
MergeAll(s) == IF Len(s) = 1 THEN s[1] ELSE Merge(s[1], MergeAll(Tail(s)))

Kin(dim) == MergeAll(<<Comp("u", "u", dim), Comp("v", "v", dim), Comp("a", "a", dim),
                        [nm \in {"displacement"} |-> Tok("u", "all")], [nm \in {"displacement_norm"} |-> Tok("u", "norm")],
                        [nm \in {"speed"} |-> Tok("v", "all")], [nm \in {"speed_norm"} |-> Tok("v", "norm")],
                        [nm \in {"accel"} |-> Tok("a", "all")], [nm \in {"accel_norm"} |-> Tok("a", "norm")]>>)
Mech(dim) == MergeAll(<<Tens("S", "S", dim), Tens("E", "E", dim),
                         [nm \in {"Svm"} |-> Tok("S", "vm")], [nm \in {"Evm"} |-> Tok("E", "vm")],
                         [nm \in {"Stress"} |-> Tok("S", "all")], [nm \in {"Strain"} |-> Tok("E", "all")]>>)

BeamDofs(dofn) == CASE dofn = 1 -> <<"ux">> [] dofn = 3 -> <<"ux", "uy", "rz">> [] dofn = 6 -> <<"ux", "uy", "uz", "rx", "ry", "rz">>
BeamForces(dofn) == CASE dofn = 1 -> <<"fx">> [] dofn = 3 -> <<"fx", "fy", "cz">> [] dofn = 6 -> <<"fx", "fy", "fz", "cx", "cy", "cz">>
Digits == <<"0", "1", "2", "3", "4", "5">>
SeqTok(names, field) == [nm \in {names[i] : i \in 1..Len(names)} |-> Tok(field, Digits[CHOOSE i \in 1..Len(names) : names[i] = nm])]

Def(sim, dim, dofn) ==
    CASE sim = "Elastic"      -> Merge(Kin(dim), Mech(dim))
      [] sim = "HyperElastic" -> Kin(dim)
      [] sim = "PhaseField"   -> MergeAll(<<Comp("u", "u", dim), [nm \in {"displacement"} |-> Tok("u", "all")],
                                            [nm \in {"displacement_norm"} |-> Tok("u", "norm")], [nm \in {"damage"} |-> Tok("d", "all")]>>)
      [] sim = "Thermal"      -> [nm \in {"thermal", "thermalDot"} |-> IF nm = "thermal" THEN Tok("u", "all") ELSE Tok("v", "all")]
      [] sim = "WeakForms"    -> MergeAll(<<Comp("u", "u", dofn), Comp("v", "v", dofn), Comp("a", "a", dofn),
                                            [nm \in {"u"} |-> Tok("u", "all")], [nm \in {"v"} |-> Tok("v", "all")], [nm \in {"a"} |-> Tok("a", "all")]>>)
      [] sim = "Beam"         -> MergeAll(<<SeqTok(BeamDofs(dofn), "u"), SeqTok(BeamForces(dofn), "Ku"), [nm \in {"displacement"} |-> Tok("u", "all")]>>)

O == Obs[k]
Verdict ==
    LET d == Def(O.sim, O.dim, O.dofn) IN
    [sim |-> O.sim, dim |-> O.dim, dofn |-> O.dofn, name |-> O.name, tokens |-> O.tokens,
     verdict |-> IF O.name \notin DOMAIN d THEN "unmodelled"
                 ELSE IF \E i \in 1..Len(O.tokens) : O.tokens[i] = d[O.name] THEN "ok" ELSE "mismatch",
     expected |-> IF O.name \in DOMAIN d THEN d[O.name] ELSE <<"?", "?">>]

Init == k = 1
Next == k < Len(Obs) /\ k' = k + 1
Spec == Init /\ [][Next]_vars
Report == PrintT(<<"VERDICT", ToJson(Verdict)>>)
=============================================================================
