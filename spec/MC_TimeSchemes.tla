--------------------------- MODULE MC_TimeSchemes ---------------------------
(* Model-checking instances of TimeSchemes: constant lattices (cfg files cannot hold     *)
(* tuples, so they are defined here and substituted with <-).                            *)
EXTENDS TimeSchemes

P(alg, dt, pa, pb, pg) == [algo |-> alg, dt |-> dt, al |-> pa, be |-> pb, ga |-> pg]
Q14 == R(1, 4)   Q16 == R(1, 6)   Q13 == R(1, 3)   Q34 == R(3, 4)   Q23 == R(2, 3)  Q112 == R(1, 12)

DtsQ  == {One, Half, Two}
DtsT  == {One, Half, Two, R(3, 1), Q13}
BGq   == {<<Q14, Half>>, <<Q16, Half>>, <<Half, Q34>>}
BGt   == {<<Q14, Half>>, <<Q16, Half>>, <<Half, Q34>>, <<Q14, Q34>>, <<Q13, Q23>>}
AlQ   == {Zero, Q14, Half}
AlT   == {Zero, Q14, Q13, Half, Q34}
AlNq  == {Zero, Q13, R(1, 5)}
AlNt  == {Zero, Q13, R(1, 5), R(1, 7), R(1, 9)}
ThQ   == {Half, One, Q34}
ThT   == {Half, One, Q34, Q14, Q13}

Lattice(Dts, BG, Al, AlN, Th) ==
         {P("newmark", dt, Zero, bg[1], bg[2]) : dt \in Dts, bg \in BG}
    \cup {P("hht", dt, al, bg[1], bg[2]) : dt \in Dts, al \in Al, bg \in BG}
    \cup {P("hht_newmark", dt, al, Q14, Half) : dt \in Dts, al \in AlN}
    (* beta, gamma, alpha are accepted but documented as irrelevant for these three: non-default values included *)
    \cup {P("midpoint", dt, al, bg[1], bg[2]) : dt \in Dts, al \in {Half, Q14}, bg \in BG}
    \cup {P("euler_implicit", dt, al, bg[1], bg[2]) : dt \in Dts, al \in {Zero, Q14}, bg \in BG}
    \cup {P("euler_explicit", dt, al, bg[1], bg[2]) : dt \in Dts, al \in {Zero, Q14}, bg \in BG}
    \cup {P("parabolic", dt, th, Q14, Half) : dt \in Dts, th \in Th}

AlgoPrmsQuick    == Lattice(DtsQ, BGq, AlQ, AlNq, ThQ)
(* the thorough lattice stops where 32-bit rationals stop: hht_newmark with alpha = 1/7, 1/9 and dt = 1/3 overflow TLC's integers (an error, never a wrong value) *)
AlgoPrmsThorough == Lattice(DtsQ \cup {R(3, 1)}, BGt, AlT, AlNq, ThT)
(* multi-step switching histories: dyadic parameters keep numerators small *)
AlgoPrmsSwitch ==
    {P("newmark", dt, Zero, Q14, Half) : dt \in {One, Two}}
    \cup {P("hht", One, Q14, Q14, Half), P("hht", Two, Half, Q14, Half), P("hht_newmark", Two, Zero, Q14, Half),
          P("midpoint", One, Half, Q14, Half), P("midpoint", Two, Half, Q14, Half),
          P("euler_implicit", One, Zero, Q14, Half), P("euler_explicit", Half, Zero, Q14, Half),
          P("parabolic", One, Half, Q14, Half), P("parabolic", Two, One, Q14, Half)}

(* free vibration: conservation / dissipation claims, two steps so that Newmark's second step starts in equilibrium *)
AlgoPrmsFree ==
    {P("newmark", dt, Zero, Q14, Half) : dt \in {One, Half, Two}}
    \cup {P("midpoint", dt, Half, Q14, Half) : dt \in {One, Half, Two}}
    \cup {P("euler_implicit", dt, Zero, Q14, Half) : dt \in {One, Half, Two}}
    \cup {P("hht", One, Half, Q14, Half), P("hht", One, Zero, Q14, Half), P("hht_newmark", One, Zero, Q14, Half)}

M2(m11, m12, m21, m22) == <<<<RI(m11), RI(m12)>>, <<RI(m21), RI(m22)>>>>
ZM == M2(0, 0, 0, 0)
K1 == M2(2, -1, -1, 2)     K2 == M2(3, -1, -1, 1)
C1 == M2(1, -1, -1, 1)     M1 == M2(2, 1, 1, 2)      M2d == M2(1, 0, 0, 3)
(* Rayleigh damping C = 1/2 K + 1/2 M for (K1, M1) *)
CR == MAdd2(MScale2(Half, K1), MScale2(Half, M1))
MatsQuick == {[k |-> K1, c |-> ZM, m |-> M1], [k |-> K2, c |-> C1, m |-> M2d], [k |-> K1, c |-> CR, m |-> M1]}
MatsOne   == {[k |-> K2, c |-> C1, m |-> M2d]}
MatsTwo   == {[k |-> K2, c |-> C1, m |-> M2d], [k |-> K1, c |-> CR, m |-> M1]}     \* re-assembled between two steps (matchange configuration)
MatsFree  == {[k |-> K1, c |-> ZM, m |-> M1], [k |-> K2, c |-> ZM, m |-> M2d]}

V2(x1, x2) == <<RI(x1), RI(x2)>>
(* affine basis of the state space (u, v, a) in Q^6: origin, six unit states, one generic state;        *)
(* a step is an affine map of the state, so agreement on an affine basis is agreement everywhere.        *)
StatesBasis == {<<V2(0, 0), V2(0, 0), V2(0, 0)>>,
                <<V2(1, 0), V2(0, 0), V2(0, 0)>>, <<V2(0, 1), V2(0, 0), V2(0, 0)>>,
                <<V2(0, 0), V2(1, 0), V2(0, 0)>>, <<V2(0, 0), V2(0, 1), V2(0, 0)>>,
                <<V2(0, 0), V2(0, 0), V2(1, 0)>>, <<V2(0, 0), V2(0, 0), V2(0, 1)>>,
                <<V2(1, -1), V2(2, 1), V2(-1, 2)>>}
(* states in equilibrium for the free-vibration systems: M a + K u = 0 *)
EquilState(mt, su, sv) == <<su, sv, Solve2(mt.m, VSub2(O2, MatVec2(mt.k, su)))>>
StatesFree == {EquilState(mt, su, sv) : mt \in MatsFree, su \in {V2(1, 0), V2(1, -1)}, sv \in {V2(0, 0), V2(2, 1)}}
              \cup {<<V2(1, -1), V2(2, 1), V2(-1, 2)>>}
NoRefusals == {}
(* inadmissible records: alpha beyond 1/3 for hht_newmark, alpha = 1 for hht, a zero or negative step *)
BadPrmsSwitch == {P("hht_newmark", One, Half, Q14, Half), P("hht", One, One, Q14, Half), P("midpoint", RI(-1), Half, Q14, Half),
                  P("euler_implicit", Zero, Zero, Q14, Half), P("parabolic", Zero, Half, Q14, Half)}
StatesOne == {<<V2(1, -1), V2(2, 1), V2(-1, 2)>>}
StatesSwitch == {<<V2(1, 0), V2(0, 1), V2(0, 0)>>, <<V2(1, -1), V2(2, 1), V2(-1, 2)>>}

LoadsQuick == {V2(0, 0), V2(3, -2)}
LoadsSwitch == {V2(0, 0), V2(1, 0)}
LoadsZero  == {V2(0, 0)}
GsQuick    == {RI(0), RI(2)}
GsOne      == {RI(1)}
BoolSet    == {TRUE, FALSE}
FreeOnly   == {FALSE}
=============================================================================
