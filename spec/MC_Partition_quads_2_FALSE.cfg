SPECIFICATION Spec
CONSTANTS
  MeshName = "quads"
  N = 2
  GhostsByType = FALSE
  SegFollows = FALSE
INVARIANT Elems
INVARIANT NodesOK
INVARIANT Rows
