SPECIFICATION Spec
CONSTANTS
  NeSet = {1, 2, 3}
  NpgSet = {1, 3}
  Dims = {2, 3}
  MaxRank = 3
  Ops = {"tensorprod"}
  Emit = TRUE
INVARIANT TypeRule
INVARIANT EmitOK
