SPECIFICATION Spec
CONSTANTS
  MaxIter = 4
  Solver = "History"
  Defect = "return_previous_u"
INVARIANT LastPair
INVARIANT Bounded
INVARIANT FlagHonest
PROPERTY FirstHit
CHECK_DEADLOCK FALSE
