SPECIFICATION Spec
CONSTANTS
  Elems2 = {"TRI3", "QUAD4", "TRI6", "QUAD8", "QUAD9", "TRI10"}
  Elems3 = {"TETRA4", "HEXA8", "PRISM6", "TETRA10", "HEXA20", "PRISM15", "HEXA27", "PRISM18"}
  LawsAll = {"SVK", "SVQ", "NH", "MR", "CG", "HO", "AD"}
  Emit = TRUE
  Thorough = TRUE
INVARIANT TypeOK
INVARIANT EmitOK
CHECK_DEADLOCK FALSE
