SPECIFICATION Spec
CONSTANTS
  Sims = {"s1", "s2"}
  Meshes = {"A", "B"}
  Folders = {"", "f1", "f2"}
  MaxVer = 3
  MaxSolve = 6
  MaxIter = 4
  MaxMesh = 3
  Defect = "none"
  CacheOn = TRUE
  StoreOn = TRUE
  Acts <- AllActs
  Emit = TRUE
VIEW view
INVARIANT TypeOK
INVARIANT NoStale
INVARIANT GeoCacheCurrent
INVARIANT MapsCurrent
INVARIANT Observing
PROPERTY AppendOnly
PROPERTY PureRead
PROPERTY Restores
PROPERTY Pinned
INVARIANT EmitOK
