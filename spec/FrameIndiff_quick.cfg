SPECIFICATION Spec2
CONSTANTS
  MaxMoves = 1
  Motions = {"translate", "rotz", "rotx", "mirx", "miry"}
  Partial = FALSE
  Emit = TRUE
INVARIANT AllFramesEqual
INVARIANT Isometry
INVARIANT EmitFrame
INVARIANT EmitForms
