----------------------------- MODULE Quadrature -----------------------------
(* C07 -- quadrature rules.  Exact reference integrals of monomials over the reference      *)
(* shapes, the documented exactness order of every rule, and the counting condition that a   *)
(* stiffness rule must satisfy for an element not to be rank deficient.  The harness records *)
(* (direction B) for every rule the library accepts: number of points, sum of weights, the   *)
(* smallest barycentric coordinate of any point and sum_p w_p m(x_p) for every monomial up   *)
(* to degree DocOrder + 2 (snapped to rationals at 1e-13); TLC decides the property.         *)
EXTENDS Rat, FiniteSets, TLC, Json, IOUtils

Rules == JsonDeserialize(IOEnv.QUAD_TABLES).rules       \* sequence of rule records
Factory == JsonDeserialize(IOEnv.QUAD_TABLES).factory   \* sequence of [elem, matrix, shape, nPg, nPe, dim, order]

VARIABLE k
vars == <<k>>

RECURSIVE Fact(_)
Fact(n) == IF n <= 1 THEN 1 ELSE n * Fact(n - 1)

(* integral of x^a over [-1, 1] *)
SegInt(a) == IF a % 2 = 1 THEN Zero ELSE R(2, a + 1)
(* integral of x^a y^b over the unit triangle, x^a y^b z^c over the unit tetrahedron *)
TriInt(a, b) == R(Fact(a) * Fact(b), Fact(a + b + 2))
TetInt(a, b, c) == R(Fact(a) * Fact(b) * Fact(c), Fact(a + b + c + 3))

ExactInt(shape, e) ==
    CASE shape = "SEG"   -> SegInt(e[1])
      [] shape = "TRI"   -> TriInt(e[1], e[2])
      [] shape = "QUAD"  -> Mul(SegInt(e[1]), SegInt(e[2]))
      [] shape = "TETRA" -> TetInt(e[1], e[2], e[3])
      [] shape = "HEXA"  -> Mul3(SegInt(e[1]), SegInt(e[2]), SegInt(e[3]))
      [] shape = "PRISM" -> Mul(TriInt(e[1], e[2]), SegInt(e[3]))     \* triangle in (x, y), axis z in [-1, 1]

RefMeasure(shape) == ExactInt(shape, <<0, 0, 0>>)

(* documented exactness (docstrings of _gauss.py; Gauss-Legendre n points: 2n - 1) *)
DocTri  == [n \in {1, 3, 6, 7, 12} |-> CASE n = 1 -> 1 [] n = 3 -> 2 [] n = 6 -> 3 [] n = 7 -> 4 [] n = 12 -> 5]
DocQuad == [n \in {4, 9} |-> IF n = 4 THEN 1 ELSE 2]
DocTet  == [n \in {1, 4, 5, 15} |-> CASE n = 1 -> 1 [] n = 4 -> 2 [] n = 5 -> 3 [] n = 15 -> 5]
DocHex  == [n \in {8, 27} |-> IF n = 8 THEN 3 ELSE 5]
DocPrismAxis == [n \in {6, 8, 21} |-> CASE n = 6 -> 3 [] n = 8 -> 3 [] n = 21 -> 5]
DocPrismTri  == [n \in {6, 8, 21} |-> CASE n = 6 -> 2 [] n = 8 -> 3 [] n = 21 -> 5]
Accepted == [SEG |-> 1..8, TRI |-> {1, 3, 6, 7, 12}, QUAD |-> {4, 9}, TETRA |-> {1, 4, 5, 15}, HEXA |-> {8, 27}, PRISM |-> {6, 8, 21}]

InDoc(shape, n, e) ==
    CASE shape = "SEG"   -> e[1] <= 2 * n - 1
      [] shape = "TRI"   -> e[1] + e[2] <= DocTri[n]
      [] shape = "QUAD"  -> e[1] + e[2] <= DocQuad[n]
      [] shape = "TETRA" -> e[1] + e[2] + e[3] <= DocTet[n]
      [] shape = "HEXA"  -> e[1] + e[2] + e[3] <= DocHex[n]
      [] shape = "PRISM" -> e[1] + e[2] <= DocPrismTri[n] /\ e[3] <= DocPrismAxis[n]

Rr == Rules[k]
Moments == {Rr.moments[i] : i \in 1..Len(Rr.moments)}     \* pairs <<exponents, value>>

Fails == {m[1] : m \in {mm \in Moments : InDoc(Rr.shape, Rr.nPg, mm[1]) /\ mm[2] # ExactInt(Rr.shape, mm[1])}}
MaxDeg == CHOOSE d \in 0..30 : (\E m \in Moments : m[1][1] + m[1][2] + m[1][3] = d) /\ (\A m \in Moments : m[1][1] + m[1][2] + m[1][3] <= d)
Measured == CHOOSE q \in -1..30 :
               /\ \A m \in Moments : (m[1][1] + m[1][2] + m[1][3] <= q) => m[2] = ExactInt(Rr.shape, m[1])
               /\ (q = MaxDeg \/ \E m \in Moments : m[1][1] + m[1][2] + m[1][3] = q + 1 /\ m[2] # ExactInt(Rr.shape, m[1]))

RuleVerdict ==
    [shape |-> Rr.shape, nPg |-> Rr.nPg,
     available |-> Rr.available,
     accepted |-> Rr.nPg \in Accepted[Rr.shape],
     weightOK |-> Rr.available => (Rr.sumw = RefMeasure(Rr.shape)),
     insideOK |-> Rr.available => (Rr.minbary >= 0),
     fails |-> IF Rr.available THEN Fails ELSE {},
     measured |-> IF Rr.available THEN Measured ELSE -1]

(* counting condition for the stiffness rule: each point contributes at most nStrain independent rows *)
NStrain(dim) == CASE dim = 1 -> 1 [] dim = 2 -> 3 [] dim = 3 -> 6
NRigid(dim)  == CASE dim = 1 -> 1 [] dim = 2 -> 3 [] dim = 3 -> 6
FactoryFails ==
    {<<f.elem, f.matrix>> : f \in {Factory[i] : i \in 1..Len(Factory)}} \cap
    {<<f.elem, f.matrix>> : f \in {g \in {Factory[i] : i \in 1..Len(Factory)} :
        /\ g.matrix = "rigi"
        /\ \/ g.nPg * g.dim < g.nPe - 1                               \* scalar problem (heat conduction): constants only
           \/ g.nPg * NStrain(g.dim) < g.nPe * g.dim - NRigid(g.dim)}} \* elasticity: rigid-body modes only

Init == k = 1
Next == k < Len(Rules) /\ k' = k + 1
Spec == Init /\ [][Next]_vars
Report == /\ PrintT(<<"RULE", ToJson(RuleVerdict)>>)
          /\ (k = 1 => PrintT(<<"FACTORY", ToJson([fails |-> FactoryFails])>>))
=============================================================================
