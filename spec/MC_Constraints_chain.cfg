SPECIFICATION Spec
CONSTANTS
  SysNames <- Names
  SysDef <- Systems
  DirChoices <- Dirs
  NeuChoices <- Neus
  MaxConds = 2
  MaxRounds = 2
  Emit = TRUE
INVARIANT Holds
INVARIANT EmitChain
