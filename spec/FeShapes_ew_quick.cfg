SPECIFICATION Spec
CONSTANTS
  NeSet = {1, 2, 3}
  NpgSet = {1, 2, 3}
  Dims = {1, 2, 3}
  MaxRank = 2
  Ops = {"ew"}
  Emit = TRUE
INVARIANT TypeRule
INVARIANT EmitOK
