SPECIFICATION Spec
CONSTANTS
  Mpi = FALSE
  Problems = {"elastic", "damage"}
  Ksps = {"cg", "gmres", "preonly", "bogus"}
  Pcs = {"gamg", "sor", "lu", "cholesky", "bogus"}
  Backends = {"petsc", "mumps", "bogus"}
  Defect = "all_on_target"
  Depth = 6
INVARIANT StoredValid
PROPERTY RefusalIsNoOp
PROPERTY Targeted
VIEW View
CHECK_DEADLOCK FALSE
