------------------------------ MODULE Pipeline ------------------------------
(* C01 (and the exact expectations shared by C08 / C09 / C10) -- the full solve pipeline on     *)
(* a linear field.  The module enumerates the configuration space                               *)
(*    physics x element type x law x 2-D assumption x mesh kind x affine map x field           *)
(* and states, in exact rationals, what a linear static problem with a prescribed LINEAR field  *)
(* must return: the field itself at every node, the constant strain sym(G) (gradient for heat   *)
(* conduction, axial strain / curvature for beams) and the measure of the mapped domain, from    *)
(* which energy = 1/2 sigma : eps * measure * thickness follows for any stress sigma with        *)
(* S sigma = eps.  Every state is replayed through the real meshing / solve / post-processing.   *)
EXTENDS Rat, FiniteSets, Sequences, TLC, Json

CONSTANTS Elems2D, Elems3D, Elems1D, Laws, MeshKinds, Maps, Fields2, Fields3, Emit

VARIABLE cfg
vars == <<cfg>>

(* integer pentagon (2-D) and its extrusion by 2 (3-D) *)
Pentagon == << <<0,0>>, <<4,0>>, <<5,2>>, <<2,4>>, <<0,3>> >>
RECURSIVE Shoe(_, _)
Shoe(p, i) == IF i > Len(p) THEN 0 ELSE LET j == IF i = Len(p) THEN 1 ELSE i + 1 IN p[i][1] * p[j][2] - p[j][1] * p[i][2] + Shoe(p, i + 1)
Area2 == Shoe(Pentagon, 1)                 \* twice the area
Height == 2

Det2R(m) == Sub(Mul(m[1][1], m[2][2]), Mul(m[1][2], m[2][1]))
Det3R(m) == Add3(Mul(m[1][1], Sub(Mul(m[2][2], m[3][3]), Mul(m[2][3], m[3][2]))),
                 Neg(Mul(m[1][2], Sub(Mul(m[2][1], m[3][3]), Mul(m[2][3], m[3][1])))),
                 Mul(m[1][3], Sub(Mul(m[2][1], m[3][2]), Mul(m[2][2], m[3][1]))))

Measure(dim, A) ==
    IF dim = 2 THEN Mul(R(Area2, 2), AbsR(Det2R(A)))
    ELSE Mul3(R(Area2, 2), RI(Height), AbsR(Det3R(A)))

(* strain of the linear field u(x) = G x + c : engineering Voigt components [xx, yy, (zz, yz, xz,) xy] with gamma = 2 eps *)
Strain(dim, G) ==
    IF dim = 2 THEN <<G[1][1], G[2][2], Add(G[1][2], G[2][1])>>
    ELSE <<G[1][1], G[2][2], G[3][3], Add(G[2][3], G[3][2]), Add(G[1][3], G[3][1]), Add(G[1][2], G[2][1])>>

(* how the linear field is prescribed on the boundary: functions of position, nodal arrays aligned with the (ascending) node *)
(* list, or nodal arrays aligned with a node list in another order (node sets concatenated edge by edge) - the field is the same *)
BcForms == {"func", "array", "array-permuted"}
(* how the constraints reach the linear solver.  A problem without any Lagrange condition is solved by elimination of the     *)
(* prescribed dofs; as soon as it holds one (a tie u_a - u_b = value between two nodes, the weld of two beam members) EVERY     *)
(* prescribed value is imposed through a multiplier row instead.  The tie added here is satisfied by the linear field itself, *)
(* so the expectations are unchanged: the path is an implementation choice the result may not depend on.                      *)
Paths == {"elimination", "lagrange"}
(* unit of length the coordinates are written in, as a power of ten: the same body described in metres, in tenths of a        *)
(* millimetre or in tens of kilometres.  A linear field has the same gradient in every unit, so strain and stress are        *)
(* unchanged and the measure scales by 10^(dim * unit): nothing in the pipeline may compare a length, an area or a Jacobian  *)
(* with an absolute threshold.  (TLC checks the scaling law of the measure on the small factors 2 and 1/2; the harness       *)
(* applies the power of ten, which 32-bit rationals cannot hold.)                                                            *)
Units == {0, -4, 4}

Configs ==
         {[phys |-> "elastic", dim |-> 2, elem |-> e, law |-> l, ps |-> ps, mesh |-> mk, map |-> mp, field |-> f, bc |-> b, path |-> pa, unit |-> un] :
              e \in Elems2D, l \in Laws, ps \in BOOLEAN, mk \in MeshKinds, mp \in Maps, f \in DOMAIN Fields2, b \in BcForms, pa \in Paths, un \in Units}
    \cup {[phys |-> "elastic", dim |-> 3, elem |-> e, law |-> l, ps |-> FALSE, mesh |-> mk, map |-> mp, field |-> f, bc |-> b, path |-> pa, unit |-> un] :
              e \in Elems3D, l \in Laws, mk \in MeshKinds, mp \in Maps, f \in DOMAIN Fields3, b \in BcForms, pa \in Paths, un \in Units}
    \cup {[phys |-> "thermal", dim |-> d, elem |-> e, law |-> "k", ps |-> FALSE, mesh |-> mk, map |-> mp, field |-> f, bc |-> b, path |-> pa, unit |-> un] :
              d \in {2, 3}, e \in Elems2D \cup Elems3D, mk \in MeshKinds, mp \in Maps, f \in {"g1", "g2"}, b \in BcForms, pa \in Paths, un \in Units}

(* beams: a straight member of length 3 with a 1/2 x 1/4 rectangular section, E = 10, inclined in 2-D / 3-D.     *)
(* constant axial strain e0 -> N = E A e0 ;  constant curvature kappa (no shear) -> Mz = E Iz kappa               *)
BeamE == RI(10)   BeamA == R(1, 8)   BeamIz == R(1, 1536)      \* b h^3 / 12 with b = 1/2 (along z), h = 1/4 (along y)
BeamIy == R(1, 384)                                                \* h b^3 / 12: bending in the (member, local z) plane, 3-D only ("curvature_y" -> My = E Iy kappa)
(* the member is one beam (elimination) or two collinear beams welded at mid-length (Lagrange path); the axial field carries  *)
(* a rigid offset so that every prescribed value is non-zero                                                                  *)
BeamConfigs == {[phys |-> "beam", dim |-> d, elem |-> e, law |-> th, ps |-> FALSE, mesh |-> "unstructured", map |-> "id", field |-> f, bc |-> "func", path |-> pa, unit |-> 0] :
                   d \in {1, 2, 3}, e \in Elems1D, th \in {"EB", "Timo"}, f \in {"axial", "curvature", "curvature_y"}, pa \in Paths}
BeamValid(c) == /\ (c.field = "curvature") => c.dim >= 2
                /\ (c.field = "curvature_y") => c.dim = 3
                /\ (c.field \in {"curvature", "curvature_y"} /\ c.law = "Timo") => c.elem # "SEG2"   \* a linear deflection cannot carry a constant curvature
BeamExpect(c, amp) == IF c.field = "axial" THEN Mul3(BeamE, BeamA, amp) ELSE IF c.field = "curvature" THEN Mul3(BeamE, BeamIz, amp) ELSE Mul3(BeamE, BeamIy, amp)

Valid(c) ==
    /\ c.dim = 2 => c.elem \in Elems2D
    /\ c.dim = 3 => c.elem \in Elems3D
    /\ (c.bc # "func") => (c.mesh = "unstructured" /\ c.map = "id" /\ c.law \in {"iso", "k"})       \* the form of the boundary data is independent of law, mesh kind and map
    /\ (c.path = "lagrange") => (c.bc = "func" /\ c.mesh = "unstructured" /\ c.law \in {"iso", "k"} /\ c.map \in {"id", "shear"})    \* the solver path is independent of the rest
    /\ (c.unit # 0) => (c.path = "elimination" /\ c.bc = "func" /\ c.mesh = "unstructured" /\ c.law \in {"iso", "k"} /\ c.map \in {"id", "shear"} /\ c.field \in {"mix", "g2"})   \* the unit is independent of the rest
    /\ (c.mesh = "mixed") => c.elem \in {"QUAD4", "PRISM6"}        \* mixed main-dimension types come from partial recombination / prisms carry both boundary types

(* scaling law of the measure, on exact factors: Measure(d, k A) = k^d Measure(d, A) *)
ScaleM(d, k, A) == [r \in 1..d |-> [cc \in 1..d |-> Mul(k, A[r][cc])]]
RECURSIVE PowR(_, _)
PowR(k, n) == IF n = 0 THEN One ELSE Mul(k, PowR(k, n - 1))
MeasureScales(d, A) == \A k \in {Two, Half} : Measure(d, ScaleM(d, k, A)) = Mul(PowR(k, d), Measure(d, A))

MapOf(c, Maps2, Maps3) == IF c.dim = 2 THEN Maps2[c.map] ELSE Maps3[c.map]
=============================================================================
