--------------------------- MODULE Trace_Staggered ---------------------------
(* Direction B for Staggered.tla: calls of PhaseField.Solve recorded on real simulations (the two sub-solves are wrapped  *)
(* from the harness, nothing is edited in the library).  A recorded call is a sequence of events                           *)
(*     [ev |-> "damage", tok]   [ev |-> "elastic", tok]   [ev |-> "return", u, d, converged, niter, state_u, state_d]      *)
(* tok identifies an array by its content.  The criterion is NOT logged: TLC infers, pass by pass, the only value that      *)
(* lets the next recorded event happen (a further pass: not met; a return before maxIter: met).  A call is accepted when    *)
(* every event was consumed by an action of Staggered and the return event carries what Staggered.Returned says; it is      *)
(* rejected where no action can consume the next event ("STUCK" names the event and the state of the model there).         *)
EXTENDS Staggered, Json, IOUtils

Runs == JsonDeserialize(IOEnv.STAGGERED_TRACES)
VARIABLES r, l
tvars == <<vars, r, l>>

Fresh(i) == /\ Start(Runs[i].maxIter, Runs[i].solver) /\ k = 0 /\ conv = FALSE /\ dTok = 0 /\ uTok = 0 /\ ret = "none"
FreshNext(i) == /\ prm' = [maxIter |-> Runs[i].maxIter, solver |-> Runs[i].solver] /\ pc' = "top" /\ k' = 0 /\ conv' = FALSE /\ dTok' = 0 /\ uTok' = 0 /\ ret' = "none"

TInit == r = 1 /\ l = 1 /\ Fresh(1)
Live == r <= Len(Runs)
E == Runs[r].events[l]
More == l <= Len(Runs[r].events)

ConsumeDamage == More /\ E.ev = "damage" /\ SolveDamage(E.tok) /\ l' = l + 1 /\ r' = r
ConsumeElastic == More /\ E.ev = "elastic" /\ (\E c \in BOOLEAN : SolveElastic(E.tok, c)) /\ l' = l + 1 /\ r' = r
ReturnMatches == /\ E.u = Returned.u /\ E.d = Returned.d /\ E.niter = Returned.niter /\ E.converged = Returned.converged
                 /\ E.state_u = E.u /\ E.state_d = E.d             \* what is returned is what the simulation holds
ConsumeReturn == /\ More /\ E.ev = "return" /\ pc = "top" /\ ~MayIterate /\ k >= 1 /\ ReturnMatches
                 /\ (~E.converged => k = prm.maxIter)
                 /\ PrintT(<<"ACCEPT", ToJson([run |-> Runs[r].id])>>)
                 /\ r' = r + 1 /\ l' = 1 /\ (IF r + 1 <= Len(Runs) THEN FreshNext(r + 1) ELSE UNCHANGED vars)
CanConsume == More /\ \/ (E.ev = "damage" /\ pc = "top" /\ MayIterate)
                      \/ (E.ev = "elastic" /\ pc = "afterD")
                      \/ (E.ev = "return" /\ pc = "top" /\ ~MayIterate /\ k >= 1 /\ ReturnMatches /\ (~E.converged => k = prm.maxIter))
Skip == /\ ~CanConsume
        /\ PrintT(<<"STUCK", ToJson([run |-> Runs[r].id, at |-> l, pc |-> pc, passes |-> k, criterion |-> conv, lastD |-> dTok, lastU |-> uTok,
                                       event |-> IF More THEN E.ev ELSE "end of the record"])>>)
        /\ r' = r + 1 /\ l' = 1 /\ (IF r + 1 <= Len(Runs) THEN FreshNext(r + 1) ELSE UNCHANGED vars)

TNext == Live /\ (ConsumeDamage \/ ConsumeElastic \/ ConsumeReturn \/ Skip)
TSpec == TInit /\ [][TNext]_tvars
==============================================================================
