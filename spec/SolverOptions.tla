--------------------------- MODULE SolverOptions ---------------------------
(* The PETSc option store of a simulation ( _Simu._Solver_Set_PETSc4Py_Options / _Solver_Get_PETSc4Py_Options ).       *)
(* One triple (kspType, pcType, solverType) is kept per problem type; a call either stores its triple for one problem  *)
(* type or for all of them, or raises ValueError and stores nothing.  The documented rules, in the order in which      *)
(* they are tested:                                                                                                     *)
(*    unknown-ksp / unknown-pc / unknown-solver      a name outside the three valid sets                                 *)
(*    direct-needs-preonly                           pcType lu / cholesky with a Krylov method that iterates             *)
(*    backend-needs-direct                           an external direct-solver backend with a pc that does not factorise *)
(*    mpi-sor, mpi-sequential-direct                 serial-only choices when MPI_SIZE > 1                               *)
(* What a user relies on: whatever sequence of calls was made, accepted or refused, the triple read back for every     *)
(* problem type is one the rules accept (StoredValid), a refused call changes nothing (RefusalIsNoOp), and a call for   *)
(* one problem type leaves the others alone (Targeted).                                                                 *)
EXTENDS Integers, Sequences, FiniteSets, TLC, Json

CONSTANTS Mpi,          \* BOOLEAN: MPI_SIZE > 1
          Problems,     \* problem types of the simulation, e.g. {"elastic", "damage"}
          Ksps, Pcs, Backends,   \* the values the behaviours draw from (representatives; the full table below uses every value)
          Defect,       \* "none" | "store_before_check" | "all_on_target"     (negative self-tests)
          Depth         \* behaviours of this length are emitted

ValidKsp == {"cg", "groppcg", "pipecg", "minres", "symmlq", "gmres", "fgmres", "lgmres", "bcgs", "bicg",
             "cgne", "cgls", "richardson", "chebyshev", "preonly"}
ValidPc == {"gamg", "hypre", "ml", "asm", "gasm", "bjacobi", "ilu", "icc", "lu", "cholesky", "sor", "jacobi", "none", "ksp", "fieldsplit"}
ValidBackend == {"petsc", "mumps", "superlu_dist", "mkl_pardiso", "superlu", "umfpack", "cholmod"}
DirectPc == {"lu", "cholesky"}

Verdict(k, p, s, mpi) ==
    IF k \notin ValidKsp THEN "unknown-ksp"
    ELSE IF p \notin ValidPc THEN "unknown-pc"
    ELSE IF s \notin ValidBackend THEN "unknown-solver"
    ELSE IF p \in DirectPc /\ k # "preonly" THEN "direct-needs-preonly"
    ELSE IF s # "petsc" /\ p \notin DirectPc THEN "backend-needs-direct"
    ELSE IF mpi /\ p = "sor" THEN "mpi-sor"
    ELSE IF mpi /\ p \in DirectPc /\ s = "petsc" THEN "mpi-sequential-direct"
    ELSE "ok"

(* the whole decision table, every valid name and three invalid ones per argument (wrong case, empty, unknown) *)
Strange == {"CG", "", "bogus"}
FullTable == {[ksp |-> k, pc |-> p, solver |-> s, mpi |-> m, verdict |-> Verdict(k, p, s, m)] :
                 k \in ValidKsp \cup Strange, p \in ValidPc \cup {"LU", "", "bogus"}, s \in ValidBackend \cup {"PETSc", "", "bogus"}, m \in BOOLEAN}

VARIABLES stored,   \* [Problems -> <<ksp, pc, backend>>]
          hist      \* calls made so far with their outcome -- observation only
vars == <<stored, hist>>

(* defaults of the constructor without external packages: scalar problems cg + gamg; vector problems the built-in LU in serial, *)
(* cg + gamg under MPI; PhaseField overrides its elastic problem with cg + gamg                                                *)
Default(pr) == IF Cardinality(Problems) > 1 \/ Mpi \/ pr \in {"thermal", "damage"} THEN <<"cg", "gamg", "petsc">> ELSE <<"preonly", "lu", "petsc">>
Init == stored = [pr \in Problems |-> Default(pr)] /\ hist = <<>>

Set(k, p, s, t) ==
    LET v == Verdict(k, p, s, Mpi)
        hit(pr) == t = "all" \/ t = pr \/ Defect = "all_on_target"
        new == IF v = "ok" \/ Defect = "store_before_check" THEN [pr \in Problems |-> IF hit(pr) THEN <<k, p, s>> ELSE stored[pr]] ELSE stored
    IN /\ stored' = new
       /\ hist' = Append(hist, [ksp |-> k, pc |-> p, solver |-> s, target |-> t, verdict |-> v, after |-> new])

Next == Len(hist) < Depth /\ \E k \in Ksps, p \in Pcs, s \in Backends, t \in Problems \cup {"all"} : Set(k, p, s, t)
Spec == Init /\ [][Next]_vars

View == stored        \* the exhaustive configurations identify states by the store alone: the call log only feeds the action properties
StoredValid == \A pr \in Problems : Verdict(stored[pr][1], stored[pr][2], stored[pr][3], Mpi) = "ok"
RefusalIsNoOp == [][hist'[Len(hist')].verdict # "ok" => stored' = stored]_vars
Targeted == [][\A pr \in Problems : hist'[Len(hist')].target \notin {"all", pr} => stored'[pr] = stored[pr]]_vars
(* the table is total and every rule is reachable *)
ASSUME {r.verdict : r \in FullTable} = {"ok", "unknown-ksp", "unknown-pc", "unknown-solver", "direct-needs-preonly", "backend-needs-direct", "mpi-sor", "mpi-sequential-direct"}

EmitTable == TLCGet("level") = 1 => PrintT(<<"TABLE", ToJson(FullTable)>>)
EmitBehaviour == Len(hist) = Depth => PrintT(<<"BEH", ToJson([mpi |-> Mpi, steps |-> hist])>>)
=============================================================================
