---- MODULE MC_Spectrum ----
EXTENDS Spectrum
RhosQ == {RI(2)}
ThicksQ == {One, Half}
RhosT == {One, RI(2), Half}
ThicksT == {One, Half}
====
