SPECIFICATION Spec
CONSTANTS
  NeSet = {2, 3}
  NpgSet = {2, 3}
  Dims = {2, 3}
  MaxRank = 3
  Ops = {"T", "reduce", "det", "inv", "trace", "transpose", "broadcast"}
  Emit = TRUE
INVARIANT TypeRule
INVARIANT EmitOK
