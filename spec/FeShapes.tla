------------------------------ MODULE FeShapes ------------------------------
(* C12 -- the rank / type algebra of finite-element arrays (FEM/_linalg.py), written from    *)
(* the two documented rules:                                                                  *)
(*   Rank.  A finite-element array (fe) of shape (Ne, nPg, t...) has tensor rank ndim - 2; a  *)
(*          plain array is a constant tensor of rank ndim -- never inferred from a coincidence *)
(*          of sizes.  Fields are padded to the widest rank, then broadcast once.              *)
(*   Type.  A result is a finite-element array exactly when the (Ne, nPg) axes survive.        *)
(* The module computes, for every operation and every operand descriptor, the descriptor of   *)
(* the result (type + shape) or Error.  TLC enumerates the finite case space; every state is  *)
(* one implementation test (type, shape, and values against explicit loops over (e, p)).       *)
EXTENDS Integers, Sequences, FiniteSets, TLC, Json

CONSTANTS
    NeSet, NpgSet,   \* sizes of the element / integration-point axes
    Dims,            \* sizes of tensor axes (chosen to collide with Ne and nPg)
    MaxRank,         \* largest tensor rank of an operand
    Ops,             \* operations explored
    Emit

VARIABLE cs   \* the case: [op, a, b, arg, res]
vars == <<cs>>

Err == [err |-> TRUE, fe |-> FALSE, shape |-> <<>>]
D(fe, shape) == [err |-> FALSE, fe |-> fe, shape |-> shape]

RECURSIVE SeqsOf(_, _)
SeqsOf(S, n) == IF n = 0 THEN {<<>>} ELSE {<<x>> \o s : x \in S, s \in SeqsOf(S, n - 1)}
Tensors(maxr) == UNION {SeqsOf(Dims, r) : r \in 0..maxr}

Rank(o) == IF o.fe THEN Len(o.shape) - 2 ELSE Len(o.shape)
Tens(o) == IF o.fe THEN SubSeq(o.shape, 3, Len(o.shape)) ELSE o.shape
Lead(o) == SubSeq(o.shape, 1, 2)

Ones(n) == [i \in 1..n |-> 1]
PadLeft(s, n) == Ones(n - Len(s)) \o s
Max(x, y) == IF x > y THEN x ELSE y

(* numpy broadcasting of two shapes, right aligned; <<-1>> marks failure *)
Bcast(s1, s2) ==
    LET n == Max(Len(s1), Len(s2))
        p1 == PadLeft(s1, n)  p2 == PadLeft(s2, n)
    IN  IF \A i \in 1..n : p1[i] = p2[i] \/ p1[i] = 1 \/ p2[i] = 1
        THEN [i \in 1..n |-> Max(p1[i], p2[i])] ELSE <<-1>>
Bad(s) == s = <<-1>>

(* ---- element-wise binary operation (ufunc): pad fields to the widest rank, broadcast once ---- *)
Ew(a, b) ==
    LET nt == Max(Rank(a), Rank(b))
        ta == IF a.fe THEN PadLeft(Tens(a), nt) ELSE Tens(a)     \* only fields are padded; a plain array aligns right by numpy's own rule
        tb == IF b.fe THEN PadLeft(Tens(b), nt) ELSE Tens(b)
        bt == Bcast(ta, tb)
        ld == IF a.fe /\ b.fe THEN Bcast(Lead(a), Lead(b)) ELSE IF a.fe THEN Lead(a) ELSE Lead(b)
    IN  IF Bad(bt) \/ Bad(ld) THEN Err ELSE D(TRUE, ld \o bt)

(* ---- contractions; at least one operand is a field (dot / ddot are methods of the left field; @ also takes a constant on the left) ---- *)
LeadOf(a, b) == IF a.fe /\ b.fe THEN Bcast(Lead(a), Lead(b)) ELSE IF a.fe THEN Lead(a) ELSE Lead(b)
Last(s) == s[Len(s)]
Front(s, k) == SubSeq(s, 1, Len(s) - k)
Back(s, k) == SubSeq(s, k + 1, Len(s))

Dot(a, b) ==
    LET r1 == Rank(a)  r2 == Rank(b)  ld == LeadOf(a, b) IN
    IF r1 = 0 \/ r2 = 0 \/ r1 \notin {1, 2, 4} \/ r2 \notin {1, 2, 4} \/ Bad(ld) THEN Err
    ELSE IF Last(Tens(a)) # Tens(b)[1] THEN Err
    ELSE D(TRUE, ld \o Front(Tens(a), 1) \o Back(Tens(b), 1))

Compatible(x, y) == x = y      \* the contraction configurations use tensor sizes > 1 (no size-1 broadcasting of a contracted axis)
Ddot(a, b) ==
    LET r1 == Rank(a)  r2 == Rank(b)  ld == LeadOf(a, b) IN
    IF r1 < 2 \/ r2 < 2 \/ r1 \notin {2, 4} \/ r2 \notin {2, 4} \/ Bad(ld) THEN Err
    ELSE LET ta == Tens(a)  tb == Tens(b) IN
         IF ~Compatible(ta[r1 - 1], tb[1]) \/ ~Compatible(ta[r1], tb[2]) THEN Err
         ELSE D(TRUE, ld \o Front(ta, 2) \o Back(tb, 2))

Matmul(a, b) ==
    LET r1 == Rank(a)  r2 == Rank(b)  ld == LeadOf(a, b)  ta == Tens(a)  tb == Tens(b) IN
    IF Bad(ld) THEN Err
    ELSE CASE r1 = 1 /\ r2 = 1 -> Dot(a, b)
           [] r1 = 2 /\ r2 = 2 -> IF ta[2] = tb[1] THEN D(TRUE, ld \o <<ta[1], tb[2]>>) ELSE Err      \* numpy matmul: no size-1 broadcast of the core dims
           [] r1 = 1 /\ r2 = 2 -> IF Compatible(ta[1], tb[1]) THEN D(TRUE, ld \o <<tb[2]>>) ELSE Err
           [] r1 = 2 /\ r2 = 1 -> IF Compatible(ta[2], tb[1]) THEN D(TRUE, ld \o <<ta[1]>>) ELSE Err
           [] OTHER -> Dot(a, b)

(* ---- tensor (outer) product of two fields of the same rank 1 or 2 (TensorProd); sym = 1: the symmetrised product of two  ---- *)
(* ---- matrices  1/2 (A_ik B_jl + A_il B_jk), a fourth-order tensor that is NOT symmetric in A <-> B unless A = B         ---- *)
TensorProdRule(a, b, sym) ==
    LET r1 == Rank(a)  r2 == Rank(b)  ld == LeadOf(a, b)  ta == Tens(a)  tb == Tens(b) IN
    IF ~(a.fe /\ b.fe) \/ r1 # r2 \/ r1 \notin {1, 2} \/ Bad(ld) THEN Err
    ELSE IF r1 = 1 THEN D(TRUE, ld \o <<ta[1], tb[1]>>)
    ELSE IF sym = 0 THEN D(TRUE, ld \o ta \o tb)
    ELSE IF ta[2] # tb[2] THEN Err          \* the two terms have the shapes (a1, b1, a2, b2) and (a1, b1, b2, a2)
    ELSE D(TRUE, ld \o <<ta[1], tb[1], ta[2], tb[2]>>)

(* ---- unary ---- *)
Rev(s) == [i \in 1..Len(s) |-> s[Len(s) + 1 - i]]
Transp(a) ==
    LET t == Tens(a) IN
    IF Rank(a) = 2 THEN D(TRUE, Lead(a) \o <<t[2], t[1]>>)
    ELSE IF Rank(a) > 2 THEN D(TRUE, Lead(a) \o Rev(t)) ELSE D(TRUE, a.shape)

RemoveAt(s, i) == SubSeq(s, 1, i - 1) \o SubSeq(s, i + 1, Len(s))
(* reduction over one axis (arg in -ndim..ndim-1) or over everything (arg = 99 stands for axis=None) *)
Reduce(a, ax) ==
    LET n == Len(a.shape) IN
    IF ax = 99 THEN D(FALSE, <<>>)
    ELSE IF ax >= n \/ ax < -n THEN Err
    ELSE LET k == IF ax >= 0 THEN ax ELSE ax + n      \* 0-based
         IN  D(k >= 2, RemoveAt(a.shape, k + 1))

(* Det / Trace / Inv / Transpose of a field of matrices: the tensor part must be a square matrix *)
SquareMat(a) == Rank(a) >= 2 /\ Tens(a)[Rank(a)] = Tens(a)[Rank(a) - 1]
DetLike(a) == IF SquareMat(a) THEN D(TRUE, Front(a.shape, 2)) ELSE Err
InvLike(a) == IF SquareMat(a) THEN D(TRUE, a.shape) ELSE Err
(* a scalar or vector field has no matrix axes: returned unchanged, like the .T property *)
TransposeFn(a) == IF Rank(a) >= 2 THEN D(TRUE, Front(a.shape, 2) \o <<Last(a.shape), a.shape[Len(a.shape) - 1]>>) ELSE D(TRUE, a.shape)

(* FeArray.broadcast(value, Ne, nPg, tensor_ndim): value is a plain array whose LEADING axes are (), (Ne,) or (Ne, nPg) *)
(* and whose trailing tensor_ndim axes are the tensor; arg = tensor_ndim (> 0, the unambiguous form)                     *)
(* arg = 0 (no tensor axes declared): a 1-D coefficient whose length is the number of ELEMENTS is one value per element - also *)
(* when the number of Gauss points happens to be the same -, otherwise a length equal to the number of Gauss points is one value *)
(* per Gauss point, any other length is a constant vector; a 2-D (Ne, nPg) array is the field itself                              *)
BroadcastCoef(v, ne, npg, tn) ==
    LET s == v.shape  n == Len(s) IN
    IF tn = 0 THEN (IF n = 1 THEN (IF s[1] = ne \/ s[1] = npg THEN D(TRUE, <<ne, npg>>) ELSE D(TRUE, <<ne, npg, s[1]>>))
                    ELSE IF n >= 2 /\ s[1] = ne /\ s[2] = npg THEN D(TRUE, s) ELSE D(TRUE, <<ne, npg>> \o s))
    ELSE IF tn > n THEN Err
    ELSE LET ld == SubSeq(s, 1, n - tn)  tl == SubSeq(s, n - tn + 1, n) IN
         IF ld = <<>> \/ ld = <<ne>> \/ ld = <<ne, npg>> THEN D(TRUE, <<ne, npg>> \o tl) ELSE Err

---------------------------------------------------------------------------
FeOperands  == {D(TRUE, <<ne, np>> \o t) : ne \in NeSet, np \in NpgSet, t \in Tensors(MaxRank)}
PlainOperands == {D(FALSE, t) : t \in Tensors(MaxRank)}
Binary == {"ew", "matmul", "dot", "ddot"}
Unary == {"T", "reduce", "det", "inv", "trace", "transpose"}

Result(op, a, b, arg) ==
    CASE op = "ew"     -> Ew(a, b)
      [] op = "matmul" -> Matmul(a, b)
      [] op = "dot"    -> Dot(a, b)
      [] op = "ddot"   -> Ddot(a, b)
      [] op = "tensorprod" -> TensorProdRule(a, b, arg)
      [] op = "T"      -> Transp(a)
      [] op = "reduce" -> Reduce(a, arg)
      [] op \in {"det", "trace"} -> DetLike(a)
      [] op = "inv"    -> InvLike(a)
      [] op = "transpose" -> TransposeFn(a)
      [] op = "broadcast" -> BroadcastCoef(b, a.shape[1], a.shape[2], arg)

None == D(FALSE, <<>>)
Cases ==
         {[op |-> op, a |-> a, b |-> b, arg |-> 0] : op \in Binary \cap Ops, a \in FeOperands, b \in FeOperands \cup PlainOperands}
    \cup {[op |-> op, a |-> a, b |-> b, arg |-> 0] : op \in {"ew", "matmul"} \cap Ops, a \in PlainOperands, b \in FeOperands}     \* constant on the left (a plain array acts as a constant tensor)
    \cup {[op |-> "tensorprod", a |-> a, b |-> b, arg |-> sy] : a \in IF "tensorprod" \in Ops THEN {o \in FeOperands : Rank(o) <= 3} ELSE {}, b \in {o \in FeOperands : Rank(o) <= 3}, sy \in {0, 1}}     \* the product is defined for ranks 1 and 2: ranks 0 and 3 stand for the rejected operands
    \cup {[op |-> op, a |-> a, b |-> None, arg |-> 0] : op \in (Unary \ {"reduce"}) \cap Ops, a \in FeOperands}
    \cup {[op |-> "reduce", a |-> a, b |-> None, arg |-> ax] : a \in IF "reduce" \in Ops THEN FeOperands ELSE {}, ax \in (-(MaxRank + 2)..(MaxRank + 1)) \cup {99}}
    \cup UNION {{[op |-> "broadcast", a |-> D(TRUE, <<ne, np>>), b |-> v, arg |-> tn] :
                    ne \in IF "broadcast" \in Ops THEN NeSet ELSE {}, np \in NpgSet,
                    v \in {vv \in {D(FALSE, l \o t) : l \in {<<>>} \cup {<<x>> : x \in NeSet \cup NpgSet} \cup {<<x, y>> : x \in NeSet, y \in NpgSet},
                                                       t \in SeqsOf(Dims, 1) \cup SeqsOf(Dims, 2)} : Len(vv.shape) >= tn}}   \* the value has at least the declared tensor axes
                 : tn \in 1..2}
    \cup {[op |-> "broadcast", a |-> D(TRUE, <<ne, np>>), b |-> D(FALSE, sh), arg |-> 0] :
              ne \in IF "broadcast" \in Ops THEN NeSet ELSE {}, np \in NpgSet,
              sh \in {<<x>> : x \in NeSet \cup NpgSet \cup Dims} \cup {<<x, y>> : x \in NeSet, y \in NpgSet}}

(* both fields live on the same mesh group; either may be a partial field - one value per element (Ne, 1, ...) or per Gauss *)
(* point (1, nPg, ...) - which broadcasts along the other axis                                                              *)
SameLead(c) == (c.a.fe /\ c.b.fe) => \A i \in 1..2 : Lead(c.a)[i] = Lead(c.b)[i] \/ Lead(c.a)[i] = 1 \/ Lead(c.b)[i] = 1

Init == \E c \in Cases : SameLead(c) /\ cs = [op |-> c.op, a |-> c.a, b |-> c.b, arg |-> c.arg, res |-> Result(c.op, c.a, c.b, c.arg)]
Next == UNCHANGED cs
Spec == Init /\ [][Next]_vars

(* Type rule as an invariant of the rule table itself: a non-error result of an operation that keeps the field axes *)
(* starts with the (Ne, nPg) of its field operand                                                                     *)
TypeRule ==
    (~cs.res.err /\ cs.res.fe) =>
        LET f == IF cs.a.fe THEN cs.a ELSE cs.b
            ld == IF cs.a.fe /\ cs.b.fe THEN Bcast(Lead(cs.a), Lead(cs.b)) ELSE Lead(f)      \* partial fields broadcast to the full (Ne, nPg)
        IN  Len(cs.res.shape) >= 2 /\ SubSeq(cs.res.shape, 1, 2) = ld
EmitOK == Emit => PrintT(<<"CASE", ToJson(cs)>>)
(* The pointwise operations on ONE operand are homogeneous: op(s A) = s^deg op(A) for every s > 0, n the matrix dimension.  The     *)
(* replay applies them to the operand multiplied by 1e-14 (a heterogeneous field whose entries all lie within 1e-12 of each other  *)
(* in absolute terms is still heterogeneous).                                                                                        *)
ScaleDegree(op, n) == CASE op = "inv" -> -1 [] op = "det" -> n [] op \in {"trace", "transpose", "T"} -> 1 [] OTHER -> 1

=============================================================================
