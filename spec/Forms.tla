------------------------------- MODULE Forms -------------------------------
(* C13 -- a grammar of user-written weak forms and its meaning.  Expressions over the           *)
(* gradient of the trial field u and of the test field v:                                        *)
(*      E ::= G | T(E) | Sym(E) | TrI(E) | M(E)     (gradient, transpose, symmetric part, tr(E) I, *)
(*                                                   product M E with a fixed UNSYMMETRIC matrix)  *)
(*      F ::= Ddot(E_u, E_v) | Scale(k, F) | Plus(F, F)                                          *)
(* A form is bilinear in (grad u, grad v), so its meaning is the coefficient tensor               *)
(*      T[a][i][b][j] = F(grad u := e_a (x) e_i, grad v := e_b (x) e_j)                           *)
(* computed here by evaluating the expression on unit inputs over exact rationals.  TLC            *)
(* enumerates every form of the grammar up to the configured depth; each state is compiled to a   *)
(* Python lambda over Field / FeArray operations and BiLinearForm.Integrate_e / Assemble are       *)
(* compared with  K[(n,b),(m,a)] = sum_p wJ T[a][i][b][j] dN_m,i dN_n,j  (row = TEST function n, component b;      *)
(* column = TRIAL function m, component a: the orientation that makes K u = F the discrete form of a(u, v) = l(v))  *)
EXTENDS Rat, FiniteSets, Sequences, TLC, Json

CONSTANTS Dims, Emit
VARIABLE fm
vars == <<fm>>

Unit(d, a, i) == [r \in 1..d |-> [c \in 1..d |-> IF r = a /\ c = i THEN One ELSE Zero]]
Tr(d, m) == LET F[k \in 0..d] == IF k = 0 THEN Zero ELSE Add(F[k - 1], m[k][k]) IN F[d]
Transp(d, m) == [r \in 1..d |-> [c \in 1..d |-> m[c][r]]]
SymP(d, m) == [r \in 1..d |-> [c \in 1..d |-> Mul(Half, Add(m[r][c], m[c][r]))]]
TrIP(d, m) == [r \in 1..d |-> [c \in 1..d |-> IF r = c THEN Tr(d, m) ELSE Zero]]
DdotM(d, m, n) == LET S[k \in 0..(d * d)] == IF k = 0 THEN Zero ELSE Add(S[k - 1], Mul(m[((k - 1) \div d) + 1][((k - 1) % d) + 1], n[((k - 1) \div d) + 1][((k - 1) % d) + 1])) IN S[d * d]

(* M: a fixed matrix that is not symmetric.  Transpose, symmetric part and tr(.) I are self-adjoint and commute, so every   *)
(* form built from them alone is symmetric in (u, v) and cannot tell which of the two fields indexes the rows of the element *)
(* matrix; M (u -> M grad u) is not self-adjoint: the forms that use it on one side only are NOT symmetric.                   *)
MatM(d) == [r \in 1..d |-> [c \in 1..d |-> IF c = r THEN RI(r) ELSE IF c = (r % d) + 1 THEN RI(2) ELSE Zero]]
MulM(d, m, n) == [r \in 1..d |-> [c \in 1..d |-> LET S[k \in 0..d] == IF k = 0 THEN Zero ELSE Add(S[k - 1], Mul(m[r][k], n[k][c])) IN S[d]]]
Exprs == {<<"G">>, <<"T", "G">>, <<"Sym", "G">>, <<"TrI", "G">>, <<"Sym", "T", "G">>, <<"T", "Sym", "G">>, <<"M", "G">>, <<"M", "T", "G">>}
RECURSIVE EvalE(_, _, _)
EvalE(d, e, g) ==
    IF Len(e) = 1 THEN g
    ELSE LET inner == EvalE(d, Tail(e), g) IN
         CASE Head(e) = "T" -> Transp(d, inner) [] Head(e) = "Sym" -> SymP(d, inner) [] Head(e) = "TrI" -> TrIP(d, inner)
           [] Head(e) = "M" -> MulM(d, MatM(d), inner)

(* a form: a sequence of weighted products  k * Ddot(Eu, Ev) *)
Weights == {One, R(3, 2), RI(-2)}
Terms == {[k |-> k, eu |-> eu, ev |-> ev] : k \in Weights, eu \in Exprs, ev \in Exprs}
EvalF(d, f, gu, gv) ==
    LET S[n \in 0..Len(f)] == IF n = 0 THEN Zero ELSE Add(S[n - 1], Mul(f[n].k, DdotM(d, EvalE(d, f[n].eu, gu), EvalE(d, f[n].ev, gv)))) IN S[Len(f)]
Tensor(d, f) == [a \in 1..d |-> [i \in 1..d |-> [b \in 1..d |-> [j \in 1..d |-> EvalF(d, f, Unit(d, a, i), Unit(d, b, j))]]]]

(* one-term forms with weight 1 for every expression pair, plus two-term sums (isotropic elasticity among them) *)
OneTerm == {<<t>> : t \in {tt \in Terms : tt.k = One}}
TwoTerm == {<<[k |-> RI(2), eu |-> <<"TrI", "G">>, ev |-> <<"TrI", "G">>], [k |-> RI(2), eu |-> <<"Sym", "G">>, ev |-> <<"Sym", "G">>]>>,      \* lambda/d? see harness: Lame form
            <<[k |-> R(3, 2), eu |-> <<"G">>, ev |-> <<"G">>], [k |-> RI(-2), eu |-> <<"T", "G">>, ev |-> <<"Sym", "G">>]>>}
Forms == OneTerm \cup TwoTerm

(* the form is symmetric when exchanging trial and test fields leaves its tensor unchanged *)
IsSym(d, t) == \A a, i, b, j \in 1..d : t[a][i][b][j] = t[b][j][a][i]
Init == \E d \in Dims, f \in Forms, c \in {"const", "x"} : LET t == Tensor(d, f) IN fm = [dim |-> d, form |-> f, coef |-> c, tensor |-> t, sym |-> IsSym(d, t), mat |-> MatM(d)]
Next == UNCHANGED fm
Spec == Init /\ [][Next]_vars

(* a property of the meaning itself: swapping the roles of trial and test expressions transposes the tensor *)
Swap(f) == [n \in 1..Len(f) |-> [k |-> f[n].k, eu |-> f[n].ev, ev |-> f[n].eu]]
Duality == \A a, i, b, j \in 1..fm.dim : Tensor(fm.dim, Swap(fm.form))[a][i][b][j] = fm.tensor[b][j][a][i]
(* a form is linear in its weights: every weight multiplied by k gives the coefficient tensor multiplied by k - whatever the   *)
(* magnitude (a diffusivity of 1e-9 m2/s is as good a coefficient as one of order one).  TLC: k = 2, 1/2; the harness integrates *)
(* every form again with its weights multiplied by 1e-9 and expects the scaled element arrays.                                 *)
ScaleF(k, f) == [n \in 1..Len(f) |-> [f[n] EXCEPT !.k = Mul(k, f[n].k)]]
Homogeneous == \A k \in {Two, Half} : \A a, i, b, j \in 1..fm.dim : Tensor(fm.dim, ScaleF(k, fm.form))[a][i][b][j] = Mul(k, fm.tensor[a][i][b][j])
EmitOK == Emit => PrintT(<<"FORM", ToJson(fm)>>)
=============================================================================
