SPECIFICATION Spec
CONSTANTS
  Dim = 2
  Stretches = {"p24", "p2h", "phq", "p42"}
  Shears = {"kxy", "kyx"}
  Rotations = {"rz"}
  MaxMoves = 3
  Emit = TRUE
  Mutant = "none"
INVARIANT CubeRoot
INVARIANT Reference
INVARIANT SymmetricS
INVARIANT QuadDerivative
INVARIANT NonNegative
INVARIANT EmitOK
PROPERTY Objective
CHECK_DEADLOCK FALSE
