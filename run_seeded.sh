#!/bin/sh
# usage: ./run_seeded.sh <seed-dir-name> <PROPERTY> [tier]   -- applies seeded/<dir>/patch.diff to /repo, runs the check, reverts
d=$1; p=$2; t=${3:-quick}
cd /repo || exit 2
git diff --quiet || { echo "/repo has uncommitted changes"; exit 2; }
git apply /verif/seeded/$d/patch.diff || { echo "patch does not apply"; exit 2; }
cd /verif
./check $p --tier $t > /tmp/seeded_$d.$p.log 2>&1; rc=$?
git -C /repo checkout -- .
echo "seeded=$d property=$p tier=$t rc=$rc $(grep -c '^VIOLATION' /tmp/seeded_$d.$p.log) violation lines"
grep '^VIOLATION' /tmp/seeded_$d.$p.log | cut -c1-300 | head -3
exit 0
