"""Fixed scenarios: stand-alone scripts (public API of the library only) kept for defects that were found on the unchanged tree,
shown with a concrete input and repaired.  Each script exits 0 when the library behaves as the property states and 1 when it
shows the defect again; the check of the property runs them after its specification-driven sections.  They bind what the
generated states do not reach (very large / very small coordinates, files on disk, exporters, rarely used keyword arguments);
where a defect fits a specification it is ALSO a state or an action there (see DESIGN.md section 0.3)."""
from __future__ import annotations

import glob
import os
import subprocess
import sys

ROOT = os.path.dirname(os.path.dirname(os.path.abspath(__file__)))


def _run(path):
    repo = os.environ.get("VERIF_REPO", "/repo")
    env = dict(os.environ)
    env.update(PYTHONPATH=repo, MPLBACKEND="Agg", PYTHONHASHSEED="0")
    try:
        p = subprocess.run([sys.executable, path], cwd="/tmp", env=env, capture_output=True, text=True, timeout=1500)
    except subprocess.TimeoutExpired:
        return {"path": path, "rc": -9, "tail": "timeout"}
    out = (p.stdout or "") + (p.stderr or "")
    # an uncaught exception also exits 1: tell it apart (it is a verdict only when it comes from the library)
    crashed = "Traceback (most recent call last)" in (p.stderr or "")
    from_lib = crashed and (os.path.join(repo, "EasyFEA") in (p.stderr or "").split("Traceback (most recent call last)")[-1])
    return {"path": path, "rc": p.returncode, "tail": out.strip()[-600:], "crashed": crashed, "from_lib": from_lib}


def run_scenarios(ctx, pid):
    from harness.core import MachineryError
    import multiprocessing as mp

    paths = sorted(glob.glob(os.path.join(ROOT, "scenarios", pid, "*.py")))
    if not paths:
        return
    with mp.get_context("fork").Pool(min(8, len(paths))) as pool:
        outs = pool.map(_run, paths)
    names = []
    for o in outs:
        name = os.path.splitext(os.path.basename(o["path"]))[0]
        names.append(name)
        ctx.count(1, distinct_key=("scenario", pid, name))
        if o["rc"] == 0:
            continue
        if o["rc"] == 1 and (not o["crashed"] or o["from_lib"]):
            ctx.violation(f"scenario/{name}", f"fixed scenario {name} shows its defect again: {o['tail'][-400:]}", {"scenario": os.path.relpath(o["path"], ROOT), "output": o["tail"]})
        else:
            raise MachineryError(f"scenario {name} failed to run (rc={o['rc']}): {o['tail'][-400:]}")
    ctx.section("fixed_scenarios", scripts=names)
