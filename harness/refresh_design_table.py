"""Rewrites the last column of the per-property table of DESIGN.md (section 0.2) from evidence/<id>.json (quick tier)."""
import json
import os
import re

ROOT = os.path.dirname(os.path.dirname(os.path.abspath(__file__)))
p = os.path.join(ROOT, "DESIGN.md")
s = open(p).read().split("\n")
for i, line in enumerate(s):
    m = re.match(r"^\| (C\d\d) \|", line)
    if not m:
        continue
    f = os.path.join(ROOT, "evidence", m.group(1) + ".json")
    if not os.path.exists(f):
        continue
    e = json.load(open(f))
    if e.get("tier") != "quick":
        continue
    c = e["coverage"]
    cells = line.rstrip().rstrip("|").split("|")
    if len(cells) < 6:
        continue
    cells[-1] = f" {c.get('states', 0)} states / {c.get('transitions', 0)} trans., {c.get('traces_validated_against_impl', 0)} replayed, {round(e['wall_s'])} s "
    s[i] = "|".join(cells) + "|"
open(p, "w").write("\n".join(s))
