"""Direction B on the repository's own tests: run them under harness/trace_plugin.py, reduce the recorded events and let
TLC judge them with spec/Trace_Lifecycle.tla."""
from __future__ import annotations

import json
import os
import subprocess
import sys

ROOT = os.path.dirname(os.path.dirname(os.path.abspath(__file__)))


def record(paths, scratch, timeout=3600):
    repo = os.environ.get("VERIF_REPO", "/repo")
    out = os.path.join(scratch, "lc_trace.ndjson")
    if os.path.exists(out):
        os.remove(out)
    env = dict(os.environ)
    env.update(PYTHONPATH=f"{repo}:{ROOT}", VERIF_TRACE_FILE=out, MPLBACKEND="Agg")
    env.pop("EASYFEA_VERIF", None)
    cmd = [sys.executable, "-m", "pytest", "-q", "-p", "harness.trace_plugin", "-p", "no:cacheprovider", "--timeout=900"] + list(paths)
    p = subprocess.run(cmd, cwd=repo, env=env, capture_output=True, text=True, timeout=timeout)
    tail = (p.stdout or "").strip().splitlines()[-1:] or [""]
    events, tests = [], []
    if os.path.exists(out):
        for line in open(out):
            try:
                e = json.loads(line)
            except Exception:
                continue
            if e["k"] == "test":
                tests.append(e["name"])
                continue
            e["t"] = len(tests)
            events.append(e)
    return events, tests, p.returncode, tail[0]


def reduce_events(events):
    """run-length compression of identical consecutive cached observations (Newton / time loops)"""
    out = []
    for e in events:
        if out and e["k"] == "obs" and out[-1]["k"] == "obs" and all(out[-1].get(k) == e.get(k) for k in ("s", "c", "need", "rebuilt")) and e["rebuilt"] == 0:
            out[-1]["times"] = out[-1].get("times", 1) + 1
            continue
        out.append(dict(e))
    for e in out:
        for k, v in (("c", 0), ("need", 0), ("rebuilt", 0), ("n", 0), ("before", 0), ("times", 1)):
            e.setdefault(k, v)
    return out


def validate(ctx, paths, label):
    from harness.core import MachineryError

    events, tests, rc, tail = record(paths, ctx.scratch)
    if not events:
        raise MachineryError(f"no event recorded while running {paths} (pytest said: {tail})")
    red = reduce_events(events)
    nsims = max(e["s"] for e in red)
    path = os.path.join(ctx.scratch, f"lc_trace_{label}.json")
    json.dump({"nsims": nsims, "events": red}, open(path, "w"))
    res = ctx.tlc("Trace_Lifecycle", "Trace_Lifecycle.cfg", workers=1, env={"LC_TRACE": path}, timeout=3000, heap="6g")
    if not res.ok:
        raise MachineryError(f"Trace_Lifecycle: {res.violated} {res.counterexample[:500]}")
    verdicts = res.prints.get("VERDICT", [])
    if len(verdicts) != 1 or verdicts[0]["events"] != len(red):
        raise MachineryError(f"Trace_Lifecycle did not consume the trace: {verdicts[:1]}")
    v = verdicts[0]
    for b in v["bad"]:
        tname = tests[b["test"] - 1] if 0 < b["test"] <= len(tests) else "?"
        ctx.violation(f"trace/{b['clause']}/{tname}", f"while the repository test {tname} ran, event {b['at']} ({red[b['at'] - 1]}) of simulation {b['sim']} violates {b['clause']} of Lifecycle.tla", {"test": tname, "event": red[b["at"] - 1], "clause": b["clause"]})
    # binding self-test: one recorded field is corrupted; TLC must reject exactly that event
    import copy

    cor = copy.deepcopy(red)
    j = next(i for i, e in enumerate(cor) if e["k"] == "obs" and e["rebuilt"] == 0)
    cor[j]["c"] += 100000
    k = next(i for i, e in enumerate(cor) if e["k"] == "save")
    cor[k]["n"] += 1
    path2 = os.path.join(ctx.scratch, f"lc_trace_{label}_corrupted.json")
    json.dump({"nsims": nsims, "events": cor}, open(path2, "w"))
    res2 = ctx.tlc("Trace_Lifecycle", "Trace_Lifecycle.cfg", workers=1, env={"LC_TRACE": path2}, timeout=3000, heap="6g")
    got = {(b["at"], b["clause"]) for b in (res2.prints.get("VERDICT") or [{"bad": []}])[0]["bad"]}
    if not ({(j + 1, "NoStale"), (k + 1, "AppendOnly")} <= got):
        raise MachineryError(f"Trace_Lifecycle accepted a corrupted trace (expected events {j + 1} NoStale and {k + 1} AppendOnly to be rejected, got {sorted(got)[:6]})")
    ctx.cov["sections"].setdefault("negative_selftests", []).append({"module": "Trace_Lifecycle", "cfg": f"corrupted copy of the recorded trace ({label})", "rejected": True, "violated": "NoStale, AppendOnly"})
    ctx.traces(len(tests))
    ctx.count(len(events), distinct_key=("repo-trace", label))
    ctx.section(f"repo_tests_trace/{label}", tests=len(tests), events=len(events), events_after_compression=len(red), simulations=nsims, observations=v["observations"],
                served_from_cache=v["cached"], saves=v["saves"], restores=v["restores"], pytest=tail, paths=list(paths))
    if v["cached"] == 0 or v["saves"] == 0:
        raise MachineryError("vacuous trace validation: no cached observation or no Save_Iter was recorded")
    return v
