"""Regenerates /verif/MANIFEST.json from the table below (single source of truth).

    /venv/bin/python harness/manifest_gen.py
"""
import json
import os
import sys

ROOT = os.path.dirname(os.path.dirname(os.path.abspath(__file__)))
sys.path.insert(0, ROOT)

# property id -> dict(text, note, technique, design_ref) ; filled as checks are built
from harness.claims import CLAIMS, NOT_APPLICABLE, HOOK_COMMITS  # noqa: E402


def main():
    props = [json.loads(l) for l in open(os.path.join(ROOT, "properties.jsonl"))]
    ids = [p["id"] for p in props]
    checks = []
    for pid in ids:
        if pid not in CLAIMS:
            continue
        c = CLAIMS[pid]
        checks.append(
            {
                "property_id": pid,
                "quick_cmd": f"./check {pid} --tier quick",
                "thorough_cmd": f"./check {pid} --tier thorough",
                "evidence_file": f"/verif/evidence/{pid}.json",
                "replay_cmd_template": f"./check {pid} --replay {{path}}",
                "engine": "tlc+conformance",
                "level_claimed": {"category": c.get("category", "model_checking"), "text": c["text"], "design_ref": c.get("design_ref", "DESIGN.md section 6")},
                "level_note": c["note"],
                "technique": c["technique"],
            }
        )
    na = [{"property_id": pid, "reason": NOT_APPLICABLE.get(pid, "check not built yet in this round; see DESIGN.md section 6 for the planned TLA+ module")} for pid in ids if pid not in CLAIMS]
    man = {
        "version": 1,
        "setup_cmd": "./setup.sh",
        "hooks": {
            "guard": "EASYFEA_VERIF",
            "enable": "export EASYFEA_VERIF=1 (set by ./check); EasyFEA is installed editable in /venv so checks import /repo's working tree directly",
            "baseline_off_cmd": "cd /repo && env -u EASYFEA_VERIF /venv/bin/python -m pytest -ra -q -p no:cacheprovider --timeout=900 --continue-on-collection-errors",
            "source_commits": HOOK_COMMITS,
            "add_only": True,
        },
        "engines": [
            {
                "name": "tlc+conformance",
                "path": "/verif/check",
                "serves_properties": [c["property_id"] for c in checks],
                "kind_free_text": "TLA+ specifications in /verif/spec model-checked by TLC; bound to the implementation by replaying TLC-generated cases/behaviours into EasyFEA (direction A) and by validating traces recorded from EasyFEA with TLC trace specifications (direction B)",
            }
        ],
        "checks": checks,
        "not_applicable": na,
        "notes": "All checks: exit 0 held / exit 1 + VIOLATION line / exit 2 machinery failure. known_findings.json lists genuine defects recorded rather than repaired; see DESIGN.md.",
    }
    with open(os.path.join(ROOT, "MANIFEST.json"), "w") as f:
        json.dump(man, f, indent=1)
    print("MANIFEST.json:", len(checks), "checks,", len(na), "not applicable")


if __name__ == "__main__":
    main()
