"""Run TLC on the specifications in /verif/spec and parse what it prints.

Every check goes through `run()`: the spec directory is copied to a scratch directory
(TLC writes its state files next to the module), constants that a check computes at run
time are written as a generated module (`Gen_<name>.tla`) or a JSON file whose path is
passed through the environment (IOEnv), TLC is run, and the result object carries

* states / distinct / depth as printed by TLC,
* the violated invariant or property (if any) with the printed counter-example,
* every `PrintT` payload of the form <<"TAG", "json">> decoded (used to get cases and
  verdicts out of TLC),
* per-action coverage when `-coverage` is requested.

exit code conventions of TLC: 0 ok, 12 safety violation, 13 liveness, 10/11 deadlock...
Anything else (parse errors, overflow, java failure) is a *machinery* failure and raises
TLCError -> exit 2 of the check.
"""
from __future__ import annotations

import json
import os
import re
import shutil
import subprocess
import tempfile
import time
from dataclasses import dataclass, field

SPEC_DIR = os.path.join(os.path.dirname(os.path.dirname(os.path.abspath(__file__))), "spec")
JAR = "/opt/veriftools/tla/tla2tools.jar:/opt/veriftools/tla/CommunityModules-deps.jar"


class TLCError(RuntimeError):
    pass


@dataclass
class TLCResult:
    module: str
    cfg: str
    rc: int
    wall_s: float
    generated: int = 0
    distinct: int = 0
    depth: int = 0
    violated: str | None = None  # name of invariant / property violated
    counterexample: str = ""
    prints: dict = field(default_factory=dict)  # tag -> list of decoded payloads
    coverage: dict = field(default_factory=dict)  # action -> (distinct, total)
    stdout: str = ""
    cmd: str = ""

    @property
    def ok(self):
        return self.rc == 0 and self.violated is None


_PRINT_RE = re.compile(r'^<<"([A-Z_a-z0-9]+)", "(.*)">>$')


def _decode_tla_string(s: str) -> str:
    # TLC prints strings with \" and \\ escaped
    return s.replace('\\"', '"').replace("\\\\", "\\")


def parse_stdout(out: str, res: TLCResult):
    m = None
    for m in re.finditer(r"(\d+) states generated, (\d+) distinct states found", out):
        pass
    if m:
        res.generated, res.distinct = int(m.group(1)), int(m.group(2))
    m = re.search(r"The depth of the complete state graph search is (\d+)", out)
    if m:
        res.depth = int(m.group(1))
    m = re.search(r"Error: Invariant (\S+) is violated", out)
    if m:
        res.violated = m.group(1)
    m2 = re.search(r"Error: Action property (\S+) is violated", out)
    if m2:
        res.violated = m2.group(1)
    m3 = re.search(r"Error: Temporal properties were violated", out)
    if m3:
        res.violated = "TemporalProperty"
    m4 = re.search(r"Error: The postcondition (\S+)? ?(?:is|was) (?:violated|false)", out)
    if m4 or "Evaluating the POSTCONDITION" in out and "violated" in out:
        res.violated = res.violated or "POSTCONDITION"
    m5 = re.search(r"Error: Deadlock reached", out)
    if m5:
        res.violated = "Deadlock"
    if res.violated:
        i = out.find("Error:")
        res.counterexample = out[i : i + 6000]
    for line in out.splitlines():
        line = line.strip()
        pm = _PRINT_RE.match(line)
        if pm:
            tag, payload = pm.group(1), _decode_tla_string(pm.group(2))
            try:
                val = json.loads(payload)
            except Exception:
                val = payload
            res.prints.setdefault(tag, []).append(val)
    # coverage lines: <Action line 12, col 1 to line 20, col 30 of module X>: 12:34
    for cm in re.finditer(r"^<(\w+) line \d+, col \d+ to line \d+, col \d+ of module (\w+)>: (\d+):(\d+)", out, re.M):
        res.coverage[cm.group(1)] = (int(cm.group(3)), int(cm.group(4)))


def make_scratch(prefix="verif_tlc_") -> str:
    return tempfile.mkdtemp(prefix=prefix)


def run(
    module: str,
    cfg: str | None = None,
    *,
    workers: int | str = 16,
    scratch: str | None = None,
    extra_files: dict | None = None,
    env: dict | None = None,
    args: list | None = None,
    timeout: int = 1800,
    deadlock: bool = False,
    coverage: bool = False,
    depth_first: bool = False,
    heap: str = "8g",
    allow_violation: bool = True,
    keep: bool = False,
) -> TLCResult:
    """Run `module` (a .tla in spec/) with config `cfg` (a .cfg in spec/)."""
    own = scratch is None
    scratch = scratch or make_scratch()
    try:
        wd = os.path.join(scratch, "spec_" + module + "_" + str(os.getpid()) + "_" + str(time.time_ns() % 10**9))
        shutil.copytree(SPEC_DIR, wd)
        for name, content in (extra_files or {}).items():
            with open(os.path.join(wd, name), "w") as f:
                f.write(content)
        cfg = cfg or module + ".cfg"
        cmd = [
            "java",
            "-XX:+UseParallelGC",
            "-Xmx" + heap,
            "-Xss128m",
        ]
        if depth_first:
            cmd.append("-Dtlc2.tool.queue.IStateQueue=StateDeque")
        cmd += ["-cp", JAR, "tlc2.TLC", "-workers", str(workers), "-metadir", os.path.join(wd, "states"), "-noGenerateSpecTE", "-config", cfg]
        if not deadlock:
            cmd.append("-deadlock")  # -deadlock DISABLES deadlock checking
        if coverage:
            cmd += ["-coverage", "1"]
        cmd += list(args or [])
        cmd.append(module + ".tla")
        e = dict(os.environ)
        e.update({k: str(v) for k, v in (env or {}).items()})
        t0 = time.time()
        try:
            p = subprocess.run(cmd, cwd=wd, env=e, capture_output=True, text=True, timeout=timeout)
        except subprocess.TimeoutExpired as ex:
            raise TLCError(f"TLC timeout after {timeout}s on {module}/{cfg}") from ex
        res = TLCResult(module=module, cfg=cfg, rc=p.returncode, wall_s=time.time() - t0, stdout=p.stdout + p.stderr, cmd=" ".join(cmd))
        parse_stdout(res.stdout, res)
        if str(workers) != "1":
            # several workers print in an order that changes from run to run: a canonical order makes every selection
            # derived from the list (every k-th case ...) reproducible.  Behaviour streams are produced with workers=1.
            import json as _json

            for tag in res.prints:
                res.prints[tag].sort(key=lambda x: _json.dumps(x, sort_keys=True, default=str))
        if p.returncode != 0 and res.violated is None:
            i = res.stdout.find("Error:")
            msg = res.stdout[i : i + 2500] if i >= 0 else res.stdout[-3000:]
            raise TLCError(f"TLC failed rc={p.returncode} on {module}/{cfg}:\n{msg}")
        if res.violated and not allow_violation:
            raise TLCError(f"TLC reports {res.violated} on {module}/{cfg}:\n{res.counterexample}")
        return res
    finally:
        if own and not keep:
            shutil.rmtree(scratch, ignore_errors=True)


def sany(module_path: str) -> bool:
    p = subprocess.run(["java", "-cp", JAR, "tla2sany.SANY", module_path], capture_output=True, text=True, cwd=os.path.dirname(module_path))
    return p.returncode == 0 and "Semantic errors" not in p.stdout and "*** Errors" not in p.stdout


# ---------------------------------------------------------------------------------
# helpers to write TLA+ values from Python (for generated modules)
# ---------------------------------------------------------------------------------
def tla(v) -> str:
    """Python value -> TLA+ expression (ints, bools, str, Fraction, list->tuple, dict->record,
    set/frozenset->set)."""
    from fractions import Fraction

    if isinstance(v, bool):
        return "TRUE" if v else "FALSE"
    if isinstance(v, int):
        return str(v) if v >= 0 else f"(-{-v})"
    if isinstance(v, Fraction):
        return f"<<{tla(v.numerator)}, {v.denominator}>>"
    if isinstance(v, str):
        return '"' + v.replace("\\", "\\\\").replace('"', '\\"') + '"'
    if isinstance(v, (list, tuple)):
        return "<<" + ", ".join(tla(x) for x in v) + ">>"
    if isinstance(v, (set, frozenset)):
        return "{" + ", ".join(sorted(tla(x) for x in v)) + "}"
    if isinstance(v, dict):
        if not v:
            return "<<>>"
        return "[" + ", ".join(f"{k} |-> {tla(x)}" for k, x in v.items()) + "]"
    raise TypeError(f"cannot express {type(v)} in TLA+")
