"""What MANIFEST.json claims, per property.  Edited as checks are built."""
HOOK_COMMITS = []
NOT_APPLICABLE = {}
CLAIMS = {
    "C13": dict(
        text="spec/Forms.tla defines a grammar of bilinear forms over grad u and grad v (transpose, symmetric part, tr(.) I, double contraction, weights, sums, constant or position-dependent coefficient) and computes the meaning of every "
        "form as an exact coefficient tensor by evaluating it on unit gradients; the grammar includes the product with a fixed UNSYMMETRIC matrix, so that part of the forms are not symmetric in (u, v) and the orientation of the element matrix (row = test function) is decided; TLC enumerates all 264 forms (2-D and 3-D) and checks the trial/test duality of the tensor. Every TLC state is compiled to a Python lambda over Field / FeArray "
        "operations; BiLinearForm.Integrate_e (twice with the same Field object) and .Assemble are compared with explicit sums over the tensor and with the scatter-add, on several element types. Outside the grammar: forms coinciding with built-in "
        "operators (grad.grad, scalar and vector mass, isotropic elasticity) against Operators.Bilinear, advection forms that involve the value of the trial field and linear forms on vector fields against their definitions, LinearForm.Integrate_e / Assemble against their definition, and Simulations.WeakForms against Simulations.Thermal / Elastic.",
        note="Trusted: TLC for the tensors; the compiler from expression to lambda (a dozen lines); dN, wJ of the library as ingredients of the reference sums (validated by C06/C07/C01).",
        technique="TLA+ grammar + meaning (coefficient tensors) enumerated by TLC; each form compiled and replayed through the forms API",
        design_ref="DESIGN.md 6/C13",
    ),
    "C10": dict(
        text="spec/FrameIndiff.tla (an instance of Geometry.tla) models a problem as four frames - mesh, material / beam-section axes, constraints, loads - moved together by exact rational isometries; TLC checks AllFramesEqual and the "
        "isometry invariants over all motion sequences and rejects a motion that forgets one part. Every TLC frame is replayed as a metamorphic test on the real code: elastic (isotropic, orthotropic with moved axes; static and one Newmark step), "
        "thermal, Euler-Bernoulli and Timoshenko cantilevers in 2D and 3D - the moved problem is meshed/moved with the public motions, constrained and loaded in the moved frame, solved, and compared with the transformed baseline solution "
        "(vectors rotated, beam rotations as axial vectors incl. the determinant for reflections, energies equal) at 1e-8. Beam problems are multiplied by the forms of FrameIndiff.tla (BeamForms): section y axis perpendicular to the member or oblique in the plane (member, vertical); load at the tip or per unit length.",
        note="Trusted: TLC for the exact isometries. The baseline numbers come from the implementation itself in the identity frame (metamorphic), so a defect that is itself frame-indifferent is invisible here (C01/C02 cover those). HyperElastic is not in the problem list yet.",
        technique="TLA+ group-action model enumerated by TLC; each isometry replayed as a metamorphic solve on the real code",
        design_ref="DESIGN.md 6/C10",
    ),
    "C08": dict(
        text="spec/Geometry.tla accumulates the public motions (translation, rotation by the Pythagorean angle atan2(4,3) about coordinate axes through rational centres, reflections) as an exact rational affine map; TLC enumerates "
        "every sequence of up to 1 (quick) / 2 (thorough) motions and checks that the map stays an isometry with the right parity. Every frame is replayed on unstructured meshes of the integer pentagon (2-D, also moved out of the plane "
        "as an embedded surface) and its extrusion for every listed element type: node coordinates equal A X + b, measure unchanged, the boundary normals integrate to zero and to dim x measure against the position vector, and a nodal "
        "polynomial field of the element's order evaluated at the exactly moved query points (interior, on an edge, on vertices, nodes; batch, single, pair) returns the polynomial. One of the motions is a translation by 100 000 (round-off of the moved points 1e-11).",
        note="Trusted: TLC for the exact frames and query points; gmsh meshes (general straight-sided quadrangles / hexahedra). Serendipity types are asked for degree 1 only. Two recorded findings (orientation of the normals in 2-D, "
        "base face of extruded 3-D meshes) are reproduced on every run and reported as KNOWN-FINDING; closure and flux magnitude remain checked.",
        technique="TLA+ exact group action enumerated by TLC; each frame replayed on real meshes (direction A)",
        design_ref="DESIGN.md 6/C08",
    ),
    "C09": dict(
        text="spec/Loads.tla enumerates (dimension, load kind {line, surface, volume, pressure, concentrated}, region {edges, faces, a 3-D edge, the bulk of the integer box}, polynomial density of degree 0-2 per direction, thickness, "
        "value form {constant, function of position, nodal array}, stray interior nodes in the selection, node listed twice) and computes resultant and first moments in exact rationals (monomial integrals over intervals). Each TLC state is "
        "replayed on gmsh meshes of every element type of that dimension for Elastic (and Thermal) through add_lineLoad / add_surfLoad / add_volumeLoad / add_pressureLoad / add_neumann; Bc_vector_Neumann() is summed per direction and its first "
        "moments compared at 1e-10; stray nodes must receive nothing. Beams are states of the same module (BeamCases): a force per unit length given by its global components on members aligned with x or inclined in the plane / in space, Euler-Bernoulli and Timoshenko - resultant 3 q and moment (9/2) t x q counting nodal forces and couples.",
        note="Trusted: TLC for the exact integrals, gmsh box meshes. First moments are compared for densities of degree <= 1, resultants up to degree 2 (exactness of the mass rules); pressure is compared in magnitude and direction up to the sign convention.",
        technique="TLA+ exact-integral model enumerated by TLC; each state replayed through the load API on every element type",
        design_ref="DESIGN.md 6/C09",
    ),
    "C01": dict(
        text="spec/Pipeline.tla enumerates the configuration product (elasticity 2D/3D and heat conduction x element type x law {isotropic, transversely isotropic, orthotropic, anisotropic with rotated axes} x plane stress / plane strain x mesh kind "
        "{unstructured, renumbered, mixed TRI3+QUAD4 / prism boundary} x affine map {identity, shear+stretch, orientation-reversing} x basis of linear fields + a combination; Euler-Bernoulli and Timoshenko beams on SEG2..SEG5 in 1D/2D/3D with "
        "constant axial strain / constant curvature) and states the exact expectations (constant strain sym(G), measure |det A| x shoelace area x height, N = EA e, M = EI kappa). Every TLC state is replayed: integer pentagon (or its extrusion) "
        "meshed by gmsh, mapped, optionally renumbered, field prescribed on the whole boundary by functions of position, Solve(); nodal values at interior nodes, reported strain, stress (through S sigma = eps), energy and beam internal forces are compared at 1e-9. The form of the boundary data (functions, nodal arrays, nodal arrays on a permuted node list) and the solver path (elimination, or Lagrange multipliers: a tie satisfied by the exact field / two welded beam members, with non-zero prescribed values) are dimensions of the product, and so is the unit of length (the same body written with coordinates 1e-4 or 1e4 times as large; TLC checks the scaling law of the measure on the factors 2 and 1/2).",
        note="Trusted: TLC (enumeration, exact strain / measure / beam forces), the compliance validated by C11 as stress oracle, gmsh meshes (vacuity guard: every mesh must have interior nodes). Quick tier: a seeded half of the product (4+3 element types), thorough: all 15.",
        technique="TLA+ configuration/expectation model enumerated by TLC; each state replayed through the real solve pipeline",
        design_ref="DESIGN.md 6/C01",
    ),
    "C11": dict(
        text="spec/ElasticLaws.tla computes in exact rationals the compliance (engineering notation, global axes) of every case: isotropic, transversely isotropic, orthotropic (documented compliances in material axes) "
        "and anisotropic (given law, Voigt and Kelvin-Mandel input, and a whole-number law C = L L^T with normal-shear coupling given as an INTEGER array), rotated by exact rational frames (in-plane, about y, generic 3-D quaternion rotations, axis permutation) through the Bond strain transformation, 3D and the "
        "plane-stress sub-block, with unit and non-unit axis vectors. The compliance the library reports is converted from Kelvin-Mandel to engineering components, snapped to rationals and compared EXACTLY by TLC (a TLC "
        "mismatch that the floats do not confirm at 1e-10 is a machinery error, never a verdict). On the same cases: stiffness symmetric positive definite, C S = I, unit law (ElasticLaws.tla: S(k moduli) = S / k, every parametric case built a second time with moduli x 2^40 and judged against the same exact expectation), plane strain = sub-block of the inverse of the exact 3-D "
        "compliance, change-of-basis matrices orthogonal (also for non-unit axes), parameter change visible at the next read, per-element parameter fields.",
        note="Trusted: TLC, the transcription of the documented compliances, snapping (denominators <= 2e6 within 1e-12 relative; constants chosen so that rotated entries stay on that lattice).",
        technique="exact TLA+ model of the laws (Bond transformation over rationals); reported compliances validated against it by TLC (trace validation over the case lattice)",
        design_ref="DESIGN.md 6/C11",
    ),
    "C19": dict(
        text="(1) spec/Plasticity1D.tla integrates von Mises plasticity with linear isotropic + Prager kinematic hardening under uniaxial stress exactly over rationals (closed-form return map); TLC checks admissibility, "
        "dgamma >= 0, dgamma*f = 0, monotone accumulated plastic strain, dissipation = sigma_y*dgamma >= 0, exact elasticity before yield on every path of the increment lattice (depth 4 quick / 5 thorough); every path is "
        "replayed through the 3-D code under uniaxial stress control (MaterialPoint, both local solvers: stress, plastic strain, accumulated plastic strain, zero lateral stress, traceless plastic strain) and through the "
        "plane-stress integration (stress and condensed algorithmic tangent vs the exact E or E(H+C)/(E+H+C)). (2) For every constructor-accepted combination of yield surface (von Mises, Hill, Drucker-Prager) x isotropic "
        "hardening (none, linear, Voce, Swift) x kinematic hardening (none, Prager, Armstrong-Frederick, Chaboche) x 3D / plane strain / plane stress, random non-proportional paths with reversals are recorded and reduced "
        "to the relations of the property (f <= tol, dp >= 0, traceless, dissipation >= 0, finite-difference tangent, solver agreement, no out-of-plane stress, purity of Integrate); Trace_Plasticity.tla requires them at "
        "every step. Von Mises plasticity together with a Maxwell branch (time step 0.1; perfect / linear hardening x none / Prager / Armstrong-Frederick x 3D / plane strain / plane stress) is recorded the same way and judged by the clauses that need no closed form of the stress (tangent, solver agreement, purity). (3) spec/InelasticCommit.tla (Pure, Commit, StoreFrozen model-checked) and its behaviours replayed on a real Simulations.InElastic with content hashes of the committed state.",
        note="Trusted: TLC; exact model only for the linear laws; for the other laws the compared values come from the implementation itself (inequalities / finite differences at 2e-4). Rate laws (Norton, Perzyna) "
        "are reached by fixed scenarios only (scenarios/C19), not by the combination table. Admissibility tolerance 1e-7 sigma_y (1e-6 in plane stress, the plane-stress iteration's own tolerance).",
        technique="exact TLA+ return-map model with exhaustive path replay + recorded constitutive traces validated by a TLA+ trace specification + commit-discipline state machine replay",
        design_ref="DESIGN.md 6/C19",
    ),
    "C20": dict(
        text="spec/Partition.tla transcribes the per-rank ownership and ghost-layer construction (types in order, ranks in order, shared claim map). TLC checks - exhaustively over all assignments of the cells "
        "of small meshes with one and two main-dimension element types to 2 and 3 ranks - that every element and every node has exactly one owner and that a part holds every element touching a node it owns "
        "(row completeness), and rejects the defective ghost rule found in the code. Real gmsh partitions (TRI3/TRI6/QUAD4/QUAD8, a mixed TRI3+QUAD4 plate with a hole, a plate with a TRI3 half and a QUAD4 half cut into 3-13 parts so that some ranks own no element of one type, TETRA4/PRISM6; more types and part counts in "
        "the thorough tier) are recorded - assignment and the five per-group arrays - and validated by Trace_Partition.tla (recomputed ownership/ghosts equal the recorded ones, invariants hold). Per part a real "
        "simulation assembles K: owned rows equal the global rows, owned-row energies sum to the global energy; numbering/coordinates kept; partitioning twice gives identical data; Mesh.Merge with mapping on coincident and disjoint meshes.",
        note="Trusted: TLC; gmsh as the partitioner (environment assumption of the exhaustive model: a boundary element lies in the part of the cell it bounds - the model without it is reported as fragility in the evidence). "
        "MPI itself is not installed: the reduction is replaced by explicit summation over the parts.",
        technique="TLA+ transcription of the ownership algorithm, TLC exhaustive over assignments; recorded real partitions validated by a TLA+ trace specification; per-part assembly replay",
        design_ref="DESIGN.md 6/C20",
    ),
    "C18": dict(
        text="Four TLA+ modules. HyperLaws.tla: deformation gradients built from stretches with cube determinants, shears and Pythagorean rotations, with the exact energy and PK2 stress of Saint-Venant-Kirchhoff, Neo-Hooke and "
        "Mooney-Rivlin; TLC checks det F = J, W = 0 and S = 0 at the reference, invariance of W and S under the Rotate action, and the exact derivative relation for the quadratic energy. Every state is replayed through "
        "HyperElasticState and Compute_W / Compute_dWde / Compute_d2Wde on real meshes for all six laws (SVK, NH, MR, Ciarlet-Geymonat, Holzapfel-Ogden with out-of-plane fibres, a user energy through jax): exact values, reference state, "
        "objectivity against the predecessor state, stress = dW/de and tangent = dS/de by Richardson differences. HyperStep.tla: one time step of a bar in uniaxial strain for pointwise / gonzalez / quadrature stresses under midpoint / newmark / hht, "
        "with the residual differentiated exactly by dual numbers; TLC proves on the lattice that the documented tangent formulas are that derivative, the discrete-gradient identity and the conservation over a midpoint step; each state is replayed on a QUAD4 and "
        "a HEXA8 bar through the operators and (midpoint) a real simulation step (u0, v0) -> (u1, v1). HyperOps.tla: the contract table of all nonlinear operators (sign, step unknown, chain factor); each configuration is replayed by differentiating the residual "
        "numerically on a randomly displaced mesh (incl. active stress, Kelvin-Voigt K and C, follower pressure, penalty contact, adaptive quadrature). Free-motion programs are run on real simulations and judged by Trace_HyperEnergy.tla (band 100 ppb).",
        note="Trusted: TLC / Rat.tla, the dual-number arithmetic of HyperStep.tla (its tangent invariant cross-checks it against independent formulas), numpy finite differences (Richardson, 1e-5 / 2e-6 relative), jax for the user energy. "
        "Conservation over arbitrarily many steps is argued inductively: every single midpoint step from an arbitrary state conserves (model + replay), plus 30 / 120-step recorded runs.",
        technique="TLA+ exact models (rational kinematics, dual-number differentiation of the step residual) enumerated by TLC and replayed into laws / operators / simulation steps + recorded energy traces validated by a TLA+ trace spec",
        design_ref="DESIGN.md 6/C18",
    ),
    "C17": dict(
        text="spec/Splits.tla builds, in exact rational arithmetic, a lattice of strain states (every multiplicity / sign pattern of the principal values in 2-D and 3-D, zero, hydrostatic, uniaxial, "
        "rotated by rational rotations) together with the exact Miehe split (sigma+, psi+) and checks the partition relations on the model; the states are replayed MIXED inside elements through "
        "Calc_Sigma_e_pg / Calc_psi_e_pg for all 14 splits x regularisations x isotropic / transversely isotropic materials (finite, sigma+ + sigma- = C:eps, psi+ + psi- = psi, exact values for Miehe/Bourdin), "
        "then float neighbours of every lattice state (random rotations, symmetric noise 0..1e-4) are compared with a split built on numpy.linalg.eigh. Splits.tla also proves positive homogeneity of the exact split on the lattice (k = 1/2, 3) and names the strain magnitudes (1, 1e-3, 1e-6, 1e-9) at which every state and its neighbours are replayed - no absolute strain scale may hide in the code. spec/PhaseFieldHist.tla enumerates load / unload programs; each "
        "is run on a real PhaseField simulation per irreversibility solver, reduced to counts per saved step and validated by Trace_PhaseFieldHist.tla (history never decreases; damage never decreases for damage-based solvers; no load, no damage; 0 <= d <= 1); the programs also choose whether results are read between Solve and SaveIter and the element type (QUAD4 / TRI3). "
        "spec/Staggered.tla models the staggered driver of PhaseField.Solve (LastPair, Bounded, FlagHonest, FirstHit; two rejected designs) and Trace_Staggered.tla validates every recorded call of Solve() (sub-solves wrapped from the harness) event by event, inferring the criterion from the continuation; three corrupted records must be rejected.",
        note="Trusted: TLC and Rat.tla arithmetic, numpy.linalg.eigh for the float neighbourhoods (1e-3 relative there, 1e-9 on the exact lattice), a 3x3 QUAD4 simulation as the history bed. Exact split values exist for Miehe and Bourdin; other splits are decided for finiteness and the partition relations.",
        technique="TLC-enumerated exact strain lattice and load programs replayed into the implementation (model-based test generation) + recorded step traces validated by a TLA+ trace spec",
        design_ref="DESIGN.md 6/C17",
    ),
    "C16": dict(
        text="spec/Results.tla defines the meaning of result names per simulation kind (Elastic 2D/3D, Thermal, Beam 1D/2D/3D, PhaseField 2D/3D, HyperElastic, WeakForms with 2 and 3 dofs per node) as tokens "
        "(field, component | norm | all | von Mises at each Gauss point then element mean). The harness sets u, v, a (and the damage) to mutually distinguishable random arrays - not an equilibrium state - "
        "evaluates every name of Results_Available() in element and nodal form, abstracts each returned array to the tokens it equals (candidates are built independently from the fields, B, C and K), "
        "and TLC judges every row against the definition (ok / mismatch / unmodelled). Derived relations are replayed: Wdef = 1/2 u'Ku on arbitrary states, node<->element conversion of constants, "
        "reactions on a fully constrained edge balance the applied loads (4 element types). Every request is also judged for its FORM: Stored / NComp / SizeClass of Results.tla require one entry per node (nodal form) or per element (element form) "
        "on meshes chosen so that every size class for which the size of an array does not tell where it is stored (one element, Nn = Ne, Nn a multiple of Ne, with components) is witnessed; beam generalised strains, internal forces and stresses, InElastic, a mixed TRI3 + QUAD4 mesh and the "
        "BalanceCases of the module (Elastic / PhaseField, 2-D / 3-D, coarse / fine, damaged band: reactions per direction sum to minus the applied resultant) are part of the table; a binding self-test feeds TLC three corrupted records.",
        note="Trusted: TLC, token matching at rtol 1e-9, the independent candidate construction (stress = C B u in Kelvin-Mandel components). Names the module does not define are listed as unmodelled in the evidence (not violations).",
        technique="result-name table recorded from the implementation and validated against a TLA+ definition table (trace validation, exhaustive over advertised names)",
        design_ref="DESIGN.md 6/C16",
    ),
    "C12": dict(
        text="spec/FeShapes.tla computes, from the documented rank and type rules, the result descriptor (finite-element array or plain array, shape, or Error) of element-wise "
        "ufuncs, @, dot, ddot, .T, reductions over every axis, Det/Inv/Trace/Transpose and coefficient broadcasting for every operand descriptor with Ne, nPg and tensor sizes "
        "in {1,2,3} (all size coincidences) and ranks 0-2 (quick) / 0-4 (thorough); TLC checks the type rule on the table and enumerates it. Every TLC state is one implementation "
        "test: arrays of those shapes are built, the operation is run (6 ufuncs for the element-wise case), exceptions must coincide with Error, type and shape with the "
        "descriptor, and the values with explicit loops over (e, p) on plain arrays; Field objects on either side of the operators are compared with their arrays. Also in the table: a constant on the left of @, partial fields (one value per element / per Gauss point), reducers reached as methods, numpy functions and library wrappers, masked ufuncs, and the tensor product of two fields (vectors, matrices, symmetrised matrices - values index by index).",
        note="Trusted: TLC, the transcription of the two documented rules, numpy on plain per-point slices as value oracle. Contracted axes have size > 1; both field operands share (Ne, nPg).",
        technique="TLA+ rule table enumerated exhaustively by TLC, one implementation test per state (type, shape, values)",
        design_ref="DESIGN.md 6/C12",
    ),
    "C02": dict(
        text="spec/Spectrum.tla enumerates every (physics, dimension, element type, density, thickness) configuration - elasticity 2D/3D on the 15 surface/volume types, heat conduction on "
        "all 19 types incl. segments, Euler-Bernoulli and Timoshenko beams on SEG2..SEG5 in 1D/2D/3D (inclined members) - and states the expected attributes exactly: kernel dimension, "
        "definiteness class of the mass matrix, mass total rho*measure*thickness as a rational. Each TLC state is built with the real code and analysed densely: symmetry, inertia, "
        "number of zero-energy modes equal to the expected one, K r = 0 for the translations and infinitesimal rotations, M definite / semi-definite, entry sums. Members are drawn towards every quadrant, and continuum configurations exist on the integer box and on a disk / cylinder whose elements of degree >= 2 have curved edges (non-constant Jacobian inside simplices), and in metres as well as in micrometres (unit of length 1e-6: every attribute is unchanged and the mass total scales by the cube / square of the unit; beam matrices are analysed after the congruence that rescales the rotation dofs).",
        note="Trusted: dense eigvalsh with threshold 1e-9*lambda_max; meshes of integer boxes (2 meshes per configuration in the thorough tier). TLC's role is enumeration, the exact expected values and coverage accounting; "
        "the numerical attributes are computed from the implementation's matrices.",
        technique="TLA+ attribute table enumerated by TLC, each state replayed as a dense spectral analysis of the real matrices",
        design_ref="DESIGN.md 6/C02",
    ),
    "C06": dict(
        text="The exact coefficient vectors of all tabulated shape functions and derivative tables (19 Lagrange families, orders 1-4 of derivatives; 4 Hermite beam families) are extracted from the "
        "library's own callables with a polynomial-ring probe and handed to TLC as a trace; spec/ShapeTables.tla decides, as identities between polynomials (hence at every point of the reference "
        "element), Kronecker, partition of unity, reproduction of all monomials up to the order, derivative-table = derivative, and the Hermite value/slope pattern. The evaluation path "
        "(Get_N_pg, Get_dN_pg, ... , Get_Hermitian_*_pg) is compared with the polynomials at all Gauss points, and the evaluator behind them at the reference nodes exactly as Get_Local_Coords() returns them (integer arrays for some types), as floats and at an integer point typed int.",
        note="Trusted: TLC, the polynomial-ring probe (Fraction arithmetic), snapping of coefficients to rationals with denominator <= 1e6 within 1e-11 (literal round-off recorded in the evidence). Exhaustive over all tables.",
        technique="exact table extraction validated by a TLA+ specification of the polynomial identities (trace validation, exhaustive)",
        design_ref="DESIGN.md 6/C06",
    ),
    "C07": dict(
        text="Every rule the library offers (segments 1-8 points, triangles 1/3/6/7/12, quadrangles 4/9, tetrahedra 1/4/5/15, hexahedra 8/27, prisms 6/8/21) is recorded - weight sum, smallest barycentric "
        "coordinate, moments of all monomials up to documented order + 2 snapped at 1e-13 - and spec/Quadrature.tla decides it against exact reference integrals (factorial formulas) and the documented orders; "
        "measured orders are reported. Mesh level: measure, centroid and second moments of integer boxes for all 19 element types against exact rationals; the rank consequence is decided by the dense kernel analysis "
        "shared with C02 (stiffness / conductivity of every element type on assembled meshes). Every rule is also used through an element group (Get_weightedJacobian_e_pg(n), Integrate_e(f, n)) on as-meshed and reflected boxes, meshes are re-coordinated in place by an affine map, and hand-built groups with integer / float32 coordinate arrays must measure what the same points measure as floats.",
        note="Trusted: TLC, snapping tolerance 1e-13 with denominators <= 1e6 (unambiguous), straight-sided box meshes. The single-element counting condition is reported as a diagnostic only.",
        technique="rule tables validated by a TLA+ specification with exact reference integrals (trace validation, exhaustive) + replay of mesh-level integrals",
        design_ref="DESIGN.md 6/C07",
    ),
    "C04": dict(
        text="spec/Constraints.tla computes, in exact rationals, the solution of every sequence of up to 3 (quick) / 4 (thorough) Dirichlet and point-load conditions on three "
        "systems (scalar chain; two dofs per node with unknown names given in any order; chain with an orphan node) plus a diffusion-advection chain whose operator is NOT symmetric: dof lookup node*dof_n+index, sum convention for a dof "
        "entered several times, even split of point loads, unit diagonal on orphan dofs, reduced solve by Cramer. TLC checks the definition's own consistency (prescribed "
        "sums, equilibrium of free rows). Every TLC behaviour is replayed through add_dirichlet/add_neumann (constants, arrays, functions of position) and Solve() with "
        "scipy, cg, bicg, gmres, lgmres, bounded least squares, the Lagrange-multiplier route and the Newton-incremental route; the returned vector and "
        "Bc_vector_Dirichlet() are compared with TLC's rationals. spec/SolverOptions.tla models the PETSc option store (StoredValid, RefusalIsNoOp, Targeted; two rejected designs): its whole decision table and TLC-simulated call sequences are run through the real setter and read back after every call. spec/Newton.tla models the Newton-incremental driver itself (test read before the update on |R|, |R|/|R_1|, |du|; first hit; refusal after maxIter) on a one-dof problem with an inexact tangent of contraction q; TLC checks that a returning solve has a residual below the bound of the criterion that fired and that no solve fails although a criterion was met, and every terminal state (432) is run through the real Solve(): status, and - as evidence - iteration count, iterate, recorded norms, assemblies and the state left by a refused solve. spec/Connections.tla states which unknowns a fixed / hinged connection of two beam end nodes ties and which it leaves free (2-D, 3-D with every set of named axes); each state is solved on two members clamped at their far ends and loaded at the joint: tied unknowns are equal across the joint, and the dofs of a free unknown satisfy their own assembled equation (no moment transmitted).",
        note="Trusted: TLC, float-vs-rational comparison (1e-10 direct, 1e-4 Krylov). Lagrange route only when no dof is constrained twice (bordered system singular otherwise); "
        "empty reduced systems are not sent to lsq_linear/lgmres. K is supplied by a _Simu subclass. PETSc/pypardiso are not installed.",
        technique="TLA+ exact-rational model of constraint bookkeeping and reduced solve, TLC exhaustive; behaviours replayed into Solve() with every back end",
        design_ref="DESIGN.md 6/C04",
    ),
    "C03": dict(
        text="spec/Assembly.tla models the scatter-add computed through the reduction map memoised per (dof_n, isMatrix, Ndof, contributing groups in feeding order) "
        "on meshes with one to three element groups (boundary groups, mixed QUAD4+TRI3, a renumbered chain, an orphan node), slots absent for some groups, real and "
        "complex values, system-size changes (Lagrange/Dirichlet rows) and mesh replacement between assemblies. TLC checks Exact (every assembled K, C, M, F equals the "
        "definition of the scatter-add) on every reachable state, a renumbering theorem (P A P^T), and rejects three defective key designs. TLC behaviours are replayed on "
        "a _Simu subclass returning the same integer element arrays: Assembly() output is compared bit for bit with TLC's matrices and the memo size with the model; real "
        "Elastic/Thermal simulations (incl. a mixed-group mesh) are compared with an independent dense loop on first and repeated assemblies. spec/IndexWidth.tla proves on scaled-down widths that the row-major slot keys r N + c are exact / monotone exactly when N^2 fits the integer type they are computed in (and rejects the claim that injectivity is enough); at real scale a 48 000-dof system built from 32-bit and from 64-bit connectivity must equal the coordinate-format sum formed with 64-bit indices.",
        note="Trusted: TLC, the element-value function shared by model and harness, exactness of integer sums in floating point. Simulation-mode sampling of histories (seeded) on top of "
        "the exhaustive bounded model.",
        technique="TLA+ model of memoised assembly, TLC exhaustive + defective variants; TLC behaviours replayed bit-for-bit into Assembly()",
        design_ref="DESIGN.md 6/C03",
    ),
    "C14": dict(
        text="spec/Lifecycle.tla models one action per public call (parameter/density/damping setters, Translate/Rotate/Symmetry, coordinate setter, mesh "
        "replacement, BC clearing/adding incl. Lagrange conditions, scheme switch, Get_K_C_M_F, Solve, Save_Iter, Set_Iter, ...) with the implementation's own "
        "bookkeeping (needUpdate flag, element caches, sparsity-map memo, observer lists). TLC checks NoStale / MapsCurrent / Observing exhaustively on bounded "
        "configurations (1 and 2 simulations sharing model and mesh; with one simulation the life cycle continues after a Save / Load_Simu round trip on the loaded object and its model) and rejects seven deliberately defective variants. TLC simulation-mode behaviours are replayed "
        "on real Elastic, Thermal and harness simulations: after every action the abstraction of the concrete state (flag, iteration count, current mesh, store) is "
        "compared with the specification state, and at every observing action K, C, M, F, the solution and named results are compared with a fresh simulation "
        "built independently in the final configuration. Adapters: Elastic 2-D / 3-D (scalar and per-element parameters), Thermal, Beam (welded 2-D frame), WeakForms, HyperElastic, PhaseField and a harness _Simu subclass; fixed scenarios for what the generated behaviours cannot express (Beam mesh and cross-section replacement, PhaseField history and InElastic internal variables across a mesh replacement). Every replay section reports how many solves were compared and how many configurations were singular on both sides; a section comparing none is a machinery error. "
        "Direction B: wrappers installed from /verif record Assembly / Get_K_C_M_F / Save_Iter / Set_Iter events with a configuration fingerprint while the repository's own tests run (122 tests quick, tests/Simulations + tests/Models thorough); "
        "Trace_Lifecycle.tla judges every event (NoStale, FlagHonoured, AppendOnly, PureRead) and must reject a corrupted copy of the trace.",
        note="Trusted: TLC; the adapters' mapping of abstract actions to API calls; the fresh-build oracle (new mesh object from the harness's own shadow coordinates); the configuration fingerprint of the recorder. "
        "Random-walk sampling of behaviours (seeded), not a transition cover.",
        technique="TLA+ life-cycle specification, TLC exhaustive + negative variants; TLC behaviours replayed into real simulations with per-step abstraction comparison (direction A) + events recorded while the repository's own tests run validated by Trace_Lifecycle.tla (direction B)",
        design_ref="DESIGN.md 6/C14",
    ),
    "C15": dict(
        text="Store part of spec/Lifecycle.tla: TLC checks the action properties AppendOnly, PureRead, Restores, Pinned exhaustively on bounded configurations and rejects "
        "defective variants (memo kept across a mesh-switching restore; iteration saved with the wrong mesh index). Store-centred TLC behaviours (Solve, Save_Iter, folder "
        "changes, Set_Iter, Get_results, mesh replacement, scheme switch, Save/Load_Simu round trip) are replayed on real simulations; after every action every stored "
        "iteration is re-read and compared with the snapshot taken by the harness when it was saved, restored fields and mesh are compared with the snapshot, reads must "
        "leave the state fingerprint unchanged. Simulations whose stored iterations carry internal variables (InElastic) are driven by spec/InelasticCommit.tla: behaviours with Solve / SaveIter / SetIter / GetResults in every order, content hashes of displacement and committed state against the specification's tokens (the trial state of each Solve carries a token, so every SaveIter is judged by Commit). After SetIter every state field has the size of the restored mesh and an iteration saved under the static scheme leaves zero rates (va' = 0 in Lifecycle.tla).",
        note="Trusted: TLC, the harness's snapshots. Velocities/accelerations are required from a stored iteration only when saved and restored under a dynamic scheme. "
        "After a restore that switches mesh the environment re-enters boundary conditions (modelled explicitly in SetIter).",
        technique="TLA+ iteration-store specification (action properties), TLC exhaustive; TLC behaviours replayed into real simulations against shadow snapshots + Save_Iter / Set_Iter events of the repository's tests validated by Trace_Lifecycle.tla",
        design_ref="DESIGN.md 6/C15",
    ),
    "C05": dict(
        text="TLC model-checks spec/TimeSchemes.tla (the eight algorithms written from their documented definitions over exact rationals; "
        "invariants: discrete equation of motion on free dofs, documented update relations, exact energy conservation for average-acceleration "
        "Newmark and midpoint, dissipation for backward Euler, hht/newmark/midpoint family relations) exhaustively over a parameter lattice; every "
        "TLC behaviour (one-step lattice and multi-step algorithm/step-size switching histories) is replayed through the real Solve() in direct and "
        "Newton mode and u, v, a, the K/C/M weights and the evaluation-point states are compared with TLC's rationals after every step.",
        note="Trusted: TLC, the transcription of the AlgoType docstrings into TimeSchemes.tla, float-vs-rational comparison at 1e-10*scale. K, C, M are "
        "prescribed 2x2 matrices through a _Simu subclass (element integration is covered by C01/C02/C03). Lattice-to-all-inputs by the affine/rational-"
        "function argument of DESIGN.md section 4.",
        technique="TLA+ spec of the schemes over exact rationals, TLC exhaustive; TLC behaviours replayed into Solve() (direction A)",
        design_ref="DESIGN.md 6/C05",
    ),
}

# extensions of round 9 (appended to the claims above)
EXTRA = {
    "C03": "RenumberTheorem is also replayed at real scale: an 80 x 80 (QUAD4) and a 60 x 60 (TRI3) plate in the mesher's numbering and renumbered at random - stiffness and the load vectors of a line load and a body force are the permutation of the original ones; connectivity stored in uint8 / int16 / uint16 is a fixed scenario.",
    "C04": "Constraints.tla has a Reset action (Bc_Init after a solve, another condition set on the SAME object; MaxRounds): the solution of a round is a function of that round's conditions alone; two-round chains are enumerated by TLC and replayed on one simulation object (direct and bounded least-squares routes).",
    "C05": "TimeSchemes.tla also tabulates the one-step maps as per-dof weight tables (Weights, confirmed by the invariant Affine on every explored step), which are applied to real simulations of any size (Elastic 2-D with Rayleigh damping, Elastic 3-D, Thermal, Euler-Bernoulli and Timoshenko beams: update relations, equation of motion at the evaluation point on the free dofs, prescribed values); states refused set-calls (Admissible, StepAfterRefusal, RefusedKeeps; the design in which a refused call has already switched the scheme is rejected) and linearity of a step in its data (Homogeneous, TLC on k = 2, 1/2; behaviours replayed with the data scaled by 1e-18, 1e-7, 1e9).",
    "C06": "A table written with array functions the polynomial ring cannot run is read numerically (least-squares fit at generic points, checked against fresh samples and, on every run, against the exact reading); all five tables are evaluated at the reference nodes.",
    "C07": "The re-coordinated (general straight-sided) meshes are also placed far from the origin (5e5, 4.5e6) and written in a unit 1e9 times larger: measure, element sizes and the integral of 1 on both rules follow the scaling law.",
    "C08": "spec/GeometryViews.tla adds views - queries in a moved configuration through the displacementMatrix keyword - to the histories: a view is not a motion (PureView, FrameIsFoldOfMoves); every history of one motion and one view is replayed (normals / Gauss points of the moved configuration, twice; nothing of the mesh moves; all later answers are those of the frame).",
    "C09": "The selection is a LIST of node ids in any order (Loads.tla, field order): nodal-array intensities are replayed on ascending and on permuted selections.",
    "C10": "Among the problems of every frame are bodies assembled from a part and its mirror image (Mesh.Merge of a mesh and of its Symmetry copy: half of the elements are orientation-reversed), loaded by a pressure across both halves, in 2-D (TRI3, QUAD4) and 3-D (HEXA8).",
    "C11": "ParamCache.tla also has MutateSource (the caller's array modified and NOT assigned again): which content the next read shows is free, but stiffness and compliance read together come from one content (Paired; the design alias_c - the stiffness IS the caller's array - is rejected); replayed on field parameters and on Anisotropic laws given by their matrix (Voigt / Kelvin-Mandel, homogeneous / per element).",
    "C12": "det / trace / inv / transpose are homogeneous in their operand (FeShapes.tla, ScaleDegree): each is applied again to the operand multiplied by 1e-14 and must return the result multiplied by 1e-14^degree.",
    "C13": "A form is linear in its weights (Forms.tla, Homogeneous; TLC on k = 2, 1/2): every second form is integrated and assembled again with its weights multiplied by 1e-9.",
    "C14": "spec/MeshCopy.tla (a mesh and its copies: Compute / Move / Copy over three slots; ReadCurrent, Independent; the design shared_cache is rejected) is replayed on real meshes: the cached geometry matrices read on any mesh of a history are those of a mesh built afresh from its coordinates. The adapter ElasticSmallUnits runs the life cycle with densities of order 1e-9 (matrices compared relative to themselves).",
    "C15": "Lifecycle.tla has ResultAt (a named result asked for iteration i restores that iteration, then reads - Restores covers it): Result(name, iter=i) is replayed against an explicit Set_Iter followed by the read (values, mesh, fields), in the store behaviours and in dense short behaviours over SaveIter / SetMesh / ResultAt / Solve / SetIter on four simulation types (PhaseField with two meshes of equal size).",
    "C17": "The materials include an Anisotropic law given by its matrix (every split) and the same law after Set_C(..., update_S=False) (He split, which is defined from the stiffness alone).",
    "C19": "The commit behaviours of InelasticCommit.tla are also replayed on a QUAD4 + TRI3 mesh: every element group goes through the trial / commit cycle.",
    "C20": "Size classes: a third-order type with 7 - 8 parts (its boundary group is listed after the bulk type) in both tiers, judged by Trace_Partition.tla.",
}
# extensions of round 10
EXTRA10 = {
    "C01": "The (value, unknown) pairs of the boundary data are listed in canonical and in reverse order.",
    "C03": "Among the real simulation classes compared with the dense scatter-add is a plate merged from a QUAD4 and a TRI3 mesh, the quadrangles inserted first (an order of the element groups the mesher never produces).",
    "C04": "The Lagrange route also carries a condition that ties a free dof to a prescribed one (the non-zero prescribed value enters the multiplier row); every fourth behaviour is replayed with all values multiplied by 1e-11 and 1e9.",
    "C08": "Every frame is also replayed on the pentagon merged with its mirror image (one element group holding elements of both orientations): measure and point location.",
    "C09": "Every load state is also replayed on the box meshed in two pieces of different element types and merged (two groups of the integration dimension), and every third load again with its intensity multiplied by 1e-9.",
    "C12": "The quick tier has a configuration with operands up to rank 4 (fourth-order constants in dot / ddot / matmul).",
    "C15": "The adapter ElasticMerged (quadrangles inserted before triangles) runs the store behaviours and short reload behaviours (Solve / SaveIter / SetMesh / SaveLoad / SetIter): element groups and connectivity of the mesh are compared after Save / Load and after every Set_Iter (meshes of the history that are not current are read back from disk).",
    "C16": "Every name is also recorded on a random state 1e-9 times smaller; Calc_Reaction is compared with K u (+ C v) (+ M a) under every time scheme on a damped random state.",
}
for _k, _v in EXTRA.items():
    CLAIMS[_k]["text"] += " " + _v
for _k, _v in EXTRA10.items():
    CLAIMS[_k]["text"] += " " + _v
