"""What MANIFEST.json claims, per property.  Edited as checks are built."""
HOOK_COMMITS = []
NOT_APPLICABLE = {}
CLAIMS = {
    "C05": dict(
        text="TLC model-checks spec/TimeSchemes.tla (the eight algorithms written from their documented definitions over exact rationals; "
        "invariants: discrete equation of motion on free dofs, documented update relations, exact energy conservation for average-acceleration "
        "Newmark and midpoint, dissipation for backward Euler, hht/newmark/midpoint family relations) exhaustively over a parameter lattice; every "
        "TLC behaviour (one-step lattice and multi-step algorithm/step-size switching histories) is replayed through the real Solve() in direct and "
        "Newton mode and u, v, a, the K/C/M weights and the evaluation-point states are compared with TLC's rationals after every step.",
        note="Trusted: TLC, the transcription of the AlgoType docstrings into TimeSchemes.tla, float-vs-rational comparison at 1e-10*scale. K, C, M are "
        "prescribed 2x2 matrices through a _Simu subclass (element integration is covered by C01/C02/C03). Lattice-to-all-inputs by the affine/rational-"
        "function argument of DESIGN.md section 4.",
        technique="TLA+ spec of the schemes over exact rationals, TLC exhaustive; TLC behaviours replayed into Solve() (direction A)",
        design_ref="DESIGN.md 6/C05",
    ),
}
