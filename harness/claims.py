"""What MANIFEST.json claims, per property.  Edited as checks are built."""
HOOK_COMMITS = []
NOT_APPLICABLE = {}
CLAIMS = {}
