"""Lifecycle adapter for Simulations.InElastic: a simulation whose observable state is (displacement, committed internal
variables).  A freshly built simulation "in the same configuration" receives both, so that the next Solve() - which integrates
the constitutive law from the committed state - is comparable; a stored iteration must bring both back, and a replaced mesh
restarts both."""
from __future__ import annotations

import numpy as np

from harness.lifecycle import Adapter, _grid_mesh, quiet


class InElasticAdapter(Adapter):
    name = "InElastic"
    nonlinear = True
    fields = ("u", "z")
    snapshot_after_save = True  # Save_Iter() is what commits the trial state: the stored state is the one after the call
    restored_always = ("z",)  # compared after Set_Iter under every scheme
    acts = {"SetParam", "Translate", "Rotate", "SetCoord", "SetMesh", "SetBc", "AddDirichlet",
            "Solve", "SaveIter", "SetIter", "GetResults", "SetFolder"}

    def base_mesh(self, which):
        from EasyFEA.FEM import ElemType

        return _grid_mesh(2, 2, ElemType.QUAD4) if which == "A" else _grid_mesh(3, 2, ElemType.QUAD4, L=1.5)

    def make_model(self, parv):
        from EasyFEA import Models

        IE = Models.InElastic
        return IE.Behavior(2, Models.Elastic.Isotropic(3, E=200.0, v=0.3), yieldSurface=IE.Yield.VonMises(2.0), hardening=IE.IsotropicHardening.Linear(50.0),
                           kinematic=IE.KinematicHardening.Prager(20.0), thickness=0.5 * (1 + 0.5 * parv))

    def set_param(self, model, parv):
        model.thickness = 0.5 * (1 + 0.5 * parv)

    def make_sim(self, mesh, model):
        from EasyFEA import Simulations

        return Simulations.InElastic(mesh, model, verbosity=False)

    def _shape(self, sim):
        from EasyFEA.FEM import MatrixType

        g = sim.mesh.groupElem
        return np.asarray(sim.material.State_zeros(g.Ne, g.Get_gauss(MatrixType.rigi).nPg)).shape

    def state(self, sim):
        d = getattr(sim, "_InElastic__zOld")
        et = sim.mesh.groupElem.elemType
        shape = self._shape(sim)
        z = np.asarray(d[et], dtype=float) if et in d else np.zeros(shape)
        return {"u": sim.displacement, "z": z.reshape(-1).copy()}

    def set_state(self, sim, st):
        from EasyFEA.FEM import FeArray

        sim._Set_solutions(sim.problemType, st["u"].copy())
        shape = self._shape(sim)
        z = st.get("z")
        if z is None or z.size != int(np.prod(shape)):
            z = np.zeros(int(np.prod(shape)))
        et = sim.mesh.groupElem.elemType
        for name in ("_InElastic__zOld", "_InElastic__z"):
            setattr(sim, name, {et: FeArray.asfearray(z.reshape(shape).copy())})

    def saved_fields(self, sim, dyn):
        return ["u", "z"]

    def result_names(self, sim):
        return ["displacement_norm", "Svm", "p"]
