"""C20 -- partitions.  spec/Partition.tla transcribes the ownership / ghost-layer bookkeeping; TLC
checks it exhaustively over all assignments of small meshes (1-3 main element types, 2-3 ranks)
and rejects the defective variant.  Direction B: real gmsh partitions of every element type
(and a mixed TRI3+QUAD4 mesh) are recorded and validated by Trace_Partition.tla.  Direction A:
per part a real simulation assembles K; owned rows must equal the global rows and owned-row
energies summed over the parts the global energy; Mesh.Merge with mapping; reproducibility."""
from __future__ import annotations

import json
import os

import numpy as np

from harness.lifecycle import quiet


def make_parts(N, elem, dim=2, h=1.0, mixed=False, hole=False):
    from EasyFEA import Mesher, ElemType
    from EasyFEA.Geoms import Domain, Point, Circle
    import gmsh

    et = ElemType(elem)
    with quiet():
        m = Mesher()
        m._Init_gmsh("occ")
        if mixed:
            gmsh.option.setNumber("Mesh.RecombinationAlgorithm", 0)
            gmsh.option.setNumber("Mesh.RecombineMinimumQuality", 0.6)
        dom = Domain(Point(0, 0), Point(10, 6), h)
        inc = [Circle(Point(5, 3), 2.0, h)] if hole else []
        if dim == 2:
            surfaces = m._Surfaces(dom, inc)[0]
            m._Surfaces_Organize(surfaces, et, False)
            m._Set_PhysicalGroups()
            m._Mesh_Generate(2, et)
        else:
            surfaces = m._Surfaces(dom, inc)[0]
            m._Surfaces_Organize(surfaces, et, False)
            m._Extrude(surfaces, [0, 0, 2], et, [2])
            m._Set_PhysicalGroups()
            m._Mesh_Generate(3, et)
        return m._Mesh_Get_Meshes(N)


def make_parts_split(N, h=1.0, frac=0.5):
    """a plate whose left part is meshed with TRI3 and whose right part with QUAD4 (two conforming surfaces): with enough parts
    some ranks own no element of one of the two types, yet may own a node that touches one"""
    from EasyFEA import Mesher, ElemType
    from EasyFEA.Geoms import Domain, Point

    L = 10.0
    with quiet():
        m = Mesher()
        m._Init_gmsh("occ")
        m._Surfaces(Domain(Point(), Point(L, L), h), [])
        m._Additional_Surfaces(2, [Domain(Point(L * frac, 0), Point(L, L), h, isFilled=True)])
        m._Synchronize()
        surfaces = [tag for _, tag in m._factory.getEntities(2)]
        m._Surfaces_Organize(surfaces[-1:], ElemType.QUAD4)
        m._Set_PhysicalGroups()
        m._Mesh_Generate(2, ElemType.TRI3)
        return m._Mesh_Get_Meshes(N)


def record(parts, ident):
    types = []
    order = list(parts[0].dict_groupElem.keys())
    for et in order:
        glob = {}
        ranks = []
        for p in parts:
            g = p.dict_groupElem[et]
            rank, own, ghost, nodes, gnodes = g._Get_partitioned_data()
            for ge, row in zip(g._globalElements, g.connect):
                glob[int(ge)] = [int(x) + 1 for x in row]
            ranks.append(dict(own=[int(x) + 1 for x in own], ghost=[int(x) + 1 for x in ghost], nodes=[int(x) + 1 for x in nodes], ghostNodes=[int(x) + 1 for x in gnodes]))
        ne = max(glob) + 1 if glob else 0
        elems = [glob.get(i, []) for i in range(ne)]
        types.append(dict(name=str(et), dim=int(parts[0].dict_groupElem[et].dim), elems=elems, ranks=ranks))
    return dict(id=ident, nn=int(parts[0].Nn), nproc=len(parts), types=types)


def rows_and_energy(ctx, parts, whole, ident, kind):
    from EasyFEA import Models, Simulations

    def sim_of(mesh):
        with quiet():
            if kind == "thermal":
                return Simulations.Thermal(mesh, Models.Thermal(k=2.0, c=1.0), verbosity=False)
            return Simulations.Elastic(mesh, Models.Elastic.Isotropic(mesh.dim, E=10.0, v=0.3, planeStress=True, thickness=1.0), verbosity=False)

    sg = sim_of(whole)
    Kg = sg.Get_K_C_M_F()[0].tocsr()
    dofn = sg.Get_dof_n()
    rng = np.random.default_rng(5)
    u = rng.uniform(-1, 1, Kg.shape[0])
    Eg = 0.5 * u @ (Kg @ u)
    Esum = 0.0
    for r, p in enumerate(parts):
        sp = sim_of(p)
        Kp = sp.Get_K_C_M_F()[0].tocsr()
        owned = p._Get_mpi_owned_nodes()
        dofs = (np.asarray(owned)[:, None] * dofn + np.arange(dofn)[None, :]).ravel()
        d = abs(Kp[dofs] - Kg[dofs]).max() if dofs.size else 0.0
        if d > 1e-10 * abs(Kg).max():
            ctx.violation(f"rows/{ident}", f"K assembled on part {r} of {ident} differs from the global K on rows of dofs the part owns (max {d:.3g})", {"id": ident, "rank": r})
        Esum += 0.5 * u[dofs] @ (Kp[dofs] @ u)
    if abs(Esum - Eg) > 1e-10 * abs(Eg):
        ctx.violation(f"energy/{ident}", f"owned-row energies summed over the parts of {ident} give {Esum}, the global energy is {Eg}", {"id": ident})


def merge_checks(ctx):
    from EasyFEA.FEM import Mesh, ElemType
    from harness.lifecycle import _grid_mesh

    with quiet():
        a = _grid_mesh(2, 2, ElemType.TRI3)
        b = _grid_mesh(2, 2, ElemType.TRI3)
        b.Translate(1.0, 0.0, 0.0)  # shares the edge x = 1 with a
        c = _grid_mesh(2, 2, ElemType.TRI3)
        c.Translate(5.0, 0.0, 0.0)  # disjoint
    with quiet():
        d = _grid_mesh(2, 2, ElemType.TRI3)
        d.Translate(0.0, 1.0, 0.0)
        e = _grid_mesh(2, 2, ElemType.TRI3)
        e.Translate(1.0, 1.0, 0.0)  # a, b, d, e meet at the cross point (1, 1): four coincident input points there
    for label, lst, nn in (("coincident", [a, b], 9 + 9 - 3), ("disjoint", [a, c], 18), ("cross-point", [a, b, d, e], 25)):
        try:
            with quiet():
                merged, mapping = Mesh.Merge(lst, return_mapping=True)
        except Exception as ex:
            ctx.violation(f"merge-raises/{label}", f"Mesh.Merge raises {type(ex).__name__}: {ex}", {"label": label})
            continue
        if merged.Nn != nn:
            ctx.violation(f"merge-nodes/{label}", f"merged mesh has {merged.Nn} nodes, expected {nn}", {"label": label})
        for m, mp in zip(lst, mapping):
            if np.abs(merged.coord[np.asarray(mp)] - m.coord).max() > 1e-12:
                ctx.violation(f"merge-mapping/{label}", "mapping returned by Mesh.Merge does not send the nodes of an input mesh onto their coordinates in the merged mesh", {"label": label})
        if abs(merged.area - sum(m.area for m in lst)) > 1e-12:
            ctx.violation(f"merge-area/{label}", "area of the merged mesh is not the sum of the areas", {"label": label})
        # coincident input nodes have one image
        allc = np.vstack([m.coord for m in lst])
        allm = np.concatenate([np.asarray(mp) for mp in mapping])
        _, inv = np.unique(np.round(allc, 9), axis=0, return_inverse=True)
        for k_ in range(inv.max() + 1):
            if np.unique(allm[np.ravel(inv) == k_]).size != 1:
                ctx.violation(f"merge-torn/{label}", f"input nodes at the same position {allc[np.ravel(inv) == k_][0]} are mapped to different nodes of the merged mesh {np.unique(allm[np.ravel(inv) == k_])}", {"label": label})
                break
        ctx.count(1, distinct_key=("merge", label))


def merge_partition_back(ctx, parts, whole, ident):
    """the parts of a partition merged back (ghost layers overlap, at triple points three or more copies of a node coincide): as many
    nodes and elements as the one-piece mesh and the same stiffness up to the renumbering given by the coordinates"""
    from EasyFEA.FEM import Mesh
    from EasyFEA import Models, Simulations

    try:
        with quiet():
            merged = Mesh.Merge(parts)
    except Exception as ex:
        ctx.violation(f"merge-parts-raises/{ident.split('/')[0]}", f"Mesh.Merge of the parts of {ident} raises {type(ex).__name__}: {ex}", {"id": ident})
        return
    used = np.unique(np.concatenate([g.connect.ravel() for g in merged.Get_list_groupElem(merged.dim)]))
    if used.size != whole.Nn or merged.Ne != whole.Ne:
        ctx.violation(f"merge-parts/{ident.split('/')[0]}", f"the parts of {ident} merged back give {used.size} nodes / {merged.Ne} elements, the one-piece mesh has {whole.Nn} / {whole.Ne}", {"id": ident})
        return
    with quiet():
        mat = Models.Elastic.Isotropic(2, E=10.0, v=0.3, planeStress=True, thickness=1.0)
        Km = Simulations.Elastic(merged, mat, verbosity=False).Get_K_C_M_F()[0].toarray()
        Kw = Simulations.Elastic(whole, mat, verbosity=False).Get_K_C_M_F()[0].toarray()
    # renumbering by coordinates
    key = lambda c: [tuple(r) for r in np.round(c[:, :2], 9)]
    pos = {k_: i for i, k_ in enumerate(key(whole.coord))}
    perm = np.array([pos[k_] for k_ in key(merged.coord[used])])
    dm = (used[:, None] * 2 + np.arange(2)).ravel()
    dw = (perm[:, None] * 2 + np.arange(2)).ravel()
    err = np.abs(Km[np.ix_(dm, dm)] - Kw[np.ix_(dw, dw)]).max() / np.abs(Kw).max()
    if err > 1e-10:
        ctx.violation(f"merge-parts-K/{ident.split('/')[0]}", f"stiffness on the parts of {ident} merged back differs from the one-piece mesh (rel {err:.3g})", {"id": ident})
    ctx.count(1, distinct_key=("merge-parts", ident))


def run(ctx):
    cfgs = ["quads_2_TRUE", "quads_3_TRUE", "tris_3_TRUE", "mixed_2_TRUE", "mixed_3_TRUE"]
    for c in cfgs:
        ctx.tlc_must_hold("MC_Partition", f"MC_Partition_{c}.cfg", what="Elems / NodesOK / Rows", workers=8)
    ctx.tlc_must_fail("MC_Partition", "MC_Partition_neg_ghosts_by_type.cfg", expect="Rows")
    frag = ctx.tlc("MC_Partition", "MC_Partition_quads_2_FALSE.cfg", workers=8)
    ctx.section("design_fragility", without_assumption_boundary_follows_cell=dict(violated=frag.violated, note="reported, not a verdict: the property quantifies over the partitions the partitioner produces"))
    # ---- direction B: real partitions
    elems2 = ["TRI3", "TRI6", "QUAD4", "QUAD8"] + (["TRI10", "TRI15", "QUAD9"] if ctx.thorough else [])
    elems3 = ["TETRA4", "PRISM6"] + (["HEXA8", "TETRA10", "PRISM15"] if ctx.thorough else [])
    Ns = [2, 3, 5, 9] if not ctx.thorough else [1, 2, 3, 4, 5, 7, 9, 12, 16, 24]
    plan = [(2.0, [2, 5, 14]), (1.0, [3, 16])] if not ctx.thorough else [(2.0, [1, 2, 3, 4, 5, 7, 9, 12, 14, 16, 20]), (1.0, [2, 3, 5, 9, 13, 16, 22, 30])]
    recs, kept, skipped = [], [], []
    # size classes: many parts on a mesh that is not tiny (the owned node ids of a part then spread over a range much larger than
    # the part), and a third-order type (its boundary group SEG4 is listed after the bulk type); judged by Trace_Partition.tla
    # like the others, without the per-part assembly
    large = [("TRI10", 1.0, 8), ("TRI10", 0.7, 7)]
    for et, h, N in large:
        ident = f"{et}/N{N}/h{h}/large"
        recs.append(record(make_parts(N, et, 2, h), ident))
    for et in elems2:
        for h, ns in plan:
            for N in ns:
                ident = f"{et}/N{N}/h{h}"
                try:
                    parts = make_parts(N, et, 2, h)
                except (AssertionError, KeyError) as ex:
                    skipped.append(f"{ident}: {type(ex).__name__}")
                    continue
                recs.append(record(parts, ident))
                kept.append((ident, parts, et, 2, h, False))
    for N in Ns[:3]:
        ident = f"mixedTRI3QUAD4/N{N}"
        parts = make_parts(N, "QUAD4", 2, 1.0, mixed=True, hole=True)
        recs.append(record(parts, ident))
        kept.append((ident, parts, "QUAD4", 2, 1.0, True))
    split = []
    for h, frac, ns in ((1.0, 0.5, [3, 8, 13]), (2.0, 0.3, [4, 9])) if not ctx.thorough else ((1.0, 0.5, [2, 3, 5, 8, 13, 20]), (2.0, 0.3, [3, 4, 6, 9, 12]), (1.5, 0.7, [5, 10, 15])):
        for N in ns:
            ident = f"splitTRI3QUAD4/N{N}/h{h}/f{frac}"
            parts = make_parts_split(N, h, frac)
            recs.append(record(parts, ident))
            split.append((ident, parts, h, frac))
    for et in elems3:
        for N in Ns[:3]:
            ident = f"{et}/N{N}"
            try:
                parts = make_parts(N, et, 3, 2.5)
            except (AssertionError, KeyError) as ex:
                skipped.append(f"{ident}: {type(ex).__name__}")
                continue
            recs.append(record(parts, ident))
            kept.append((ident, parts, et, 3, 2.5, False))
    path = os.path.join(ctx.scratch, "partitions.json")
    json.dump(recs, open(path, "w"))
    res = ctx.tlc("Trace_Partition", "Trace_Partition.cfg", workers=16, env={"PARTITION_TRACES": path}, timeout=3000, heap="16g")
    if not res.ok:
        from harness.core import MachineryError

        raise MachineryError(f"Trace_Partition: {res.violated} {res.counterexample[:1500]}")
    verdicts = {v["id"]: v for v in res.prints.get("VERDICT", [])}
    if len(verdicts) != len(recs):
        from harness.core import MachineryError

        raise MachineryError(f"TLC judged {len(verdicts)} of {len(recs)} recorded partitions")
    labels = dict(nodesMatch="owned nodes differ from the ownership rule", ghostsMatch="ghost elements differ from 'foreign elements touching an owned node'", ghostNodesMatch="ghost nodes are not the nodes of the part's elements it does not own",
                  elems="a main-dimension element has not exactly one owner", nodes="a node has not exactly one owner among the main-dimension groups", rows="a part misses an element touching a node it owns", minimal="a ghost element touches no owned node")
    for ident, v in verdicts.items():
        ctx.traces(1)
        ctx.count(1, distinct_key=ident)
        for key, msg in labels.items():
            if not v[key]:
                ctx.violation(f"partition/{key}/{ident.split('/')[0]}", f"partition {ident}: {msg}", {"id": ident, "verdict": v})
    # ---- direction A
    for ident, parts, et, dim, h, mixed in kept:
        whole = make_parts(1, et, dim, h, mixed=mixed, hole=mixed)[0]
        if whole.Nn != parts[0].Nn:
            ctx.violation(f"numbering/{ident.split('/')[0]}", f"global numbering not kept: {whole.Nn} vs {parts[0].Nn} nodes", {"id": ident})
            continue
        for p in parts:
            used = np.unique(np.concatenate([g.connect.ravel() for g in p.Get_list_groupElem()]))
            if np.abs(p.coord[used] - whole.coord[used]).max() > 1e-12:
                ctx.violation(f"coordinates/{ident.split('/')[0]}", f"a part of {ident} does not keep the global coordinates of its nodes", {"id": ident})
        rows_and_energy(ctx, parts, whole, ident, "thermal" if dim == 3 or "TRI10" in ident or "TRI15" in ident else "elastic")
        if dim == 2 and not mixed and len(parts) >= 3 and et in ("TRI3", "QUAD4", "TRI6"):
            merge_partition_back(ctx, parts, whole, ident)
        again = make_parts(len(parts), et, dim, h, mixed=mixed, hole=mixed)
        same = all(np.array_equal(a.dict_groupElem[k]._Get_partitioned_data()[i], b.dict_groupElem[k]._Get_partitioned_data()[i]) for a, b in zip(parts, again) for k in a.dict_groupElem for i in (1, 2, 3, 4))
        if not same:
            ctx.violation(f"reproducible/{ident.split('/')[0]}", f"partitioning {ident} twice gives different data", {"id": ident})
    lacking = 0
    for ident, parts, h, frac in split:
        whole = make_parts_split(1, h, frac)[0]
        lacking += sum(1 for p_ in parts for g in p_.Get_list_groupElem(2) if g._Get_partitioned_data()[1].size == 0)
        rows_and_energy(ctx, parts, whole, ident, "elastic")
    if split and lacking == 0:
        from harness.core import MachineryError

        raise MachineryError("vacuous: no rank of the split TRI3 / QUAD4 partitions lacks an element type")
    ctx.section("split_meshes", partitions=[i for i, *_ in split], ranks_owning_no_element_of_one_type=lacking)
    merge_checks(ctx)
    ctx.section("recorded", partitions=len(recs), skipped=skipped)
    ctx.sample({"id": recs[0]["id"], "types": [(t["name"], len(t["elems"])) for t in recs[0]["types"]], "rank0": {k: v[:8] for k, v in recs[0]["types"][1]["ranks"][0].items()}})
    ctx.cov["rule"] = "exhaustive assignments of small abstract meshes (TLC) + recorded gmsh partitions of every listed element type / part count validated by TLC + per-part assembly; distinct = recorded partitions"
    ctx.assume("environment assumption of the exhaustive model: the partitioner assigns a boundary element to the part of the cell it bounds (observed on every recorded partition; the model without it is reported as fragility)")
