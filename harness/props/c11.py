"""C11 -- linear elastic laws.  spec/ElasticLaws.tla computes the exact compliance (engineering
notation, global axes) of every case; the compliance the library reports is recorded (direction
B) and compared exactly by TLC.  Numerical relations (SPD, C S = I, plane-strain sub-block,
orthogonality of the change-of-basis matrix, notation independence, lazy update, parameter
fields) are checked on the same cases."""
from __future__ import annotations

import json
import os
from fractions import Fraction as Fr

import numpy as np

SQ2 = np.sqrt(2.0)


def quat_frame(w, x, y, z):
    n = w * w + x * x + y * y + z * z
    R = [[w * w + x * x - y * y - z * z, 2 * (x * y - w * z), 2 * (x * z + w * y)],
         [2 * (x * y + w * z), w * w - x * x + y * y - z * z, 2 * (y * z - w * x)],
         [2 * (x * z - w * y), 2 * (y * z + w * x), w * w - x * x - y * y + z * z]]
    return [[Fr(v, n) for v in row] for row in R]


def rz(c, s):
    return [[c, -s, Fr(0)], [s, c, Fr(0)], [Fr(0), Fr(0), Fr(1)]]


def ry(c, s):
    return [[c, Fr(0), s], [Fr(0), Fr(1), Fr(0)], [-s, Fr(0), c]]


def mm(A, B):
    return [[sum(A[i][k] * B[k][j] for k in range(3)) for j in range(3)] for i in range(3)]


I3 = [[Fr(int(i == j)) for j in range(3)] for i in range(3)]
FRAMES = {
    "identity": I3,
    "rz(3/5,4/5)": rz(Fr(3, 5), Fr(4, 5)),
    "rz(4/5,3/5)": rz(Fr(4, 5), Fr(3, 5)),
    "ry(3/5,4/5)": ry(Fr(3, 5), Fr(4, 5)),
    "quat(1,2,2,0)": quat_frame(1, 2, 2, 0),
    "quat(1,1,1,1)": quat_frame(1, 1, 1, 1),
    "quat(2,1,0,2)": quat_frame(2, 1, 0, 2),
}
INPLANE = {"identity", "rz(3/5,4/5)", "rz(4/5,3/5)"}

PARAMS = {
    "Isotropic": [dict(E=Fr(10), v=Fr(1, 4)), dict(E=Fr(2), v=Fr(-1, 5)), dict(E=Fr(1), v=Fr(1, 3))],
    # constants chosen so that every compliance entry has a denominator dividing 32 (rotated entries stay on the snapping lattice)
    "TransverselyIsotropic": [dict(El=Fr(8), Et=Fr(4), Gl=Fr(2), vl=Fr(1, 4), vt=Fr(1, 4)), dict(El=Fr(2), Et=Fr(8), Gl=Fr(1), vl=Fr(1, 8), vt=Fr(1, 4))],
    "Orthotropic": [dict(E1=Fr(8), E2=Fr(4), E3=Fr(2), G23=Fr(2), G13=Fr(1), G12=Fr(4), v23=Fr(1, 4), v13=Fr(1, 4), v12=Fr(1, 4))],
}


def rat(f):
    return [f.numerator, f.denominator]


def snap(x, scale):
    f = Fr(float(x)).limit_denominator(2 * 10**6)
    if abs(float(f) - x) <= 1e-12 * scale:
        return rat(f)
    return rat(Fr(float(x)).limit_denominator(10**8))


def build(cls, prm, P, scale_axes, dim, planeStress, voigt=True):
    from EasyFEA import Models

    a1 = np.array([float(P[i][0]) for i in range(3)]) * scale_axes[0]
    a2 = np.array([float(P[i][1]) for i in range(3)]) * scale_axes[1]
    p = {k: (v if isinstance(v, np.ndarray) else float(v)) for k, v in prm.items()}
    E = Models.Elastic
    if cls == "Isotropic":
        return E.Isotropic(dim, planeStress=planeStress, **p)
    if cls == "TransverselyIsotropic":
        return E.TransverselyIsotropic(dim, axis_l=a1, axis_t=a2, planeStress=planeStress, **p)
    if cls == "Orthotropic":
        return E.Orthotropic(dim, axis_1=a1, axis_2=a2, planeStress=planeStress, **p)
    raise KeyError(cls)


def km_to_eng(S):
    n = S.shape[-1]
    a = np.array([1, 1, 1, SQ2, SQ2, SQ2]) if n == 6 else np.array([1, 1, SQ2])
    return S * a[:, None] * a[None, :]


def cases():
    out = []
    for cls, plist in PARAMS.items():
        for ip, prm in enumerate(plist):
            for fname, P in FRAMES.items():
                if cls == "Isotropic" and fname != "identity":
                    continue
                for dim, ps in ((3, False), (2, True), (2, False)):
                    for sc in ((1.0, 1.0), (2.5, 0.5)):
                        if cls == "Isotropic" and sc != (1.0, 1.0):
                            continue
                        out.append(dict(id=f"{cls}{ip}/{fname}/{dim}D{'ps' if ps and dim == 2 else ''}/axes{sc[0]}x{sc[1]}", cls=cls, prm=prm, frame=fname, P=P, dim=dim, planeStress=bool(ps), scale=sc))
    return out


def field_laws(ctx):
    """heterogeneous parameters (one value per element, one per Gauss point) with rotated material axes: the law at each
    element / point equals the homogeneous law built from that element's values in the same frame (whose compliance TLC judges)"""
    from EasyFEA import Models

    Ne, nPg = 3, 2
    scal_e = np.array([1.0, 1.25, 0.75])
    scal_ep = scal_e[:, None] * np.array([1.0, 1.1])[None, :]
    n = 0
    for cls in ("Isotropic", "TransverselyIsotropic", "Orthotropic"):
        prm = PARAMS[cls][0]
        stiff = [k for k in prm if k[0] in "EG"]  # moduli are scaled, Poisson ratios kept: admissibility is preserved
        for fname, P in FRAMES.items():
            if cls == "Isotropic" and fname != "identity":
                continue  # no material axes
            for dim, ps in ((3, False), (2, True), (2, False)):
                for shape, sc in (("Ne", scal_e), ("Ne,nPg", scal_ep)):
                    pf = {k: (float(v) * sc if k in stiff else float(v)) for k, v in prm.items()}
                    try:
                        m = build(cls, pf, P, (1.0, 1.0), dim, ps)
                        C = np.asarray(m.C, dtype=float)
                        S = np.asarray(m.S, dtype=float)
                    except Exception as ex:
                        ctx.violation(f"field-raises/{cls}/{fname}", f"{cls} with {shape} parameter fields, frame {fname}, dim {dim}: {type(ex).__name__}: {ex}", {"cls": cls, "frame": fname})
                        continue
                    for e in range(Ne):
                        for pg in range(nPg if shape == "Ne,nPg" else 1):
                            f = sc[e, pg] if shape == "Ne,nPg" else sc[e]
                            mh = build(cls, {k: (float(v) * f if k in stiff else float(v)) for k, v in prm.items()}, P, (1.0, 1.0), dim, ps)
                            Ch, Sh = np.asarray(mh.C, dtype=float), np.asarray(mh.S, dtype=float)
                            Ce = C[e, pg] if shape == "Ne,nPg" else C[e]
                            Se = S[e, pg] if shape == "Ne,nPg" else S[e]
                            n += 1
                            if np.abs(Ce - Ch).max() > 1e-10 * np.abs(Ch).max() or np.abs(Se - Sh).max() > 1e-10 * np.abs(Sh).max():
                                ctx.violation(f"field-law/{cls}/{fname}/{dim}D", f"{cls} ({shape} parameter fields, frame {fname}, {dim}D{' plane stress' if ps else ''}): the law at element {e} differs from the homogeneous law built from that element's values in the same frame (stiffness: max relative {np.abs(Ce - Ch).max() / np.abs(Ch).max():.3g}, compliance: {np.abs(Se - Sh).max() / np.abs(Sh).max():.3g})", {"cls": cls, "frame": fname, "dim": dim})
                                break
                        else:
                            continue
                        break
    ctx.count(n, distinct_key=("field-laws",))
    ctx.section("field_laws", comparisons=n)


def param_cache_replay(ctx):
    """spec/ParamCache.tla: every sequence of AssignNew / MutateAndReassign / Read (5 operations) is replayed on a real
    material of each law class with a scalar and with a per-element field parameter; after every Read the stiffness must be
    the one of a freshly built material with the current parameter values.  The behaviours of ParamCache_source.cfg add
    MutateSource (the array is modified and NOT assigned again): which content the next read shows is then free, but the
    stiffness and the compliance read together must be mutually inverse (Paired); they are replayed on field parameters and
    on Anisotropic laws given by their matrix (Voigt and Kelvin-Mandel notation, homogeneous and per-element)."""
    from EasyFEA import Models

    res = ctx.tlc_must_hold("ParamCache", "ParamCache_none.cfg", what="ReadIsCurrent / FlagSound / Paired", workers=4)
    ctx.tlc_must_fail("ParamCache", "ParamCache_skip_equal.cfg", expect="FlagSound")
    res2 = ctx.tlc_must_hold("ParamCache", "ParamCache_source.cfg", what="ReadIsCurrent / FlagSound / Paired with MutateSource", workers=4)
    ctx.tlc_must_fail("ParamCache", "ParamCache_alias_c.cfg", expect="Paired")
    seqs = sorted(o["ops"] for o in res.prints.get("OPS", []))  # TLC prints in worker order: sort for a reproducible selection
    seqs2 = sorted(o["ops"] for o in res2.prints.get("OPS", []) if "MutateSource" in o["ops"])
    E = Models.Elastic
    Ne = 4
    L = np.eye(6) + np.tril(np.arange(36.0).reshape(6, 6) % 5 - 2, -1) * 0.1
    C0 = L @ L.T * 10.0   # a positive definite 6 x 6 matrix with every coupling

    def aniso(voigt, field):
        def mk(v):
            return E.Anisotropic(3, v, voigt)
        return mk

    makers = {
        "Isotropic": lambda v: E.Isotropic(2, E=v, v=0.25, planeStress=True),
        "TransverselyIsotropic": lambda v: E.TransverselyIsotropic(3, El=v, Et=4.0, Gl=2.0, vl=0.25, vt=0.2),
        "Orthotropic": lambda v: E.Orthotropic(3, E1=v, E2=6.0, E3=4.0, G23=1.5, G13=2.0, G12=2.5, v23=0.2, v13=0.25, v12=0.3),
        "Anisotropic/voigt": aniso(True, False),
        "Anisotropic/kelvin-mandel": aniso(False, False),
    }
    names = {"Isotropic": "E", "TransverselyIsotropic": "El", "Orthotropic": "E1"}

    def assign(mat, cls, cur):
        if cls.startswith("Anisotropic"):
            mat.Set_C(cur, cls.endswith("voigt"))
        else:
            setattr(mat, names[cls], cur)

    def paired(mat):
        C, S = np.asarray(mat.C, dtype=float), np.asarray(mat.S, dtype=float)
        I = np.eye(C.shape[-1])
        return float(np.abs(C @ S - I).max())

    nseq = 0
    for cls, mk in makers.items():
        an = cls.startswith("Anisotropic")
        for field in (False, True):
            plan = [(ops, False) for si, ops in enumerate(seqs) if (si + (1 if field else 0)) % (1 if ctx.thorough else 3) == 0]
            if field or an:
                plan += [(ops, True) for si, ops in enumerate(seqs2) if si % (1 if ctx.thorough else 2) == 0]
            for ops, with_source in plan:
                if an:
                    base = np.stack([C0 * (1 + 0.1 * e) for e in range(Ne)]) if field else C0.copy()
                else:
                    base = np.linspace(8.0, 11.0, Ne) if field else 9.0
                mutable = isinstance(base, np.ndarray)
                sel = slice(None) if (an and not field) else slice(0, Ne // 2)   # a homogeneous matrix is scaled as a whole (it stays symmetric)
                cur = base.copy() if mutable else base
                mat = mk(cur)
                pending = False   # modified since the material was last told
                k = 0
                for op in ops:
                    k += 1
                    if op == "AssignNew":
                        cur = (cur * 1.1 + (0.0 if an else 0.3))   # a new object
                        assign(mat, cls, cur)
                        pending = False
                    elif op == "MutateAndReassign":
                        if mutable:
                            cur[sel] *= 0.8        # the same array, modified in place ... (factors keep the moduli admissible over five operations)
                        else:
                            cur = cur * 0.8
                        assign(mat, cls, cur)                          # ... and assigned again
                        pending = False
                    elif op == "MutateSource":
                        if mutable:
                            cur[sel] *= 0.9        # the same array, modified in place, nothing assigned
                            pending = True
                    else:
                        err = paired(mat)
                        if err > 1e-9:
                            ctx.violation(f"param-paired/{cls}/{'field' if field else 'homogeneous'}", f"{cls} ({'per-element' if field else 'homogeneous'}): after {' -> '.join(ops[:k])} the stiffness and the compliance read together are not mutually inverse (max |C S - I| = {err:.3g})", {"cls": cls, "field": field, "ops": ops[:k]})
                            break
                        if pending:
                            continue   # which content is shown is outside the statement
                        C = np.asarray(mat.C, dtype=float)
                        Cf = np.asarray(mk(cur.copy() if mutable else cur).C, dtype=float)
                        if C.shape != Cf.shape or np.abs(C - Cf).max() > 1e-12 * np.abs(Cf).max():
                            ctx.violation(f"param-change/{cls}/{'field' if field else 'scalar'}", f"{cls} ({'per-element field' if field else 'scalar / homogeneous'} parameter): after {' -> '.join(ops[:k])} the stiffness read is not the one of the current parameters (max relative {np.abs(C - Cf).max() / np.abs(Cf).max() if C.shape == Cf.shape else 'shape'})", {"cls": cls, "field": field, "ops": ops[:k]})
                            break
                nseq += 1
                ctx.count(1, distinct_key=("param-cache", cls, field, tuple(ops)))
                ctx.traces(1)
    ctx.section("param_cache", sequences=len(seqs), sequences_with_mutate_source=len(seqs2), replayed=nseq, classes=list(makers), forms=["scalar / homogeneous", "per-element field"])


def run(ctx):
    from EasyFEA import Models
    from EasyFEA.Models import Get_Pmat, Apply_Pmat

    cs = cases()
    recs, mats = [], {}
    for c in cs:
        try:
            m = build(c["cls"], c["prm"], c["P"], c["scale"], c["dim"], c["planeStress"])
            S = np.asarray(m.S, dtype=float)
            C = np.asarray(m.C, dtype=float)
        except Exception as ex:
            ctx.violation(f"build-raises/{c['cls']}/{c['frame']}", f"{c['id']}: {type(ex).__name__}: {ex}", {"id": c["id"]})
            continue
        mats[c["id"]] = (m, C, S)
        Se = km_to_eng(S)
        sc = np.abs(Se).max()
        recs.append(dict(id=c["id"], cls=c["cls"], prm={k: rat(v) for k, v in c["prm"].items()}, P=[[rat(v) for v in row] for row in c["P"]], dim=c["dim"], planeStress=c["planeStress"],
                         Sobs=[[snap(v, sc) for v in row] for row in Se]))
    # units (ElasticLaws.tla: UnitLaw): every parametric case again with its moduli multiplied by 2^40 (an exact binary factor: moduli of order 1e13, compliances of order 1e-13; the
    # order of GPa -> Pa); the reported compliance is multiplied back and judged against the same exact expectation
    UNIT = 2.0**40
    MODULI = {"E", "El", "Et", "Gl", "E1", "E2", "E3", "G23", "G13", "G12"}
    for c in cs:
        if c["id"] not in mats:
            continue
        prm2 = {k_: (v_ * UNIT if k_ in MODULI else v_) for k_, v_ in c["prm"].items()}
        ident = c["id"] + "/unit2^40"
        try:
            m = build(c["cls"], prm2, c["P"], c["scale"], c["dim"], c["planeStress"])
            S = np.asarray(m.S, dtype=float) * UNIT
            C = np.asarray(m.C, dtype=float) / UNIT
        except Exception as ex:
            ctx.violation(f"build-raises/{c['cls']}/{c['frame']}", f"{ident}: {type(ex).__name__}: {ex}", {"id": ident})
            continue
        mats[ident] = (m, C, S)
        Se = km_to_eng(S)
        sc = np.abs(Se).max()
        recs.append(dict(id=ident, cls=c["cls"], prm={k: rat(v) for k, v in c["prm"].items()}, P=[[rat(v) for v in row] for row in c["P"]], dim=c["dim"], planeStress=c["planeStress"],
                         Sobs=[[snap(v, sc) for v in row] for row in Se]))
    # anisotropic: the law is given as a stiffness; take the orthotropic one in material axes, in both notations
    ortho = build("Orthotropic", PARAMS["Orthotropic"][0], I3, (1.0, 1.0), 3, False)
    C_km_mat = np.asarray(ortho.C, dtype=float)
    S_eng_mat0 = km_to_eng(np.asarray(ortho.S, dtype=float))
    C_voigt_mat = np.linalg.inv(S_eng_mat0)
    # the same kind of law written with whole numbers in an integer array (Voigt notation): the type of the array is not part of the law
    # C = L L^T with L unit lower triangular: whole numbers, positive definite, every block coupled (normal-shear too), integer inverse
    L_int = np.eye(6, dtype=int)
    for (i, j) in ((1, 0), (2, 1), (3, 0), (4, 1), (5, 2), (5, 3)):
        L_int[i, j] = 1
    C_int = L_int @ L_int.T
    S_int = np.linalg.inv(C_int.astype(float))
    for fname, P in FRAMES.items():
        for voigt, Cgiven, S_eng_mat, vname in ((True, C_voigt_mat, S_eng_mat0, "voigt"), (False, C_km_mat, S_eng_mat0, "kelvin-mandel"), (True, C_int, S_int, "voigt-integer-array")):
            ident = f"Anisotropic/{fname}/3D/{vname}"
            a1 = np.array([float(P[i][0]) for i in range(3)]) * 2.0
            a2 = np.array([float(P[i][1]) for i in range(3)])
            try:
                m = Models.Elastic.Anisotropic(3, Cgiven.copy(), voigt, a1, a2)
                S = np.asarray(m.S, dtype=float)
            except Exception as ex:
                ctx.violation(f"build-raises/Anisotropic/{fname}", f"{ident}: {type(ex).__name__}: {ex}", {"id": ident})
                continue
            mats[ident] = (m, np.asarray(m.C, dtype=float), S)
            Se = km_to_eng(S)
            recs.append(dict(id=ident, cls="Anisotropic", prm=dict(S=[[snap(v, np.abs(S_eng_mat).max()) for v in row] for row in S_eng_mat]), P=[[rat(v) for v in row] for row in P], dim=3, planeStress=False,
                             Sobs=[[snap(v, np.abs(Se).max()) for v in row] for row in Se]))
    path = os.path.join(ctx.scratch, "law_cases.json")
    json.dump(recs, open(path, "w"))
    res = ctx.tlc("ElasticLaws", "ElasticLaws.cfg", workers=16, env={"LAW_CASES": path}, timeout=3000)
    if not res.ok:
        from harness.core import MachineryError

        raise MachineryError(f"ElasticLaws: {res.violated} {res.counterexample[:1500]}")
    verdicts = {v["id"]: v for v in res.prints.get("VERDICT", [])}
    if len(verdicts) != len(recs):
        from harness.core import MachineryError

        raise MachineryError(f"TLC judged {len(verdicts)} of {len(recs)} cases")
    byid = {c["id"]: c for c in cs}
    for ident, v in verdicts.items():
        ctx.traces(1)
        ctx.count(1, distinct_key=ident)
        parts = ident.split("/")
        if not v["frameOK"]:
            from harness.core import MachineryError

            raise MachineryError(f"frame of {ident} is not orthonormal")
        m_, C_, S_ = mats[ident]
        exp6_ = np.array([[float(Fr(*q)) for q in row] for row in v["expected"]])
        Se_ = km_to_eng(S_)
        sub_ = [0, 1, 5]
        expS_ = exp6_ if Se_.shape[0] == 6 else exp6_[np.ix_(sub_, sub_)]
        numdiff = np.abs(Se_ - expS_).max() / np.abs(expS_).max() if (Se_.shape[0] == 6 or (ident.replace("/unit2^40", "") in byid and byid[ident.replace("/unit2^40", "")]["planeStress"])) else 0.0
        if v["mismatch"] and numdiff < 1e-10:
            from harness.core import MachineryError

            raise MachineryError(f"{ident}: TLC reports a mismatch but the floats agree to {numdiff:.2g}: snapping lattice too coarse for this case")
        if v["mismatch"]:
            ctx.violation(f"compliance/{parts[0].rstrip('0123456789')}/{parts[1]}/{parts[2]}", f"{ident}: reported compliance differs from the exact law at entries {v['mismatch'][:5]} (engineering notation, global axes)", {"id": ident, "verdict": {k: v[k] for k in ('id', 'mismatch')}})
        # numerical relations on the same case
        m, C, S = mats[ident]
        tag = f"{parts[0].rstrip('0123456789')}/{parts[1]}/{parts[2]}"
        sc = np.abs(C).max()
        if np.abs(C - C.T).max() > 1e-12 * sc or np.linalg.eigvalsh((C + C.T) / 2).min() <= 0:
            ctx.violation(f"spd/{tag}", f"{ident}: stiffness is not symmetric positive definite", {"id": ident})
        if np.abs(C @ S - np.eye(C.shape[0])).max() > 1e-10:
            ctx.violation(f"inverse/{tag}", f"{ident}: C S differs from the identity by {np.abs(C @ S - np.eye(C.shape[0])).max():.3g}", {"id": ident})
        exp6 = np.array([[float(Fr(*q)) for q in row] for row in v["expected"]])
        if C.shape[0] == 3 and ident in byid and not byid[ident]["planeStress"]:
            # plane strain: eps_zz = eps_yz = eps_xz = 0 -> stiffness = sub-block of the 3-D stiffness of the exact law
            C6 = np.linalg.inv(exp6)
            sub = [0, 1, 5]
            a = np.array([1, 1, SQ2])
            Cexp = C6[np.ix_(sub, sub)] * a[:, None] * a[None, :]
            if np.abs(C - Cexp).max() > 1e-10 * sc:
                ctx.violation(f"plane-strain/{tag}", f"{ident}: the 2-D law is not the plane-strain reduction of the 3-D law (max diff {np.abs(C - Cexp).max():.3g})", {"id": ident})
    # change-of-basis matrices
    for fname, P in FRAMES.items():
        for sc in ((1.0, 1.0), (2.5, 0.5)):
            a1 = np.array([float(P[i][0]) for i in range(3)]) * sc[0]
            a2 = np.array([float(P[i][1]) for i in range(3)]) * sc[1]
            for useM in (True, False):
                try:
                    Pm = np.asarray(Get_Pmat(a1, a2, useM) if useM else Get_Pmat(a1, a2, False)[0])
                except Exception:
                    continue
                if useM and np.abs(Pm.T @ Pm - np.eye(6)).max() > 1e-12:
                    ctx.violation(f"pmat-orthogonal/{fname}/axes{sc[0]}x{sc[1]}", f"Get_Pmat for axes of length {sc} in frame {fname} is not orthogonal (|P'P - I| = {np.abs(Pm.T @ Pm - np.eye(6)).max():.3g})", {"frame": fname, "scale": sc})
                ctx.count(1, distinct_key=("pmat", fname, sc, useM))
    # lazy update and parameter fields
    mat = Models.Elastic.Isotropic(3, E=10.0, v=0.25)
    C0 = np.asarray(mat.C).copy()
    mat.E = 20.0
    if np.abs(np.asarray(mat.C) - 2 * C0).max() > 1e-12 * np.abs(C0).max():
        ctx.violation("lazy-update/Isotropic", "changing E is not visible in C at the next read", {})
    Ee = np.array([10.0, 20.0, 5.0])
    matf = Models.Elastic.Isotropic(3, E=Ee, v=0.25)
    Cf = np.asarray(matf.C)
    for i, e in enumerate(Ee):
        if np.abs(Cf[i] - C0 * e / 10.0).max() > 1e-12 * np.abs(C0).max() * e:
            ctx.violation("field/Isotropic", "per-element Young modulus does not give the per-element law", {})
    ctx.section("cases", total=len(recs), frames=list(FRAMES), classes=list(PARAMS) + ["Anisotropic"])
    ctx.sample({"id": recs[5]["id"], "Sobs_row1": recs[5]["Sobs"][0]})
    ctx.cov["exhaustive"] = True
    param_cache_replay(ctx)
    field_laws(ctx)
    ctx.cov["rule"] = "every (law class, parameter set, rational frame incl. out-of-plane and compound rotations, axis lengths, 3D / plane stress / plane strain) case judged exactly by TLC on the reported compliance; distinct = cases"
    ctx.assume("compliance entries are snapped to rationals with denominator <= 1e6 within 1e-11 relative; plane strain is judged numerically (1e-10) against the inverse of the exact compliance")
