"""C15 -- saved iterations and saved simulations restore exactly what was saved.
spec/Lifecycle.tla (store part): AppendOnly, PureRead, Restores, Pinned model-checked by TLC;
store-centred behaviours replayed on real simulations with shadow snapshots."""
from harness import lifecycle as lc


def run(ctx):
    if ctx.replay:
        import json

        case = json.load(open(ctx.replay))["case"]
        out = lc.replay_actions(case["adapter"], case["behaviour"], sims=case.get("sims", ["s1"]))
        for k, what in out:
            ctx.violation(f"{case['adapter']}/{k}", what, case)
        ctx.count(len(case["behaviour"]), distinct_key="replay")
        ctx._distinct.add("replay2")
        return
    ctx.tlc_must_hold("Lifecycle", "Lifecycle_store.cfg", what="AppendOnly/PureRead/Restores/Pinned", coverage=False)
    if ctx.thorough:
        ctx.tlc_must_hold("Lifecycle", "Lifecycle_store_thorough.cfg", what="store properties, 3 iterations / 3 folders", timeout=3000)
    ctx.tlc_must_fail("Lifecycle", "Lifecycle_neg_setiter_keeps_maps.cfg")
    ctx.tlc_must_fail("Lifecycle", "Lifecycle_neg_saveiter_wrong_mesh.cfg")
    num = 2000 if ctx.thorough else 300
    for name in ["Elastic", "Thermal", "MatSimu"]:
        lc.simulate_and_replay(ctx, name, lc.STORE_ACTS, num, 14, ctx.seed + 11, label="store")
    for name in ["Beam", "BeamTimo", "Elastic3D", "WeakForms", "HyperElastic", "PhaseField", "InElastic", "ElasticMerged"]:
        lc.simulate_and_replay(ctx, name, lc.STORE_ACTS, num // 3, 14, ctx.seed + 12, label="store")
    # short behaviours over the few actions that decide what Result(name, iter=i) has to restore (an iteration saved before / after a solve,
    # another mesh made current, a solve in between): dense coverage of the orders, which the long random behaviours only touch
    for name in ["PhaseField", "Elastic", "Thermal", "HyperElastic"]:
        lc.simulate_and_replay(ctx, name, ["SaveIter", "SetMesh", "ResultAt", "Solve", "SetIter"], num // 2, 6, ctx.seed + 13, label="result-at")
    # short behaviours around Save() / Load_Simu() with two meshes in the history: the meshes of the history that are not current are
    # read back from disk when an iteration saved on them is restored
    for name in ["ElasticMerged", "Thermal"]:
        lc.simulate_and_replay(ctx, name, ["Solve", "SaveIter", "SetMesh", "SaveLoad", "SetIter"], num // 2, 8, ctx.seed + 14, label="reload")
    # simulations whose stored iterations carry internal variables (InElastic): spec/InelasticCommit.tla, behaviours with SaveIter / SetIter
    # in every order replayed with content hashes of displacement and internal state
    from harness.props import c19

    c19.commit_section(ctx, 80 if ctx.thorough else 24, ctx.seed + 31, label="inelastic_store")
    # direction B: Save_Iter / Set_Iter events recorded while the repository's tests run, judged by Trace_Lifecycle.tla (AppendOnly, PureRead)
    from harness import repo_trace

    repo_trace.validate(ctx, ["tests/Simulations/"] if ctx.thorough else ["tests/Simulations/simu_test.py", "tests/Simulations/elastic_test.py"], "store")
    ctx.cov["rule"] = ("TLC simulation-mode behaviours over {Solve, SaveIter, SetFolder, SetIter, GetResults, SetMesh, SetAlgo, SetBc, Translate} replayed on real "
                       "simulations; after every action every stored iteration is re-read and compared with the snapshot taken when it was saved; "
                       "distinct = distinct (simulation type, action, preceding action)")
    ctx.assume("velocities/accelerations are expected in a stored iteration only when saved and restored under a dynamic scheme")
