"""C05 -- time schemes.  spec/TimeSchemes.tla (+ MC_TimeSchemes.tla)

1. TLC model-checks the module (documented definitions, exact rationals): discrete equation
   of motion, documented update relations, exact conservation (avg-acceleration Newmark,
   midpoint), dissipation (backward Euler), family relations.
2. Every behaviour of the bounded model (one-step lattice; multi-step switching histories)
   is replayed through the real `Solve()` of EasyFEA on a harness `_Simu` subclass holding the
   same 2x2 K, C, M; after every step u, v, a are compared with TLC's exact rationals, the
   three code tables are compared with the derived weights / evaluation-point states, and
   the Newton (incremental) path must reach the same state.
"""
from __future__ import annotations

import contextlib
import io
from fractions import Fraction

import numpy as np

TOL = 1e-10


def fr(q):
    return Fraction(q[0], q[1])


def vec(qv):
    return np.array([float(fr(q)) for q in qv])


def mat(qm):
    return np.array([[float(fr(q)) for q in row] for row in qm])


def _make(K, C, M, newton=False):
    from harness.matsimu import MatSimu, chain_mesh
    from EasyFEA.FEM import ElemType

    mesh = chain_mesh(2, with_points=False)

    def local(simu, g):
        if g.elemType != ElemType.SEG2:
            return (None, None, None, None)
        Ke, Ce, Me = K[None], C[None], M[None]
        if simu.isNonLinear:
            x = simu._Solver_Get_Newton_Raphson_current_solution()
            ut, vt, at = simu._Solver_Evaluate_u_v_a_for_time_scheme(simu.problemType, x)
            r = K @ ut + C @ vt
            if at is not None:
                r = r + M @ at
            Fe = (-r).reshape(1, 2, 1)
            return (Ke, Ce, Me, Fe)
        return (Ke, Ce, Me, None)

    simu = MatSimu(mesh, dof_n=1, local_fn=local)
    if newton:
        simu._Solver_Set_Newton_Raphson_Algorithm(absTol=1e-12, relTol=1e-13, incTol=1e-14, maxIter=5)
    return simu


def _set_algo(simu, p, spelling="member"):
    from EasyFEA.Simulations.Solvers import AlgoType

    dt = float(fr(p["dt"]))
    al, be, ga = float(fr(p["al"])), float(fr(p["be"])), float(fr(p["ga"]))
    if p["algo"] == "parabolic":
        simu.Solver_Set_Parabolic_Algorithm(dt, al)
    else:
        # TimeSchemes.tla, Spelling: the scheme is named by the member of the enumeration or by its name
        simu.Solver_Set_Hyperbolic_Algorithm(dt, algo=(p["algo"] if spelling == "name" else AlgoType(p["algo"])), beta=be, gamma=ga, alpha=al)


def _close(x, y, scale):
    return np.all(np.abs(np.asarray(x) - np.asarray(y)) <= TOL * scale)


class _Collect:
    """Stands in for ctx inside worker processes."""

    def __init__(self):
        self.viol, self.n, self.keys = [], 0, []

    def violation(self, key, what, obj=None):
        self.viol.append((key, what, obj))

    def count(self, n=1, distinct_key=None):
        self.n += n
        if distinct_key is not None:
            self.keys.append(distinct_key)


def _replay_job(job):
    idx, beh = job[0], job[1]
    c = _Collect()
    replay(c, beh, idx, mag=(job[2] if len(job) > 2 else 1.0))
    return {"viol": c.viol, "n": c.n, "keys": c.keys, "traces": 1}


def replay(ctx, beh, idx, newton_too=True, mag=1.0):
    """Replays one behaviour; returns number of steps checked.  mag: the data (states, loads, prescribed values) are scaled
    by this factor and the scaled step is expected (TimeSchemes.tla, Homogeneous)."""
    m0 = beh["steps"][0].get("matv", beh["mat"])
    # the matrices are arrays modified in place when a step comes with other matrices (K, C, M re-assembled between two steps)
    K, C, M = mat(m0["k"]), mat(m0["c"]), mat(m0["m"])
    sims = [("direct", _make(K, C, M))]
    if newton_too and mag == 1.0 and all(s["p"]["algo"] != "euler_explicit" for s in beh["steps"]):
        sims.append(("newton", _make(K, C, M, newton=True)))
    nchecked = 0
    for mode, simu in sims:
        K[...], C[...], M[...] = mat(m0["k"]), mat(m0["c"]), mat(m0["m"])
        pre = beh["steps"][0]["pre"]
        simu.set_state(vec(pre[0]) * mag, vec(pre[1]) * mag, vec(pre[2]) * mag)
        for k, st in enumerate(beh["steps"]):
            p = st["p"]
            key = f"{p['algo']}/{mode}" + ("" if mag == 1.0 else f"/x{mag:g}")
            if "matv" in st:
                Kn, Cn, Mn = mat(st["matv"]["k"]), mat(st["matv"]["c"]), mat(st["matv"]["m"])
                if not (np.array_equal(Kn, K) and np.array_equal(Cn, C) and np.array_equal(Mn, M)):
                    K[...], C[...], M[...] = Kn, Cn, Mn
                    simu.model.Need_Update()  # what a parameter setter does: the simulation is notified and re-assembles
            q = st.get("refused", {"algo": "none"})
            if q["algo"] != "none":
                # TimeSchemes.tla, StepAfterRefusal: a set-call with inadmissible parameters is refused and changes nothing;
                # the step is taken WITHOUT a new set-call and must be a step of the scheme that was in force
                refused = False
                try:
                    _set_algo(simu, q, beh.get("spelling", "member"))
                except AssertionError:
                    refused = True
                if refused:
                    ctx.count(1, distinct_key=("refused", q["algo"], p["algo"], mode))
                else:
                    _set_algo(simu, p, beh.get("spelling", "member"))  # the library takes q for admissible: nothing to judge, scheme restored
            else:
                _set_algo(simu, p, beh.get("spelling", "member"))
            simu.Bc_Init()
            F = vec(st["F"]) * mag
            if np.any(F != 0):
                simu.add_neumann(np.array([0]), [F[0]], ["x"])
                simu.add_neumann(np.array([1]), [F[1]], ["x"])
            if st["cons"]:
                simu.add_dirichlet(np.array([1]), [float(fr(st["g"])) * mag], ["x"])
            exp_u, exp_v, exp_a = vec(st["post"][0]) * mag, vec(st["post"][1]) * mag, vec(st["post"][2]) * mag
            scale = mag * max(1.0, np.abs(np.concatenate([vec(st["post"][0]), vec(st["post"][1]), vec(st["post"][2]), vec(pre[0]), vec(pre[1]), vec(pre[2])])).max())
            # the three code tables against the derived quantities
            if mode == "direct":
                cK, cC, cM = simu._Solver_Get_K_C_M_coefs_for_time_scheme()
                ck = [float(fr(q)) for q in st["coefs"]]
                if not _close([cK, cC, cM], ck, max(1.0, max(abs(c) for c in ck))):
                    ctx.violation(f"coefs/{p['algo']}", f"system-matrix weights {(cK, cC, cM)} != derivatives of evaluation-point states {ck} for {p}", {"behaviour": beh, "step": k})
                xs = vec(st["x"]) * mag
                if p["algo"] != "euler_explicit":
                    ut, vt, at = simu._Solver_Evaluate_u_v_a_for_time_scheme(simu.problemType, xs.copy())
                    ev = st["evalv"]
                    ok = _close(ut, vec(ev[0]) * mag, scale) and _close(vt, vec(ev[1]) * mag, scale) and (at is None or _close(at, vec(ev[2]) * mag, scale))
                    if not ok:
                        ctx.violation(f"evalpoint/{p['algo']}", f"evaluation-point states differ from documented definition for {p}: got {(ut, vt, at)} expected {[vec(e) for e in ev]}", {"behaviour": beh, "step": k})
            with contextlib.redirect_stdout(io.StringIO()):
                simu.Solve()
            got = (simu.u, simu.v, simu.a)
            ok = _close(got[0], exp_u, scale) and _close(got[1], exp_v, scale) and _close(got[2], exp_a, scale)
            if not ok:
                ctx.violation(
                    f"step/{key}",
                    f"after step {k + 1} ({p['algo']}, dt={fr(p['dt'])}, al={fr(p['al'])}, be={fr(p['be'])}, ga={fr(p['ga'])}, cons={st['cons']}) "
                    f"u,v,a = {got[0]}, {got[1]}, {got[2]} but the documented scheme gives {exp_u}, {exp_v}, {exp_a}",
                    {"behaviour": beh, "step": k, "mode": mode},
                )
                break
            # energy claim observed through the implementation's own Calc_Energy
            if mode == "direct" and mag == 1.0 and not st["cons"] and np.all(F == 0) and np.all(C == 0):
                Ks, _, Ms, _ = simu.Get_K_C_M_F()
                dofs = np.arange(2)
                E1 = simu.Calc_Energy(Ks, got[0], dofs) + simu.Calc_Energy(Ms, got[1], dofs)
                u0, v0, a0 = vec(st["pre"][0]), vec(st["pre"][1]), vec(st["pre"][2])
                E0 = simu.Calc_Energy(Ks, u0, dofs) + simu.Calc_Energy(Ms, v0, dofs)
                equil = np.allclose(K @ u0 + M @ a0, 0, atol=1e-12)
                avg = p["algo"] == "newmark" and fr(p["be"]) == Fraction(1, 4) and fr(p["ga"]) == Fraction(1, 2)
                if p["algo"] == "midpoint" or (avg and equil):
                    if abs(E1 - E0) > 1e-10 * max(1.0, abs(E0)):
                        ctx.violation(f"energy/{p['algo']}", f"energy not conserved: {E0} -> {E1} for {p}", {"behaviour": beh, "step": k})
                if p["algo"] == "euler_implicit" and E1 > E0 + 1e-10 * max(1.0, abs(E0)):
                    ctx.violation(f"energy/{p['algo']}", f"backward Euler increased the energy: {E0} -> {E1}", {"behaviour": beh, "step": k})
            pre = st["post"]
            nchecked += 1
            ctx.count(1, distinct_key=(p["algo"], p["dt"][0], p["dt"][1], tuple(p["al"]), tuple(p["be"]), tuple(p["ga"]), st["cons"], mode, idx % 8, mag))
    return nchecked


def run(ctx):
    cfgs = []
    if ctx.thorough:
        cfgs = ["MC_TimeSchemes_onestep_thorough.cfg", "MC_TimeSchemes_free.cfg", "MC_TimeSchemes_switch_thorough.cfg", "MC_TimeSchemes_matchange.cfg", "MC_TimeSchemes_refuse.cfg"]
    else:
        cfgs = ["MC_TimeSchemes_onestep_quick.cfg", "MC_TimeSchemes_free.cfg", "MC_TimeSchemes_switch_quick.cfg", "MC_TimeSchemes_matchange.cfg", "MC_TimeSchemes_refuse.cfg"]
    if ctx.replay:
        import json

        case = json.load(open(ctx.replay))["case"]
        if "kind" in case:
            from harness.props import c05_real

            c05_real.run(ctx, case)
            return
        replay(ctx, case["behaviour"], 0)
        return
    behs = []
    for cfg in cfgs:
        res = ctx.tlc_must_hold("MC_TimeSchemes", cfg, what="time-scheme invariants (Motion, UpdateRel, Conserve, Dissipate, Family)", timeout=3000)
        b = res.prints.get("BEH", [])
        if cfg == "MC_TimeSchemes_refuse.cfg":
            # the behaviours without a refused call are those of the switch configuration
            b = [x for x in b if any(st.get("refused", {"algo": "none"})["algo"] != "none" for st in x["steps"])]
            if not b:
                from harness.core import MachineryError

                raise MachineryError("MC_TimeSchemes_refuse.cfg produced no behaviour with a refused call")
        ctx.section(cfg, behaviours=len(b))
        behs += b
    # negative self-test: a wrong documented weight must be rejected by TLC's invariants
    ctx.tlc_must_fail("MC_TimeSchemes", "MC_TimeSchemes_neg.cfg")
    # the design in which a refused set-call has already switched the scheme must be rejected
    ctx.tlc_must_fail("MC_TimeSchemes", "MC_TimeSchemes_neg_refuse.cfg", expect="RefusedKeeps")
    jobs = [(i, b) for i, b in enumerate(behs)]
    # Homogeneous: a sample of the behaviours again with the data scaled by powers of ten (tiny and large states)
    step = 1 if ctx.thorough else 5
    mags = (1e-18, 1e-7, 1e9)
    scaled = [(i, b, mags[(i // step) % len(mags)]) for i, b in enumerate(behs) if i % step == ctx.seed % step]
    ctx.pmap(_replay_job, jobs + scaled)
    ctx.section("scaled_replay", behaviours=len(scaled), factors=list(mags))
    nsteps = ctx.cov["evaluations"]
    for i, beh in enumerate(behs):
        if i in (0, len(behs) // 2, len(behs) - 1):
            ctx.sample({"behaviour": {"cons": beh["cons"], "steps": [{"p": s["p"], "F": s["F"], "g": s["g"], "pre": s["pre"], "post": s["post"]} for s in beh["steps"]]}})
    ctx.cov["rule"] = (
        "behaviours enumerated exhaustively by TLC over the parameter lattice (algorithm x dt x alpha/beta/gamma/theta x (K,C,M) x affine basis of "
        "states x loads x constrained/free) and over switching histories; each step replayed through Solve() in direct and Newton mode; "
        "distinct = distinct (algorithm, parameters, constrained, mode, state-class)"
    )
    ctx.section("replay", steps_checked=nsteps, tolerance=TOL)
    # the weight tables of the specification applied to real simulations (Elastic, Thermal, Beam) of any size
    from harness.props import c05_real

    c05_real.run(ctx)
    ctx.assume("float comparison with exact rationals at 1e-10 * scale; the harness _Simu subclass supplies K, C, M (2x2) so element integration is out of scope here")
    ctx.assume("one step is an affine map of (u,v,a) and a rational function of (dt, alpha, beta, gamma): agreement on an affine basis of states and on > degree lattice points per parameter extends to all inputs")
