"""Replay of spec/Connections.tla (C04, multi-point constraints): two beam members with their own end nodes, joined by the
connection of the state.  Both far ends are clamped (no mechanism whatever the connection), the joint is loaded by a generic
force and moment, the structure is solved.  What C04 states is checked on the solution:
  * tied unknowns have equal values at the two joint nodes (the constraint holds exactly);
  * on an unknown the connection leaves free no multiplier acts: each of the two dofs satisfies its own assembled equation
    (K u - F = 0 there), i.e. the returned solution solves the stated system - a hinge that transmits a moment does not."""
from __future__ import annotations

import contextlib
import io

import numpy as np

NAMES = {1: ["x"], 2: ["x", "y", "rz"], 3: ["x", "y", "z", "rx", "ry", "rz"]}


def run_case(job):
    idx, case = job
    from EasyFEA import Mesher, ElemType, Models, Simulations
    from EasyFEA.Geoms import Domain, Point, Line

    dim, kind = case["dim"], case["kind"]
    viol = []
    for timo in (False, True):
        for elem in ("SEG2", "SEG3"):
            key = f"{kind}/{dim}D/{'+'.join(case['arg']) or 'default'}/{'Timo' if timo else 'EB'}/{elem}"
            try:
                t = {1: np.array([1.0, 0, 0]), 2: np.array([0.6, 0.8, 0]), 3: np.array([2 / 3, 2 / 3, 1 / 3])}[dim]
                with contextlib.redirect_stdout(io.StringIO()):
                    beams = []
                    for a, b in ((0.0, 1.5), (1.5, 3.0)):
                        sec = Mesher().Mesh_2D(Domain(Point(-0.25, -0.125), Point(0.25, 0.125)))
                        beams.append(Models.Beam.Isotropic(dim, Line(Point(*(a * t)), Point(*(b * t)), 0.75), sec, 10.0, 0.25))
                    mesh = Mesher().Mesh_Beams(beams, elemType=ElemType(elem))
                    sim = Simulations.Beam(mesh, Models.Beam.BeamStructure(beams), verbosity=False, useTimoshenko=timo)
                    X = sim.mesh.coord
                    s = X @ t
                    joint = np.where(np.abs(s - 1.5) < 1e-9)[0]
                    ends = np.where((np.abs(s) < 1e-9) | (np.abs(s - 3.0) < 1e-9))[0]
                    if joint.size != 2 or ends.size != 2:
                        raise RuntimeError(f"unexpected structure: {joint.size} joint nodes, {ends.size} end nodes")
                    unk = NAMES[dim]
                    sim.add_dirichlet(ends, [0.0] * len(unk), unk)
                    if kind == "fixed":
                        sim.add_connection_fixed(joint)
                    elif case["arg"]:
                        sim.add_connection_hinged(joint, list(case["arg"]))
                    else:
                        sim.add_connection_hinged(joint)
                    load = [0.3, -0.7, 0.5, 0.2, -0.4, 0.6][: len(unk)] if dim == 3 else [0.3, -0.7, 0.4][: len(unk)]
                    sim.add_neumann(joint[:1], load, unk)
                    u = np.array(sim.Solve(), dtype=float)
                    n = sim.mesh.Nn * len(unk)
                    K = sim.Get_K_C_M_F()[0].tocsr()[:n, :n]
                    F = np.asarray(sim.Bc_vector_Neumann()).ravel()[:n] if hasattr(sim, "Bc_vector_Neumann") else None
            except Exception as ex:
                viol.append((f"connection/raises/{key}", f"{key}: {type(ex).__name__}: {ex}", {"case": case}))
                continue
            if not np.all(np.isfinite(u)) or np.abs(u).max() > 1e12:
                viol.append((f"connection/singular/{key}", f"{key}: the structure clamped at both ends is reported singular", {"case": case}))
                continue
            U = u.reshape(-1, len(unk))
            r = (K @ u[:n] - F).reshape(-1, len(unk))
            scale = max(np.abs(K @ u[:n]).max(), np.abs(F).max(), 1e-30)
            for k_, name in enumerate(unk):
                if name in case["tied"]:
                    if abs(U[joint[0], k_] - U[joint[1], k_]) > 1e-9 * max(np.abs(U).max(), 1e-30):
                        viol.append((f"connection/tied/{key}", f"{key}: unknown {name} is tied by the connection but differs across the joint ({U[joint[0], k_]!r} vs {U[joint[1], k_]!r})", {"case": case}))
                else:
                    res = np.abs(r[joint, k_]).max()
                    if res > 1e-8 * scale:
                        viol.append((f"connection/free/{key}", f"{key}: unknown {name} is left free by the connection, yet its two dofs do not satisfy their assembled equations (|K u - F| = {res:.3g}, scale {scale:.3g}): a moment / force is transmitted through the joint", {"case": case}))
    return {"viol": viol, "n": 4, "keys": [("connection", kind, dim, tuple(case["arg"]))], "traces": 1}


def connections(ctx):
    res = ctx.tlc_must_hold("Connections", "Connections.cfg", what="Sound (tied and free unknowns partition the node's unknowns, forces always transmitted)", workers=2)
    ctx.tlc_must_fail("Connections", "Connections_neg.cfg", expect="HingeIsWeld")
    cases = sorted(res.prints.get("CONN", []), key=lambda c: (c["kind"], c["dim"], c["arg"]))
    if len(cases) < 10:
        from harness.core import MachineryError

        raise MachineryError(f"Connections.tla emitted {len(cases)} cases")
    ctx.pmap(run_case, list(enumerate(cases)), chunksize=1)
    ctx.section("connections", cases=len(cases), theories=["EB", "Timo"], elements=["SEG2", "SEG3"])
