"""spec/MeshCopy.tla replayed on real meshes (section of C14): every history of Compute / Move / Copy over three mesh slots.
Compute(m) reads the geometry matrices the element groups cache (F, its inverse, dN, B, weighted Jacobian) and the measure
of mesh m and compares them with those of a mesh built afresh from m's current coordinates; Move(m) rotates, mirrors or
re-coordinates m (never a pure translation, which leaves these matrices unchanged); Copy(m, n) is n = m.copy()."""
from __future__ import annotations

import numpy as np


def _fresh(mesh):
    from harness.lifecycle import clone_mesh_with_coords

    return clone_mesh_with_coords(mesh, mesh.coord)


def _read(mesh):
    from EasyFEA.FEM import MatrixType

    out = {}
    for g in mesh.Get_list_groupElem(mesh.dim):
        for mt in (MatrixType.rigi, MatrixType.mass):
            out[(str(g.elemType), str(mt), "F")] = np.asarray(g.Get_F_e_pg(mt))
            out[(str(g.elemType), str(mt), "invF")] = np.asarray(g.Get_invF_e_pg(mt))
            out[(str(g.elemType), str(mt), "dN")] = np.asarray(g.Get_dN_e_pg(mt))
            out[(str(g.elemType), str(mt), "wJ")] = np.asarray(g.Get_weightedJacobian_e_pg(mt))
        out[(str(g.elemType), "rigi", "B")] = np.asarray(g.Get_B_e_pg(MatrixType.rigi))
    out[("mesh", "", "measure")] = np.array([mesh.area if mesh.dim == 2 else mesh.volume])
    return out


def _move(mesh, k):
    k = k % 3
    if k == 0:
        mesh.Rotate(30.0, (0.3, 0.2, 0.0), (0, 0, 1))
    elif k == 1:
        mesh.Symmetry((0.4, 0.0, 0.0), (1, 0.5, 0))
    else:
        X = mesh.coord.copy()
        X[:, 0] = 1.2 * X[:, 0] + 0.15 * X[:, 1] + 0.05 * X[:, 0] * X[:, 1]   # a non-affine re-coordination (still a valid mesh)
        X[:, 1] = 0.9 * X[:, 1] + 0.1
        mesh.coord = X


def job(job_):
    idx, ops, elem = job_
    from EasyFEA import Mesher
    from EasyFEA.FEM import ElemType
    from EasyFEA.Geoms import Domain, Point
    from harness.lifecycle import quiet

    viol, n = [], 0
    with quiet():
        base = Mesher().Mesh_2D(Domain(Point(0, 0), Point(2, 1), 0.5), [], ElemType(elem))
    meshes = {1: base}
    trail = []
    for k, (name, m, nn) in enumerate(ops):
        trail.append(f"{name}({m}{',' + str(nn) if name == 'Copy' else ''})")
        with quiet():
            if name == "Copy":
                meshes[nn] = meshes[m].copy()
            elif name == "Move":
                _move(meshes[m], idx + k)
            else:
                got, exp = _read(meshes[m]), _read(_fresh(meshes[m]))
                n += 1
                for key in exp:
                    sc = max(1.0, np.abs(exp[key]).max())
                    if got[key].shape != exp[key].shape or np.abs(got[key] - exp[key]).max() > 1e-10 * sc:
                        viol.append((f"mesh-copy/{elem}/{key[2]}", f"{elem}: {key[2]} ({key[0]}, {key[1]}) read on mesh {m} after {' -> '.join(trail)} is not the one of a mesh built afresh from its coordinates (max difference {np.abs(got[key] - exp[key]).max() if got[key].shape == exp[key].shape else 'shape'})", {"ops": ops[: k + 1], "elem": elem}))
                        return {"viol": viol, "n": n, "keys": [("mesh-copy", elem, tuple(map(tuple, ops)))], "traces": 1}
    return {"viol": viol, "n": n, "keys": [("mesh-copy", elem, tuple(map(tuple, ops)))], "traces": 1}


def run(ctx):
    res = ctx.tlc_must_hold("MeshCopy", "MeshCopy.cfg", what="ReadCurrent / Independent", workers=8)
    ctx.tlc_must_fail("MeshCopy", "MeshCopy_neg.cfg", expect="ReadCurrent")
    seqs = sorted(o["ops"] for o in res.prints.get("OPS", []))
    # histories in which a copy is made, a mesh is moved afterwards and something is computed after that
    def interesting(ops):
        names = [o[0] for o in ops]
        if "Copy" not in names:
            return False
        i = names.index("Copy")
        return "Move" in names[i:] and names[-1] == "Compute"
    seqs = [s for s in seqs if interesting(s)]
    step = 6 if ctx.thorough else 40
    pick = [s for i, s in enumerate(seqs) if i % step == ctx.seed % step]
    jobs = [(i, s, e) for i, s in enumerate(pick) for e in (("TRI6", "QUAD4") if not ctx.thorough else ("TRI3", "TRI6", "QUAD4", "QUAD8"))]
    ctx.pmap(job, jobs)
    ctx.section("mesh_copy", histories=len(seqs), replayed=len(pick), jobs=len(jobs))
    if not pick:
        from harness.core import MachineryError

        raise MachineryError("MeshCopy.tla: no history selected for the replay")
