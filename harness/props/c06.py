"""C06 -- shape functions and derivative tables.  spec/ShapeTables.tla
Direction B: the coefficient tables of all 19 Lagrange families and the 4 Hermite families are
extracted exactly from the library's own callables (polynomial-ring probe) and TLC decides the
polynomial identities.  Direction A: Get_N_pg / Get_dN_pg / ... (the evaluation of the tables)
are compared with the extracted polynomials evaluated at the Gauss coordinates."""
from __future__ import annotations

import json
import os
from fractions import Fraction

import numpy as np

from harness.polyring import P, read_callable, snap

HERMITE = {"EULER_BERNOULLI2": 1, "EULER_BERNOULLI3": 8, "EULER_BERNOULLI4": 26, "EULER_BERNOULLI5": 27}


def rat(x, max_den=64):
    f = Fraction(float(x)).limit_denominator(max_den)
    assert abs(float(f) - float(x)) < 1e-12, x
    return [f.numerator, f.denominator]


def lagrange_groups():
    from EasyFEA.FEM import ElemType
    from EasyFEA.FEM._group_elem import GroupElemFactory

    out = []
    for et, info in GroupElemFactory.DICT_ELEMTYPE.items():
        gmshId, nPe, dim, order = info[:4]
        if dim == 0:
            continue
        rng = np.random.default_rng(1)
        coords = rng.random((nPe, 3))
        g = GroupElemFactory.Create(et, np.arange(nPe).reshape(1, nPe), coords)
        out.append((str(et), g, dim, order))
    return out


def hermite_groups():
    from EasyFEA.FEM.Elems import _beam

    out = []
    for name, gid in HERMITE.items():
        cls = getattr(_beam, name)
        nPe = {1: 2, 8: 3, 26: 4, 27: 5}[gid]
        coords = np.zeros((nPe, 3))
        coords[:, 0] = np.linspace(0, 1, nPe)
        g = cls(gid, np.arange(nPe).reshape(1, nPe), coords)
        out.append((name, g, 1, nPe - 1))
    return out


def table_of(funcs, dim):
    """funcs: array (n, m) of callables -> [[poly terms per column] per row], noise"""
    rows, noise = [], 0.0
    for i in range(funcs.shape[0]):
        cols = []
        for d in range(funcs.shape[1]):
            terms, nz = snap(read_callable(funcs[i, d], dim))
            noise = max(noise, nz)
            cols.append(terms)
        rows.append(cols)
    return rows, noise


def extract():
    fams, polys = [], {}
    for name, g, dim, order in lagrange_groups():
        nodes = [[rat(c) for c in list(row) + [0] * (3 - dim)] for row in np.asarray(g.Get_Local_Coords(), dtype=float).reshape(g.nPe, dim)]
        N, nz = table_of(g._N(), dim)
        D = []
        for fn in (g._dN, g._ddN, g._dddN, g._ddddN):
            t, n2 = table_of(np.asarray(fn()).reshape(g.nPe, dim), dim)
            nz = max(nz, n2)
            D.append(t)
        fams.append(dict(name=name, kind="lagrange", dim=dim, order=order, nodes=nodes, N=[r[0] for r in N], D=D, noise=nz))
        polys[name] = (g, dim)
    for name, g, dim, order in hermite_groups():
        nodes = [[rat(c) for c in list(np.atleast_1d(row)) + [0, 0]] for row in np.asarray(g.Get_Local_Coords(), dtype=float).reshape(g.nPe, 1)]
        N, nz = table_of(g._Hermitian_N(), 1)
        D = []
        for fn in (g._Hermitian_dN, g._Hermitian_ddN, g._Hermitian_dddN):
            t, n2 = table_of(np.asarray(fn()).reshape(2 * g.nPe, 1), 1)
            nz = max(nz, n2)
            D.append(t)
        fams.append(dict(name=name, kind="hermite", dim=1, order=order, nodes=nodes, N=[r[0] for r in N], D=D, noise=nz))
        polys[name] = (g, 1)
    return fams, polys


def evalpoly(terms, x):
    return sum(float(Fraction(c[0], c[1])) * np.prod([x[k] ** e[k] for k in range(len(x))]) for e, c in terms)


def direction_a(ctx, fams, polys):
    """evaluation of the tables at Gauss points: Get_*_pg vs the extracted polynomials"""
    from EasyFEA.FEM import MatrixType

    for fam in fams:
        g, dim = polys[fam["name"]]
        if fam["kind"] != "lagrange":
            getters = [("N", g.Get_Hermitian_N_pg, None), ("dN", g.Get_Hermitian_dN_pg, 0), ("ddN", g.Get_Hermitian_ddN_pg, 1), ("dddN", g.Get_Hermitian_dddN_pg, 2)]
            mts = [MatrixType.beam]
        else:
            getters = [("N", g.Get_N_pg, None), ("dN", g.Get_dN_pg, 0), ("ddN", g.Get_ddN_pg, 1), ("dddN", g.Get_dddN_pg, 2), ("ddddN", g.Get_ddddN_pg, 3)]
            mts = [MatrixType.rigi, MatrixType.mass]
        for mt in mts:
            try:
                gauss = g.Get_gauss(mt)
            except Exception:
                continue
            pts = np.asarray(gauss.coord, dtype=float).reshape(gauss.nPg, -1)
            for label, getter, di in getters:
                try:
                    arr = getter(mt) if fam["kind"] == "lagrange" else getter()
                except Exception:
                    continue
                if arr is None:
                    continue
                arr = np.asarray(arr)
                nf = len(fam["N"])
                for p in range(pts.shape[0]):
                    for i in range(nf):
                        for d in range(arr.shape[1]):
                            terms = fam["N"][i] if di is None else fam["D"][di][i][d]
                            expv = evalpoly(terms, list(pts[p]) + [0] * (3 - pts.shape[1]))
                            if abs(arr[p, d, i] - expv) > 1e-11 * max(1.0, abs(expv)):
                                ctx.violation(f"eval/{fam['name']}/{label}", f"{label} of {fam['name']} evaluated at Gauss point {p} ({mt}) is {arr[p, d, i]}, the table polynomial gives {expv} (function {i}, direction {d})", {"family": fam["name"], "table": label})
                ctx.count(1, distinct_key=("eval", fam["name"], label, str(mt)))


def direction_a_nodes(ctx, fams, polys):
    """the evaluator behind Get_*_pg and Evaluate_dofsValues_at_coordinates (`_Eval_Functions`) at the reference nodes, given
    exactly as `Get_Local_Coords()` returns them (an integer array for the types whose nodes have integer coordinates), as
    floats, and at one integer-valued point typed int: N(node_j) is the Kronecker delta and every table value equals the
    table polynomial - the value of a table cannot depend on the type the point is written in."""
    for fam in fams:
        if fam["kind"] != "lagrange":
            continue
        g, dim = polys[fam["name"]]
        local = np.asarray(g.Get_Local_Coords())
        tables = [("N", g._N, None), ("dN", g._dN, 0), ("ddN", g._ddN, 1), ("dddN", g._dddN, 2), ("ddddN", g._ddddN, 3)]
        cands = [("nodes as returned", local), ("nodes as float", local.astype(float))]
        ip = np.rint(local.astype(float).mean(0))
        if np.allclose(ip, local.astype(float).mean(0)) or local.dtype.kind in "iu":
            cands.append(("integer point typed int", ip.astype(int).reshape(1, -1)))
        for what, pts in cands:
            for label, tab, di in tables:
                try:
                    t = tab()
                except Exception:
                    continue
                if t is None or np.size(t) == 0:
                    continue
                arr = np.asarray(g._Eval_Functions(t, pts))
                nf = len(fam["N"])
                for p in range(pts.shape[0]):
                    x = [float(v) for v in pts[p]] + [0.0] * (3 - pts.shape[1])
                    for i in range(nf):
                        for d in range(arr.shape[1]):
                            terms = fam["N"][i] if di is None else fam["D"][di][i][d]
                            expv = evalpoly(terms, x)
                            if abs(arr[p, d, i] - expv) > 1e-11 * max(1.0, abs(expv)):
                                ctx.violation(f"eval-nodes/{fam['name']}/{label}", f"{label} of {fam['name']} evaluated at the point {list(pts[p])} ({what}, dtype {pts.dtype}) is {arr[p, d, i]}, the table polynomial gives {expv} (function {i}, direction {d})", {"family": fam["name"], "table": label, "points": what})
                if label == "N" and pts.shape[0] == nf and what != "integer point typed int":
                    if np.abs(arr[:, 0, :] - np.eye(nf)).max() > 1e-11:
                        ctx.violation(f"kronecker-eval/{fam['name']}", f"N_i(node_j) of {fam['name']} evaluated at Get_Local_Coords() ({what}) is not the identity", {"family": fam["name"]})
                ctx.count(1, distinct_key=("eval-nodes", fam["name"], label, what))


def run(ctx):
    fams, polys = extract()
    path = os.path.join(ctx.scratch, "shape_tables.json")
    with open(path, "w") as f:
        json.dump(fams, f)
    res = ctx.tlc("ShapeTables", "ShapeTables.cfg", workers=8, env={"SHAPE_TABLES": path}, timeout=3000)
    if not res.ok:
        from harness.core import MachineryError

        raise MachineryError(f"ShapeTables: {res.violated} {res.counterexample[:1500]}")
    verdicts = res.prints.get("VERDICT", [])
    seen = {v["name"] for v in verdicts}
    missing = [f["name"] for f in fams if f["name"] not in seen]
    if missing:
        from harness.core import MachineryError

        raise MachineryError(f"TLC produced no verdict for {missing}")
    nob = 0
    byname = {f["name"]: f for f in fams}
    for v in verdicts:
        for pred, label in (("kron", "N_i(node_j) = delta_ij"), ("pu", "sum N_i = 1"), ("repro", "reproduction of monomials up to the order"), ("deriv", "derivative table = derivative of N"), ("herm", "Hermite value/slope pattern")):
            nob += 1
            ctx.traces(1)
            ctx.count(1, distinct_key=(v["name"], pred))
            if v[pred]:
                ctx.violation(f"{pred}/{v['name']}", f"{v['name']}: {label} fails for {v[pred][:6]} (indices: derivative order, function, direction / function, node / exponent)", {"family": v["name"], "predicate": pred, "failing": v[pred], "table": byname[v['name']]})
    direction_a(ctx, fams, polys)
    direction_a_nodes(ctx, fams, polys)
    # the numerical reading of a callable (used when a table is written with array functions the polynomial ring cannot run)
    # must agree with the exact reading: compared on one function and one derivative entry of every Lagrange family
    from harness.polyring import fit_callable

    nfit = 0
    for fam in fams:
        if fam["kind"] != "lagrange":
            continue
        g, dim = polys[fam["name"]]
        for label, fn, terms in (("N", g._N()[-1, 0], fam["N"][-1]), ("dN", np.asarray(g._dN()).reshape(g.nPe, dim)[-1, 0], fam["D"][0][-1][0])):
            got, _ = snap(fit_callable(fn, dim))
            a = {tuple(e): Fraction(c[0], c[1]) for e, c in got}
            b = {tuple(e): Fraction(c[0], c[1]) for e, c in terms}
            if any(abs(float(a.get(k, 0) - b.get(k, 0))) > 1e-9 for k in set(a) | set(b)):
                from harness.core import MachineryError

                raise MachineryError(f"numerical reading of {label} of {fam['name']} disagrees with the exact one: {got} / {terms}")
            nfit += 1
    ctx.section("numerical_reading_selftest", callables=nfit)
    # binding self-test (thorough): corrupt one coefficient and drop one term -> TLC must reject
    if ctx.thorough:
        import copy

        bad = copy.deepcopy(fams[:3])
        bad[0]["D"][0][0][0][0][1] = [bad[0]["D"][0][0][0][0][1][0] * 2, bad[0]["D"][0][0][0][0][1][1]]
        bad[1]["N"][0] = bad[1]["N"][0][1:]
        p2 = os.path.join(ctx.scratch, "shape_bad.json")
        json.dump(bad, open(p2, "w"))
        r2 = ctx.tlc("ShapeTables", "ShapeTables.cfg", workers=2, env={"SHAPE_TABLES": p2})
        vs = {v["name"]: v for v in r2.prints.get("VERDICT", [])}
        ok = bool(vs[bad[0]["name"]]["deriv"]) and bool(vs[bad[1]["name"]]["kron"] or vs[bad[1]["name"]]["pu"])
        ctx.section("binding_selftest", corrupted_coefficient_and_dropped_term_rejected=ok)
        if not ok:
            from harness.core import MachineryError

            raise MachineryError("binding self-test: corrupted tables were accepted")
    ctx.section("tables", families=len(fams), literal_noise={f["name"]: f["noise"] for f in fams if f["noise"] > 0}, obligations=nob)
    ctx.sample({"family": fams[1]["name"], "N[0]": fams[1]["N"][0], "dN[0][0]": fams[1]["D"][0][0][0]})
    ctx.cov["exhaustive"] = True
    ctx.cov["rule"] = "every (family, predicate) pair decided by TLC on exact coefficient vectors (identities between polynomials: all points of the reference element); plus evaluation of the tables at all Gauss points"
    ctx.assume("coefficients are snapped to rationals with denominator <= 1e6 within 1e-11 after exact evaluation (decimal literals carry round-off)")
