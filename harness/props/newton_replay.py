"""Replay of spec/Newton.tla (C04, Newton-incremental solves): every terminal state of the driver model is run through the
real `_Simu.Solve()` of a `_Simu` subclass with one free dof, a spring of stiffness a whose equilibrium is u*, and the inexact
tangent a / (1 - q).  All numbers are dyadic, so the float iterates are exact and never sit on a tolerance.

Verdicts are limited to what C04 states - a solve that returns solves the system to the accuracy its criteria promise, and a
solve whose iterates meet a criterion within maxIter returns -; the number of iterations and the recorded norms are compared
too, but a mismatch there is a note in the evidence (`driver_conformance`), not a violation."""
from __future__ import annotations

import contextlib
import io
from fractions import Fraction

import numpy as np

USTAR = 0.625


def fr(q):
    return Fraction(q[0], q[1])


def run_case(job):
    idx, case = job
    from harness.matsimu import MatSimu, mesh_from_groups
    from EasyFEA.FEM import ElemType

    p = case["prm"]
    a, q, e0 = float(fr(p["a"])), float(fr(p["q"])), float(fr(p["e0"]))
    tols = dict(absTol=float(fr(p["abs"])), relTol=float(fr(p["rel"])), incTol=float(fr(p["inc"])), maxIter=int(p["maxIter"]))
    kt = a / (1.0 - q)
    B = np.array([[1.0, -1.0], [-1.0, 1.0]])
    calls = {"n": 0}

    def local(simu, g):
        calls["n"] += 1
        u = simu._Solver_Get_Newton_Raphson_current_solution() if simu.isNonLinear else simu.u
        asm = g.Get_assembly_e(1)
        Fe = -a * np.einsum("ij,ej->ei", B, u[asm])[:, :, None]
        return ((kt * B)[None], None, None, Fe)

    mesh = mesh_from_groups(np.array([[0.0, 0.0], [1.0, 0.0]]), {ElemType.SEG2: [[0, 1]]})
    sim = MatSimu(mesh, dof_n=1, local_fn=local)
    sim._Solver_Set_Newton_Raphson_Algorithm(**tols)
    sim.add_dirichlet(np.array([0]), [0.0], ["x"])
    sim.add_neumann(np.array([1]), [a * USTAR], ["x"])
    sim.set_state(np.array([0.0, USTAR + e0]))
    before = np.array(sim.u, dtype=float).copy()
    calls["n"] = 0
    status, err_txt = "converged", ""
    try:
        with contextlib.redirect_stdout(io.StringIO()), np.errstate(all="ignore"):
            u = np.array(sim.Solve(), dtype=float)
    except AssertionError as ex:
        status, err_txt, u = "failed", str(ex), np.array(sim.u, dtype=float)
    viol, notes = [], []
    key = f"a={fr(p['a'])},q={fr(p['q'])},e0={fr(p['e0'])},abs={fr(p['abs'])},rel={fr(p['rel'])},inc={fr(p['inc'])},maxIter={p['maxIter']}"
    n1 = a * abs(e0)
    bounds = {"abs": tols["absTol"], "rel": tols["relTol"] * n1, "inc": a * tols["incTol"] / (1.0 - q)}
    res = a * abs(u[1] - USTAR)
    rec = {"case": case}
    if case["status"] == "converged" and status == "failed":
        viol.append(("newton/false-failure", f"Newton solve raises '{err_txt[:80]}' although iteration {case['iters']} meets the criterion {case['fired']} ({key})", rec))
    elif status == "converged":
        if abs(u[0]) > 0:
            viol.append(("newton/constraint", f"the prescribed dof is {u[0]} after a Newton solve ({key})", rec))
        if not (res == 0.0 or any(res < b for b in bounds.values())):
            viol.append(("newton/residual", f"Newton solve returns u = {u[1]!r} whose residual {res:.3g} is below none of the bounds its criteria promise {bounds} ({key}); the specification says {case['status']}", rec))
        elif case["status"] == "failed":
            notes.append("returned although the model fails (within the promised bounds)")
    if case["status"] == status == "converged":
        exp_u = USTAR + float(fr(case["err"]))
        if getattr(sim, "_Simu__newtonIter", case["iters"]) != case["iters"] or u[1] != exp_u:
            notes.append(f"iterations {getattr(sim, '_Simu__newtonIter', None)} vs {case['iters']}, u {u[1]!r} vs {exp_u!r}")
        norms = getattr(sim, "_Simu__list_norm_r", None)
        if norms is not None and [float(x) for x in norms] != [float(fr(x)) for x in case["norms"]]:
            notes.append("recorded residual norms differ from the model's")
        if calls["n"] != case["iters"]:
            notes.append(f"{calls['n']} assemblies for {case['iters']} iterations")
    if status == "failed" and case["status"] == "failed" and not np.array_equal(np.array(sim.u, dtype=float), before):
        notes.append("state-after-failure: the stored solution changed although the solve raised")
    return {"viol": viol, "n": 1, "keys": [("newton", key)], "traces": 1, "notes": notes, "agree": not notes}


def newton_driver(ctx):
    res = ctx.tlc_must_hold("MC_Newton", "MC_Newton.cfg", what="ReturnedResidual / FirstHit / NoFalseFailure", workers=4)
    ctx.tlc_must_fail("MC_Newton", "MC_Newton_neg.cfg", expect="TestAfterUpdate")
    runs = sorted(res.prints.get("RUN", []), key=lambda r: sorted((k, str(v)) for k, v in r["prm"].items()))
    if not runs:
        from harness.core import MachineryError

        raise MachineryError("Newton.tla emitted no terminal state")
    outs = ctx.pmap(run_case, list(enumerate(runs)), chunksize=16)
    notes = {}
    for o in outs:
        for n_ in (o or {}).get("notes", []):
            k = n_.split(":")[0][:60]
            notes[k] = notes.get(k, 0) + 1
    ctx.section("newton_driver", terminal_states=len(runs), converged=sum(1 for r in runs if r["status"] == "converged"), failed=sum(1 for r in runs if r["status"] == "failed"),
                driver_conformance=dict(identical_iterations_values_norms_assemblies=sum(1 for o in outs if o and o.get("agree")), notes=notes))
