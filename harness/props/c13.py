"""C13 -- user weak forms.  spec/Forms.tla enumerates the forms of a grammar over grad u / grad v
(transpose, symmetric part, trace, double contraction, weights, sums, position-dependent
coefficient) and computes their meaning as an exact coefficient tensor.  Each TLC state is
compiled to a Python lambda over Field / FeArray operations; BiLinearForm.Integrate_e and
.Assemble are compared with explicit loops over the tensor, the built-in operators with the
forms that coincide with them, LinearForm with its definition, and Simulations.WeakForms with
the dedicated Thermal / Elastic simulations."""
from __future__ import annotations

from fractions import Fraction as Fr

import numpy as np

from harness.lifecycle import quiet, _grid_mesh

_MESH = {}


def f2(q):
    return float(Fr(q[0], q[1]))


def mesh_for(dim, elem):
    from EasyFEA import Mesher, ElemType
    from EasyFEA.Geoms import Domain, Point

    if (dim, elem) not in _MESH:
        with quiet():
            org = not elem.startswith(("TRI", "TETRA"))  # recombined unstructured meshes may mix element types
            if dim == 2:
                _MESH[(dim, elem)] = Mesher().Mesh_2D(Domain(Point(0, 0), Point(2, 1), 0.9), [], ElemType(elem), isOrganised=org)
            else:
                _MESH[(dim, elem)] = Mesher().Mesh_Extrude(Domain(Point(0, 0), Point(2, 1), 1.1), [], [0, 0, 1], [1], ElemType(elem), isOrganised=org)
    return _MESH[(dim, elem)]


def compile_expr(e, d, mat=None):
    from EasyFEA.FEM._linalg import Trace

    I = np.eye(d)
    # the specification's matrices are read in the library's layout (row = derivative index, column = component: grad[i][a] = d_i u_a,
    # see reference()), so its product M E is the constant matrix M on the left of the field expression
    Mm = None if mat is None else np.array([[f2(q) for q in row] for row in mat])

    def fn(g):
        x = g
        for op in reversed(e[:-1]):
            if op == "T":
                x = x.T
            elif op == "Sym":
                x = 0.5 * (x + x.T)
            elif op == "TrI":
                x = Trace(x) * I
            elif op == "M":
                x = Mm @ x
        return x

    return fn


def compile_form(form, d, coef, mat=None, kscale=1.0):
    terms = [(f2(t["k"]) * kscale, compile_expr(t["eu"], d, mat), compile_expr(t["ev"], d, mat)) for t in form]

    def f(u, v):
        gu, gv = u.grad, v.grad
        s = None
        for k, eu, ev in terms:
            t = k * eu(gu).ddot(ev(gv))
            s = t if s is None else s + t
        if coef == "x":
            x, _, _ = u.Get_coords()
            s = (1.0 + x) * s
        return s

    return f


def reference(g, d, tensor, coef, matrixType):
    """K[(n,b),(m,a)] = sum_p wJ c T[a,i,b,j] dN_m,i dN_n,j : row = test function n / component b, column = trial function m /
    component a (K u = F is the discrete a(u, v) = l(v)); library gradient layout: grad[i][a] = d_i u_a  ->  coefficient = tensor[i][a][j][b]"""
    dN = np.asarray(g.Get_dN_e_pg(matrixType))  # (Ne, nPg, dim, nPe)
    wJ = np.asarray(g.Get_weightedJacobian_e_pg(matrixType))
    T = np.array([[[[f2(tensor[i][a][j][b]) for j in range(d)] for b in range(d)] for i in range(d)] for a in range(d)])  # [a][i][b][j]
    c = np.ones_like(wJ)
    if coef == "x":
        c = 1.0 + np.asarray(g.Get_GaussCoordinates_e_pg(matrixType))[..., 0]
    K = np.einsum("ep,ep,aibj,epim,epjn->enbma", wJ, c, T, dN, dN, optimize=True)
    Ne, nPe = K.shape[0], K.shape[1]
    return K.reshape(Ne, nPe * d, nPe * d)


def run_form(job):
    idx, fm, elem = job
    from EasyFEA.FEM import Field, BiLinearForm, MatrixType

    d = fm["dim"]
    viol = []
    desc = " + ".join(f"{f2(t['k'])}*{'.'.join(t['eu'])}:{'.'.join(t['ev'])}" for t in fm["form"]) + (" * (1+x)" if fm["coef"] == "x" else "")
    key = f"{d}D/{elem}/" + "+".join(f"{'.'.join(t['eu'])}:{'.'.join(t['ev'])}" for t in fm["form"]) + f"/{fm['coef']}"
    try:
        mesh = mesh_for(d, elem)
        g = mesh.groupElem
        field = Field(g, d, MatrixType.rigi)
        form = BiLinearForm(compile_form(fm["form"], d, fm["coef"], fm.get("mat")))
        with quiet():
            K1 = np.asarray(form.Integrate_e(field))
        Kref = reference(g, d, fm["tensor"], fm["coef"], MatrixType.rigi)
        sc = max(np.abs(Kref).max(), 1e-12)
        if K1.shape != Kref.shape or np.abs(K1 - Kref).max() > 1e-10 * sc:
            viol.append((f"integrate/{key}", f"form {desc} on {elem}: Integrate_e differs from the sum over the coefficient tensor (max relative {np.abs(K1 - Kref).max() / sc if K1.shape == Kref.shape else 'shape'})", {"form": fm, "elem": elem}))
        # second integration with the same Field object (state must not leak between calls)
        with quiet():
            K2 = np.asarray(form.Integrate_e(field))
        if np.abs(K2 - K1).max() > 1e-12 * sc:
            viol.append((f"integrate-twice/{key}", f"form {desc} on {elem}: a second Integrate_e with the same Field gives a different result", {"form": fm, "elem": elem}))
        if idx % 2 == 0:
            # Forms.tla, Homogeneous: the same form with its weights multiplied by 1e-9 gives the element arrays multiplied by 1e-9
            KS = 1e-9
            form_s = BiLinearForm(compile_form(fm["form"], d, fm["coef"], fm.get("mat"), kscale=KS))
            with quiet():
                Ks = np.asarray(form_s.Integrate_e(Field(g, d, MatrixType.rigi)))
                As = form_s.Assemble(Field(g, d, MatrixType.rigi)).toarray()
            if Ks.shape != Kref.shape or np.abs(Ks - KS * Kref).max() > 1e-10 * KS * sc:
                viol.append((f"integrate-small/{key}", f"form {desc} on {elem} with its weights multiplied by {KS:g}: Integrate_e differs from {KS:g} x the sum over the coefficient tensor (max relative {np.abs(Ks - KS * Kref).max() / (KS * sc) if Ks.shape == Kref.shape else 'shape'})", {"form": fm, "elem": elem}))
            rows_s = g.Get_assembly_e(d)
            Aref_s = np.zeros_like(As)
            for e in range(g.Ne):
                Aref_s[np.ix_(rows_s[e], rows_s[e])] += KS * Kref[e]
            if np.abs(As - Aref_s).max() > 1e-10 * max(np.abs(Aref_s).max(), 1e-300):
                viol.append((f"assemble-small/{key}", f"form {desc} on {elem} with its weights multiplied by {KS:g}: Assemble is not the scatter-add of the element arrays", {"form": fm, "elem": elem}))
        if idx % 3 == 0:
            # the same Field on a mesh that is then modified in place: the element arrays follow the new geometry
            m2 = mesh.copy()
            g2 = m2.groupElem
            field2 = Field(g2, d, MatrixType.rigi)
            with quiet():
                form.Integrate_e(field2)
                c = m2.coord.copy()
                c[:, :d] = c[:, :d] * np.array([1.25, 0.8, 1.1][:d]) + 0.05 * c[:, [1, 0, 2][:d]]
                m2.coord = c
                m2.Rotate(30.0, (0.1, 0.2, 0.0), (0, 0, 1))
                K3 = np.asarray(form.Integrate_e(field2))
            Kref3 = reference(m2.groupElem, d, fm["tensor"], fm["coef"], MatrixType.rigi)
            sc3 = max(np.abs(Kref3).max(), 1e-12)
            if np.abs(K3 - Kref3).max() > 1e-10 * sc3:
                viol.append((f"integrate-moved/{key}", f"form {desc} on {elem}: Integrate_e with the same Field after the mesh was stretched and rotated in place differs from the sum over the coefficient tensor on the new geometry (max relative {np.abs(K3 - Kref3).max() / sc3:.3g})", {"form": fm, "elem": elem}))
        with quiet():
            A = form.Assemble(field).toarray()
        rows = g.Get_assembly_e(d)
        Aref = np.zeros_like(A)
        for e in range(g.Ne):
            Aref[np.ix_(rows[e], rows[e])] += Kref[e]
        if np.abs(A - Aref).max() > 1e-10 * max(np.abs(Aref).max(), 1e-12):
            viol.append((f"assemble/{key}", f"form {desc} on {elem}: Assemble is not the scatter-add of the element arrays", {"form": fm, "elem": elem}))
    except Exception as ex:
        import traceback

        viol.append((f"raises/{key}", f"form {desc} on {elem}: {type(ex).__name__}: {ex} | {traceback.format_exc()[-300:]}", {"form": fm, "elem": elem}))
    return {"viol": viol, "n": 1, "keys": [(d, elem, key)], "traces": 1}


def advection_forms(ctx):
    """forms that involve the VALUE of the trial field (outside the gradient grammar): a(u, v) = (b . grad u) v + k grad u . grad v.
    The element matrix has the test function on its rows: K[n, m] = int N_n (b . grad N_m) + k grad N_n . grad N_m; linear forms
    on vector fields: F[(n, c)] = int N_n f_c."""
    from EasyFEA.FEM import Field, BiLinearForm, LinearForm, MatrixType

    for dim, elem in ((2, "TRI3"), (2, "QUAD4"), (2, "TRI6"), (3, "TETRA4")):
        try:
            mesh = mesh_for(dim, elem)
            g = mesh.groupElem
            b = np.array([1.5, -0.5, 0.75])[:dim]
            mt = MatrixType.mass
            fu = Field(g, 1, mt)
            K = np.asarray(BiLinearForm(lambda u, v: (u.grad.dot(b)) * v + 0.5 * u.grad.dot(v.grad)).Integrate_e(fu))
            N = np.asarray(g.Get_N_pg(mt))[:, 0, :]
            dN = np.asarray(g.Get_dN_e_pg(mt))
            wJ = np.asarray(g.Get_weightedJacobian_e_pg(mt))
            Kref = np.einsum("ep,pn,i,epim->enm", wJ, N, b, dN) + 0.5 * np.einsum("ep,epin,epim->enm", wJ, dN, dN)
            sc = np.abs(Kref).max()
            if K.shape != Kref.shape or np.abs(K - Kref).max() > 1e-10 * sc:
                tr = K.shape == Kref.shape and np.abs(K - np.swapaxes(Kref, 1, 2)).max() <= 1e-10 * sc
                ctx.violation(f"advection/{elem}", f"(b . grad u) v + k grad u . grad v on {elem}: the element matrix differs from K[n, m] = int N_n (b . grad N_m) + ... (test function on the rows)" + (" - it is its transpose" if tr else f" (max rel {np.abs(K - Kref).max() / sc if K.shape == Kref.shape else 'shape'})"), {"elem": elem})
            # vector linear form f . v
            fv = Field(g, dim, mt)
            f = np.array([2.0, -1.0, 0.5])[:dim]
            Fe = np.asarray(LinearForm(lambda v: v.dot(f)).Integrate_e(fv))
            Fref = np.einsum("ep,pn,c->enc", wJ, N, f).reshape(g.Ne, -1)
            if np.abs(Fe.reshape(Fref.shape) - Fref).max() > 1e-10 * np.abs(Fref).max():
                ctx.violation(f"linear-vector/{elem}", f"LinearForm f . v on a vector field ({elem}): Integrate_e differs from int N_n f_c", {"elem": elem})
        except Exception as ex:
            import traceback

            ctx.violation(f"advection-raises/{elem}", f"an advection form / a vector linear form on {elem} raises {type(ex).__name__}: {ex} | {traceback.format_exc()[-300:]}", {"elem": elem})
        ctx.count(2, distinct_key=("advection", elem))


def builtins_and_linear(ctx):
    from EasyFEA.FEM import Field, BiLinearForm, LinearForm, MatrixType, Operators, ElemType
    from EasyFEA import Models

    for dim, elem in ((2, "TRI3"), (2, "QUAD4"), (2, "TRI6"), (3, "TETRA4")):
        try:
            _builtins_on(ctx, dim, elem)
        except Exception as ex:
            # an exception of the code under test on a form the specification admits is a verdict, not a machinery failure
            import traceback

            ctx.violation(f"builtin/raises/{elem}", f"a built-in comparison form on {elem} raises {type(ex).__name__}: {ex} | {traceback.format_exc()[-300:]}", {"elem": elem})


def _builtins_on(ctx, dim, elem):
    from EasyFEA.FEM import Field, BiLinearForm, LinearForm, MatrixType, Operators, ElemType
    from EasyFEA import Models

    if True:
        mesh = mesh_for(dim, elem)
        g = mesh.groupElem
        # scalar forms
        fs = Field(g, 1, MatrixType.rigi)
        K = np.asarray(BiLinearForm(lambda u, v: u.grad.dot(v.grad)).Integrate_e(fs))
        Kb = np.asarray(Operators.Bilinear.GradUGradV(g, coef=1.0))
        if np.abs(K - Kb).max() > 1e-10 * np.abs(Kb).max():
            ctx.violation(f"builtin/graduGradv/{elem}", f"grad u . grad v on {elem} differs from Operators.Bilinear.GradUGradV", {"elem": elem})
        fm_ = Field(g, 1, MatrixType.mass)
        M = np.asarray(BiLinearForm(lambda u, v: u.dot(v)).Integrate_e(fm_))
        Mb = np.asarray(Operators.Bilinear.UV(g, coef=1.0, dof_n=1))
        if M.shape != Mb.shape or np.abs(M - Mb).max() > 1e-10 * np.abs(Mb).max():
            ctx.violation(f"builtin/uv-scalar/{elem}", f"u v (scalar field) on {elem} differs from Operators.Bilinear.UV", {"elem": elem})
        # vector mass form
        fv = Field(g, dim, MatrixType.mass)
        try:
            Mv = np.asarray(BiLinearForm(lambda u, v: u.dot(v)).Integrate_e(fv))
            Mvb = np.asarray(Operators.Bilinear.UV(g, coef=1.0, dof_n=dim))
            if Mv.shape != Mvb.shape or np.abs(Mv - Mvb).max() > 1e-10 * np.abs(Mvb).max():
                ctx.violation(f"builtin/uv-vector/{elem}", f"u . v (vector field, {dim} dofs per node) on {elem} differs from Operators.Bilinear.UV: components are coupled (max diff {np.abs(Mv - Mvb).max():.3g})", {"elem": elem})
        except Exception as ex:
            ctx.violation(f"builtin/uv-vector-raises/{elem}", f"u . v (vector field) on {elem} raises {type(ex).__name__}: {ex}", {"elem": elem})
        # isotropic elasticity: lambda tr tr + 2 mu sym:sym vs LinearizedElasticity
        lam, mu = 4.0, 4.0
        mat = Models.Elastic.Isotropic(dim, E=10.0, v=0.25, planeStress=False)
        fe = Field(g, dim, MatrixType.rigi)
        from EasyFEA.FEM._linalg import Trace
        from EasyFEA.FEM import Sym_Grad

        Ke = np.asarray(BiLinearForm(lambda u, v: lam * Trace(u.grad) * Trace(v.grad) + 2 * mu * Sym_Grad(u).ddot(Sym_Grad(v))).Integrate_e(fe))
        Keb = np.asarray(Operators.Bilinear.LinearizedElasticity(g, mat.C))
        if np.abs(Ke - Keb).max() > 1e-9 * np.abs(Keb).max():
            ctx.violation(f"builtin/elasticity/{elem}", f"lambda tr tr + 2 mu sym:sym on {elem} differs from Operators.Bilinear.LinearizedElasticity (max rel {np.abs(Ke - Keb).max() / np.abs(Keb).max():.3g})", {"elem": elem})
        # linear form: f . v
        fvec = np.array([2.0, -1.0, 0.5])[:dim]
        lf = LinearForm(lambda v: (v.grad * 0).sum(axis=(-2, -1)) + 0) if False else None
        try:
            fl = Field(g, 1, MatrixType.mass)
            L = LinearForm(lambda v: 3.0 * v)
            Fe = np.asarray(L.Integrate_e(fl))
            N = np.asarray(g.Get_N_pg(MatrixType.mass))[:, 0, :]
            wJ = np.asarray(g.Get_weightedJacobian_e_pg(MatrixType.mass))
            Fref = 3.0 * np.einsum("ep,pn->en", wJ, N)
            if np.abs(Fe.reshape(Fref.shape) - Fref).max() > 1e-10 * np.abs(Fref).max():
                ctx.violation(f"linear/integrate/{elem}", f"LinearForm 3 v on {elem}: Integrate_e differs from int 3 N", {"elem": elem})
            Fa = L.Assemble(fl).toarray().ravel()
            Faref = np.zeros(g.Ncoords)
            for e in range(g.Ne):
                Faref[g.connect[e]] += Fref[e]
            if np.abs(Fa - Faref).max() > 1e-10 * np.abs(Faref).max():
                ctx.violation(f"linear/assemble/{elem}", f"LinearForm.Assemble on {elem} is not the scatter-add of the element vectors", {"elem": elem})
        except Exception as ex:
            ctx.violation(f"linear/raises/{elem}", f"LinearForm on {elem} raises {type(ex).__name__}: {ex}", {"elem": elem})
        ctx.count(5, distinct_key=("builtins", elem))


def weakform_simulations(ctx):
    from EasyFEA import Models, Simulations
    from EasyFEA.FEM import Field, BiLinearForm, LinearForm, MatrixType, ElemType, Sym_Grad
    from EasyFEA.FEM._linalg import Trace

    for elem in ("TRI3", "QUAD4", "TRI6"):
        with quiet():
            mesh = _grid_mesh(3, 2, ElemType(elem), L=1.5)
        left = mesh.Nodes_Conditions(lambda x, y, z: x == 0)
        right = mesh.Nodes_Conditions(lambda x, y, z: x == 1.5)
        # heat conduction
        with quiet():
            th = Simulations.Thermal(mesh, Models.Thermal(k=2.0, c=1.5), verbosity=False)
            th.add_dirichlet(left, [1.0], ["t"])
            th.add_neumann(right, [3.0], ["t"])
            t_ref = th.Solve().copy()
            field = Field(mesh.groupElem, 1)
            wf = Models.WeakForms(field, BiLinearForm(lambda u, v: 2.0 * u.grad.dot(v.grad)))
            s = Simulations.WeakForms(mesh, wf, verbosity=False)
            s.add_dirichlet(left, [1.0], ["u"])
            s.add_neumann(right, [3.0], ["u"])
            t_wf = s.Solve().copy()
        if np.abs(t_wf - t_ref).max() > 1e-9 * np.abs(t_ref).max():
            ctx.violation(f"simulation/thermal/{elem}", f"WeakForms heat conduction on {elem} differs from Simulations.Thermal (max {np.abs(t_wf - t_ref).max():.3g})", {"elem": elem})
        # elasticity (plane strain, lambda = mu = 4)
        with quiet():
            el = Simulations.Elastic(mesh, Models.Elastic.Isotropic(2, E=10.0, v=0.25, planeStress=False, thickness=1.0), verbosity=False)
            el.add_dirichlet(left, [0, 0], ["x", "y"])
            el.add_neumann(right, [1.0, -0.5], ["x", "y"])
            u_ref = el.Solve().copy()
            f2_ = Field(mesh.groupElem, 2, MatrixType.rigi)
            wf2 = Models.WeakForms(f2_, BiLinearForm(lambda u, v: 4.0 * Trace(u.grad) * Trace(v.grad) + 8.0 * Sym_Grad(u).ddot(Sym_Grad(v))))
            s2 = Simulations.WeakForms(mesh, wf2, verbosity=False)
            s2.add_dirichlet(left, [0, 0], ["x", "y"])
            s2.add_neumann(right, [1.0, -0.5], ["x", "y"])
            u_wf = s2.Solve().copy()
        if np.abs(u_wf - u_ref).max() > 1e-9 * np.abs(u_ref).max():
            ctx.violation(f"simulation/elastic/{elem}", f"WeakForms elasticity on {elem} differs from Simulations.Elastic (max rel {np.abs(u_wf - u_ref).max() / np.abs(u_ref).max():.3g})", {"elem": elem})
        # the shared mesh is moved in place; every simulation observes it and must follow
        with quiet():
            c = mesh.coord.copy()
            c[:, :2] = c[:, :2] * np.array([1.25, 0.8]) + 0.05 * c[:, [1, 0]]
            mesh.coord = c
            mesh.Rotate(30.0, (0.1, 0.2, 0.0), (0, 0, 1))
            t_ref, t_wf, u_ref, u_wf = th.Solve().copy(), s.Solve().copy(), el.Solve().copy(), s2.Solve().copy()
        if np.abs(t_wf - t_ref).max() > 1e-9 * np.abs(t_ref).max():
            ctx.violation(f"simulation-moved/thermal/{elem}", f"WeakForms heat conduction on {elem} differs from Simulations.Thermal after the mesh was moved in place (max {np.abs(t_wf - t_ref).max():.3g})", {"elem": elem})
        if np.abs(u_wf - u_ref).max() > 1e-9 * np.abs(u_ref).max():
            ctx.violation(f"simulation-moved/elastic/{elem}", f"WeakForms elasticity on {elem} differs from Simulations.Elastic after the mesh was moved in place (max rel {np.abs(u_wf - u_ref).max() / np.abs(u_ref).max():.3g})", {"elem": elem})
        ctx.count(2, distinct_key=("sim", elem))


def run(ctx):
    res = ctx.tlc_must_hold("Forms", "Forms.cfg", what="Duality of the coefficient tensor", workers=16, timeout=3000)
    forms = res.prints.get("FORM", [])
    elems = {2: ["TRI3", "QUAD4", "TRI6"] if not ctx.thorough else ["TRI3", "TRI6", "TRI10", "QUAD4", "QUAD8", "QUAD9"], 3: ["TETRA4"] if not ctx.thorough else ["TETRA4", "HEXA8", "PRISM6"]}
    jobs = [(i, fm, e) for i, fm in enumerate(forms) for e in elems[fm["dim"]]]
    if not ctx.thorough:
        jobs = [j for k, j in enumerate(jobs) if (k + ctx.seed) % 2 == 0 or len(j[1]["form"]) > 1]
    nunsym = sum(1 for j in jobs if not j[1].get("sym", True))
    if nunsym < 20:
        from harness.core import MachineryError

        raise MachineryError(f"vacuous orientation check: only {nunsym} replayed forms are not symmetric in (u, v)")
    ctx.pmap(run_form, jobs, chunksize=4)
    advection_forms(ctx)
    builtins_and_linear(ctx)
    weakform_simulations(ctx)
    ctx.section("replay", forms=len(forms), jobs=len(jobs), jobs_with_a_form_that_is_not_symmetric=nunsym)
    ctx.sample({"form": forms[7]["form"], "coef": forms[7]["coef"], "dim": forms[7]["dim"]})
    ctx.cov["rule"] = "every form of the grammar of Forms.tla (36 expression pairs, two-term sums, constant / position-dependent coefficient, 2-D and 3-D) compiled and integrated on several element types; distinct = (dimension, element type, form)"
    ctx.assume("the meaning of a form is its coefficient tensor on unit gradients (bilinearity); mass-type and linear forms are checked outside the grammar against their definitions")
