"""C18 -- hyperelastic stress, tangents and the discrete energy balance.
(1) spec/HyperLaws.tla: exact deformation gradients (stretches with cube determinants, shears, Pythagorean
    rotations) with exact W and PK2 stress of Saint-Venant-Kirchhoff / Neo-Hooke / Mooney-Rivlin; every state is
    replayed through HyperElasticState + Compute_W / Compute_dWde / Compute_d2Wde on real meshes (affine
    displacement), for all six laws: exact values, reference state, objectivity along the Rotate action,
    stress = dW/de and tangent = dS/de by Richardson central differences.
(2) spec/HyperStep.tla: one time step of a bar in uniaxial strain for every stress option / scheme, with the
    exact derivative of the residual (dual numbers); replayed on one QUAD4 / HEXA8 element through the
    operators (R_e, K_e) and, for midpoint, through a real simulation step (u0, v0) -> (u1, v1).
(3) spec/HyperOps.tla: the contract table (operator, dimension, element type, scheme, law); for each state
    the tangent is compared with the numerical derivative of the residual on a randomly displaced mesh.
(4) free-motion programs of HyperOps.tla are run on real simulations; the recorded energies are judged by
    spec/Trace_HyperEnergy.tla."""
from __future__ import annotations

import json
import os
from fractions import Fraction as Fr

import numpy as np

from harness.lifecycle import quiet

SQ2 = np.sqrt(2.0)
_MESH = {}


def f2(q):
    return float(Fr(q[0], q[1]))


def fm(m):
    return np.array([[f2(q) for q in row] for row in m])


def km(M, d):
    if d == 2:
        return np.array([M[0, 0], M[1, 1], SQ2 * M[0, 1]])
    return np.array([M[0, 0], M[1, 1], M[2, 2], SQ2 * M[1, 2], SQ2 * M[0, 2], SQ2 * M[0, 1]])


def small_mesh(dim, elem, size=1.1):
    from EasyFEA import Mesher, ElemType
    from EasyFEA.Geoms import Domain, Point

    key = (dim, elem, size)
    if key not in _MESH:
        with quiet():
            org = not elem.startswith(("TRI", "TETRA"))  # recombined meshes may otherwise mix element types
            if dim == 2:
                _MESH[key] = Mesher().Mesh_2D(Domain(Point(0, 0), Point(2, 1), size), [], ElemType(elem), isOrganised=org)
            else:
                _MESH[key] = Mesher().Mesh_Extrude(Domain(Point(0, 0), Point(2, 1), size), [], [0, 0, 1], [1], ElemType(elem), isOrganised=org)
    return _MESH[key]


def _user_energy(C):
    import jax.numpy as jnp

    I1 = jnp.trace(C)
    lnJ = 0.5 * jnp.log(jnp.linalg.det(C))
    return 0.7 * (I1 - 3 - 2 * lnJ) + 1.3 * lnJ**2 + 0.2 * (jnp.trace(C @ C) - 3 - 4 * lnJ)


def laws(dim, names=None):
    """the six laws; SVK / NH / MR carry the parameters of HyperLaws.tla"""
    from EasyFEA import Models
    from EasyFEA.Models._autodiff import Enable_x64

    Enable_x64()
    H = Models.HyperElastic
    T1 = np.array([1 / 3, 2 / 3, 2 / 3]) if dim == 3 else np.array([0.6, 0.8, 0.0])
    T2 = np.array([2 / 3, -2 / 3, 1 / 3]) if dim == 3 else np.array([-0.8, 0.6, 0.0])
    mk = dict(
        SVK=lambda: H.SaintVenantKirchhoff(dim, 2.0, 3.0, 0.5, thickness=0.5),
        SVQ=lambda: H.SaintVenantKirchhoff(dim, 2.0, 3.0, 0.0, thickness=0.5),  # quadratic in E
        NH=lambda: H.NeoHookean(dim, 2.0, thickness=0.5),
        MR=lambda: H.MooneyRivlin(dim, 2.0, 1.5, 3.0, thickness=0.5),
        CG=lambda: H.CiarletGeymonat(dim, 2.0, 1.5, 3.0, thickness=0.5),
        HO=lambda: H.HolzapfelOgden(dim, 0.3, 0.5, 0.4, 0.6, 0.2, 0.7, 0.1, 0.9, 2.0, 0.8, 0.6, T1, T2, ks=5.0, thickness=0.5),
        AD=lambda: H.AutoDiff(dim, _user_energy, thickness=0.5),
    )
    return {n: mk[n]() for n in (names or [k for k in mk if k != "SVQ"])}


def affine_state(mesh, dim, F, matrixType="rigi"):
    from EasyFEA.Models.HyperElastic._state import HyperElasticState

    X = mesh.coord[:, :dim]
    u = (X @ (F[:dim, :dim] - np.eye(dim)).T).ravel()
    return HyperElasticState(mesh.groupElem, u, matrixType)


def evaluate(law, st):
    return np.asarray(law.Compute_W(st)), np.asarray(law.Compute_dWde(st)), np.asarray(law.Compute_d2Wde(st))


# ------------------------------------------------------------------------------------------------ (1) laws
def laws_job(job):
    i, case, elem, do_fd = job
    dim = case["dim"]
    viol = []
    key0 = f"{dim}D/{elem}"
    tag = "+".join(case["moves"]) if case["moves"] else "reference"
    n = 0
    try:
        mesh = small_mesh(dim, elem)
        F = fm(case["F"])
        exact = {"SVK": ("Wsvk", "Ssvk"), "NH": ("Wnh", "Snh"), "MR": ("Wmr", "Smr")}
        L = laws(dim)
        rec = {"case": {k: case[k] for k in ("dim", "moves", "F", "prevF")}, "elem": elem}
        st = affine_state(mesh, dim, F)
        J = np.asarray(st.Compute_J())
        if np.abs(J - np.linalg.det(F)).max() > 1e-12 * abs(np.linalg.det(F)):
            viol.append((f"kinematics/{key0}", f"{key0} {tag}: det F at the Gauss points {J.ravel()[:3]} differs from {np.linalg.det(F)} for an affine displacement", rec))
        prev = affine_state(mesh, dim, fm(case["prevF"])) if case["lastRot"] else None
        big = np.linalg.eigvalsh(F.T @ F).max() > 5.0
        for name, law in L.items():
            if big and name in ("HO", "AD", "CG"):
                continue  # exponential fibre terms overflow double precision at stretches of 4 and more: outside the admissible range of the law
            W, S, C4 = evaluate(law, st)
            n += 1
            ssc = max(np.abs(S).max(), 1.0)
            if not (np.isfinite(W).all() and np.isfinite(S).all() and np.isfinite(C4).all()):
                viol.append((f"finite/{name}/{key0}", f"{name} {key0} {tag}: non-finite energy / stress / tangent", rec))
                continue
            if np.ptp(W) > 1e-11 * max(abs(W).max(), 1.0) or np.ptp(S, axis=(0, 1)).max() > 1e-11 * ssc:
                viol.append((f"uniform/{name}/{key0}", f"{name} {key0} {tag}: energy / stress not uniform over the Gauss points of an affinely deformed mesh", rec))
            if name in exact:
                We = f2(case["obs"][exact[name][0]])
                Se = km(fm(case["obs"][exact[name][1]]), dim)
                if abs(W[0, 0] - We) > 1e-10 * max(abs(We), 1.0):
                    viol.append((f"energy/{name}/{key0}", f"{name} {key0} {tag}: W = {W[0, 0]!r}, exact {We!r}", rec))
                if np.abs(S[0, 0] - Se).max() > 1e-10 * max(np.abs(Se).max(), 1.0):
                    viol.append((f"stress/{name}/{key0}", f"{name} {key0} {tag}: PK2 stress {S[0, 0]} differs from the exact 2 dW/dC {Se}", rec))
            if not case["moves"]:
                if abs(W).max() > 1e-12 or np.abs(S).max() > 1e-12:
                    viol.append((f"reference/{name}/{key0}", f"{name} {key0}: in the reference configuration W = {abs(W).max():.3g}, max |S| = {np.abs(S).max():.3g} (both must vanish)", rec))
            if prev is not None:
                Wp, Sp, Cp = evaluate(law, prev)
                if abs(W[0, 0] - Wp[0, 0]) > 1e-10 * max(abs(Wp[0, 0]), 1.0) or np.abs(S[0, 0] - Sp[0, 0]).max() > 1e-10 * ssc or np.abs(C4[0, 0] - Cp[0, 0]).max() > 1e-9 * max(np.abs(Cp).max(), 1.0):
                    viol.append((f"objectivity/{name}/{key0}", f"{name} {key0} {tag}: a superposed rotation ({case['moves'][-1]}) changes W ({Wp[0, 0]!r} -> {W[0, 0]!r}) or the PK2 stress / tangent", rec))
            if np.abs(C4[0, 0] - C4[0, 0].T).max() > 1e-10 * max(np.abs(C4).max(), 1.0):
                viol.append((f"tangent-symmetry/{name}/{key0}", f"{name} {key0} {tag}: the material tangent d2W/de2 is not symmetric", rec))
            if do_fd:
                idx = [(0, 0), (1, 1), (0, 1)] if dim == 2 else [(0, 0), (1, 1), (2, 2), (1, 2), (0, 2), (0, 1)]
                Fi = np.linalg.inv(F)
                csc = max(np.abs(C4).max(), 1.0)
                eS = eC = 0.0
                for k, (a, b) in enumerate(idx):
                    D = np.zeros((3, 3))
                    if a == b:
                        D[a, a] = 1.0
                    else:
                        D[a, b] = D[b, a] = 1 / SQ2
                    G = Fi.T @ D  # dE = sym(F^T G) h = D h

                    def cd(h):
                        sp, sm = affine_state(mesh, dim, F + h * G), affine_state(mesh, dim, F - h * G)
                        return ((np.asarray(law.Compute_W(sp))[0, 0] - np.asarray(law.Compute_W(sm))[0, 0]) / (2 * h),
                                (np.asarray(law.Compute_dWde(sp))[0, 0] - np.asarray(law.Compute_dWde(sm))[0, 0]) / (2 * h))

                    h = 1e-3 / max(1.0, np.abs(Fi).max())
                    (a1, b1), (a2, b2) = cd(h), cd(h / 2)
                    dW, dS = (4 * a2 - a1) / 3, (4 * b2 - b1) / 3
                    eS = max(eS, abs(dW - S[0, 0, k]) / ssc)
                    eC = max(eC, np.abs(dS - C4[0, 0, :, k]).max() / csc)
                    n += 1
                if eS > 1e-5:
                    viol.append((f"stress-derivative/{name}/{key0}", f"{name} {key0} {tag}: Compute_dWde differs from the numerical derivative of Compute_W (relative {eS:.3g})", rec))
                if eC > 1e-5:
                    viol.append((f"tangent-derivative/{name}/{key0}", f"{name} {key0} {tag}: Compute_d2Wde differs from the numerical derivative of Compute_dWde (relative {eC:.3g})", rec))
    except Exception as ex:
        import traceback

        viol.append((f"raises/{key0}", f"{key0} {tag}: {type(ex).__name__}: {ex} | {traceback.format_exc()[-400:]}", {"case": case["moves"], "elem": elem}))
    return {"viol": viol, "n": n, "keys": [(dim, elem, tuple(case["moves"]))], "traces": 1}


# ------------------------------------------------------------------------------------------------ (2) one step
def _cubic(C):
    e = (C[0, 0] - 1.0) / 2.0
    return 3.0 * e**2 + 2.0 * e**3


def _vol(C):
    import jax.numpy as jnp

    return 3.0 * (jnp.sqrt(jnp.linalg.det(C)) - 1.0) ** 2


def step_law(name, dim):
    from EasyFEA import Models
    from EasyFEA.Models._autodiff import Enable_x64

    Enable_x64()
    H = Models.HyperElastic
    if name == "cubic":
        return H.AutoDiff(dim, _cubic, thickness=0.5)
    if name == "svk":
        return H.SaintVenantKirchhoff(dim, 2.0, 3.0, 1.0, thickness=0.5)
    try:
        return H.MooneyRivlin(dim, 0.0, 0.0, 3.0, thickness=0.5)
    except Exception:
        return H.AutoDiff(dim, _vol, thickness=0.5)


def bar_mesh(dim):
    from EasyFEA import Mesher, ElemType
    from EasyFEA.Geoms import Domain, Point

    key = ("bar", dim)
    if key not in _MESH:
        with quiet():
            if dim == 2:
                m = Mesher().Mesh_2D(Domain(Point(0, 0), Point(1, 1), 1.0), [], ElemType.QUAD4, isOrganised=True)
            else:
                m = Mesher().Mesh_Extrude(Domain(Point(0, 0), Point(1, 1), 1.0), [], [0, 0, 0.5], [1], ElemType.HEXA8, isOrganised=True)
        assert m.Ne == 1, f"bar mesh has {m.Ne} elements"
        _MESH[key] = m
    return _MESH[key]


def scalar_model(law, opt, ck, u0, u1):
    """float mirror of HyperStep.tla's Residual (validated against TLC at the lattice points)"""
    A = 0.5
    e = lambda g: g + g * g / 2
    if law == "vol":
        W = lambda g: 3.0 * g * g
        dW = lambda g: 6.0 * g / (1 + g)
    else:
        We = (lambda x: 3 * x**2 + 2 * x**3) if law == "cubic" else (lambda x: 6 * x**2)
        dWe = (lambda x: 6 * x + 6 * x**2) if law == "cubic" else (lambda x: 12 * x)
        W = lambda g: We(e(g))
        dW = lambda g: dWe(e(g))
    gt = u0 + ck * (u1 - u0)
    e0, e1 = e(u0), e(u1)
    de = e1 - e0
    if opt == "pointwise":
        s = dW(gt)
    elif opt == "gonzalez":
        sm = dW(gt)
        s = sm if de * de <= 1e-10 else sm + (W(u1) - W(u0) - sm * de) / de
    else:
        pts = {"quad1": [(0.5, 1.0)], "quad2": [(0.0, 0.5), (1.0, 0.5)], "quad3": [(0.0, 1 / 6), (0.5, 2 / 3), (1.0, 1 / 6)],
               "quad4": [(0.0, 1 / 18), (0.25, 4 / 9), (0.75, 4 / 9), (1.0, 1 / 18)], "quadA": [(0.0, 1 / 6), (0.5, 2 / 3), (1.0, 1 / 6)]}[opt]
        s = sum(w * dWe(e0 + t * de) for t, w in pts)
    return A * (1 + gt) * s, 0.5 * W(u1), 0.5 * W(u0)


def step_job(job):
    i, rec, dim = job
    from EasyFEA import Simulations, AlgoType
    from EasyFEA.FEM import Operators
    from EasyFEA.Models.HyperElastic._state import HyperElasticState

    s = rec["step"]
    law, opt, sch = s["law"], s["opt"], s["sch"]
    u0, u1, dt = f2(s["u0"]), f2(s["u1"]), f2(s["dt"])
    ck = f2(rec["coefK"])
    key = f"{law}/{opt}/{sch}/{dim}D"
    tag = f"u0={u0:g} u1={u1:g} dt={dt:g}"
    viol = []
    n = 0
    robj = {"step": s, "dim": dim}
    try:
        Rm, _, _ = scalar_model(law, opt, ck, u0, u1)
        if abs(Rm - f2(rec["R"])) > 1e-12 * max(1.0, abs(Rm)):
            from harness.core import MachineryError

            raise MachineryError(f"float mirror of HyperStep.tla disagrees with TLC for {key} {tag}: {Rm} vs {f2(rec['R'])}")
        mesh = bar_mesh(dim)
        mat = step_law(law, dim)
        X = mesh.coord
        phi = np.zeros((mesh.Nn, dim))
        phi[:, 0] = X[:, 0]  # u_x = a x : uniaxial strain, end displacement a
        phi = phi.ravel()
        g = mesh.groupElem
        sn, st, s1 = (HyperElasticState(g, a * phi, "rigi") for a in (u0, u0 + ck * (u1 - u0), u1))
        if opt == "pointwise":
            K_e, R_e = Operators.NonLinear.SecondPiolaKirchhoffStressTensor(mat, st)
        elif opt == "gonzalez":
            K_e, R_e = Operators.NonLinear.GonzalezStressTensor(mat, sn, st, s1, True)
        elif opt == "quadA":
            K_e, R_e, _ = Operators.NonLinear.TimeQuadratureStressTensor(mat, sn, st, s1, ck, 1, tol=1e-11)
        else:
            K_e, R_e, _ = Operators.NonLinear.TimeQuadratureStressTensor(mat, sn, st, s1, ck, int(opt[-1]))
        asm = g.Get_assembly_e(dim)[0]
        pe = phi[asm]
        R = float(pe @ R_e[0])
        K = float(pe @ K_e[0] @ pe)
        n += 2
        Rx, Kx, dRx = f2(rec["R"]), f2(rec["K"]), f2(rec["dRdu1"])
        sc = max(abs(Rx), 1.0)
        if abs(R - Rx) > 1e-9 * sc:
            viol.append((f"step-residual/{key}", f"{key} {tag}: the operator's internal force on the bar unknown is {R!r}, exact {Rx!r}", robj))
        if abs(ck * K - dRx) > 1e-8 * max(abs(dRx), 1.0):
            viol.append((f"step-tangent/{key}", f"{key} {tag}: coefK x tangent = {ck * K!r}, the exact derivative of the residual with respect to u_(n+1) is {dRx!r} (documented K = {Kx!r})", robj))
        # ---- a real simulation step for the midpoint scheme: (u0, v0) -> (u1, v1)
        if sch == "midpoint":
            v0, v1 = f2(rec["v0"]), f2(rec["v1"])
            with quiet():
                sim = Simulations.HyperElastic(mesh, mat, absTol=1e-11, relTol=1e-14, incTol=1e-14, maxIter=60, verbosity=False)
                sim.rho = 1.5
                unk = sim.Get_unknowns()
                sim.add_dirichlet(mesh.Nodes_Conditions(lambda x, y, z: x == 0), [0.0] * dim, unk)
                sim.add_dirichlet(mesh.nodes, [0.0] * (dim - 1), unk[1:])
                sim.Solver_Set_Hyperbolic_Algorithm(dt, algo=AlgoType.midpoint)
                if opt == "gonzalez":
                    sim.Solver_Set_Stress(sim.StressType.gonzalez)
                elif opt == "quadA":
                    sim.Solver_Set_Stress(sim.StressType.quadrature, energyTol=1e-11)
                elif opt != "pointwise":
                    sim.Solver_Set_Stress(sim.StressType.quadrature, nPoints=int(opt[-1]))
                sim._Set_solutions(sim.problemType, u0 * phi, v0 * phi, np.zeros_like(phi))
                try:
                    sim.Solve()
                    conv = True
                except AssertionError as ex:
                    if "did not converge" in str(ex) or "det(F)" in str(ex):
                        conv = False  # "for any step size that converges": the step is outside the statement
                    else:
                        raise
            if conv:
                U = sim.displacement.reshape(-1, dim)
                Vv = sim.speed.reshape(-1, dim)
                end = np.where(X[:, 0] > 0.5)[0]
                u1s, v1s = float(U[end, 0].mean()), float(Vv[end, 0].mean())
                n += 3
                if np.ptp(U[end, 0]) > 1e-9 or np.abs(U[:, 1:]).max() > 1e-12:
                    viol.append((f"step-symmetry/{key}", f"{key} {tag}: the uniaxial motion lost its symmetry in one step", robj))
                m = 0.25
                Rs, W1s, W0s = scalar_model(law, opt, 0.5, u0, u1s)
                upd = abs((u1s - u0) - dt * (v0 + v1s) / 2)
                mom = abs(m * (v1s - v0) / dt + Rs)
                if upd > 1e-9 * max(1.0, abs(u1s)):
                    viol.append((f"step-update/{key}", f"{key} {tag}: the simulation's step violates u1 - u0 = dt (v0 + v1) / 2 by {upd:.3g}", robj))
                if mom > 1e-7 * max(1.0, abs(Rs)):
                    viol.append((f"step-balance/{key}", f"{key} {tag}: the simulation's step ({u0:g}, {v0:g}) -> ({u1s!r}, {v1s!r}) violates m (v1 - v0) / dt + R = 0 by {mom:.3g} (the exact step of the model ends at ({u1:g}, {v1:g}))", robj))
                if rec["exact"]:
                    E0 = 0.5 * m * v0 * v0 + W0s
                    E1 = 0.5 * m * v1s * v1s + W1s
                    if abs(E1 - E0) > 1e-7 * max(abs(E0), 1e-3):
                        viol.append((f"step-energy/{key}", f"{key} {tag}: kinetic + stored energy changes from {E0!r} to {E1!r} over one step of a conserving option", robj))
                same = abs(u1s - u1) < 1e-6 * max(1.0, abs(u1))
                return {"viol": viol, "n": n, "keys": [(law, opt, sch, dim, u0, u1, dt)], "traces": 1, "same_root": bool(same), "converged": True}
            return {"viol": viol, "n": n, "keys": [(law, opt, sch, dim, u0, u1, dt)], "traces": 1, "same_root": False, "converged": False}
    except Exception as ex:
        from harness.core import MachineryError

        if isinstance(ex, MachineryError):
            raise
        import traceback

        viol.append((f"raises/{key}", f"{key} {tag}: {type(ex).__name__}: {ex} | {traceback.format_exc()[-400:]}", robj))
    return {"viol": viol, "n": n, "keys": [(law, opt, sch, dim, u0, u1, dt)], "traces": 1}


# ------------------------------------------------------------------------------------------------ (3) contract table
def _richardson(f, h):
    a1 = (f(h) - f(-h)) / (2 * h)
    a2 = (f(h / 2) - f(-h / 2)) / h
    return (4 * a2 - a1) / 3


def ops_job(job):
    i, rec, seed = job
    from EasyFEA.FEM import Operators, FeArray, MatrixType
    from EasyFEA.Models.HyperElastic._state import HyperElasticState

    c = rec["c"]
    op, dim, elem, sch, lawname = c["op"], c["dim"], c["el"], c["sch"], c["law"]
    key = f"{op}/{dim}D/{elem}/{sch}/{lawname}"
    viol = []
    n = 0
    robj = {"config": c, "seed": seed}
    NL = Operators.NonLinear
    try:
        rng = np.random.default_rng(seed)
        mesh = small_mesh(dim, elem)
        mat = laws(dim, [lawname])[lawname]
        Nn = mesh.Nn
        un = 0.04 * rng.standard_normal(Nn * dim)
        du = 0.04 * rng.standard_normal(Nn * dim)
        for _ in range(8):  # keep the random configurations well inside det F > 0 (the difference quotients need a neighbourhood)
            Js = [np.asarray(HyperElasticState(g_, w, MatrixType.rigi).Compute_J()) for g_ in mesh.Get_list_groupElem(dim) for w in (un, un + du, un + 0.5 * du)]
            if min(j.min() for j in Js) > 0.6:
                break
            un, du = un / 2, du / 2
        u1 = un + du
        vel = 0.3 * rng.standard_normal(Nn * dim)
        delta = rng.standard_normal(Nn * dim)
        ck = {"static": 1.0, "midpoint": 0.5, "newmark": 1.0, "hht": 0.75}[sch]
        sign = rec["sign"]
        if op in ("pressure", "contact"):
            groups = list(mesh.Get_list_groupElem(dim - 1))
        else:
            groups = list(mesh.Get_list_groupElem(dim))
        if op == "active":
            mat.active_stress = 0.7
        if op == "kelvinvoigt":
            mat.eta = 0.3
        for g in groups:
            asm = g.Get_assembly_e(dim)
            if op == "active":
                nPg = g.Get_N_pg(MatrixType.rigi).shape[0]
                T = FeArray.asfearray(np.tile(np.array([1 / 3, 2 / 3, 2 / 3]), (g.Ne, nPg, 1)) + 0.1 * rng.standard_normal((g.Ne, nPg, 3)))
                mat.Set_active_stress_vec(T)

            def ut_of(x):
                return un + ck * (x - un)

            def call(x, want_K=False, v=None):
                """returns (K_e, R_e) at the step unknown x = u_(n+1)"""
                if op == "pointwise":
                    return NL.SecondPiolaKirchhoffStressTensor(mat, HyperElasticState(g, ut_of(x), MatrixType.rigi))
                if op in ("gonzalez", "gonzalez-inconsistent"):
                    return NL.GonzalezStressTensor(mat, HyperElasticState(g, un, MatrixType.rigi), HyperElasticState(g, ut_of(x), MatrixType.rigi), HyperElasticState(g, x, MatrixType.rigi), op == "gonzalez")
                if op.startswith("quad"):
                    args = (mat, HyperElasticState(g, un, MatrixType.rigi), HyperElasticState(g, ut_of(x), MatrixType.rigi), HyperElasticState(g, x, MatrixType.rigi), ck)
                    if op == "quad-adaptive":
                        K, R, npts = NL.TimeQuadratureStressTensor(*args, 1, 1e-9)
                    else:
                        K, R, npts = NL.TimeQuadratureStressTensor(*args, int(op[-1]))
                    call.npts = tuple(npts)
                    return K, R
                if op == "active":
                    return NL.ActiveStressTensor(mat, HyperElasticState(g, ut_of(x), MatrixType.rigi))
                if op == "kelvinvoigt":
                    K, R, C = NL.KelvinVoigtDamping(mat, HyperElasticState(g, ut_of(x), MatrixType.rigi), vel if v is None else v)
                    call.C = C
                    return K, R
                if op == "pressure":
                    return NL.FollowingPressure(g, ut_of(x), 0.8, None, MatrixType.mass)
                if op == "contact":
                    nrm = np.array([0.6, 0.8, 0.0]) if dim == 2 else np.array([2 / 3, 1 / 3, 2 / 3])
                    N_pg = g.Get_N_pg(MatrixType.mass)[:, 0, :]
                    Xg = np.asarray(g.Get_GaussCoordinates_e_pg(MatrixType.mass))
                    ue = ut_of(x).reshape(-1, dim)[g.connect]
                    xg = Xg.copy()
                    xg[..., :dim] += np.einsum("pn,enc->epc", N_pg, ue)
                    gap = xg @ nrm - 0.9  # signed distance to the plane n.x = 0.9: part of the boundary penetrates
                    call.mingap = float(np.abs(gap).min())
                    normal = np.tile(nrm, (*gap.shape, 1))
                    return NL.PenaltyContact(g, 50.0, FeArray.asfearray(gap), FeArray.asfearray(normal), None, MatrixType.mass)
                raise NotImplementedError(op)

            K_e, R_e = call(u1)
            n += 1
            if op == "quad-adaptive":
                base_npts = call.npts
            if op == "kelvinvoigt":
                C_e = np.asarray(call.C).copy()
            if not (np.isfinite(K_e).all() and np.isfinite(R_e).all()):
                viol.append((f"finite/{key}", f"{key}: non-finite tangent / residual", robj))
                continue
            h = 2e-5
            dR = _richardson(lambda t: np.asarray(call(u1 + t * delta)[1]), h)
            if op == "quad-adaptive" and getattr(call, "npts", base_npts) != base_npts:
                continue  # the adaptive rule switched level inside the difference stencil: not differentiable there
            if op == "contact" and call.mingap < 2 * h * np.abs(delta).max():
                continue  # a Gauss point sits on the kink of the Macaulay bracket
            Kd = ck * np.einsum("eij,ej->ei", np.asarray(K_e), delta[asm])
            sc = max(np.abs(Kd).max(), np.abs(dR).max(), 1e-12)
            err = np.abs(Kd - sign * dR).max() / sc
            n += 1
            if rec.get("identity"):
                # discrete-gradient identity: sum_e R_e . (u1 - un)_e = integral of W(u1) - W(un)
                st_n, st_1 = HyperElasticState(g, un, MatrixType.rigi), HyperElasticState(g, u1, MatrixType.rigi)
                wJ = np.asarray(g.Get_weightedJacobian_e_pg(MatrixType.rigi))
                dWtot = float(np.sum(wJ * (np.asarray(mat.Compute_W(st_1)) - np.asarray(mat.Compute_W(st_n))))) * (mat.thickness if dim == 2 else 1.0)
                work = float(np.einsum("ei,ei->", np.asarray(R_e), (u1 - un)[asm]))
                n += 1
                if abs(work - dWtot) > 1e-9 * max(abs(dWtot), 1e-6):
                    viol.append((f"discrete-gradient/{key}", f"{key}: the work of the internal force over the step, {work!r}, differs from the change of stored energy {dWtot!r}", robj))
            if op == "gonzalez-inconsistent":
                # same residual as the consistent variant; the tangent is documented as approximate
                Rc = NL.GonzalezStressTensor(mat, HyperElasticState(g, un, MatrixType.rigi), HyperElasticState(g, ut_of(u1), MatrixType.rigi), HyperElasticState(g, u1, MatrixType.rigi), True)[1]
                if np.abs(np.asarray(Rc) - np.asarray(R_e)).max() > 1e-12 * max(np.abs(Rc).max(), 1e-12):
                    viol.append((f"residual/{key}", f"{key}: useConsistentTangent=False changes the residual", robj))
            elif err > 2e-6:
                viol.append((f"tangent/{key}", f"{key}: chain x K_e . du differs from {'-' if sign < 0 else ''}d(R_e)/d(u_(n+1)) . du (relative {err:.3g}; chain = {rec['chain']})", robj))
            if op == "kelvinvoigt":
                dRv = _richardson(lambda t: np.asarray(call(u1, v=vel + t * delta)[1]), h)
                Cd = np.einsum("eij,ej->ei", C_e, delta[asm])
                e2 = np.abs(Cd - dRv).max() / max(np.abs(Cd).max(), 1e-12)
                n += 1
                if e2 > 2e-6:
                    viol.append((f"damping/{key}", f"{key}: C_e . dv differs from d(R_e)/dv . dv (relative {e2:.3g})", robj))
    except Exception as ex:
        import traceback

        viol.append((f"raises/{key}", f"{key}: {type(ex).__name__}: {ex} | {traceback.format_exc()[-500:]}", robj))
    return {"viol": viol, "n": n, "keys": [(op, dim, elem, sch, lawname)], "traces": 1}


# ------------------------------------------------------------------------------------------------ (4) free motion
def energy_job(job):
    i, prog, nstep = job
    from EasyFEA import Simulations, AlgoType, Mesher, ElemType
    from EasyFEA.Geoms import Domain, Point

    law, opt, dtm, meshname = prog["law"], prog["opt"], prog["dt"], prog["mesh"]
    save = int(prog.get("save", 1))
    pid = f"{law}/{opt}/dt{dtm}/{meshname}/save{save}"
    dim = int(meshname[0])
    elem = meshname.split("-")[1]
    with quiet():
        if dim == 2:
            mesh = Mesher().Mesh_2D(Domain(Point(0, 0), Point(4, 1), 1.0), [], ElemType(elem), isOrganised=True)
        else:
            mesh = Mesher().Mesh_Extrude(Domain(Point(0, 0), Point(4, 1), 1.0), [], [0, 0, 1], [1], ElemType(elem), isOrganised=True)
        mat = laws(dim, [law])[law]
        sim = Simulations.HyperElastic(mesh, mat, absTol=1e-10, relTol=1e-13, incTol=1e-14, maxIter=40, verbosity=False)
        sim.rho = 1.0
        n0 = mesh.Nodes_Conditions(lambda x, y, z: x == 0)
        sim.add_dirichlet(n0, [0.0] * dim, sim.Get_unknowns())
        sim.Solver_Set_Hyperbolic_Algorithm(0.05 * dtm, algo=AlgoType.midpoint)
        if opt == "gonzalez":
            sim.Solver_Set_Stress(sim.StressType.gonzalez)
        elif opt == "quad3":
            sim.Solver_Set_Stress(sim.StressType.quadrature, nPoints=3)
        elif opt == "quad-adaptive":
            sim.Solver_Set_Stress(sim.StressType.quadrature, energyTol=1e-10)
        X = mesh.coord
        v = np.zeros((mesh.Nn, dim))
        v[:, 1] = 0.6 * (X[:, 0] / 4) ** 2
        v[:, 0] = 0.2 * (X[:, 0] / 4)
        if dim == 3:
            v[:, 2] = 0.1 * (X[:, 0] / 4) * (X[:, 1] - 0.5)
        v[n0] = 0
        sim._Set_solutions(sim.problemType, np.zeros(mesh.Nn * dim), v.ravel(), np.zeros(mesh.Nn * dim))
    pt = sim.problemType
    E, M, steps, conv = [], None, [], True
    for k in range(nstep):
        try:
            with quiet():
                sim.Solve()
                if (k + 1) % save == 0:
                    sim.Save_Iter()
        except AssertionError as ex:
            if "did not converge" in str(ex) or "det(F)" in str(ex):
                conv = False  # "for any step size that converges"
                break
            raise
        if M is None:
            M = sim.Get_K_C_M_F(pt)[2]
            E.append(0.5 * float(v.ravel() @ (M @ v.ravel())))
        vv = sim._Get_v_n(pt)
        E.append(0.5 * float(vv @ (M @ vv)) + float(sim._Calc_W()))
        d = abs(E[-1] - E[0]) / E[0]
        steps.append({"n": k + 1, "drift_ppb": int(min(round(d * 1e9), 100_000_000)) if np.isfinite(d) else 100_000_000})
    return {"id": pid, "conserving": bool(prog["conserving"]), "steps": steps, "converged": conv, "umax": float(np.abs(sim.displacement).max()), "E0": E[0] if E else 0.0}


def run(ctx):
    t = "thorough" if ctx.thorough else "quick"
    # ---- (1) laws
    cases = []
    for d in ("2d", "3d"):
        res = ctx.tlc_must_hold("HyperLaws", f"HyperLaws_{d}_{t}.cfg", what="CubeRoot / Reference / SymmetricS / QuadDerivative / NonNegative / Objective", workers=8, timeout=3000)
        cases += res.prints.get("CASE", [])
    ctx.tlc_must_fail("HyperLaws", "HyperLaws_neg.cfg", expect="Objective")
    e2 = ["TRI3", "QUAD4", "TRI6", "QUAD8"] + (["QUAD9", "TRI10"] if ctx.thorough else [])
    e3 = ["TETRA4", "HEXA8", "PRISM6"] + (["TETRA10", "HEXA20", "PRISM15"] if ctx.thorough else [])
    jobs = []
    for i, c in enumerate(cases):
        els = e2 if c["dim"] == 2 else e3
        if ctx.thorough:
            for j, el in enumerate(els):
                jobs.append((i, c, el, j == i % len(els)))
        else:
            jobs.append((i, c, els[(i + ctx.seed) % len(els)], True))
    ctx.pmap(laws_job, jobs, chunksize=4)
    ctx.section("laws", cases=len(cases), rotations=sum(1 for c in cases if c["lastRot"]), jobs=len(jobs), element_types=e2 + e3, laws=["SVK", "NH", "MR", "CG", "HO", "AD"])
    ctx.sample({k: cases[5][k] for k in ("dim", "moves", "F")})
    # ---- (2) one step
    res = ctx.tlc_must_hold("MC_HyperStep", f"MC_HyperStep_{t}.cfg", what="TangentIsDerivative / DiscreteGradient / Conservation / IsMidpointStep / RestIsPointwise", workers=8, timeout=3000)
    ctx.tlc_must_fail("MC_HyperStep", "MC_HyperStep_neg.cfg", expect="DiscreteGradient")
    steps = res.prints.get("STEP", [])
    out = ctx.pmap(step_job, [(i, s, d) for i, s in enumerate(steps) for d in (2, 3)], chunksize=8)
    mid = [o for o in out if o and "converged" in o]
    ctx.section("steps", states=len(steps), simulated_midpoint_steps=len(mid), converged=sum(1 for o in mid if o["converged"]), ended_at_the_model_state=sum(1 for o in mid if o["same_root"]))
    if mid and sum(1 for o in mid if o["same_root"]) < len(mid) // 2:
        from harness.core import MachineryError

        raise MachineryError("fewer than half of the simulated midpoint steps end at the state computed by TLC")
    ctx.sample({k: steps[7][k] for k in ("step", "R", "dRdu1", "v0", "v1")})
    # ---- (3) contract table
    res = ctx.tlc_must_hold("HyperOps", f"HyperOps_{t}.cfg", what="TypeOK", workers=4)
    configs = res.prints.get("CONFIG", [])
    programs = res.prints.get("PROGRAM", [])
    ctx.pmap(ops_job, [(i, c, ctx.seed * 100003 + i) for i, c in enumerate(configs)], chunksize=2)
    import collections

    ctx.section("operators", configurations=len(configs), per_operator=dict(collections.Counter(c["c"]["op"] for c in configs)))
    # ---- (4) free motion, judged by Trace_HyperEnergy.tla
    nstep = 120 if ctx.thorough else 30
    traces = [t_ for t_ in ctx.pmap(energy_job, [(i, p, nstep) for i, p in enumerate(programs)], chunksize=1) if t_ and t_["steps"]]
    path = os.path.join(ctx.scratch, "hy_traces.json")
    json.dump(traces, open(path, "w"))
    r3 = ctx.tlc("Trace_HyperEnergy", "Trace_HyperEnergy.cfg", workers=4, env={"HY_TRACES": path})
    from harness.core import MachineryError

    if not r3.ok:
        raise MachineryError(f"Trace_HyperEnergy: {r3.violated}")
    verdicts = r3.prints.get("VERDICT", [])
    for v in verdicts:
        ctx.traces(1)
        ctx.count(v["nsteps"], distinct_key=("program", v["id"]))
        if v["leftBand"]:
            ctx.violation(f"energy/{v['id']}", f"free motion {v['id']}: kinetic + stored energy leaves the band |E - E0| <= 1e-7 E0 at saved steps {sorted(v['leftBand'])[:6]} (largest deviation {v['maxDrift']} ppb)", {"id": v["id"], "verdict": v})
    sens = [v for v in verdicts if not v["conserving"]]
    ctx.section("free_motion", programs=len(programs), traces=len(traces), steps_per_trace=nstep, not_converged=[t_["id"] for t_ in traces if not t_["converged"]],
                largest_conserving_drift_ppb=max([v["maxDrift"] for v in verdicts if v["conserving"]] or [0]),
                non_conserving_runs=len(sens), non_conserving_runs_that_drift=sum(1 for v in sens if v["drifted"]), largest_displacement=max([t_["umax"] for t_ in traces] or [0.0]))
    if len(verdicts) != len(traces):
        raise MachineryError("Trace_HyperEnergy did not judge every trace")
    if sens and not any(v["drifted"] for v in sens):
        raise MachineryError("vacuous energy check: the pointwise stress conserves energy on these programs too")
    ctx.cov["rule"] = "every state of HyperLaws.tla (2-D and 3-D) x element types x six laws; every state of HyperStep.tla on a QUAD4 and a HEXA8 bar (operators, and a simulated step for midpoint); distinct = replayed (state, mesh) pairs"
    ctx.assume("free motion: cantilever released with a smooth initial velocity (tip displacement of the order of half the length), midpoint scheme, band 100 ppb; steps that do not converge end the trace (outside the statement)")
    ctx.assume("exact energies / stresses exist for SVK, NH, MR on the cube-determinant lattice; CG, HO and the user energy (jax) are decided by the derivative, reference and objectivity relations; finite differences: Richardson central, 1e-5 relative")
