"""C03 -- assembly is the exact scatter-add, for any numbering and any history.
spec/Assembly.tla: the memoised reduction map as the code keys it; TLC checks Exact (result =
definition of the scatter-add) on every reachable state, a renumbering theorem, and rejects
three defective key designs.  TLC behaviours (assemblies interleaved with system-size
changes and mesh replacement, group orders, absent slots, complex values) are replayed on a
`_Simu` subclass fed with the same integer element arrays: Assembly() must equal TLC's
matrices bit for bit.  Real simulation classes are compared with an independent dense loop
scatter-add on first and repeated assemblies."""
from __future__ import annotations

import numpy as np

MESHES = {
    "chain": dict(nn=4, groups=[("SEG2", [[0, 1], [1, 2], [2, 3]]), ("POINT", [[0], [3]])]),
    "perm": dict(nn=4, groups=[("SEG2", [[2, 0], [0, 3], [3, 1]]), ("POINT", [[2], [1]])]),
    "orphan": dict(nn=4, groups=[("SEG2", [[0, 1], [1, 3]]), ("POINT", [[3]])]),
    "mixed": dict(nn=5, groups=[("QUAD4", [[0, 1, 2, 3]]), ("TRI3", [[1, 4, 2]]), ("SEG2", [[0, 1], [1, 4]])]),
}
COORDS = {
    "chain": [[0, 0], [1, 0], [2, 0], [3, 0]],
    "perm": [[1, 0], [3, 0], [0, 0], [2, 0]],
    "orphan": [[0, 0], [1, 0], [5, 5], [2, 0]],
    "mixed": [[0, 0], [1, 0], [1, 1], [0, 1], [2, 0.5]],
}


def val(slot, g, e, i, j, v, im):
    return ((g * 7 + e * 5 + i * 3 + j * 2 + slot * 11 + v * 13 + im * 17) % 7) - 3


def build_mesh(name):
    from harness.matsimu import mesh_from_groups
    from EasyFEA.FEM import ElemType

    d = MESHES[name]
    return mesh_from_groups(np.array(COORDS[name], dtype=float), {ElemType(et): conn for et, conn in d["groups"]})


class Driver:
    def __init__(self, meshname, dofn):
        from harness.matsimu import MatSimu

        self.dofn = dofn
        self.cur = dict(order=None, pat=None, v=0, cx="real")
        self.meshname = meshname
        self.simu = MatSimu(build_mesh(meshname), dof_n=dofn, local_fn=self.local, groups_fn=self.groups)

    def gindex(self, g):
        names = [et for et, _ in MESHES[self.meshname]["groups"]]
        return names.index(str(g.elemType)) + 1

    def groups(self, mesh):
        names = [et for et, _ in MESHES[self.meshname]["groups"]]
        from EasyFEA.FEM import ElemType

        return [mesh.dict_groupElem[ElemType(names[gi - 1])] for gi in self.cur["order"]]

    def local(self, simu, g):
        gi = self.gindex(g)
        pos = self.cur["order"].index(gi) + 1
        n = g.nPe * self.dofn
        out = []
        for slot, key in ((1, "K"), (2, "C"), (3, "M"), (4, "F")):
            if pos not in self.cur["pat"][key]:
                out.append(None)
                continue
            ncol = n if slot < 4 else 1
            a = np.array([[[val(slot, gi, e + 1, i + 1, j + 1, self.cur["v"], 0) for j in range(ncol)] for i in range(n)] for e in range(g.Ne)], dtype=float)
            cx = self.cur["cx"]
            if slot == 1 and (cx == "all" or (cx == "tail" and pos != min(self.cur["pat"]["K"]))):  # "tail": the first group fed stays real (mixed dtypes)
                b = np.array([[[val(slot, gi, e + 1, i + 1, j + 1, self.cur["v"], 1) for j in range(ncol)] for i in range(n)] for e in range(g.Ne)], dtype=float)
                a = a + 1j * b
            out.append(a)
        return tuple(out)

    def resize(self, x):
        from EasyFEA.FEM import LagrangeCondition

        s = self.simu
        s.Bc_Init()
        if x >= 1:
            n0, n1 = MESHES[self.meshname]["groups"][0][1][0][:2]
            d = self.dofn
            dofs = np.array([n0 * d, n1 * d])
            s._Bc_Add_Lagrange(LagrangeCondition(s.problemType, np.array([n0, n1]), dofs, ["x"], np.array([0.0]), np.array([1.0, -1.0])))
        if x == 2:
            s.add_dirichlet(np.array([MESHES[self.meshname]["groups"][0][1][-1][-1]]), [0.0], ["x"])

    def setmesh(self, name):
        self.meshname = name
        self.simu.mesh = build_mesh(name)

    def assemble(self, last):
        self.cur = dict(order=last["order"], pat={k: set(v) for k, v in last["pat"].items()}, v=last["ver"], cx=last["cx"])
        return [m.toarray() for m in self.simu.Assembly(self.simu.problemType)]

    def nmemo(self):
        try:
            from EasyFEA.Utilities._cache import CACH_NAME

            d = getattr(self.simu, CACH_NAME, {})
            return sum(1 for k in d if "csr_map" in str(k[0]))
        except Exception:
            return None


def replay(beh):
    viol, keys, n = [], [], 0
    memo_diff = 0
    drv = None
    trail = []
    for st in beh:
        act = st["act"]
        trail.append(act["name"] + (str(act.get("x", act.get("m", ""))) if act["name"] != "Assemble" else ""))
        if act["name"] == "Init":
            drv = Driver(act["mesh"], act["dofn"])
            continue
        if act["name"] == "Resize":
            drv.resize(act["x"])
        elif act["name"] == "SetMesh":
            drv.setmesh(act["m"])
        elif act["name"] == "Assemble":
            last = st["last"]
            case = {"behaviour": [s["act"] | ({"order": s["last"]["order"], "pat": s["last"]["pat"], "cx": s["last"]["cx"], "ver": s["last"]["ver"]} if s["act"]["name"] == "Assemble" else {}) for s in beh[: len(trail)]]}
            try:
                got = drv.assemble(last)
            except Exception as ex:
                viol.append((f"assemble-raises/{st['mesh']}", f"Assembly() raises {type(ex).__name__}: {ex} after {' -> '.join(trail)} (order {last['order']}, pattern {last['pat']})", case))
                break
            exp = [np.array(last[k], dtype=float) for k in "KCMF"]
            if last["cx"] != "real":
                exp[0] = exp[0] + 1j * np.array(last["Ki"], dtype=float)
            for nm, g, e in zip("KCMF", got, exp):
                if g.shape != e.shape or not np.array_equal(g, e):
                    viol.append((f"scatter/{nm}/{st['mesh']}/hit={last['hits']}", f"{nm} assembled after {' -> '.join(trail)} (mesh {st['mesh']}, dof_n {st['dofn']}, group order {last['order']}, pattern {last['pat']}, complex {last['cx']}) differs from the scatter-add of the element arrays", case))
                    break
            nm_ = drv.nmemo()
            if nm_ is not None and nm_ != st["nmemo"]:
                memo_diff += 1  # how the memo is keyed is the library's business (the property is the exact result): reported in the evidence, never a violation
            keys.append((st["mesh"], st["dofn"], tuple(last["order"]), str(sorted(last["pat"].items())), last["cx"], last["hits"], st["extra"]))
        n += 1
        if viol:
            break
    return {"viol": viol, "n": n, "keys": keys, "traces": 1, "memo_diff": memo_diff}


def replay_case(case):
    """replay file: list of actions with assemble parameters -> recompute expectation with the dense definition"""
    out = []
    drv = None
    for a in case["behaviour"]:
        if a["name"] == "Init":
            drv = Driver(a["mesh"], a["dofn"])
        elif a["name"] == "Resize":
            drv.resize(a["x"])
        elif a["name"] == "SetMesh":
            drv.setmesh(a["m"])
        else:
            got = drv.assemble(a)
            exp = dense_reference(drv.simu, drv.simu.Construct_local_matrix_system(drv.simu.problemType))
            for nm, g, e in zip("KCMF", got, exp):
                if g.shape != e.shape or not np.array_equal(g, e):
                    out.append((f"scatter/{nm}", f"{nm} differs from dense scatter-add for {a}"))
    return out


def dense_reference(simu, dict_kcmf):
    """independent loop summation of Construct_local_matrix_system output"""
    pt = simu.problemType
    d = simu.Get_dof_n(pt)
    nd = simu.mesh.Nn * d + simu._Bc_Lagrange_dim(pt)
    out = []
    for slot in range(4):
        cplx = any(v[slot] is not None and np.iscomplexobj(v[slot]) for v in dict_kcmf.values())
        A = np.zeros((nd, nd if slot < 3 else 1), dtype=complex if cplx else float)
        for g, vals in dict_kcmf.items():
            X = vals[slot]
            if X is None:
                continue
            X = np.asarray(X)
            for e in range(g.Ne):
                dofs = [int(n_) * d + c for n_ in g.connect[e] for c in range(d)]
                for i, r in enumerate(dofs):
                    if slot < 3:
                        for j, c in enumerate(dofs):
                            A[r, c] += X[e, i, j]
                    else:
                        A[r, 0] += np.ravel(X[e])[i]
        out.append(A)
    return out


def real_classes(ctx):
    """Bind (A'): real simulation classes, first and repeated assemblies vs the dense loop."""
    from harness import lifecycle as lc

    cases = []
    for name in ("Elastic", "Thermal"):
        ad = lc.ADAPTERS[name]()
        for which in ("A", "B"):
            mesh = ad.base_mesh(which)
            with lc.quiet():
                sim = ad.make_sim(mesh, ad.make_model(0))
            cases.append((f"{name}/{which}", sim))
    # two pieces of different element types merged, the quadrangles inserted first (an order of the element groups the mesher never produces)
    ad = lc.ADAPTERS["ElasticMerged"]()
    with lc.quiet():
        cases.append(("Elastic/merged-quad-first", ad.make_sim(ad.base_mesh("A"), ad.make_model(0))))
    # mixed TRI3 + QUAD4 mesh
    try:
        cases.append(("Elastic/mixed", _mixed_elastic()))
    except Exception as ex:  # mesher variant unavailable: recorded, not a verdict
        ctx.section("real_classes", mixed_mesh_unavailable=str(ex))
    for label, sim in cases:
        pt = sim.problemType
        for rep in range(3):
            if rep == 2:
                sim.rho = 2.5  # values change, pattern reused
            loc = sim.Construct_local_matrix_system(pt)
            ref = dense_reference(sim, loc)
            got = [m.toarray() for m in sim.Assembly(pt)]
            for nm, g, e in zip("KCMF", got, ref):
                err = np.abs(g - e).max(initial=0.0) / max(1.0, np.abs(e).max(initial=0.0))
                if g.shape != e.shape or err > 1e-12:
                    ctx.violation(f"real/{label}/{nm}/rep{rep}", f"{nm} of {label} (assembly #{rep + 1}) differs from the dense scatter-add by {err:.3g}", {"label": label, "rep": rep})
            ctx.count(1, distinct_key=("real", label, rep))


def index_width(ctx):
    """spec/IndexWidth.tla at real scale: the assembled matrix of a system whose N * N exceeds 2^31 (resp. a small one) built
    from a connectivity of 32-bit (resp. 64-bit) integers equals the coordinate-format sum formed with 64-bit indices."""
    from scipy import sparse
    from harness.matsimu import MatSimu
    from EasyFEA.FEM import ElemType, Mesh
    from EasyFEA.FEM._group_elem import GroupElemFactory

    res = ctx.tlc_must_hold("IndexWidth", "IndexWidth.cfg", what="Threshold (keys exact / monotone exactly when N*N fits the key type)", workers=4)
    ctx.tlc_must_fail("IndexWidth", "IndexWidth_neg_injective.cfg", expect="InjectiveIsEnough")
    ctx.tlc_must_fail("IndexWidth", "IndexWidth_neg_blocks.cfg", expect="PairedStartsCover")
    for case in sorted(res.prints.get("CASE", []), key=lambda c: (c["cfg"]["size"], c["cfg"]["itype"])):
        itype, size = case["cfg"]["itype"], case["cfg"]["size"]
        if size == "blocks" and itype == "int32":
            continue  # the block summation does not depend on the index type: one large system is enough
        nx, ny = {"over32": (160, 150), "blocks": (270, 262)}.get(size, (6, 5))   # "blocks": 70 209 elements x 64 entries = 4.49e6 > 2^22
        dofn = 2
        ndof = nx * ny * dofn
        if not (case["ndofAtLeast"] <= ndof <= case["ndofAtMost"]):
            from harness.core import MachineryError

            raise MachineryError(f"index_width: the grid has {ndof} dofs, outside the class {case}")
        xs, ys = np.meshgrid(np.arange(nx, dtype=float), np.arange(ny, dtype=float), indexing="ij")
        coords = np.c_[xs.ravel(), ys.ravel(), np.zeros(nx * ny)]
        idx = np.arange(nx * ny).reshape(nx, ny)
        conn = np.stack([idx[:-1, :-1].ravel(), idx[1:, :-1].ravel(), idx[1:, 1:].ravel(), idx[:-1, 1:].ravel()], axis=1)
        # a renumbering, so that large row numbers meet small column numbers from the first elements on
        perm = np.random.default_rng(3).permutation(nx * ny)
        c2 = np.zeros_like(coords)
        c2[perm] = coords
        conn = perm[conn].astype(np.int32 if itype == "int32" else np.int64)
        mesh = Mesh({ElemType.QUAD4: GroupElemFactory.Create(ElemType.QUAD4, conn, c2)})
        Ne, n = conn.shape[0], 4 * dofn
        base = (np.arange(n)[:, None] * 3 + np.arange(n)[None, :] * 5) % 7 - 3.0
        Ke = base[None] + (np.arange(Ne) % 5)[:, None, None]
        sim = MatSimu(mesh, dof_n=dofn, local_fn=lambda simu, g: (Ke, None, None, None), groups_fn=lambda m: m.Get_list_groupElem(2))
        dofs = (conn.astype(np.int64)[:, :, None] * dofn + np.arange(dofn)[None, None, :]).reshape(Ne, n)
        rows = np.repeat(dofs, n, axis=1).ravel()
        cols = np.tile(dofs, (1, n)).ravel()
        ref = sparse.coo_matrix((Ke.ravel(), (rows, cols)), shape=(ndof, ndof)).tocsr()
        for rep in range(2):
            if rep == 1:
                sim.Need_Update()
            K = sim.Get_K_C_M_F()[0].tocsr()
            diff = (K - ref)
            err = np.abs(diff.data).max(initial=0.0)
            if K.shape != ref.shape or err > 0:
                bad = int(np.count_nonzero(diff.data))
                ctx.violation(f"index-width/{itype}/{size}", f"{ndof} dofs, connectivity of {itype}: the assembled matrix (assembly #{rep + 1}) differs from the sum formed with 64-bit indices in {bad} entries (max {err:.3g}); N*N = {ndof * ndof} {'exceeds' if ndof * ndof > 2**31 else 'fits'} 2^31; {Ke.size} element entries", {"itype": itype, "size": size, "ndof": ndof})
                break
        ctx.count(2, distinct_key=("index-width", itype, size))
    ctx.section("index_width", cases=[c["cfg"] for c in res.prints.get("CASE", [])], large_system_dofs=160 * 150 * 2)


def _mixed_elastic():
    from EasyFEA import Models, Simulations
    from EasyFEA.FEM import ElemType
    from harness.matsimu import mesh_from_groups

    coords = np.array([[0, 0], [1, 0], [2, 0], [0, 1], [1, 1], [2, 1.2], [3, 0.5]], dtype=float)
    mesh = mesh_from_groups(coords, {ElemType.SEG2: [[0, 1], [1, 2]], ElemType.TRI3: [[2, 6, 5]], ElemType.QUAD4: [[0, 1, 4, 3], [1, 2, 5, 4]]})
    mat = Models.Elastic.Isotropic(2, E=10.0, v=0.3, planeStress=True, thickness=1.0)
    return Simulations.Elastic(mesh, mat, verbosity=False)


def _job(beh):
    return replay(beh)


def renumbered_real(ctx):
    """RenumberTheorem (TLC, on the model) at real scale: a plate of 80 x 80 cells in the mesher's numbering (boundary nodes first,
    ids of a boundary group compact) and the same plate with its nodes renumbered at random (ids of a boundary group spread over
    the whole range, as in an imported or merged mesh).  Stiffness, the load vector of a line load with a linear density and of
    a body force are the permutation of the original ones - nothing else changes."""
    from EasyFEA import Mesher, Models, Simulations
    from EasyFEA.FEM import ElemType
    from EasyFEA.Geoms import Domain, Point
    from harness.lifecycle import quiet
    from harness.props.c01 import renumber

    for elem, n in (("QUAD4", 80), ("TRI3", 60)) + ((("TRI6", 40),) if ctx.thorough else ()):
        with quiet():
            mesh = Mesher().Mesh_2D(Domain(Point(0, 0), Point(1, 1), 1.0 / n), [], ElemType(elem), isOrganised=True)
        perm = np.random.default_rng(7 + ctx.seed).permutation(mesh.Nn)
        with quiet():
            mesh2 = renumber(mesh, 7 + ctx.seed)   # node i of mesh is node perm[i] of mesh2
        out = []
        for m in (mesh, mesh2):
            with quiet():
                sim = Simulations.Elastic(m, Models.Elastic.Isotropic(2, E=10.0, v=0.3, planeStress=True, thickness=0.5), verbosity=False)
                right = m.Nodes_Conditions(lambda x, y, z: x == 1)
                sim.add_lineLoad(right, [lambda x, y, z: 1 + y], ["y"])
                sim.add_volumeLoad(m.nodes, [0.3], ["x"])
                K = sim.Get_K_C_M_F()[0].tocsr()
                F = np.asarray(sim.Bc_vector_Neumann()).ravel()
            out.append((K, F))
        (K1, F1), (K2, F2) = out
        dofs = (perm[:, None] * 2 + np.arange(2)[None, :]).ravel()   # dof (i, c) of mesh is dof (perm[i], c) of mesh2
        Kp = K2[dofs][:, dofs]
        errK = abs(Kp - K1).max() / abs(K1).max()
        errF = np.abs(F2[dofs] - F1).max() / np.abs(F1).max()
        tot = (F1.reshape(-1, 2).sum(0), F2.reshape(-1, 2).sum(0))
        if errK > 1e-12:
            ctx.violation(f"renumbered-real/K/{elem}", f"{elem} plate, {mesh.Nn} nodes renumbered at random: the stiffness matrix is not the permutation of the original one (max relative {errK:.3g})", {"elem": elem, "n": n})
        if errF > 1e-12:
            ctx.violation(f"renumbered-real/F/{elem}", f"{elem} plate, {mesh.Nn} nodes renumbered at random: the load vector (line load 1 + y on x = 1, body force) is not the permutation of the original one (max relative {errF:.3g}; resultants {tot[0]} / {tot[1]})", {"elem": elem, "n": n})
        ctx.count(2, distinct_key=("renumbered-real", elem))
    ctx.section("renumbered_real", plates=["QUAD4 80x80", "TRI3 60x60"] + (["TRI6 40x40"] if ctx.thorough else []))


def run(ctx):
    from harness.lifecycle import split_behaviours

    if ctx.replay:
        import json

        case = json.load(open(ctx.replay))["case"]
        for k, what in replay_case(case):
            ctx.violation(k, what, case)
        ctx.count(2, distinct_key="replay")
        ctx._distinct.add("r2")
        return
    ctx.tlc_must_hold("MC_Assembly", "MC_Assembly_thorough.cfg" if ctx.thorough else "MC_Assembly_quick.cfg", what="Exact / MemoCurrent / RenumberTheorem", timeout=6000)
    for d in ("sorted_key", "no_groups_in_key", "no_ndof_in_key"):
        ctx.tlc_must_fail("MC_Assembly", f"MC_Assembly_neg_{d}.cfg", expect="Exact")
    num = 400 if ctx.thorough else 50
    res = ctx.tlc("MC_Assembly", "MC_Assembly_sim.cfg", workers=1, args=["-simulate", f"num={num}", "-depth", "8", "-seed", str(ctx.seed + 5)], timeout=3000)
    if not res.ok:
        from harness.core import MachineryError

        raise MachineryError(f"Assembly simulation violated {res.violated}")
    states = res.prints.get("ST", [])
    # the initial state is printed once per distinct initial state: behaviours restart at lvl 2, attach the matching Init
    behs = []
    cur = []
    inits = {}
    prev = 0
    last = None
    for st in states:
        if st["lvl"] == 1:
            inits[(st["mesh"], st["dofn"])] = st
            continue
        if st["lvl"] == prev and st == last:
            continue
        last = st
        if st["lvl"] <= prev or st["lvl"] == 2:
            if cur:
                behs.append(cur)
            cur = []
        cur.append(st)
        prev = st["lvl"]
    if cur:
        behs.append(cur)
    full = []
    for b in behs:
        # recover the initial (mesh, dofn): dofn never changes; mesh of the first state unless the first action is SetMesh
        first = b[0]
        dofn = first["dofn"]
        if first["act"]["name"] == "SetMesh":
            cands = [m for (m, d) in inits if d == dofn and m != first["mesh"]]
            m0 = cands[0]
        else:
            m0 = first["mesh"]
        full.append([{"lvl": 1, "act": {"name": "Init", "mesh": m0, "dofn": dofn}, "mesh": m0, "dofn": dofn}] + b)
    outs = ctx.pmap(_job, full)
    ctx.section("replay", behaviours=len(full), memo_size_differs_from_the_model_in_states=sum(o.get("memo_diff", 0) for o in outs if o))
    if full:
        ctx.sample({"behaviour": [s["act"] | ({"order": s["last"]["order"], "pat": s["last"]["pat"]} if s["act"]["name"] == "Assemble" else {}) for s in full[0]]})
    real_classes(ctx)
    renumbered_real(ctx)
    index_width(ctx)
    ctx.cov["rule"] = "TLC simulation-mode behaviours of Assembly.tla replayed bit-for-bit on a _Simu subclass; distinct = distinct (mesh variant, dof_n, group order, slot pattern, complex, memo hit, system size)"
    ctx.assume("integer element data sum exactly in floating point, so the comparison is exact; a SetMesh as first action picks an arbitrary other initial mesh (the memo is cleared either way)")
