"""C08 -- geometry, orientation, point location.  spec/Geometry.tla accumulates public motions as an
exact affine map; every TLC state (frame) is replayed on real meshes of every element type:
coordinates after Translate / Rotate / Symmetry, measure, closure of the boundary normals,
evaluation of a nodal polynomial field at the moved query points (single and batch)."""
from __future__ import annotations

from fractions import Fraction as Fr

import numpy as np

from harness.lifecycle import quiet
from harness.props.c01 import base_mesh

SERENDIPITY = {"QUAD8", "HEXA20", "PRISM15"}
ORDER = {"TRI3": 1, "TRI6": 2, "TRI10": 3, "TRI15": 4, "QUAD4": 1, "QUAD8": 2, "QUAD9": 2, "TETRA4": 1, "TETRA10": 2, "HEXA8": 1, "HEXA20": 2, "HEXA27": 2, "PRISM6": 1, "PRISM15": 2, "PRISM18": 2}
ANGLE = float(np.degrees(np.arctan2(4, 3)))


def f2(q):
    return float(Fr(q[0], q[1]))


def poly(deg):
    def p(x, y, z):
        v = 1 + 2 * x - y + 3 * z
        if deg >= 2:
            v = v + x**2 - 2 * x * y + y * z
        if deg >= 3:
            v = v + x**3 - x * y**2
        if deg >= 4:
            v = v + x**4 - 2 * x**2 * y**2 + y**4
        return v

    return p


def apply_moves(mesh, moves):
    for mv in moves:
        if mv == "translate":
            mesh.Translate(1.5, -1.0, 0.5)
        elif mv == "far":
            mesh.Translate(100000.0, 100000.0, 0.0)
        elif mv == "rotz":
            mesh.Rotate(ANGLE, (1, 0.5, 0), (0, 0, 1))
        elif mv == "rotx":
            mesh.Rotate(ANGLE, (0, 1, 0.5), (1, 0, 0))
        elif mv == "mirx":
            mesh.Symmetry((0.5, 0, 0), (1, 0, 0))
        elif mv == "miry":
            mesh.Symmetry((0, -1, 0), (0, 1, 0))


def view_check(mesh, dim, vmap, key, viol, frame, elem):
    """GeometryViews.tla, View: the mesh LOOKED AT in the configuration x -> L (x - c) + c + t through the `displacementMatrix`
    keyword of the boundary queries.  The answers are those of the moved configuration (normals turned by L - by -L under a
    reflection, Gauss points mapped), the same the second time, and nothing of the mesh has moved."""
    from EasyFEA.FEM import MatrixType

    L = np.array([[f2(q) for q in row] for row in vmap["L"]])
    c = np.array([f2(q) for q in vmap["c"]])
    t = np.array([f2(q) for q in vmap["t"]])
    X = mesh.coord.copy()
    U = (X - c) @ L.T + c + t - X
    sgn = np.sign(np.linalg.det(L))
    for g in mesh.Get_list_groupElem(dim - 1):
        n0 = np.asarray(g.Get_normals_e_pg(MatrixType.mass))
        x0 = np.asarray(g.Get_GaussCoordinates_e_pg(MatrixType.mass))
        for rep in (1, 2):
            n1 = np.asarray(g.Get_normals_e_pg(MatrixType.mass, displacementMatrix=U))
            x1 = np.asarray(g.Get_GaussCoordinates_e_pg(MatrixType.mass, displacementMatrix=U))
            en = np.abs(n1 - sgn * n0 @ L.T).max()
            ex = np.abs(x1 - ((x0 - c) @ L.T + c + t)).max()
            if en > 1e-10 or ex > 1e-10 * max(1.0, np.abs(x1).max()):
                viol.append((f"view/{key}", f"{key}: {g.elemType} looked at in a moved configuration (displacementMatrix, call {rep}): normals off by {en:.3g}, Gauss points off by {ex:.3g} from the moved ones", {"frame": frame, "elem": elem}))
                return
    with quiet():
        mesh.Get_normals(displacementMatrix=U)
        mesh.Get_normals(displacementMatrix=U)
    if np.abs(mesh.coord - X).max() > 0:
        viol.append((f"view-moves/{key}", f"{key}: looking at the mesh in a moved configuration moved its nodes by {np.abs(mesh.coord - X).max():.3g}", {"frame": frame, "elem": elem}))
    for g in mesh.Get_list_groupElem():
        if np.abs(np.asarray(g.coord) - X[g.nodes]).max() > 0:
            viol.append((f"view-moves/{key}", f"{key}: looking at the mesh in a moved configuration moved the coordinates held by the element group {g.elemType}", {"frame": frame, "elem": elem}))
            break


def run_case(job):
    i, frame, dim, elem = job
    viol = []
    moves = frame["moves"]
    key = f"{elem}/{'+'.join(moves) if moves else 'identity'}"
    hist = frame.get("hist")
    if hist is not None:
        key = f"{elem}/" + "+".join((h[1] if h[0] == "move" else f"view({h[1]})") for h in hist)
    A = np.array([[f2(q) for q in row] for row in frame["A"]])
    b = np.array([f2(q) for q in frame["b"]])
    try:
        with quiet():
            mixed = elem.endswith("+mixed")  # a recombined mesh that keeps some triangles: two element groups of the main dimension
            assembly = elem.endswith("+assembly")  # the pentagon and its mirror image through the plane x = 0, merged: one group holds elements of both orientations
            if mixed or assembly:
                elem = elem.split("+")[0]
            if assembly:
                from EasyFEA.FEM import Mesh

                part = base_mesh(dim, elem, False).copy()
                other = part.copy()
                other.Symmetry((0, 0, 0), (1, 0, 0))
                mesh = Mesh.Merge([part, other])
                if mesh.Nn >= 2 * part.Nn:
                    raise RuntimeError("harness: the two halves of the assembly were not joined")
            else:
                mesh = base_mesh(dim, elem, mixed).copy()
            if mixed and len(mesh.Get_list_groupElem(dim)) < 2:
                raise RuntimeError("harness: the mixed mesh has a single element group")
            X0 = mesh.coord.copy()
            # touch the caches before moving (a motion must invalidate them)
            _ = mesh.center
            if hist is None:
                apply_moves(mesh, moves)
            else:
                for kind, mv in hist:
                    if kind == "move":
                        apply_moves(mesh, [mv])
                    else:
                        view_check(mesh, dim, frame["maps"][mv], key, viol, frame, elem)
        X = mesh.coord
        Xe = X0 @ A.T + b
        if np.abs(X - Xe).max() > 1e-12 * max(1.0, np.abs(Xe).max()):
            viol.append((f"coordinates/{key}", f"{key}: node coordinates after the motions differ from the exact affine map (max {np.abs(X - Xe).max():.3g})", {"frame": frame, "elem": elem}))
            return {"viol": viol, "n": 1, "keys": [], "traces": 1}
        meas = (15.0 if dim == 2 else 30.0) * (2 if assembly else 1)
        got = mesh.area if dim == 2 else mesh.volume
        # the measure is a sum of products of coordinate DIFFERENCES: far from the origin each difference loses digits in proportion
        # to |x| / h, so the comparison is relative to the size of the coordinates (1e-11 near the origin, 1e-10 at |x| = 1e5)
        if abs(got - meas) > (1e-11 + 1e-15 * np.abs(X).max()) * meas:
            viol.append((f"measure/{key}", f"{key}: measure {got} after the motions, exact {meas}", {"frame": frame, "elem": elem}))
        inplane = abs(A[2, 2] - 1) < 1e-15 and abs(b[2]) < 1e-15 and np.abs(A[2, :2]).max() < 1e-15 and np.abs(A[:2, 2]).max() < 1e-15
        if (dim == 3 or inplane) and not assembly:   # (a merged mesh keeps the welded interface in its boundary groups: no closed-surface statement)
            from EasyFEA.FEM import MatrixType

            nsum = np.zeros(3)
            flux = 0.0
            for g in mesh.Get_list_groupElem(dim - 1):
                n = np.asarray(g.Get_normals_e_pg(MatrixType.mass))
                wJ = np.asarray(g.Get_weightedJacobian_e_pg(MatrixType.mass))
                xg = np.asarray(g.Get_GaussCoordinates_e_pg(MatrixType.mass))
                nsum += np.einsum("ep,epd->d", wJ, n)
                # position vector taken from the image of the origin of the unmoved mesh: by closure the flux does not depend on the
                # origin, and summing numbers of the size of the mesh (not of its distance to the origin) avoids cancellation noise
                flux += np.einsum("ep,epd,epd->", wJ, xg - b, n)
            if np.abs(nsum).max() > 1e-10 * meas:
                viol.append((f"normals-closure/{key}", f"{key}: the boundary normals do not close the domain: int n dS = {nsum}", {"frame": frame, "elem": elem}))
            elif abs(abs(flux) - dim * meas) > 1e-9 * meas:
                viol.append((f"normals-flux-magnitude/{key}", f"{key}: |int x.n dS| = {abs(flux)}, expected {dim} x measure = {dim * meas}", {"frame": frame, "elem": elem}))
            elif abs(flux - dim * meas) > 1e-9 * meas:
                viol.append((f"normals-outward/{key}", f"{key}: int x.n dS = {flux}, expected {dim} x measure = {dim * meas} (outward normals)", {"frame": frame, "elem": elem}))
        # point location
        deg = 1 if elem in SERENDIPITY else ORDER[elem]  # (a mixed mesh pairs QUADn with the TRI of the same degree)
        p = poly(deg)
        vals = p(X0[:, 0], X0[:, 1], X0[:, 2])
        q0 = np.array([[f2(c) for c in q] for q in frame["queries"]])
        if dim == 2:
            q0[:, 2] = 0.0
        q0 = np.vstack([q0, X0[:3]])  # plus three mesh nodes
        # plus one interior point per element (up to 80): a convex combination of its vertices with weights that depend on the
        # element number - the element that contains a point need not own the mesh node closest to it
        rngq = np.random.default_rng(0)
        inner = []
        for g0 in mesh.Get_list_groupElem(dim):
            nv = {"TRI": 3, "QUAD": 4, "TETRA": 4, "HEXA": 8, "PRISM": 6}["".join(ch for ch in str(g0.elemType.value if hasattr(g0.elemType, "value") else g0.elemType) if ch.isalpha())]
            inner += [rngq.dirichlet(np.ones(nv) * 0.7) @ X0[g0.connect[e, :nv]] for e in range(min(g0.Ne, 160)) for _ in range(3)]
        inner = np.array(inner)
        n_fixed = len(q0)
        q0 = np.vstack([q0, inner])
        qm = q0 @ A.T + b
        exp = p(q0[:, 0], q0[:, 1], q0[:, 2])
        singles = [(f"single-interior", qm[k:k + 1], exp[k:k + 1]) for k in range(n_fixed, len(qm))]
        # small batches of interior points (the nearest-node pre-search then visits only part of the elements and the points it
        # misses go through the fallback search): every batch must give what the points give one at a time
        order = np.random.default_rng(1).permutation(np.arange(n_fixed, len(qm)))
        small = [("batch6", qm[order[k:k + 6]], exp[order[k:k + 6]]) for k in range(0, min(len(order), 96), 6)]
        for label, pts, ex in [("batch", qm, exp), ("single", qm[1:2], exp[1:2]), ("pair", qm[:2], exp[:2])] + singles + small:
            try:
                with quiet():
                    got = np.asarray(mesh.Evaluate_dofsValues_at_coordinates(pts, vals)).ravel()
            except Exception as ex_:
                viol.append((f"locate-raises/{label}/{key}", f"{key}: Evaluate_dofsValues_at_coordinates raises {type(ex_).__name__}: {ex_} ({label} query)", {"frame": frame, "elem": elem}))
                continue
            # straight-sided simplices are inverted directly; the other types go through scipy's least_squares with its default 1e-8 tolerances
            tol = 1e-8 if elem.startswith(("TRI", "TETRA")) else 1e-6
            if got.shape != ex.shape or np.abs(got - ex).max() > tol * max(1.0, np.abs(ex).max()):
                bad = int(np.argmax(np.abs(got - ex))) if got.shape == ex.shape else -1
                viol.append((f"locate/{label}/{key}", f"{key}: a degree-{deg} nodal field evaluated at the moved query points ({label}) gives {got}, the polynomial gives {ex} (worst point {bad})", {"frame": frame, "elem": elem}))
    except Exception as ex:
        import traceback

        viol.append((f"raises/{key}", f"{key}: {type(ex).__name__}: {ex} | {traceback.format_exc()[-300:]}", {"frame": frame, "elem": elem}))
    return {"viol": viol, "n": 1, "keys": [(elem, tuple(moves))], "traces": 1}


def run(ctx):
    res = ctx.tlc_must_hold("Geometry", f"Geometry_{'thorough' if ctx.thorough else 'quick'}.cfg", what="Isometry / Parity", workers=8)
    frames = res.prints.get("FRAME", [])
    e2 = ["TRI3", "TRI6", "QUAD4", "QUAD9", "QUAD4+mixed", "TRI3+assembly"] + (["TRI10", "TRI15", "QUAD8", "QUAD9+mixed", "QUAD4+assembly"] if ctx.thorough else [])
    e3 = ["TETRA4", "HEXA8", "PRISM6", "TETRA4+assembly", "HEXA8+assembly"] + (["TETRA10", "HEXA20", "HEXA27", "PRISM15", "PRISM18", "PRISM6+assembly"] if ctx.thorough else [])
    jobs = [(i, f, 2, e) for i, f in enumerate(frames) for e in e2] + [(i, f, 3, e) for i, f in enumerate(frames) for e in e3]
    # GeometryViews.tla: histories of motions and VIEWS (queries in a moved configuration through `displacementMatrix`)
    resv = ctx.tlc_must_hold("GeometryViews", "GeometryViews.cfg", what="PureView / FrameIsFoldOfMoves / Isometry / Parity", workers=4)
    vframes = [f for f in resv.prints.get("VFRAME", []) if any(h[0] == "view" for h in f["hist"])]
    if not vframes:
        from harness.core import MachineryError

        raise MachineryError("GeometryViews.tla emitted no history with a view")
    ev2 = ["TRI3", "QUAD4", "TRI6"] + (["QUAD9", "QUAD4+mixed"] if ctx.thorough else [])
    ev3 = ["TETRA4", "HEXA8"] + (["PRISM6"] if ctx.thorough else [])
    # 2-D meshes are looked at in in-plane configurations only (their normals are defined in the plane)
    vjobs = [(1000 + i, f, 2, e) for i, f in enumerate(vframes) for e in ev2 if all(h[1] != "rotx" for h in f["hist"])] + [(1000 + i, f, 3, e) for i, f in enumerate(vframes) for e in ev3]
    ctx.pmap(run_case, jobs + vjobs, chunksize=2)
    ctx.section("replay", frames=len(frames), element_types=e2 + e3, jobs=len(jobs), histories_with_views=len(vframes), view_jobs=len(vjobs))
    ctx.sample(frames[min(3, len(frames) - 1)])
    ctx.cov["exhaustive"] = True
    ctx.cov["rule"] = "every frame of Geometry.tla (all sequences of up to MaxMoves motions) replayed on an unstructured mesh of the integer pentagon / its extrusion for every listed element type; distinct = (element type, motion sequence)"
    ctx.assume("point location is compared at 1e-8 for straight-sided simplices (direct inverse map) and 1e-6 for the element types inverted iteratively (scipy least_squares, default tolerances 1e-8); interior points: three random convex combinations of the vertices of each of the first 160 elements, queried one at a time")
    ctx.assume("serendipity types (QUAD8, HEXA20, PRISM15) are asked for degree 1 only on general straight-sided elements; 2-D meshes moved out of the plane are checked as embedded surfaces (measure, point location) without the in-plane normal test")
