"""C05, section `real`: the per-dof weight tables of spec/TimeSchemes.tla (Weights(p), confirmed by the invariant
`Affine` on every step TLC explores) applied to REAL simulations of any size.

For every parameter record p emitted by MC_TimeSchemes_weights.cfg and every simulation kind (Elastic 2-D with Rayleigh
damping, two unknowns per node; Elastic 3-D; Thermal; Euler-Bernoulli and Timoshenko beams, three unknowns per node)
one step is taken from a random previous state with non-zero prescribed values and nodal loads.  Judged with the
specification's tables only (nothing of the library's three case tables is read):

  update      (u, v, a)_new  =  new-combination of (x, u, v, a)_old       x = the step unknown (u_new; a_new for euler_explicit)
  motion      K u_t + C v_t + M a_t = F on every free dof, (u_t, v_t, a_t) = eval-combination of (x, u, v, a)_old
  prescribed  x holds the prescribed value on every constrained dof (0 for euler_explicit, as TimeSchemes.tla states)

K, C, M are the matrices the simulation reports (C03 / C14 judge those), F the nodal loads entered one node at a time.
"""
from __future__ import annotations

import contextlib
import io
from fractions import Fraction

import numpy as np

TOL = 2e-9


def _f(q):
    return float(Fraction(q[0], q[1]))


def _quiet():
    return contextlib.redirect_stdout(io.StringIO())


def _build(kind):
    from EasyFEA import Mesher, Models, Simulations
    from EasyFEA.FEM import ElemType
    from EasyFEA.Geoms import Domain, Point, Line

    with _quiet():
        if kind == "Elastic2D":
            mesh = Mesher().Mesh_2D(Domain(Point(0, 0), Point(2, 1), 0.5), [], ElemType.TRI6)
            sim = Simulations.Elastic(mesh, Models.Elastic.Isotropic(2, E=12.0, v=0.3, planeStress=True, thickness=0.7), verbosity=False)
            sim.rho = 1.7
            sim.Set_Rayleigh_Damping_Coefs(0.3, 0.2)
        elif kind == "Elastic3D":
            mesh = Mesher().Mesh_Extrude(Domain(Point(0, 0), Point(2, 1), 1.0), [], [0, 0, 1], [1], ElemType.TETRA4)
            sim = Simulations.Elastic(mesh, Models.Elastic.Isotropic(3, E=9.0, v=0.2), verbosity=False)
            sim.rho = 0.8
            sim.Set_Rayleigh_Damping_Coefs(0.1, 0.4)
        elif kind == "Thermal":
            mesh = Mesher().Mesh_2D(Domain(Point(0, 0), Point(2, 1), 0.5), [], ElemType.QUAD4)
            sim = Simulations.Thermal(mesh, Models.Thermal(k=2.5, c=1.5, thickness=0.5), verbosity=False)
            sim.rho = 1.3
        elif kind in ("BeamEB", "BeamTimo"):
            section = Mesher().Mesh_2D(Domain(Point(-0.05, -0.1), Point(0.05, 0.1)))
            beam = Models.Beam.Isotropic(2, Line(Point(0, 0), Point(1.6, 1.2), 0.5), section, 50.0, 0.25)
            mesh = Mesher().Mesh_Beams([beam], elemType=ElemType.SEG3 if kind == "BeamEB" else ElemType.SEG2)
            sim = Simulations.Beam(mesh, Models.Beam.BeamStructure([beam]), verbosity=False, useTimoshenko=(kind == "BeamTimo"))
            sim.rho = 40.0
        else:
            raise ValueError(kind)
    return sim


def _set_algo(sim, p):
    from EasyFEA.Simulations.Solvers import AlgoType

    dt = _f(p["dt"])
    if p["algo"] == "parabolic":
        sim.Solver_Set_Parabolic_Algorithm(dt, _f(p["al"]))
    else:
        sim.Solver_Set_Hyperbolic_Algorithm(dt, algo=AlgoType(p["algo"]), beta=_f(p["be"]), gamma=_f(p["ga"]), alpha=_f(p["al"]))


def _comb(table, cols, k):
    """k-th component (0: u, 1: v, 2: a) of the combination of the four table columns with the data cols = (x, u, v, a)"""
    out = 0.0
    for j in range(4):
        w = _f(table[j][k])
        if w != 0.0:
            out = out + w * cols[j]
    return out


def _job(job):
    kind, recs, seed = job
    viol, n, keys, skipped = [], 0, [], 0
    sim = _build(kind)
    pt = sim.problemType
    unknowns = list(sim.Get_unknowns())
    dofn = len(unknowns)
    mesh = sim.mesh
    Nn = mesh.Nn
    rng = np.random.default_rng(seed)
    xs = mesh.coord[:, 0]
    left = np.flatnonzero(np.abs(xs - xs.min()) < 1e-9)
    right = np.flatnonzero(np.abs(xs - xs.max()) < 1e-9)
    for p_rec in recs:
        p = p_rec["p"]
        parabolic = p["algo"] == "parabolic"
        if parabolic != (kind == "Thermal"):
            continue
        key = f"{kind}/{p['algo']}"
        _set_algo(sim, p)
        sim.Bc_Init()
        N = Nn * dofn
        U, V, A = rng.uniform(-1, 1, N), rng.uniform(-1, 1, N), rng.uniform(-1, 1, N)
        if parabolic:
            A = np.zeros(N)
        sim._Set_solutions(pt, U.copy(), V.copy(), A.copy())
        # prescribed values: every unknown on the left side, a value per node and unknown
        g = {}
        for k, name in enumerate(unknowns):
            vals = 0.3 + 0.1 * k + 0.05 * np.arange(len(left))
            sim.add_dirichlet(left, [vals], [name])
            for nd, val in zip(left, vals):
                g[nd * dofn + k] = val
        # nodal loads entered one node at a time
        F = np.zeros(N)
        for i, nd in enumerate(right[:3]):
            for k, name in enumerate(unknowns[:2]):
                val = 0.7 * (i + 1) * (-1) ** k
                sim.add_neumann(np.array([nd]), [val], [name])
                F[nd * dofn + k] += val
        with _quiet():
            sim.Solve()
        U1, V1, A1 = sim._Get_u_n(pt), sim._Get_v_n(pt), sim._Get_a_n(pt)
        Ks, Cs, Ms, Fs = sim.Get_K_C_M_F()
        if Ks.shape[0] != N:
            raise RuntimeError(f"{kind}: system of size {Ks.shape[0]} for {N} dofs (unexpected Lagrange rows)")
        cons = np.array(sorted(g), dtype=int)
        free = np.setdiff1d(np.arange(N), cons)
        if p["algo"] == "euler_explicit":
            # the step matrix is M alone: a mass matrix that is only semi-definite (Timoshenko members carry no rotary inertia,
            # which C02 allows) admits no explicit step - outside the statement ("admissible parameters"), not judged
            Mff = Ms.toarray()[np.ix_(free, free)]
            w = np.linalg.eigvalsh((Mff + Mff.T) / 2)
            if w[0] <= 1e-10 * max(w[-1], 1e-300):
                skipped += 1
                continue
        x = A1 if p["algo"] == "euler_explicit" else U1
        cols = (x, U, V, A)
        wt = p_rec["wt"]
        scale = max(1.0, np.abs(np.concatenate([U1, V1, A1])).max())
        exp = [_comb(wt["new"], cols, k) for k in range(3)]
        got = [U1, V1, A1]
        names = ["u", "v", "a"]
        for k in range(2 if parabolic else 3):
            err = np.abs(got[k] - exp[k]).max()
            if not err <= TOL * scale:
                viol.append((f"real/update/{key}", f"{kind}, {p}: {names[k]} after the step differs by {err:.3g} from the documented update relation (weight table of TimeSchemes.tla)", {"kind": kind, "p": p_rec, "seed": seed}))
                break
        ut, vt, at = (_comb(wt["eval"], cols, k) for k in range(3))
        terms = [Ks @ ut if np.ndim(ut) else 0 * U, Cs @ vt if np.ndim(vt) else 0 * U, Ms @ at if np.ndim(at) else 0 * U]
        b = F + np.asarray(Fs.todense()).ravel() if hasattr(Fs, "todense") else F + np.asarray(Fs).ravel()
        r = terms[0] + terms[1] + terms[2] - b
        rs = max(1.0, max(np.abs(t).max() for t in terms), np.abs(b).max())
        err = np.abs(r[free]).max()
        if not err <= TOL * rs:
            viol.append((f"real/motion/{key}", f"{kind}, {p}: K u_t + C v_t + M a_t - F = {err:.3g} (scale {rs:.3g}) on a free dof at the scheme's evaluation point", {"kind": kind, "p": p_rec, "seed": seed}))
        want = np.zeros(len(cons)) if p["algo"] == "euler_explicit" else np.array([g[d] for d in cons])
        err = np.abs(x[cons] - want).max()
        if not err <= TOL * scale:
            viol.append((f"real/prescribed/{key}", f"{kind}, {p}: a constrained dof is {err:.3g} away from its prescribed value", {"kind": kind, "p": p_rec, "seed": seed}))
        n += 1
        keys.append(("real", kind, p["algo"], tuple(p["dt"]), tuple(p["al"]), tuple(p["be"]), tuple(p["ga"])))
    return {"viol": viol, "n": n, "keys": keys, "traces": 1, "dofs": Nn * dofn, "skipped": skipped}


KINDS_QUICK = ["Elastic2D", "Thermal", "BeamEB", "BeamTimo"]
KINDS_THOROUGH = KINDS_QUICK + ["Elastic3D"]


def run(ctx, replay_case=None):
    if replay_case is not None:
        r = _job((replay_case["kind"], [replay_case["p"]], replay_case["seed"]))
        for key, what, obj in r["viol"]:
            ctx.violation(key, what, obj)
        return
    res = ctx.tlc_must_hold("MC_TimeSchemes", "MC_TimeSchemes_weights.cfg", what="Affine (the weight tables are the one-step maps), Motion, UpdateRel")
    wts = {}
    for w in res.prints.get("WT", []):
        p = w["p"]
        wts[(p["algo"], tuple(p["dt"]), tuple(p["al"]), tuple(p["be"]), tuple(p["ga"]))] = w
    recs = [wts[k] for k in sorted(wts)]
    if not ctx.thorough:
        # a third of the lattice, every algorithm represented (the selection is a function of the sorted records only)
        recs = [r for i, r in enumerate(recs) if i % 3 == ctx.seed % 3]
    if len({r["p"]["algo"] for r in recs}) < 7:
        from harness.core import MachineryError

        raise MachineryError("weight tables: an algorithm is missing from the exported lattice")
    kinds = KINDS_THOROUGH if ctx.thorough else KINDS_QUICK
    jobs = []
    for kind in kinds:
        chunk = 12
        for i in range(0, len(recs), chunk):
            jobs.append((kind, recs[i:i + chunk], 1000 + i + ctx.seed))
    out = ctx.pmap(_job, jobs)
    steps = sum(r["n"] for r in out if r)
    skipped = sum(r["skipped"] for r in out if r)
    ctx.section("real_simulations", weight_tables=len(wts), tables_replayed=len(recs), kinds=kinds, steps=steps, explicit_steps_skipped_for_a_singular_mass_matrix=skipped, tolerance=TOL,
                dofs={k: max((r["dofs"] for r, j in zip(out, jobs) if r and j[0] == k), default=0) for k in kinds})
    if steps + skipped < len(recs) * (len(kinds) - 1) * 0.8:
        from harness.core import MachineryError

        raise MachineryError("real-simulation replay of the time schemes took fewer steps than there are tables")
    ctx.assume("real simulations: K, C, M are those the simulation reports (judged by C03 / C14); loads are nodal loads entered one node at a time; random previous states, one step per table and kind")
