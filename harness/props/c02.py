"""C02 -- K symmetric PSD with exactly the physical kernel; M SPD and carrying the mass.
spec/Spectrum.tla enumerates the configurations and states the expected attributes (kernel
dimension, definiteness class, exact mass total); each configuration is built with the real
code and its matrices are analysed densely."""
from __future__ import annotations

from fractions import Fraction

import numpy as np

from harness.lifecycle import quiet

_MESH_CACHE = {}


def build_mesh(elem, dim, variant=0, shape="box"):
    from EasyFEA import Mesher
    from EasyFEA.FEM import ElemType
    from EasyFEA.Geoms import Domain, Point, Line, Circle

    key = (elem, dim, variant, shape)
    if key in _MESH_CACHE:
        return _MESH_CACHE[key]
    et = ElemType(elem)
    h = [1.6, 1.1][variant]
    with quiet():
        if shape == "round":
            # disk of diameter 2 (cylinder of height 3/2): elements of degree >= 2 along the rim have curved edges
            circle = Circle(Point(0.3, -0.2), 2.0, [1.2, 0.9][variant])
            mesh = Mesher().Mesh_2D(circle, [], et) if et in ElemType.Get_2D() else Mesher().Mesh_Extrude(circle, [], [0, 0, 1.5], [1 if variant == 0 else 2], et)
        elif et in ElemType.Get_1D():
            mesh = Mesher().Mesh_1D(Line(Point(0, 0), Point(3, 0), 1.5 if variant == 0 else 0.8), et)
        elif et in ElemType.Get_2D():
            mesh = Mesher().Mesh_2D(Domain(Point(0, 0), Point(3, 2), h), [], et)
        else:
            mesh = Mesher().Mesh_Extrude(Domain(Point(0, 0), Point(3, 2), 2.1 if variant == 0 else 1.6), [], [0, 0, 2], [1 if variant == 0 else 2], et)
    _MESH_CACHE[key] = mesh
    return mesh


def build(cfg, variant=0):
    from EasyFEA import Models, Simulations, Mesher
    from EasyFEA.FEM import ElemType
    from EasyFEA.Geoms import Domain, Point, Line

    rho = float(Fraction(*cfg["rho"]))
    th = float(Fraction(*cfg["thick"]))
    phys, dim, elem = cfg["phys"], cfg["dim"], cfg["elem"]
    k = 10.0 ** cfg.get("unit", 0)  # unit of length (Spectrum.tla: Units): the same body written in another unit
    with quiet():
        if phys in ("elastic", "thermal") and k != 1.0:
            from harness.lifecycle import clone_mesh_with_coords

            base = build_mesh(elem, dim, variant, cfg.get("shape", "box"))
            scaled = clone_mesh_with_coords(base, base.coord * k)
        if phys == "elastic":
            mesh = build_mesh(elem, dim, variant, cfg.get("shape", "box")) if k == 1.0 else scaled
            mat = Models.Elastic.Isotropic(dim, E=10.0, v=0.25, planeStress=True, thickness=th)
            sim = Simulations.Elastic(mesh, mat, verbosity=False)
        elif phys == "thermal":
            mesh = build_mesh(elem, dim, variant, cfg.get("shape", "box")) if k == 1.0 else scaled
            mat = Models.Thermal(k=2.0, c=1.0, thickness=th)
            sim = Simulations.Thermal(mesh, mat, verbosity=False)
        else:
            section = Mesher().Mesh_2D(Domain(Point(-0.25 * k, -0.125 * k), Point(0.25 * k, 0.125 * k)))
            # 2-D / 3-D beams are inclined so that the local-to-global map is exercised
            dirs = {1: {"ur": (1, 0, 0), "ul": (-1, 0, 0)},
                    2: {"ur": (0.6, 0.8, 0), "ul": (-0.6, 0.8, 0), "dl": (-0.8, -0.6, 0), "dr": (0.8, -0.6, 0)},
                    3: {"ur": (2 / 3, 2 / 3, 1 / 3), "ul": (-2 / 3, 2 / 3, 1 / 3), "dl": (-2 / 3, -1 / 3, -2 / 3), "dr": (1 / 3, -2 / 3, 2 / 3)}}[dim]
            t = dirs[cfg.get("dir", "ur")]
            p1 = Point(3 * k, 0) if (dim == 1 and t[0] < 0) else Point(0, 0)
            p2 = Point(p1.x + 3 * k * t[0], p1.y + 3 * k * t[1], p1.z + 3 * k * t[2])
            line = Line(p1, p2, (1.5 if variant == 0 else 0.8) * k)
            beam = Models.Beam.Isotropic(dim, line, section, 10.0, 0.25)
            mesh = Mesher().Mesh_Beams([beam], elemType=ElemType(elem))
            sim = Simulations.Beam(mesh, Models.Beam.BeamStructure([beam]), verbosity=False, useTimoshenko=(phys == "beamTimo"))
        sim.rho = rho
    return sim


def rigid_modes(sim, cfg):
    """expected zero-energy modes as dof vectors"""
    phys, dim = cfg["phys"], cfg["dim"]
    c = sim.mesh.coord
    n = sim.mesh.Nn
    dofn = sim.Get_dof_n()
    R = []
    if phys == "thermal" or (phys.startswith("beam") and dim == 1):
        R.append(np.ones(n * dofn))
        return np.array(R).T
    tdim = dim
    for d in range(tdim):
        v = np.zeros((n, dofn))
        v[:, d] = 1
        R.append(v.ravel())
    axes = [(0, 1)] if dim == 2 else [(0, 1), (1, 2), (0, 2)]
    for a, b in axes:
        v = np.zeros((n, dofn))
        v[:, a] = -c[:, b]
        v[:, b] = c[:, a]
        if phys.startswith("beam"):
            # rotation dof: axial vector of the infinitesimal rotation about the axis normal to (a, b)
            if dim == 2:
                v[:, 2] = 1.0
            else:
                k = 3 - a - b  # rotation axis index
                sign = 1.0 if (a, b) in ((0, 1), (1, 2)) else -1.0
                v[:, 3 + k] = sign
        R.append(v.ravel())
    return np.array(R).T


def analyse(sim, cfg, which=("K", "M")):
    """returns list of (key, message)"""
    out = []
    phys, dim, elem = cfg["phys"], cfg["dim"], cfg["elem"]
    K, C, M, F = [m.toarray() for m in sim.Get_K_C_M_F()]
    tag = f"{phys}{dim}D/{elem}" + (f"/{cfg['dir']}" if phys.startswith("beam") and cfg.get("dir", "ur") != "ur" else "") + ("/round" if cfg.get("shape", "box") == "round" else "") + (f"/unit1e{cfg['unit']}" if cfg.get("unit", 0) else "")
    used = np.unique(np.concatenate([g.connect.ravel() for g in sim.mesh.Get_list_groupElem()]))
    dofn = sim.Get_dof_n()
    dofs = (used[:, None] * dofn + np.arange(dofn)[None, :]).ravel()
    # beams mix translations and rotations: written in another unit of length the rotational stiffness differs from the
    # translational one by the square of the unit.  A congruence S K S with S = diag(1 on translations, 1 / unit on rotations)
    # keeps symmetry, inertia and kernel (Sylvester) and removes that artificial ill-conditioning before the spectral analysis
    Sd = np.ones(dofs.size)
    if phys.startswith("beam") and cfg.get("unit", 0) and dim > 1:
        kk = 10.0 ** cfg["unit"]
        rot = {2: [2], 3: [3, 4, 5]}[dim]
        Sd = np.array([1.0 / kk if (d_ % dofn) in rot else 1.0 for d_ in dofs])
    if "K" in which:
        Kd = K[np.ix_(dofs, dofs)] * Sd[:, None] * Sd[None, :]
        s = np.abs(Kd).max()
        if np.abs(Kd - Kd.T).max() > 1e-12 * s:
            out.append((f"K-symmetry/{tag}", f"K of {tag} is not symmetric (max asymmetry {np.abs(Kd - Kd.T).max():.3g})"))
        w = np.linalg.eigvalsh((Kd + Kd.T) / 2)
        lam = w.max()
        n0 = int(np.sum(np.abs(w) < 1e-9 * lam))
        nneg = int(np.sum(w < -1e-9 * lam))
        if nneg:
            out.append((f"K-psd/{tag}", f"K of {tag} has {nneg} negative eigenvalues (min {w.min():.3g})"))
        if n0 != cfg["_kernel"]:
            kind = "spurious zero-energy modes" if n0 > cfg["_kernel"] else "missing zero-energy modes"
            out.append((f"K-kernel/{tag}", f"K of {tag} has {n0} zero-energy modes, expected exactly {cfg['_kernel']} ({kind}; mesh with {sim.mesh.Ne} elements)"))
        R = rigid_modes(sim, cfg)[dofs] / Sd[:, None]  # the same modes in the rescaled dofs (S K S)(S^-1 r) = S K r
        res = np.abs(Kd @ R).max() / (s * max(1.0, np.abs(R).max()))
        if res > 1e-9:
            out.append((f"K-rigid/{tag}", f"a physical rigid-body / constant mode of {tag} is not in the kernel of K (|K r| / |K| = {res:.3g})"))
    if "M" in which:
        Mm = C if phys == "thermal" else M
        Md = Mm[np.ix_(dofs, dofs)] * Sd[:, None] * Sd[None, :]
        s = np.abs(Md).max()
        if s == 0:
            out.append((f"M-zero/{tag}", f"mass/capacity matrix of {tag} is zero"))
            return out
        if np.abs(Md - Md.T).max() > 1e-12 * s:
            out.append((f"M-symmetry/{tag}", f"M of {tag} is not symmetric"))
        w = np.linalg.eigvalsh((Md + Md.T) / 2)
        if cfg["_massDefinite"]:
            if w.min() <= 1e-10 * w.max():
                out.append((f"M-definite/{tag}", f"consistent mass (capacity) matrix of {tag} is not positive definite: smallest eigenvalue {w.min():.3g} (largest {w.max():.3g}); {int(np.sum(w <= 1e-10 * w.max()))} null modes"))
        else:
            if w.min() < -1e-10 * w.max():
                out.append((f"M-psd/{tag}", f"beam mass matrix of {tag} has a negative eigenvalue {w.min():.3g}"))
        ntr = 1 if phys == "thermal" else dim
        exp = float(Fraction(*cfg["_massSum"])) * (10.0 ** cfg.get("unit", 0)) ** (3 if phys.startswith("beam") else dim)
        if cfg.get("_massFrom", "domain") == "mesh":
            # round domains: the measure is the one of the mesh (settled by C07), the table gives rho * thickness only
            exp = float(Fraction(*cfg["rho"])) * float(Fraction(*cfg["thick"])) * (sim.mesh.area if dim == 2 else sim.mesh.volume)
        for d in range(ntr):
            idx = np.arange(d, Md.shape[0], dofn)
            tot = Md[np.ix_(idx, idx)].sum()
            if abs(tot - exp) > 1e-10 * exp:
                out.append((f"M-sum/{tag}", f"entries of M of {tag} in direction {d} sum to {tot}, expected rho*measure*thickness = {exp}"))
                break
    return out


def large_group(case):
    """Spectrum.tla LargeConfigs: a structured grid with more than 2^15 elements; sparse checks only"""
    from EasyFEA import Models, Simulations
    from EasyFEA.FEM import ElemType
    from harness.lifecycle import _grid_mesh

    c = case["cfg"]
    tag = f"{c['phys']}2D/{c['elem']}/large"
    out = []
    with quiet():
        mesh = _grid_mesh(c["cells"], c["cells"], ElemType(c["elem"]))
        if c["phys"] == "thermal":
            sim = Simulations.Thermal(mesh, Models.Thermal(k=2.0, c=1.0, thickness=1.0), verbosity=False)
        else:
            sim = Simulations.Elastic(mesh, Models.Elastic.Isotropic(2, E=10.0, v=0.25, planeStress=True, thickness=1.0), verbosity=False)
        sim.rho = 2.0
        K, C, M, F = sim.Get_K_C_M_F()
    if mesh.Ne != case["elements"]:
        from harness.core import MachineryError

        raise MachineryError(f"large group: {mesh.Ne} elements built, the specification says {case['elements']}")
    K = K.tocsr()
    d = K.diagonal()
    if (d <= 0).any():
        out.append((f"K-zero-row/{tag}", f"K of {tag} ({mesh.Ne} elements) has {int((d <= 0).sum())} dofs with a zero diagonal entry: some elements contribute no stiffness"))
    X = mesh.coord
    dofn = sim.Get_dof_n()
    if c["phys"] == "thermal":
        modes = [np.ones(mesh.Nn)]
        T = X[:, 0]
        W = float(T @ (K @ T))
        exp = float(Fraction(*case["unitFieldEnergy"]))
        if abs(W - exp) > 1e-9 * exp:
            out.append((f"K-energy/{tag}", f"energy of the field T = x on the unit square meshed with {mesh.Ne} {c['elem']} is {W}, exact k x area = {exp}"))
    else:
        tx, ty, rz = np.zeros((mesh.Nn, 2)), np.zeros((mesh.Nn, 2)), np.zeros((mesh.Nn, 2))
        tx[:, 0], ty[:, 1] = 1.0, 1.0
        rz[:, 0], rz[:, 1] = -X[:, 1], X[:, 0]
        modes = [m.ravel() for m in (tx, ty, rz)]
        u = np.zeros((mesh.Nn, 2))
        u[:, 0] = X[:, 0]
        W = float(u.ravel() @ (K @ u.ravel()))
        exp = 10.0 / (1 - 0.25**2)  # eps_xx = 1 in plane stress: sigma_xx = E / (1 - v^2), unit area and thickness
        if abs(W - exp) > 1e-9 * exp:
            out.append((f"K-energy/{tag}", f"energy of the field u = (x, 0) on the unit square meshed with {mesh.Ne} {c['elem']} is {W}, exact E / (1 - v^2) = {exp}"))
    for m in modes:
        if np.abs(K @ m).max() > 1e-9 * np.abs(K.data).max() * max(1.0, np.abs(m).max()):
            out.append((f"K-rigid/{tag}", f"a rigid / constant mode is not in the kernel of K of {tag}"))
            break
    Mm = (C if c["phys"] == "thermal" else M).tocsr()
    idx = np.arange(0, Mm.shape[0], dofn)
    tot = float(Mm[idx][:, idx].sum())
    if abs(tot - 2.0) > 1e-9:
        out.append((f"M-sum/{tag}", f"mass / capacity total of {tag} is {tot}, expected rho x measure = 2"))
    return {"viol": [(k_, m_, {"case": case}) for k_, m_ in out], "n": 1, "keys": [("large", c["phys"], c["elem"])], "traces": 1}


def _job(job):
    case, variant, which = job
    cfg = dict(case["cfg"])
    cfg["_kernel"] = case["kernel"]
    cfg["_massSum"] = case["massSum"]
    cfg["_massDefinite"] = case["massDefinite"]
    cfg["_massFrom"] = case.get("massFrom", "domain")
    try:
        sim = build(cfg, variant)
        res = analyse(sim, cfg, which)
    except Exception as ex:
        import traceback

        return {"viol": [(f"build-raises/{cfg['phys']}{cfg['dim']}D/{cfg['elem']}", f"{type(ex).__name__}: {ex} {traceback.format_exc()[-400:]}", {"case": case})], "n": 1, "keys": [], "traces": 1}
    return {"viol": [(k, m, {"case": case, "variant": variant}) for k, m in res], "n": 1, "keys": [(cfg["phys"], cfg["dim"], cfg["elem"], tuple(cfg["rho"]), tuple(cfg["thick"]), cfg.get("dir"), cfg.get("shape"), cfg.get("unit", 0), variant)], "traces": 1}


def kernel_checks(ctx, which=("K", "M"), label="C02", thorough=None):
    thorough = ctx.thorough if thorough is None else thorough
    res = ctx.tlc_must_hold("MC_Spectrum", "MC_Spectrum_thorough.cfg" if thorough else "MC_Spectrum_quick.cfg", what="Spectrum table consistency", workers=4)
    cases = res.prints.get("CASE", [])
    jobs = [(c, 0, which) for c in cases]
    if thorough:
        jobs += [(c, 1, which) for c in cases]
    ctx.pmap(_job, jobs, chunksize=1)
    if "M" in which:
        # the emitting guard holds in one state per value of the dimensions it does not name (density ...): one copy of each is kept
        large = sorted({(c_["cfg"]["phys"], c_["cfg"]["elem"], c_["cfg"]["cells"]): c_ for c_ in res.prints.get("LARGE", [])}.values(), key=lambda c_: (c_["cfg"]["phys"], c_["cfg"]["elem"]))
        if len(large) != 4:
            from harness.core import MachineryError

            raise MachineryError(f"Spectrum.tla emitted {len(large)} large configurations")
        ctx.pmap(large_group, large, chunksize=1)
    ctx.section(label, configurations=len(cases), meshes_per_configuration=2 if thorough else 1, analysed=list(which))
    if cases:
        ctx.sample(cases[0])
    return cases


def run(ctx):
    if ctx.replay:
        import json

        rec = json.load(open(ctx.replay))["case"]
        r = _job((rec["case"], rec.get("variant", 0), ("K", "M")))
        for v in r["viol"]:
            ctx.violation(*v)
        ctx.count(1, distinct_key="replay")
        ctx._distinct.add("r2")
        return
    kernel_checks(ctx)
    ctx.cov["exhaustive"] = True
    ctx.cov["rule"] = "every (physics, dimension, element type, density, thickness) configuration of Spectrum.tla built and analysed densely (eigvalsh, thresholds 1e-9 lambda_max); distinct = configurations x meshes"
    ctx.assume("dense eigen-decomposition with relative threshold 1e-9 separates zero-energy modes (smallest non-zero eigenvalues of these small meshes are > 1e-4 lambda_max)")
