"""C01 -- patch test.  spec/Pipeline.tla enumerates (physics, element type, law, 2-D assumption,
mesh kind, affine map incl. an orientation-reversing one, linear field) and states the exact
expectations; every state is replayed through meshing, Dirichlet data on the whole boundary,
Solve() and the post-processing of strain / stress / energy."""
from __future__ import annotations

from fractions import Fraction as Fr

import numpy as np

from harness.lifecycle import quiet, clone_mesh_with_coords
from harness.props.c11 import PARAMS, FRAMES, km_to_eng

_BASE = {}
SCALE = 1e-3


def f2(q):
    return float(Fr(q[0], q[1]))


def base_mesh(dim, elem, mixed):
    from EasyFEA import Mesher, ElemType
    from EasyFEA.Geoms import Points, Point
    import gmsh

    key = (dim, elem, mixed)
    if key in _BASE:
        return _BASE[key]
    et = ElemType(elem)
    pts = Points([Point(0, 0), Point(4, 0), Point(5, 2), Point(2, 4), Point(0, 3)], 2.2 if dim == 2 else 1.6)
    with quiet():
        if dim == 2 and mixed:
            m = Mesher()
            m._Init_gmsh("occ")
            gmsh.option.setNumber("Mesh.RecombinationAlgorithm", 0)
            gmsh.option.setNumber("Mesh.RecombineMinimumQuality", 0.7)
            surfaces = m._Surfaces(pts, [])[0]
            m._Surfaces_Organize(surfaces, et, False)
            m._Set_PhysicalGroups()
            m._Mesh_Generate(2, et)
            mesh = m._Mesh_Get_Mesh()
        elif dim == 2:
            mesh = Mesher().Mesh_2D(pts, [], et)
        else:
            mesh = Mesher().Mesh_Extrude(pts, [], [0, 0, 2], [2], et)
    _BASE[key] = mesh
    return mesh


def renumber(mesh, seed):
    from EasyFEA.FEM import Mesh
    from EasyFEA.FEM._group_elem import GroupElemFactory

    n = mesh.Nn
    perm = np.random.default_rng(seed).permutation(n)
    coords = np.zeros((n, 3))
    coords[perm] = mesh.coord
    d = {et: GroupElemFactory.Create(et, perm[g.connect], coords) for et, g in mesh.dict_groupElem.items()}
    return Mesh(d)


def make_law(name, dim, ps):
    from EasyFEA import Models

    E = Models.Elastic
    frame = FRAMES["rz(3/5,4/5)"] if dim == 2 else FRAMES["quat(1,2,2,0)"]
    a1 = np.array([float(frame[i][0]) for i in range(3)])
    a2 = np.array([float(frame[i][1]) for i in range(3)])
    if name == "iso":
        return E.Isotropic(dim, E=10.0, v=0.25, planeStress=ps, thickness=0.5 if dim == 2 else 1.0)
    if name == "ti":
        return E.TransverselyIsotropic(dim, axis_l=a1, axis_t=a2, planeStress=ps, thickness=0.5 if dim == 2 else 1.0, **{k: float(v) for k, v in PARAMS["TransverselyIsotropic"][0].items()})
    if name == "ortho":
        return E.Orthotropic(dim, axis_1=a1, axis_2=a2, planeStress=ps, thickness=0.5 if dim == 2 else 1.0, **{k: float(v) for k, v in PARAMS["Orthotropic"][0].items()})
    if name == "aniso":
        o = E.Orthotropic(3, axis_1=a1, axis_2=a2, planeStress=False, **{k: float(v) for k, v in PARAMS["Orthotropic"][0].items()})
        C = np.asarray(o.C)
        if dim == 2:
            # plane-strain sub-block of the rotated 3-D law as a 2-D anisotropic law
            C = C[np.ix_([0, 1, 5], [0, 1, 5])]
        return E.Anisotropic(dim, C, False, thickness=0.5 if dim == 2 else 1.0)
    raise KeyError(name)


def run_beam(i, case):
    from EasyFEA import Models, Simulations, Mesher, ElemType
    from EasyFEA.Geoms import Domain, Point, Line

    c = case["cfg"]
    dim, elem, th, field = c["dim"], c["elem"], c["law"], c["field"]
    welded = c.get("path", "elimination") == "lagrange"
    key = f"beam{dim}D/{elem}/{th}/{field}" + ("/welded" if welded else "")
    viol = []
    amp = f2(case["strain"][0])
    with quiet():
        section = Mesher().Mesh_2D(Domain(Point(-0.25, -0.125), Point(0.25, 0.125)))
        t = {1: np.array([1.0, 0, 0]), 2: np.array([0.6, 0.8, 0]), 3: np.array([2 / 3, 2 / 3, 1 / 3])}[dim]
        # local y axis (deflection direction) perpendicular to the member, in the plane for 2-D
        ny = {1: np.array([0, 1.0, 0]), 2: np.array([-0.8, 0.6, 0]), 3: np.array([-1 / 3, 2 / 3, -2 / 3])}[dim]
        nz = np.cross(t, ny)
        cuts = [0.0, 1.5, 3.0] if welded else [0.0, 3.0]
        beams = []
        for a, b in zip(cuts[:-1], cuts[1:]):
            sec = section if not beams else Mesher().Mesh_2D(Domain(Point(-0.25, -0.125), Point(0.25, 0.125)))
            beams.append(Models.Beam.Isotropic(dim, Line(Point(*(a * t)), Point(*(b * t)), 0.75), sec, 10.0, 0.25, yAxis=tuple(ny)))
        mesh = Mesher().Mesh_Beams(beams, elemType=ElemType(elem))
        sim = Simulations.Beam(mesh, Models.Beam.BeamStructure(beams), verbosity=False, useTimoshenko=(th == "Timo"))
        X = sim.mesh.coord
        s = X @ t  # abscissa along the member
        ends = np.where((np.abs(s) < 1e-12) | (np.abs(s - 3) < 1e-12))[0]
        dofn = sim.Get_dof_n()
        U = np.zeros((sim.mesh.Nn, dofn))
        if field == "axial":
            disp = np.outer(amp * s + 0.002, t)  # rigid offset: every prescribed value is non-zero
            rot = np.zeros((len(s), 3))
        elif field == "curvature":
            disp = np.outer(amp * s**2 / 2, ny)
            rot = np.outer(amp * s, nz)  # rotation vector about local z
        else:  # curvature_y: deflection along local z, rotation vector t x (w' nz) = -w' ny
            disp = np.outer(amp * s**2 / 2, nz)
            rot = np.outer(-amp * s, ny)
        if dim == 1:
            U[:, 0] = disp[:, 0]
            unk = ["x"]
        elif dim == 2:
            U[:, 0], U[:, 1], U[:, 2] = disp[:, 0], disp[:, 1], rot[:, 2]
            unk = ["x", "y", "rz"]
        else:
            U[:, :3], U[:, 3:] = disp, rot
            unk = ["x", "y", "z", "rx", "ry", "rz"]
        for k, name in enumerate(unk):
            sim.add_dirichlet(ends, [U[ends, k]], [name])
        if welded:
            joint = np.where(np.abs(s - 1.5) < 1e-12)[0]
            if joint.size != 2:
                raise RuntimeError(f"expected the two end nodes of the members at the weld, found {joint.size}")
            sim.add_connection_fixed(joint)
            if len(sim.Bc_Lagrange) == 0:
                raise RuntimeError("vacuous: the weld created no Lagrange condition")
        u = sim.Solve().reshape(-1, dofn)
    sc = max(np.abs(U).max(), 1e-12)
    if np.abs(u - U).max() > 1e-8 * sc:
        viol.append((f"field/{key}", f"{key}: constant {field} state prescribed at both ends is not reproduced at the interior nodes (max relative error {np.abs(u - U).max() / sc:.3g})", {"case": case}))
    res = {"axial": "N", "curvature": "Mz", "curvature_y": "My"}[field]
    try:
        val = np.asarray(sim.Result(res, nodeValues=False)).ravel()
        exp = f2(case["force"])
        if np.abs(np.abs(val) - abs(exp)).max() > 1e-7 * abs(exp):
            viol.append((f"force/{key}", f"{key}: reported {res} = {val[:3]}, the constant {field} gives {exp} (sign conventions aside)", {"case": case}))
    except Exception as ex:
        viol.append((f"force-raises/{key}", f"{key}: Result('{res}') raises {type(ex).__name__}: {ex}", {"case": case}))
    return {"viol": viol, "n": 1, "keys": [("beam", dim, elem, th, field, welded)], "traces": 1}


def tie(sim, problemType, interior, bnodes, unknowns, exact):
    """One Lagrange condition per unknown, in the style of examples/LinearizedElasticity/Homog1.py: u_a - u_b = value between an
    interior node and another node, with the value the exact field takes - the problem then goes through the multiplier path."""
    from EasyFEA.FEM._boundary_conditions import LagrangeCondition

    a = int(interior[0])
    b = int(interior[-1]) if interior.size > 1 else int(bnodes[0])
    nodes = np.array([a, b])
    for k, name in enumerate(unknowns):
        dofs = sim.Bc_dofs_nodes(nodes, [name])
        sim._Bc_Add_Lagrange(LagrangeCondition(problemType, nodes, dofs, [name], [exact[a, k] - exact[b, k]], [1, -1]))
    if len(sim.Bc_Lagrange) == 0:
        raise RuntimeError("vacuous: no Lagrange condition was recorded")


def run_case(job):
    i, case = job
    from EasyFEA import Models, Simulations

    c = case["cfg"]
    if c["phys"] == "beam":
        try:
            return run_beam(i, case)
        except Exception as ex:
            import traceback

            return {"viol": [(f"raises/beam{c['dim']}D/{c['elem']}/{c['law']}/{c['field']}", f"{type(ex).__name__}: {ex} | {traceback.format_exc()[-300:]}", {"case": case})], "n": 1, "keys": [], "traces": 1}
    dim, elem = c["dim"], c["elem"]
    viol = []
    lagr = c.get("path", "elimination") == "lagrange"
    key = f"{c['phys']}{dim}D/{elem}/{c['law']}/{c['mesh']}/{c['map']}" + (f"/{c['bc']}" if c.get('bc', 'func') != 'func' else '') + ("/lagrange" if lagr else "") + (f"/unit1e{c['unit']}" if c.get("unit", 0) else "")
    try:
        mesh0 = base_mesh(dim, elem, c["mesh"] == "mixed")
        A = np.array([[f2(q) for q in row] for row in case["A"]])
        A3 = np.eye(3)
        A3[:dim, :dim] = A
        unit = 10.0 ** c.get("unit", 0)  # unit of length: the same body written in another unit (Pipeline.tla: Units)
        coords = (mesh0.coord @ A3.T + np.array([0.3, -0.2, 0.1 if dim == 3 else 0.0])) * unit
        mesh = clone_mesh_with_coords(mesh0, coords)
        if c["mesh"] == "renumbered":
            mesh = renumber(mesh, i)
        bnodes = np.unique(np.concatenate([g.connect.ravel() for g in mesh.Get_list_groupElem(dim - 1)]))
        interior = np.setdiff1d(np.arange(mesh.Nn), bnodes)
        if interior.size == 0:
            raise RuntimeError("vacuous patch test: the mesh has no interior node")
        X = mesh.coord
        with quiet():
            if c["phys"] == "elastic":
                mat = make_law(c["law"], dim, c["ps"])
                sim = Simulations.Elastic(mesh, mat, verbosity=False)
                G = np.array([[f2(q) for q in row] for row in case["G"]]) * SCALE
                off = np.array([0.002, -0.001, 0.0015])[:dim] * unit
                unk = ["x", "y", "z"][:dim]
                funcs = [(lambda x, y, z, k=k: G[k, 0] * x + G[k, 1] * y + (G[k, 2] * z if dim == 3 else 0.0) + off[k]) for k in range(dim)]
                bn = bnodes if c.get("bc", "func") != "array-permuted" else bnodes[np.random.default_rng(7).permutation(bnodes.size)]
                # the (value, unknown) pairs may be listed in any order (the docstring's own example lists "y" before "x"): every second case
                # lists them in reverse
                if i % 2 == 1:
                    funcs_, unk_ = funcs[::-1], unk[::-1]
                else:
                    funcs_, unk_ = funcs, unk
                if c.get("bc", "func") == "func":
                    sim.add_dirichlet(bn, funcs_, unk_)
                else:  # nodal arrays aligned with the node list as given
                    sim.add_dirichlet(bn, [f(X[bn, 0], X[bn, 1], X[bn, 2]) for f in funcs_], unk_)
                exact = X[:, :dim] @ G.T + off
                if lagr:
                    tie(sim, "elastic", interior, bnodes, unk, exact)
                u = sim.Solve().reshape(-1, dim)
            else:
                mat = Models.Thermal(k=2.0, c=1.0, thickness=0.5)
                sim = Simulations.Thermal(mesh, mat, verbosity=False)
                g = np.array([f2(q) for q in case["strain"]])
                g = g / unit  # the same temperatures at the same material points
                tf = lambda x, y, z: g[0] * x + g[1] * y + (g[2] * z if dim == 3 else 0.0) + 3.0
                bn = bnodes if c.get("bc", "func") != "array-permuted" else bnodes[np.random.default_rng(7).permutation(bnodes.size)]
                sim.add_dirichlet(bn, [tf] if c.get("bc", "func") == "func" else [tf(X[bn, 0], X[bn, 1], X[bn, 2])], ["t"])
                exact = (X[:, :dim] @ g + 3.0).reshape(-1, 1)
                if lagr:
                    tie(sim, "thermal", interior, bnodes, ["t"], exact)
                u = sim.Solve().reshape(-1, 1)
        sc = max(np.abs(exact).max(), 1e-12)
        err = np.abs(u - exact).max() / sc
        if err > 1e-9:
            where = "interior" if interior.size and np.abs(u[interior] - exact[interior]).max() / sc > 1e-9 else "boundary"
            viol.append((f"field/{key}", f"{key} (field {c['field']}): the linear field is not reproduced ({where} nodes), max relative error {err:.3g} ({interior.size} interior nodes)", {"case": case}))
        if c["phys"] == "elastic":
            eps_eng = np.array([f2(q) for q in case["strain"]]) * SCALE
            ns = len(eps_eng)
            E_obs = np.asarray(sim.Result("Strain", nodeValues=False)).reshape(-1, ns)
            eps_t = eps_eng.copy()
            eps_t[dim:] /= 2  # tensor shear components
            se = max(np.abs(eps_t).max(), 1e-12)
            if np.abs(E_obs - eps_t).max() > 1e-9 * se:
                viol.append((f"strain/{key}", f"{key} (field {c['field']}): reported strain {E_obs[0]} is not the constant strain of the field {eps_t} (max diff {np.abs(E_obs - eps_t).max():.3g})", {"case": case}))
            S_obs = np.asarray(sim.Result("Stress", nodeValues=False)).reshape(-1, ns)
            S_eng = km_to_eng(np.asarray(mat.S, dtype=float))
            back = S_obs @ S_eng.T
            if np.abs(back - eps_eng).max() > 1e-9 * se:
                viol.append((f"stress/{key}", f"{key} (field {c['field']}): reported stress does not satisfy S sigma = eps for the constant strain of the field (max diff {np.abs(back - eps_eng).max():.3g})", {"case": case}))
            if np.abs(S_obs - S_obs[0]).max() > 1e-9 * max(np.abs(S_obs).max(), 1e-12):
                viol.append((f"stress-constant/{key}", f"{key}: reported stress is not constant over the elements", {"case": case}))
            W = sim.Result("Wdef")
            th = mat.thickness if dim == 2 else 1.0
            Wexp = 0.5 * float(S_obs[0] @ eps_eng) * f2(case["measure"]) * unit**dim * th
            if abs(W - Wexp) > 1e-9 * abs(Wexp) + 1e-18:
                viol.append((f"energy/{key}", f"{key} (field {c['field']}): Wdef = {W}, 1/2 sigma:eps * measure * thickness = {Wexp}", {"case": case}))
    except Exception as ex:
        import traceback

        viol.append((f"raises/{key}", f"{key}: {type(ex).__name__}: {ex} | {traceback.format_exc()[-300:]}", {"case": case}))
    return {"viol": viol, "n": 1, "keys": [(c["phys"], dim, elem, c["law"], c["ps"], c["mesh"], c["map"], c["field"], c.get("bc"), lagr, c.get("unit", 0))], "traces": 1}


def run(ctx):
    if ctx.replay:
        import json

        rec = json.load(open(ctx.replay))["case"]
        r = run_case((0, rec["case"]))
        for v in r["viol"]:
            ctx.violation(*v)
        ctx.count(2, distinct_key="replay")
        ctx._distinct.add("r2")
        return
    res = ctx.tlc_must_hold("MC_Pipeline", f"MC_Pipeline_{'thorough' if ctx.thorough else 'quick'}.cfg", what="oracle sanity", workers=8, timeout=3000)
    cases = res.prints.get("CASE", [])
    if not ctx.thorough:
        # quick: a seeded half of the full product (every element type / law / map / mesh kind still occurs)
        cases = [c for i, c in enumerate(cases) if (i + ctx.seed) % 2 == 0 or c["cfg"]["phys"] == "beam"]
    ctx.pmap(run_case, list(enumerate(cases)), chunksize=8)
    ctx.section("replay", cases=len(cases))
    ctx.sample(cases[0])
    ctx.cov["rule"] = "configuration product enumerated by TLC (Pipeline.tla); each state meshed (integer pentagon / its extrusion), mapped affinely (incl. a reflection), optionally renumbered or mixed-type, solved with the field prescribed on the whole boundary; distinct = configurations"
    ctx.assume("stress is checked through the compliance validated by C11 (S sigma = eps) and the energy through 1/2 sigma:eps * exact measure; comparison at 1e-9 relative")
