"""C17 -- phase-field splits and irreversibility.
(1) spec/Splits.tla: exact Miehe split (and the partition relations) on a lattice of strain states
    with every multiplicity / sign pattern and rational rotations; replayed through Calc_C,
    Calc_Sigma_e_pg, Calc_psi_e_pg with states MIXED inside one element; all 14 splits x 2
    regularisations x isotropic / anisotropic materials are checked for the partition relations.
(2) spec/PhaseFieldHist.tla: load / unload programs enumerated by TLC, run on a tiny real
    PhaseField simulation with the three irreversibility solvers; the stored iterations are reduced
    to counts and validated by Trace_PhaseFieldHist.tla."""
from __future__ import annotations

import json
import os
from fractions import Fraction as Fr

import numpy as np

from harness.lifecycle import quiet, _grid_mesh

SQ2 = np.sqrt(2.0)
EPS = 1e-3


def f2(q):
    return float(Fr(q[0], q[1]))


def to_km(m, d):
    m = np.array([[f2(q) for q in row] for row in m])
    if d == 2:
        return np.array([m[0, 0], m[1, 1], SQ2 * m[0, 1]])
    return np.array([m[0, 0], m[1, 1], m[2, 2], SQ2 * m[1, 2], SQ2 * m[0, 2], SQ2 * m[0, 1]])


def materials(d):
    from EasyFEA import Models

    E = Models.Elastic
    iso = E.Isotropic(d, E=10.0, v=0.25, planeStress=False)
    a1 = np.array([0.6, 0.8, 0.0]) if d == 2 else np.array([1 / 3, 2 / 3, 2 / 3])
    a2 = np.array([-0.8, 0.6, 0.0]) if d == 2 else np.array([2 / 3, -2 / 3, 1 / 3])
    ti = E.TransverselyIsotropic(d, El=8.0, Et=4.0, Gl=2.0, vl=0.25, vt=0.25, axis_l=a1, axis_t=a2, planeStress=False)
    # a law given by its matrix (every coupling present), and the same law after its stiffness was replaced with
    # Set_C(..., update_S=False): the compliance is then deliberately NOT refreshed, so only splits defined from the stiffness
    # alone (He: C^(1/2) and its inverse) are judged on it
    n = 3 if d == 2 else 6
    L = np.eye(n) + np.tril((np.arange(float(n * n)).reshape(n, n) % 5 - 2) * 0.1, -1)
    C0 = L @ L.T * 8.0
    C0 = (C0 + C0.T) / 2
    aniso = E.Anisotropic(d, C0.copy(), False)
    keep = E.Anisotropic(d, C0.copy(), False)
    L1 = np.eye(n) + np.tril((np.arange(float(n * n)).reshape(n, n) % 3 - 1) * 0.2, -1)
    C1 = L1 @ L1.T * 5.0
    keep.Set_C((C1 + C1.T) / 2, False, update_S=False)
    return {"iso": iso, "ti": ti, "aniso": aniso, "aniso-keepS": keep}


def split_job(job):
    d, split, regu, matname, states, seed, generic = job[:7]
    EPS = job[7] if len(job) > 7 else 1e-3
    from EasyFEA import Models
    from EasyFEA.FEM import FeArray

    viol = []
    PF = Models.PhaseField
    key = f"{d}D{'generic' if generic else ''}/{split}/{matname}" + (f"/scale{EPS:g}" if EPS != 1e-3 else "")
    if generic:
        states = [s_ for s_ in states if len({tuple(q) for q in s_["l"]}) == len(s_["l"])]   # pairwise distinct principal values only
    try:
        mat = materials(d)[matname]
        try:
            model = PF(mat, PF.SplitType(split), PF.ReguType(regu), Gc=1.0, l0=0.1)
        except AssertionError:
            return {"viol": [], "n": 0, "keys": [], "traces": 0}  # isotropic split refused for an anisotropic material: documented
        ns = 3 if d == 2 else 6
        # states mixed inside elements: nPg = 3 consecutive (shuffled) states per element
        rng = np.random.default_rng(seed)
        order = rng.permutation(len(states))
        n = (len(order) // 3) * 3
        order = order[:n]
        eps = np.array([to_km(states[i]["eps"], d) for i in order]).reshape(-1, 3, ns) * EPS
        E_ = FeArray.asfearray(eps)
        with np.errstate(all="ignore"):
            sP, sM = model.Calc_Sigma_e_pg(E_)
            pP, pM = model.Calc_psi_e_pg(E_)
        sP, sM, pP, pM = (np.asarray(x) for x in (sP, sM, pP, pM))
        C = np.asarray(mat.C)
        sig = eps @ C.T
        psi = 0.5 * np.einsum("epi,epi->ep", sig, eps)
        ssc = max(np.abs(sig).max(), 1e-30)
        psc = max(np.abs(psi).max(), 1e-30)
        flat = lambda a: a.reshape(n, -1)
        bad = ~np.isfinite(flat(sP)).all(1) | ~np.isfinite(flat(sM)).all(1) | ~np.isfinite(pP.reshape(n)) | ~np.isfinite(pM.reshape(n))
        if bad.any():
            i = order[int(np.argmax(bad))]
            viol.append((f"finite/{key}", f"{key}: non-finite split stress / energy for the strain state l={[str(Fr(*q)) for q in states[i]['l']]} q={states[i]['q']} ({int(bad.sum())} of {n} states, states mixed within elements)", {"split": split, "dim": d, "mat": matname, "state": states[i]}))
        ok = ~bad
        errs = np.abs(flat(sP + sM - sig)).max(1) / ssc
        errs[bad] = 0
        if errs.max() > 1e-9:
            i = order[int(np.argmax(errs))]
            viol.append((f"stress-partition/{key}", f"{key}: sigma+ + sigma- differs from C:eps (rel {errs.max():.3g}) for l={[str(Fr(*q)) for q in states[i]['l']]} q={states[i]['q']}", {"split": split, "dim": d, "mat": matname, "state": states[i]}))
        errp = np.abs((pP + pM - psi).reshape(n)) / psc
        errp[bad] = 0
        if errp.max() > 1e-9:
            i = order[int(np.argmax(errp))]
            viol.append((f"energy-partition/{key}", f"{key}: psi+ + psi- differs from 1/2 eps:C:eps (rel {errp.max():.3g}) for l={[str(Fr(*q)) for q in states[i]['l']]} q={states[i]['q']}", {"split": split, "dim": d, "mat": matname, "state": states[i]}))
        if split in ("Miehe", "Bourdin") and matname == "iso":
            if split == "Miehe":
                expP = np.array([to_km(states[i]["sigP"], d) for i in order]).reshape(-1, 3, ns) * EPS
                exppP = np.array([f2(states[i]["psiP"]) for i in order]).reshape(-1, 3) * EPS**2
            else:
                expP, exppP = sig, psi
            e1 = np.abs(flat(sP - expP)).max(1) / ssc
            e1[bad] = 0
            if e1.max() > 1e-9:
                i = order[int(np.argmax(e1))]
                viol.append((f"spectral/{key}", f"{key}: sigma+ differs from the exact spectral split (rel {e1.max():.3g}) for l={[str(Fr(*q)) for q in states[i]['l']]} q={states[i]['q']} ({int((e1 > 1e-9).sum())} of {n} states)", {"split": split, "dim": d, "mat": matname, "state": states[i]}))
            e2 = np.abs((pP - exppP).reshape(n)) / psc
            e2[bad] = 0
            if e2.max() > 1e-9:
                i = order[int(np.argmax(e2))]
                viol.append((f"spectral-energy/{key}", f"{key}: psi+ differs from the exact value (rel {e2.max():.3g}) for l={[str(Fr(*q)) for q in states[i]['l']]} q={states[i]['q']}", {"split": split, "dim": d, "mat": matname, "state": states[i]}))
    except Exception as ex:
        import traceback

        viol.append((f"raises/{key}", f"{key}: {type(ex).__name__}: {ex} | {traceback.format_exc()[-300:]}", {"split": split, "dim": d, "mat": matname}))
    return {"viol": viol, "n": len(states), "keys": [(d, split, regu, matname, generic, EPS)], "traces": 1}


def neighbourhood_job(job):
    """float neighbourhoods of the lattice states: every exact state is rotated by a random (float) rotation and
    perturbed by symmetric noise of relative size pert; the oracle is numpy's eigh (independent decomposition)."""
    d, split, matname, states, seed, pert = job[:6]
    EPS = job[6] if len(job) > 6 else 1e-3
    from EasyFEA import Models
    from EasyFEA.FEM import FeArray

    PF = Models.PhaseField
    key = f"{d}Dnear/{split}/{matname}" + (f"/scale{EPS:g}" if EPS != 1e-3 else "")
    viol = []
    try:
        mat = materials(d)[matname]
        try:
            model = PF(mat, PF.SplitType(split), PF.ReguType.AT2, Gc=1.0, l0=0.1)
        except AssertionError:
            return {"viol": [], "n": 0, "keys": [], "traces": 0}
        rng = np.random.default_rng(seed)
        n = (len(states) // 3) * 3
        order = rng.permutation(len(states))[:n]
        mats = []
        for i in order:
            m = np.array([[f2(q) for q in row] for row in states[i]["eps"]])[:d, :d]
            Q, _ = np.linalg.qr(rng.standard_normal((d, d)))
            N = rng.standard_normal((d, d))
            m = Q @ m @ Q.T + pert * max(np.abs(m).max(), 1.0) * (N + N.T) / 2
            mats.append((m + m.T) / 2 * EPS)
        mats = np.array(mats)
        if d == 2:
            eps = np.stack([mats[:, 0, 0], mats[:, 1, 1], SQ2 * mats[:, 0, 1]], -1)
        else:
            eps = np.stack([mats[:, 0, 0], mats[:, 1, 1], mats[:, 2, 2], SQ2 * mats[:, 1, 2], SQ2 * mats[:, 0, 2], SQ2 * mats[:, 0, 1]], -1)
        ns = eps.shape[-1]
        eps = eps.reshape(-1, 3, ns)
        with np.errstate(all="ignore"):
            sP, sM = model.Calc_Sigma_e_pg(FeArray.asfearray(eps))
            pP, pM = model.Calc_psi_e_pg(FeArray.asfearray(eps))
        sP, sM, pP, pM = (np.asarray(x) for x in (sP, sM, pP, pM))
        C = np.asarray(mat.C)
        sig = eps @ C.T
        psi = 0.5 * np.einsum("epi,epi->ep", sig, eps)
        ssc, psc = max(np.abs(sig).max(), 1e-30), max(np.abs(psi).max(), 1e-30)
        rec = {"split": split, "dim": d, "mat": matname, "pert": pert, "seed": seed}
        if not (np.isfinite(sP).all() and np.isfinite(sM).all() and np.isfinite(pP).all() and np.isfinite(pM).all()):
            viol.append((f"finite/{key}", f"{key}: non-finite split stress / energy on float neighbours (perturbation {pert:g}) of the lattice states", rec))
            return {"viol": viol, "n": n, "keys": [(d, split, matname, pert, EPS)], "traces": 1}
        e = np.abs(sP + sM - sig).max() / ssc
        if e > 1e-9:
            viol.append((f"stress-partition/{key}", f"{key}: sigma+ + sigma- differs from C:eps (rel {e:.3g}) on float neighbours (perturbation {pert:g})", rec))
        e = np.abs(pP + pM - psi).max() / psc
        if e > 1e-9:
            viol.append((f"energy-partition/{key}", f"{key}: psi+ + psi- differs from 1/2 eps:C:eps (rel {e:.3g}) on float neighbours (perturbation {pert:g})", rec))
        if split == "Miehe" and matname == "iso":
            lam, mu = mat.get_lambda(), mat.get_mu()
            w, V = np.linalg.eigh(mats)
            ep = np.einsum("nik,nk,njk->nij", V, np.maximum(w, 0), V)
            tr = np.maximum(np.trace(mats, axis1=1, axis2=2), 0)
            sp = lam * tr[:, None, None] * np.eye(d) + 2 * mu * ep
            if d == 2:
                exp = np.stack([sp[:, 0, 0], sp[:, 1, 1], SQ2 * sp[:, 0, 1]], -1)
            else:
                exp = np.stack([sp[:, 0, 0], sp[:, 1, 1], sp[:, 2, 2], SQ2 * sp[:, 1, 2], SQ2 * sp[:, 0, 2], SQ2 * sp[:, 0, 1]], -1)
            e = np.abs(sP.reshape(n, ns) - exp).max() / ssc
            if e > 1e-3:
                viol.append((f"spectral/{key}", f"{key}: sigma+ differs from the split built on numpy.linalg.eigh (rel {e:.3g}) on float neighbours (perturbation {pert:g})", rec))
            expp = 0.5 * lam * tr**2 + mu * (np.maximum(w, 0) ** 2).sum(1)
            e = np.abs(pP.reshape(n) - expp).max() / psc
            if e > 1e-3:
                viol.append((f"spectral-energy/{key}", f"{key}: psi+ differs from the value built on numpy.linalg.eigh (rel {e:.3g}) on float neighbours (perturbation {pert:g})", rec))
    except Exception as ex:
        import traceback

        viol.append((f"raises/{key}", f"{key}: {type(ex).__name__}: {ex} | {traceback.format_exc()[-300:]}", {"split": split, "dim": d, "mat": matname}))
    return {"viol": viol, "n": n, "keys": [(d, split, matname, pert, EPS)], "traces": 1}


def history_job(job):
    idx, prog = job
    from EasyFEA import Models, Simulations
    from EasyFEA.FEM import ElemType

    PF = Models.PhaseField
    solver = prog["solver"]
    loads = prog["loads"]
    with quiet():
        mesh = _grid_mesh(3, 3, ElemType(prog.get("elem", "QUAD4")))
        mat = Models.Elastic.Isotropic(2, E=10.0, v=0.25, planeStress=False)
        model = PF(mat, PF.SplitType.Miehe, PF.ReguType.AT2, Gc=1e-4, l0=0.5, solver=PF.SolverType(solver))
        sim = Simulations.PhaseField(mesh, model, verbosity=False)
    between = prog.get("query") == "between"
    bottom = mesh.Nodes_Conditions(lambda x, y, z: y == 0)
    top = mesh.Nodes_Conditions(lambda x, y, z: y == y.max())
    steps = []
    prev_d, prev_h = None, None
    loaded = 0
    for n, l in enumerate(loads):
        with quiet():
            sim.Bc_Init()
            sim.add_dirichlet(bottom, [0, 0], ["x", "y"])
            sim.add_dirichlet(top, [0.0, 2.5e-3 * l], ["x", "y"])
            sim.Solve(tolConv=1e-3, maxIter=50)
            if between:
                for name in ("psiP", "damage"):
                    for nodal in (False, True):
                        sim.Result(name, nodeValues=nodal)
            sim.Save_Iter()
            h = np.asarray(sim.Result("psiP", nodeValues=False)).ravel()
        dstored = np.asarray(sim.Get_results(n)["damage"]).ravel()
        loaded = max(loaded, l)
        st = dict(n=n + 1, load=l, loaded_so_far=int(loaded > 0),
                  damage_decreased=0 if prev_d is None else int(np.sum(dstored < prev_d - 1e-9)),
                  hist_decreased=0 if prev_h is None else int(np.sum(h < prev_h - 1e-12 * max(prev_h.max(), 1e-30))),
                  damage_positive=int(np.sum(dstored > 1e-12)),
                  damage_out_of_range=int(np.sum((dstored < -1e-9) | (dstored > 1 + 1e-9))),
                  dmax=float(dstored.max()))
        steps.append(st)
        prev_d, prev_h = dstored.copy(), h.copy()
    return {"id": f"{solver}/{prog.get('elem', 'QUAD4')}/{prog.get('query', 'none')}/{'-'.join(map(str, loads))}", "solver": solver, "steps": steps}


def run(ctx):
    from EasyFEA import Models

    res = ctx.tlc_must_hold("Splits", "Splits.cfg", what="Partition of the exact split", workers=16, timeout=3000)
    states = res.prints.get("STRAIN", [])
    PF = Models.PhaseField
    jobs = []
    for d in (2, 3):
        sts = [s for s in states if s["dim"] == d]
        for split in [str(s) for s in PF.Get_splits()]:
            for regu in [str(r) for r in PF.Get_regularizations()][: (2 if ctx.thorough else 1)]:
                for matname in ("iso", "ti", "aniso") + (("aniso-keepS",) if split == "He" else ()):
                    jobs.append((d, split, regu, matname, sts, ctx.seed + len(jobs), False))
                    if d == 3:
                        jobs.append((d, split, regu, matname, sts, ctx.seed + len(jobs), True))
    # Splits.tla: Homogeneous - the same states at every strain magnitude of Scales (1e-3 is the magnitude of the jobs above)
    scales = [10.0 ** e for e in (res.prints.get("SCALES") or [[]])[0]]
    if len(scales) < 2:
        from harness.core import MachineryError

        raise MachineryError("Splits.tla did not emit its scales")
    jobs += [j + (sc,) for j in jobs if not j[6] and (ctx.thorough or j[2] == jobs[0][2]) for sc in scales if sc != 1e-3]
    ctx.pmap(split_job, jobs, chunksize=1)
    perts = (0.0, 1e-13, 1e-10, 1e-8, 1e-6, 1e-5, 1e-4) if ctx.thorough else (0.0, 1e-10, 1e-6, 1e-4)
    njobs = []
    for d in (2, 3):
        sts = [s for s in states if s["dim"] == d]
        for split in [str(s) for s in PF.Get_splits()]:
            for matname in ("iso", "ti"):
                for pert in perts:
                    njobs.append((d, split, matname, sts, ctx.seed + 7919 * len(njobs), pert))
    njobs += [j + (sc,) for j in njobs if j[5] in (0.0, 1e-6) for sc in scales if sc != 1e-3]
    ctx.pmap(neighbourhood_job, njobs, chunksize=2)
    ctx.section("splits", strain_states=len(states), jobs=len(jobs), neighbourhood_jobs=len(njobs), perturbations=list(perts), strain_magnitudes=scales)
    ctx.sample({k: states[10][k] for k in ("dim", "q", "l", "eps", "sigP")})
    # ---- history
    r2 = ctx.tlc_must_hold("PhaseFieldHist", "PhaseFieldHist.cfg", what="HistoryMonotone / DamageMonotone / NoLoadNoDamage", workers=8)
    progs = r2.prints.get("PROGRAM", [])
    if not ctx.thorough:
        progs = [p for i, p in enumerate(progs) if (i + ctx.seed) % 11 == 0 or p["loads"] in ([0, 0, 0, 0], [2, 0, 1, 0], [1, 2, 0, 2])]
    traces = ctx.pmap(history_job, list(enumerate(progs)), chunksize=1)
    traces = [t for t in traces if t]
    path = os.path.join(ctx.scratch, "pf_traces.json")
    json.dump(traces, open(path, "w"))
    r3 = ctx.tlc("Trace_PhaseFieldHist", "Trace_PhaseFieldHist.cfg", workers=4, env={"PF_TRACES": path})
    if not r3.ok:
        from harness.core import MachineryError

        raise MachineryError(f"Trace_PhaseFieldHist: {r3.violated}")
    labels = dict(historyDecreased="the driving (history) energy decreased between saved steps", damageDecreased="the stored nodal damage decreased between saved steps",
                  damageWithoutLoad="damage appeared although no load was ever applied", damageOutOfRange="damage outside [0, 1]")
    dmaxs = {}
    for t in traces:
        dmaxs[t["id"]] = max(s["dmax"] for s in t["steps"])
    for v in r3.prints.get("VERDICT", []):
        ctx.traces(1)
        ctx.count(v["nsteps"], distinct_key=v["id"])
        for key, msg in labels.items():
            if v[key]:
                ctx.violation(f"history/{key}/{v['solver']}", f"load program {v['id']}: {msg} at saved steps {v[key]}", {"id": v["id"], "verdict": v})
    ctx.section("history", programs=len(traces), max_damage_reached=max(dmaxs.values()) if dmaxs else 0.0)
    if dmaxs and max(dmaxs.values()) < 0.05:
        from harness.core import MachineryError

        raise MachineryError("vacuous history check: no load program produced damage")
    from harness.props import staggered_trace

    staggered_trace.staggered(ctx)
    ctx.cov["rule"] = "425 exact strain states (all multiplicity / sign patterns x rational rotations) mixed within elements through 14 splits x materials; load programs of PhaseFieldHist.tla run on a real simulation per irreversibility solver; distinct = (dim, split, regularisation, material) + programs"
    ctx.assume("float neighbours (random rotation + symmetric noise) of every lattice state are compared with a split built on numpy.linalg.eigh at 1e-3 relative (the closed-form eigenprojectors are ill-conditioned close to repeated values), the partition relations at 1e-9")
    ctx.assume("exact expectations exist for the isotropic Miehe and Bourdin splits; the other splits are checked for finiteness and the partition relations on the same states")
