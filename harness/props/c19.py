"""C19 -- history-dependent materials.
(1) spec/Plasticity1D.tla: exact rational return map; every TLC path replayed through the 3-D
    code under uniaxial stress (MaterialPoint, both local solvers) and through plane stress.
(2) spec/Trace_Plasticity.tla: traces of random non-proportional strain paths for every accepted
    combination of yield surface / hardening / kinematic / rate law / Maxwell branches, reduced to
    the relations of the property, validated by TLC at every step.
(3) spec/InelasticCommit.tla: commit discipline of Simulations.InElastic, TLC behaviours replayed
    on a real simulation with content hashes of the committed state."""
from __future__ import annotations

import hashlib
import json
import os
from fractions import Fraction

import numpy as np

from harness.lifecycle import quiet

NU = 0.3


def fr(q):
    return float(Fraction(q[0], q[1]))


def make_behavior(m, dim=3, planeStress=False, solver="auto"):
    from EasyFEA import Models

    E, sy, H, C = (fr(m[k]) for k in ("E", "sigy", "H", "C"))
    IE = Models.InElastic
    el = Models.Elastic.Isotropic(3, E=E, v=NU)
    kw = dict(yieldSurface=IE.Yield.VonMises(sy), hardening=IE.IsotropicHardening.Linear(H), solver=solver)
    if C > 0:
        kw["kinematic"] = IE.KinematicHardening.Prager(C)
    return Models.InElastic.Behavior(dim, el, planeStress=planeStress, **kw)


def replay_path(job):
    idx, rec = job
    from EasyFEA.Models.InElastic._materialpoint import MaterialPoint
    from EasyFEA.FEM import FeArray

    viol, keys, n = [], [], 0
    m, steps = rec["mat"], rec["steps"]
    path = np.array([fr(s["eps"]) for s in steps])
    exp_sig = np.array([fr(s["sig"]) for s in steps])
    exp_ep = np.array([fr(s["epsp"]) for s in steps])
    exp_p = np.array([fr(s["p"]) for s in steps])
    scale = max(1.0, np.abs(exp_sig).max())
    mkey = f"E{m['E'][0]}/{m['E'][1]}_H{m['H'][0]}/{m['H'][1]}_C{m['C'][0]}/{m['C'][1]}"
    for solver in ("auto", "newton"):
        try:
            law = make_behavior(m, 3, solver=solver)
            with quiet():
                res = MaterialPoint(law).Run(strain={"xx": path})
        except Exception as ex:
            viol.append((f"uniaxial-raises/{solver}", f"MaterialPoint.Run raises {type(ex).__name__}: {ex} on path {path.tolist()} ({m})", {"path": rec}))
            continue
        got_sig = res["stress"][:, 0]
        got_ep = np.asarray(res["eps_p"])[:, 0]
        got_p = np.asarray(res["p"])
        for nm, g, e in (("stress", got_sig, exp_sig), ("plastic-strain", got_ep, exp_ep), ("accumulated-plastic-strain", got_p, exp_p)):
            if np.abs(g - e).max() > 1e-7 * scale:
                k = int(np.argmax(np.abs(g - e)))
                viol.append((f"uniaxial/{nm}/{solver}", f"uniaxial stress path {path.tolist()} ({m}): {nm} at step {k + 1} is {g[k]}, the exact return map gives {e[k]}", {"path": rec, "solver": solver}))
        lat = np.abs(res["stress"][:, 1:]).max()
        if lat > 1e-7 * scale:
            viol.append((f"uniaxial/lateral-stress/{solver}", f"lateral stresses not zero under uniaxial stress control ({lat})", {"path": rec}))
        tr = np.abs(np.asarray(res["eps_p"])[:, :3].sum(1)).max()
        if tr > 1e-9:
            viol.append((f"uniaxial/traceless/{solver}", f"von Mises plastic strain has trace {tr}", {"path": rec}))
        n += 1
        keys.append((mkey, solver, tuple(np.sign(np.diff(np.concatenate([[0], path]))).astype(int))))
    # plane stress: eps_xx driven, eps_yy solved for sigma_yy = 0 -> the same uniaxial stress state
    law2 = make_behavior(m, 2, planeStress=True)
    z = None
    eyy = 0.0
    for k, e in enumerate(path):
        for _ in range(60):
            eps = FeArray.asfearray(np.array([[[e, eyy, 0.0]]]))
            sig, Calg, zNew, ok = law2.Integrate(eps, z)
            s = np.asarray(sig)[0, 0]
            if abs(s[1]) < 1e-11 * scale:
                break
            eyy -= s[1] / np.asarray(Calg)[0, 0][1, 1]
        if abs(s[0] - exp_sig[k]) > 1e-7 * scale:
            viol.append(("planestress/stress", f"plane-stress integration of path {path.tolist()} ({m}): sigma_xx at step {k + 1} is {s[0]}, exact {exp_sig[k]}", {"path": rec}))
            break
        # algorithmic tangent of the condensed uniaxial problem: d sigma_xx / d eps_xx at sigma_yy = 0
        Cm = np.asarray(Calg)[0, 0]
        tan = Cm[0, 0] - Cm[0, 1] * Cm[1, 0] / Cm[1, 1]
        etan = fr(steps[k]["tangent"])
        # E of the uniaxial bar = Young modulus; the 1-D tangent applies to the uniaxial stress state
        if steps[k]["ftrial"][0] != 0 and abs(tan - etan) > 1e-6 * max(1.0, etan):  # neutral loading (f_trial = 0 exactly) has no unique tangent
            viol.append(("planestress/tangent", f"condensed algorithmic tangent at step {k + 1} of path {path.tolist()} ({m}) is {tan}, exact {etan}", {"path": rec}))
            break
        z = zNew
    n += 1
    return {"viol": viol, "n": n, "keys": keys, "traces": 1}


# ---------------------------------------------------------------------------------------
def combos():
    from EasyFEA import Models

    IE = Models.InElastic
    el = lambda: Models.Elastic.Isotropic(3, E=200.0, v=0.3)
    out = []
    ys = {"VonMises": lambda: IE.Yield.VonMises(1.0), "Hill": lambda: IE.Yield.Hill(1.0, F=0.4, G=0.6, H=0.5, L=1.4, M=1.6, N=1.5)}
    if hasattr(IE.Yield, "DruckerPrager"):
        ys["DruckerPrager"] = lambda: IE.Yield.DruckerPrager(1.0, 0.1) if IE.Yield.DruckerPrager.__code__.co_argcount >= 2 else IE.Yield.DruckerPrager(1.0)
    hs = {"perfect": lambda: None, "Linear": lambda: IE.IsotropicHardening.Linear(10.0), "Voce": lambda: IE.IsotropicHardening.Voce(0.5, 20.0), "Swift": lambda: IE.IsotropicHardening.Swift(2.0, 0.3)}
    ks = {"none": lambda: None, "Prager": lambda: IE.KinematicHardening.Prager(8.0), "AF": lambda: IE.KinematicHardening.ArmstrongFrederick(20.0, 30.0), "Chaboche": lambda: IE.KinematicHardening.Chaboche((30.0, 50.0), (5.0, 0.0))}
    for yn, y in ys.items():
        for hn, h in hs.items():
            for kn, k in ks.items():
                for dim, ps in ((3, False), (2, False), (2, True)):
                    out.append((f"{yn}/{hn}/{kn}/{dim}D{'ps' if ps else ''}", dict(y=y, h=h, k=k, dim=dim, ps=ps, vis=False, pressure_independent=yn in ("VonMises", "Hill"))))
    # visco-elastic branches together with plasticity (time step 0.1): the stress relaxes whether or not the point yields, so the
    # tangent carries the branch terms on elastic steps too; judged by the clauses that do not need the closed form of the stress
    for hn in ("perfect", "Linear"):
        for kn in ("none", "Prager", "AF"):
            for dim, ps in ((3, False), (2, False), (2, True)):
                out.append((f"VonMises+Maxwell/{hn}/{kn}/{dim}D{'ps' if ps else ''}", dict(y=ys["VonMises"], h=hs[hn], k=ks[kn], dim=dim, ps=ps, vis=True, pressure_independent=True)))
    return out, el


def record_combo(job):
    ident, spec, seed = job
    from EasyFEA import Models
    from EasyFEA.FEM import FeArray

    combo_list, el = combos()
    spec = dict(combo_list)[ident]
    rng = np.random.default_rng(seed)
    steps = []
    try:
        laws = {}
        for solver in ("auto", "newton"):
            kw = dict(yieldSurface=spec["y"](), solver=solver)
            h, k = spec["h"](), spec["k"]()
            if h is not None:
                kw["hardening"] = h
            if k is not None:
                kw["kinematic"] = k
            if spec.get("vis"):
                from EasyFEA.Models.InElastic.ViscoElastic import Maxwell

                kw["branches"] = (Maxwell(0.3, 0.5),)
            laws[solver] = Models.InElastic.Behavior(spec["dim"], el(), planeStress=spec["ps"], **kw)
    except Exception as ex:
        return {"id": ident, "rejected": f"{type(ex).__name__}: {ex}", "steps": []}
    law = laws["auto"]
    ns = 3 if spec["dim"] == 2 else 6
    eps = np.zeros(ns)
    z = None
    hard = spec["h"]()
    yld = spec["y"]()
    C6 = np.asarray(law.C)
    slots = law.layout.slots
    vis = bool(spec.get("vis"))
    refused = False
    dt = 0.1 if vis else 0.0
    for n in range(14):
        d = rng.normal(size=ns)
        d *= (0.004 if n % 5 else 0.012) / np.linalg.norm(d)
        if n in (6, 7, 8):
            d = -d  # reversal
        eps = eps + d
        E_ = FeArray.asfearray(eps[None, None])
        zin = None if z is None else FeArray.asfearray(np.array(z))
        zcopy = None if z is None else np.array(z).copy()
        try:
            sig, Calg, zNew, ok = law.Integrate(E_, zin, dt)
            if np.all(ok):
                law.Compute_strain_6d(E_, zNew, 0.0)
        except AssertionError as ex:
            # the library refuses a step it cannot integrate ("... did not converge ...: reduce the load step"): a refusal is not a
            # returned state, the path ends here like one whose convergence flag is False
            if "did not converge" in str(ex):
                refused = True
                break
            raise
        if not np.all(ok):
            break
        st = dict(n=n + 1, admissible=1, dp_nonneg=1, traceless=1, dissipation=1, tangent=1, solvers=1, planestress=1, pure=1)
        if zcopy is not None and not np.array_equal(np.asarray(zin), zcopy):
            st["pure"] = 0
        zN = np.asarray(zNew)[0, 0]
        zO = np.zeros_like(zN) if z is None else np.asarray(z)[0, 0]
        epsp_new, epsp_old = zN[slots["eps_p"]], zO[slots["eps_p"]]
        p_new, p_old = zN[slots["p"]][0], zO[slots["p"]][0]
        if p_new - p_old < -1e-12:
            st["dp_nonneg"] = 0
        if spec["pressure_independent"] and abs(epsp_new[:3].sum()) > 1e-10:
            st["traceless"] = 0
        # 6-D stress from the state: sigma = C : (eps6 - eps_p)
        eps6 = np.asarray(law.Compute_strain_6d(E_, zNew, 0.0))[0, 0]
        sig6 = C6 @ (eps6 - epsp_new)
        Xr = np.asarray(law.Compute_back_stress(zNew))
        X = Xr[0, 0] if Xr.ndim >= 3 else np.zeros(6)
        R = float(np.asarray(hard.R(np.array([[p_new]])))[0, 0]) if hard is not None else 0.0
        f = float(np.asarray(yld.f(FeArray.asfearray((sig6 - X)[None, None]), FeArray.asfearray(np.array([[R]]))))[0, 0])
        # "on or inside the yield surface" to the local solver's accuracy: 1e-7 sigma_y; the plane-stress iteration
        # stops at |sigma_zz| <= 1e-8 sigma_y * stiffness ratio, which moves f by ~1e-7 sigma_y -> 1e-6 there
        if not vis and f > (1e-6 if spec["ps"] else 1e-7):
            st["admissible"] = 0
            st["f"] = f
        diss = (sig6 - X) @ (epsp_new - epsp_old) - R * (p_new - p_old)
        if not vis and diss < -1e-9:
            st["dissipation"] = 0
        if not vis and spec["ps"] and abs(sig6[2]) > 1e-6:
            st["planestress"] = 0
        # tangent by central finite differences from the same committed state
        Cm = np.asarray(Calg)[0, 0]
        # The returned stress carries the noise of the local solver (plane-stress iteration: ~1e-9 sigma_y), so the difference
        # step must stay well above it; a step that straddles the elastic / plastic kink gives a meaningless quotient.  Several
        # step sizes are tried, stencils with a neighbour on the other side of the switch are discarded, and the tangent is wrong
        # only if none of the remaining quotients agrees with it.
        errs = []
        flowing = (p_new - p_old) > 1e-13
        for hfd in (1e-5, 3e-6, 3e-5, 1e-6):
            fd = np.zeros_like(Cm)
            straddles = False
            for j in range(ns):
                ep, em = eps.copy(), eps.copy()
                ep[j] += hfd
                em[j] -= hfd
                try:
                    rp = law.Integrate(FeArray.asfearray(ep[None, None]), zin, dt, withTangent=False)
                    rm = law.Integrate(FeArray.asfearray(em[None, None]), zin, dt, withTangent=False)
                except AssertionError as ex:
                    if "did not converge" not in str(ex):
                        raise
                    straddles = True  # a neighbouring state the library refuses to integrate: no quotient from this stencil
                    break
                for r_ in (rp, rm):  # a neighbour on the other side of the elastic / plastic switch: no derivative across the kink
                    if ((np.asarray(r_[2])[0, 0][slots["p"]][0] - p_old) > 1e-13) != flowing:
                        straddles = True
                fd[:, j] = (np.asarray(rp[0])[0, 0] - np.asarray(rm[0])[0, 0]) / (2 * hfd)
            if straddles:
                continue
            errs.append(float(np.abs(fd - Cm).max() / np.abs(Cm).max()))
            if errs[-1] <= 2e-4:
                break
        if errs and min(errs) > 2e-4:
            st["tangent"] = 0
            st["tangent_err"] = min(errs)
        if not errs:
            st["tangent_skipped"] = 1  # every stencil straddles the yield switch
        try:
            s2 = np.asarray(laws["newton"].Integrate(E_, zin, dt)[0])[0, 0]
        except AssertionError as ex:
            if "did not converge" not in str(ex):
                raise
            s2 = None  # the other local solver refuses this step: nothing to compare
        if s2 is not None and np.abs(s2 - np.asarray(sig)[0, 0]).max() > 1e-7 * max(1.0, np.abs(s2).max()):
            st["solvers"] = 0
        steps.append(st)
        z = np.array(zNew)
    return {"id": ident, "steps": steps, "rejected": "", "refused": refused}


# ---------------------------------------------------------------------------------------
def commit_replay(job):
    idx, beh = job
    from EasyFEA import Models, Simulations
    from EasyFEA.FEM import ElemType
    from harness.lifecycle import _grid_mesh

    IE = Models.InElastic
    viol, n = [], 0
    with quiet():
        if idx % 2 == 0:
            mesh = _grid_mesh(2, 1, ElemType.QUAD4)
        else:
            # two element groups of the main dimension: quadrangles on the left, triangles on the right (the internal state is
            # kept per group: every group must go through the trial / commit cycle)
            from EasyFEA import Mesher
            from EasyFEA.FEM import Mesh
            from EasyFEA.Geoms import Domain, Point

            mq = Mesher().Mesh_2D(Domain(Point(0, 0), Point(0.5, 1), 0.5), [], ElemType.QUAD4, isOrganised=True)
            mt = Mesher().Mesh_2D(Domain(Point(0.5, 0), Point(1, 1), 0.5), [], ElemType.TRI3, isOrganised=True)
            mesh = Mesh.Merge([mq, mt])
        law = Models.InElastic.Behavior(2, Models.Elastic.Isotropic(3, E=200.0, v=0.3), yieldSurface=IE.Yield.VonMises(1.0), hardening=IE.IsotropicHardening.Linear(20.0), kinematic=IE.KinematicHardening.Prager(10.0))
        sim = Simulations.InElastic(mesh, law, verbosity=False)
    left = mesh.Nodes_Conditions(lambda x, y, z: x == 0)
    right = mesh.Nodes_Conditions(lambda x, y, z: x == x.max())

    def h(d):
        # a state that has not been touched yet is created lazily as zeros: empty and all-zero states are the same state
        arrs = [np.ascontiguousarray(np.asarray(d[k], dtype=float)) for k in sorted(d, key=str)]
        if not arrs or all(not a.any() for a in arrs):
            return "zero"
        m = hashlib.sha1()
        for a in arrs:
            m.update(a.tobytes())
        return m.hexdigest()[:12]

    def committed():
        return h(getattr(sim, "_InElastic__zOld"))

    solved = False
    tok = {0: committed()}  # token -> hash of the committed state
    trail = []
    snaps = []
    for st in beh:
        a = st["act"]
        trail.append(f"{a['name']}({a['arg']})")
        before = committed()
        try:
            with quiet():
                if a["name"] == "Solve":
                    solved = True
                    lvl = a["arg"]
                    sim.Bc_Init()
                    sim.add_dirichlet(left, [0, 0], ["x", "y"])
                    sim.add_dirichlet(right, [0.004 * lvl * (1 if lvl % 3 else -1)], ["x"])
                    sim.Solve()
                elif a["name"] == "Result":
                    for nm in ("Svm", "p", "Sxx"):
                        sim.Result(nm)
                elif a["name"] == "SaveIter":
                    sim.Save_Iter()
                    snaps.append((sim.displacement.copy(), committed()))
                    zc = getattr(sim, "_InElastic__zOld")
                    if solved and zc:
                        # every element group of the mesh has gone through the trial / commit cycle: the committed state of a group
                        # that is missing restarts from the virgin state at every step
                        lacking = [str(g.elemType) for g in mesh.Get_list_groupElem(mesh.dim) if g.elemType not in zc]
                        if lacking:
                            viol.append(("commit/groups", f"after Save_Iter() the committed internal state has no entry for the element group(s) {lacking} of a mesh with {[str(g.elemType) for g in mesh.Get_list_groupElem(mesh.dim)]}, after {' -> '.join(trail)}", {"behaviour": [s_['act'] for s_ in beh[: len(trail)]], "mesh": "QUAD4+TRI3"}))
                            break
                elif a["name"] == "SetIter":
                    sim.Set_Iter(a["arg"] - 1)
                elif a["name"] == "GetResults":
                    sim.Get_results(a["arg"] - 1)
        except Exception as ex:
            viol.append((f"commit/raises/{a['name']}", f"{a['name']} raises {type(ex).__name__}: {ex} after {' -> '.join(trail)}", {"behaviour": [s['act'] for s in beh]}))
            break
        after = committed()
        n += 1
        case = {"behaviour": [s["act"] for s in beh[: len(trail)]]}
        if a["name"] in ("Solve", "Result", "GetResults") and after != before:
            viol.append((f"commit/pure/{a['name']}", f"{a['name']} changed the committed internal state, after {' -> '.join(trail)}", case))
            break
        if a["name"] == "Solve":
            # the trial state this Solve leaves behind carries the specification's token st["z"] (unique per Solve of a behaviour):
            # a later SaveIter must commit exactly this content (Commit: zOld' = z), also when a SetIter came in between
            tok.setdefault(st["z"], h(getattr(sim, "_InElastic__z")))
        if a["name"] == "SetIter":
            u_exp, z_exp = snaps[a["arg"] - 1]
            if after != z_exp or np.abs(sim.displacement - u_exp).max() > 0:
                viol.append(("commit/restore", f"Set_Iter({a['arg'] - 1}) does not bring back the displacement / internal state saved with that iteration, after {' -> '.join(trail)}", case))
                break
        # the specification's token for the committed state must map to one content hash
        if st["zOld"] in tok and tok[st["zOld"]] != after:
            viol.append((f"commit/state/{a['name']}", f"committed state differs from the one the specification prescribes (token {st['zOld']}) after {' -> '.join(trail)}", case))
            break
        tok.setdefault(st["zOld"], after)
        # stored iterations frozen
        for k, (u0, z0) in enumerate(snaps):
            r = sim.Get_results(k)
            if h(r["state"]) != z0 or np.abs(r["displacement"] - u0).max() > 0:
                viol.append(("commit/store-changed", f"stored iteration {k} changed after {' -> '.join(trail)}", case))
                break
    return {"viol": viol, "n": n, "keys": [("commit", tuple(trail[:4]))], "traces": 1}


def commit_section(ctx, num, seed, label="commit"):
    """spec/InelasticCommit.tla model-checked, then `num` of its behaviours replayed on a real Simulations.InElastic (shared by
    C19: integration is pure / only SaveIter commits, and C15: SetIter brings back the displacement AND the internal state
    saved with the iteration, SaveIter stores the state the simulation is in)."""
    from harness.lifecycle import split_behaviours

    ctx.tlc_must_hold("InelasticCommit", "InelasticCommit_mc.cfg", what="Pure/Commit/StoreFrozen")
    r3 = ctx.tlc("InelasticCommit", "InelasticCommit_sim.cfg", workers=1, args=["-simulate", f"num={num}", "-depth", "10", "-seed", str(seed)])
    _, behs = split_behaviours(r3.prints.get("ST", []))
    ctx.pmap(commit_replay, list(enumerate(behs)))
    ctx.section(label, behaviours=len(behs), actions=sorted({s["act"]["name"] for b in behs for s in b}))


def run(ctx):
    t = "thorough" if ctx.thorough else "quick"
    res = ctx.tlc_must_hold("MC_Plasticity1D", f"MC_Plasticity1D_{t}.cfg", what="Admissible/Consistency/Dissipative/PMonotone", timeout=3000)
    paths = res.prints.get("PATH", [])
    if not ctx.thorough:
        paths = [p for i, p in enumerate(paths) if i % 4 == ctx.seed % 4]  # a quarter of the exhaustive path set per quick run (seeded)
    ctx.pmap(replay_path, list(enumerate(paths)))
    ctx.section("uniaxial_paths", replayed=len(paths))
    ctx.sample({"mat": paths[0]["mat"], "eps": [s["eps"] for s in paths[0]["steps"]], "sig": [s["sig"] for s in paths[0]["steps"]]})
    # (2) combos
    clist, _ = combos()
    jobs = [(ident, None, ctx.seed * 1000 + i + s * 77) for i, (ident, _) in enumerate(clist) for s in range(3 if ctx.thorough else 1)]
    recs = ctx.pmap(record_combo, jobs)
    recs = [r for r in recs if r is not None]
    rejected = sorted({r["id"] for r in recs if r.get("rejected")})
    traces = [r for r in recs if r.get("steps")]
    path = os.path.join(ctx.scratch, "plasticity_traces.json")
    json.dump(traces, open(path, "w"))
    r2 = ctx.tlc("Trace_Plasticity", "Trace_Plasticity.cfg", workers=8, env={"PLASTICITY_TRACES": path}, timeout=1200)
    if not r2.ok:
        from harness.core import MachineryError

        raise MachineryError(f"Trace_Plasticity: {r2.violated} {r2.counterexample[:1500]}")
    labels = dict(admissible="stress outside the yield surface", multiplier="accumulated plastic strain decreased", traceless="plastic strain not traceless", dissipation="negative dissipation",
                  tangent="algorithmic tangent is not the derivative of the stress", solvers="the two local solvers disagree", planestress="out-of-plane stress in plane stress", pure="Integrate modified the committed state")
    for v in r2.prints.get("VERDICT", []):
        ctx.traces(1)
        ctx.count(v["nsteps"], distinct_key=v["id"])
        for key, msg in labels.items():
            if v[key]:
                parts = v["id"].split("/")
                ctx.violation(f"combo/{key}/{parts[0]}/{parts[2]}/{parts[3]}", f"{v['id']}: {msg} at steps {v[key][:6]}", {"id": v["id"], "verdict": v})
    ctx.section("combinations", recorded=len(traces), rejected_by_constructor=rejected, paths_ended_by_a_refused_step=sum(1 for r in recs if r.get("refused")))
    # (3) commit discipline
    commit_section(ctx, 60 if ctx.thorough else 16, ctx.seed + 3)
    ctx.cov["rule"] = "exhaustive uniaxial strain paths of Plasticity1D.tla replayed (3-D code, two local solvers, plane stress); random non-proportional traces per constitutive combination validated by TLC; commit-discipline behaviours replayed; distinct = (material, solver, sign pattern) + combinations"
    ctx.assume("laws without closed form (Voce, Swift, Armstrong-Frederick, Hill, ...) are checked through the relations of the property only (signs, finite-difference tangent at 2e-4 relative, central differences with steps 1e-5 / 3e-6 / 3e-5 - the stress carries the local solver's noise of about 1e-9)")
