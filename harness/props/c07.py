"""C07 -- quadrature rules.  spec/Quadrature.tla
Direction B: every rule the library offers is recorded (sum of weights, smallest barycentric
coordinate, moments of all monomials up to documented order + 2, snapped at 1e-13) and TLC
decides exactness against the exact reference integrals.  Direction A: mesh measures, centroids
and second moments of integer boxes against TLC-computed rationals; rank of assembled stiffness
matrices (shared with C02)."""
from __future__ import annotations

import itertools
import json
import os
from fractions import Fraction

import numpy as np

SHAPES = {"SEG": ("SEG2", 1), "TRI": ("TRI3", 2), "QUAD": ("QUAD4", 2), "TETRA": ("TETRA4", 3), "HEXA": ("HEXA8", 3), "PRISM": ("PRISM6", 3)}
CANDIDATES = {"SEG": list(range(1, 9)), "TRI": [1, 3, 6, 7, 12], "QUAD": [4, 9], "TETRA": [1, 4, 5, 15], "HEXA": [8, 27], "PRISM": [6, 8, 21]}
DOCMAX = {"SEG": lambda n: 2 * n - 1, "TRI": {1: 1, 3: 2, 6: 3, 7: 4, 12: 5}.get, "QUAD": {4: 1, 9: 2}.get, "TETRA": {1: 1, 4: 2, 5: 3, 15: 5}.get, "HEXA": {8: 3, 27: 5}.get, "PRISM": {6: 3, 8: 3, 21: 5}.get}


def snap(x, tol=1e-13):
    f = Fraction(float(x)).limit_denominator(10**6)
    if abs(float(f) - x) <= tol * max(1.0, abs(x)):
        return [f.numerator, f.denominator]
    f = Fraction(float(x)).limit_denominator(10**8)  # off the lattice: keep a nearby rational, TLC will see it differs
    return [f.numerator, f.denominator]


def minbary(shape, c):
    c = np.asarray(c, dtype=float)
    if shape in ("SEG",):
        return min(1 - abs(c[0]), 1.0)
    if shape == "QUAD":
        return min(1 - abs(c[0]), 1 - abs(c[1]))
    if shape == "HEXA":
        return min(1 - abs(c[i]) for i in range(3))
    if shape == "TRI":
        return min(c[0], c[1], 1 - c[0] - c[1])
    if shape == "TETRA":
        return min(c[0], c[1], c[2], 1 - c[0] - c[1] - c[2])
    if shape == "PRISM":
        return min(c[0], c[1], 1 - c[0] - c[1], 1 - abs(c[2]))


def record():
    from EasyFEA.FEM import ElemType, MatrixType
    from EasyFEA.FEM._gauss import Gauss
    from EasyFEA.FEM._group_elem import GroupElemFactory

    rules = []
    for shape, (et, dim) in SHAPES.items():
        for n in CANDIDATES[shape]:
            rec = dict(shape=shape, nPg=n, available=True, sumw=[0, 1], minbary=0, moments=[], error="")
            try:
                g = Gauss(ElemType(et), n)
                coord, w = np.asarray(g.coord, dtype=float).reshape(n, dim), np.asarray(g.weights, dtype=float)
            except Exception as ex:
                rec["available"] = False
                rec["error"] = f"{type(ex).__name__}: {ex}"
                rules.append(rec)
                continue
            rec["sumw"] = snap(w.sum())
            mb = min(minbary(shape, c) for c in coord)
            rec["minbary"] = int(np.floor(mb * 10**9)) if mb < 0 else int(mb * 10**9)
            qmax = DOCMAX[shape](n) + 2
            for e in itertools.product(range(qmax + 1), repeat=3):
                if sum(e) > qmax or any(e[k] for k in range(dim, 3)):
                    continue
                val = float(np.sum(w * np.prod([coord[:, k] ** e[k] for k in range(dim)], axis=0)))
                rec["moments"].append([list(e), snap(val)])
            rules.append(rec)
    factory = []
    for et, info in GroupElemFactory.DICT_ELEMTYPE.items():
        gid, nPe, dim, order = info[:4]
        if dim == 0:
            continue
        for mt in MatrixType.Get_types():
            try:
                g = Gauss(et, mt)
            except Exception:
                continue
            factory.append(dict(elem=str(et), matrix=str(mt), nPg=int(g.nPg), nPe=nPe, dim=dim, order=order))
    return rules, factory


BOXES = {2: (3, 2), 3: (3, 2, 2)}


def mesh_level(ctx, expected):
    """Direction A: length/area/volume, centroid and second moments of integer boxes."""
    from EasyFEA import Mesher
    from EasyFEA.FEM import ElemType, MatrixType
    from EasyFEA.Geoms import Domain, Point, Line
    from harness.lifecycle import quiet

    for et in ElemType.Get_1D() + ElemType.Get_2D() + ElemType.Get_3D():
        et = ElemType(et)
        dim = 1 if et in ElemType.Get_1D() else 2 if et in ElemType.Get_2D() else 3
        try:
            with quiet():
                if dim == 1:
                    mesh = Mesher().Mesh_Beams([__import__("EasyFEA").Geoms.Line(Point(0, 0), Point(3, 0), 1.0)], et) if False else Line(Point(0, 0), Point(3, 0), 0.75).Mesh_1D(et) if hasattr(Line, "Mesh_1D") else None
                elif dim == 2:
                    mesh = Mesher().Mesh_2D(Domain(Point(0, 0), Point(3, 2), 0.9), [], et)
                else:
                    mesh = Mesher().Mesh_Extrude(Domain(Point(0, 0), Point(3, 2), 1.1), [], [0, 0, 2], [2], et)
        except Exception as ex:
            ctx.section("mesh_level", **{f"skipped_{et}": f"{type(ex).__name__}: {ex}"})
            continue
        if mesh is None:
            continue
        size = (3,) if dim == 1 else BOXES[dim]
        for key, e in expected.items():
            d_, exps = key
            if d_ != dim:
                continue
            expv = float(Fraction(e[0], e[1]))
            f = lambda x, y, z, ex=exps: x ** ex[0] * y ** ex[1] * z ** ex[2]
            got = sum(float(np.sum(g.Integrate_e(f, MatrixType.mass))) for g in mesh.Get_list_groupElem(dim))
            if abs(got - expv) > 1e-10 * max(1.0, abs(expv)):
                if sum(exps) <= 1 or sum(exps) <= 2:
                    ctx.violation(f"mesh-integral/{et}/deg{sum(exps)}", f"integral of x^{exps[0]} y^{exps[1]} z^{exps[2]} over the {size} box meshed with {et} is {got}, exact value {expv}", {"elem": str(et), "exps": list(exps)})
            ctx.count(1, distinct_key=("mesh", str(et), exps))
        meas = mesh.length if dim == 1 else mesh.area if dim == 2 else mesh.volume
        exm = float(np.prod(size))
        if abs(meas - exm) > 1e-11 * exm:
            ctx.violation(f"mesh-measure/{et}", f"measure of the {size} box meshed with {et} is {meas}, exact {exm}", {"elem": str(et)})
        c = np.asarray(mesh.center)[:dim]
        if np.abs(c - np.array(size) / 2).max() > 1e-11 * max(size):
            ctx.violation(f"mesh-center/{et}", f"centroid of the {size} box meshed with {et} is {c}", {"elem": str(et)})
        # the same mesh object re-coordinated in place by an affine (non-rigid) map: sizes follow the new geometry
        A = np.array([[2.0, 0.5, 0.0], [0.0, 1.5, 0.0], [0.0, 0.0, 0.5]])
        shift = np.array([1.0, -2.0, 0.5])
        _ = [getattr(g, {1: "length_e", 2: "area_e", 3: "volume_e"}[dim]) for g in mesh.Get_list_groupElem(dim)]  # sizes read once before the change
        with quiet():
            mesh.coord = mesh.coord @ A.T + shift
        factor = {1: 2.0, 2: 3.0, 3: 1.5}[dim]
        meas2 = mesh.length if dim == 1 else mesh.area if dim == 2 else mesh.volume
        sizes2 = sum(float(np.sum(getattr(g, {1: "length_e", 2: "area_e", 3: "volume_e"}[dim]))) for g in mesh.Get_list_groupElem(dim))
        int2 = sum(float(np.sum(g.Integrate_e(lambda x, y, z: 1.0 + 0 * x, MatrixType.mass))) for g in mesh.Get_list_groupElem(dim))
        for what, val in (("measure", meas2), ("element sizes", sizes2), ("integral of 1", int2)):
            if abs(val - factor * exm) > 1e-10 * factor * exm:
                ctx.violation(f"mesh-recoordinated/{et}", f"{what} of the {size} box meshed with {et} after mesh.coord = A X + b (|det A| = {factor} on the mesh's dimension) is {val}, exact {factor * exm}", {"elem": str(et), "what": what})
        c2 = np.asarray(mesh.center)
        cexp = A @ np.array(list(np.array(size) / 2) + [0.0] * (3 - dim)) + shift
        if np.abs(c2 - cexp).max() > 1e-10 * np.abs(cexp).max():
            ctx.violation(f"mesh-recoordinated-center/{et}", f"centroid of the re-coordinated {size} box meshed with {et} is {c2}, exact {cexp}", {"elem": str(et)})
        ctx.count(1, distinct_key=("mesh-recoordinated", str(et)))
        # placement and unit of length (the scaling law of the measure is the one Pipeline.tla states and TLC checks): the re-coordinated
        # mesh - general straight-sided elements - far from the origin, then written in a unit 1e9 times larger. Measures, sizes and the
        # integral of 1 are compared at 1e-7 (far from the origin every coordinate difference has lost seven digits)
        meas_ref = factor * exm
        for label, fn, kpow in (("far", lambda X: X + np.array([5.0e5, 4.5e6, 0.0]), 0), ("unit1e-9", lambda X: X * 1e-9, 1)):
            with quiet():
                mesh.coord = fn(mesh.coord)
            k = (1e-9 ** dim) if kpow else 1.0
            meas3 = mesh.length if dim == 1 else mesh.area if dim == 2 else mesh.volume
            sizes3 = sum(float(np.sum(getattr(g, {1: "length_e", 2: "area_e", 3: "volume_e"}[dim]))) for g in mesh.Get_list_groupElem(dim))
            int3 = sum(float(np.sum(g.Integrate_e(lambda x, y, z: 1.0 + 0 * x, MatrixType.mass))) for g in mesh.Get_list_groupElem(dim))
            int3r = sum(float(np.sum(g.Integrate_e(lambda x, y, z: 1.0 + 0 * x, MatrixType.rigi))) for g in mesh.Get_list_groupElem(dim))
            for what, val in (("measure", meas3), ("element sizes", sizes3), ("integral of 1 (mass rule)", int3), ("integral of 1 (stiffness rule)", int3r)):
                if not abs(val - k * meas_ref) <= 1e-7 * k * meas_ref:
                    ctx.violation(f"mesh-placed/{label}/{et}", f"{what} of the re-coordinated {size} box meshed with {et}, {'translated by (5e5, 4.5e6)' if label == 'far' else 'then written in a unit 1e9 times larger'}, is {val}, exact {k * meas_ref}", {"elem": str(et), "what": what, "placement": label})
                    break
            ctx.count(1, distinct_key=("mesh-placed", label, str(et)))


def mesh_level_rules(ctx, measured):
    """Every rule (every point count accepted per shape), used through an element group: `Get_weightedJacobian_e_pg(n)` sums
    to the measure of an integer box and `Integrate_e(f, n)` integrates the monomials the rule is exact for, on straight-sided
    (affinely mapped) elements.  A rule is more than its table: signs of weights and of Jacobians meet here."""
    from EasyFEA import Mesher
    from EasyFEA.FEM import ElemType
    from EasyFEA.Geoms import Domain, Point, Line
    from harness.lifecycle import quiet

    for shape, (et, dim) in SHAPES.items():
        with quiet():
            if dim == 1:
                mesh = Line(Point(0, 0), Point(3, 0), 0.75).Mesh_1D(ElemType(et)) if hasattr(Line, "Mesh_1D") else None
            elif dim == 2:
                mesh = Mesher().Mesh_2D(Domain(Point(0, 0), Point(3, 2), 1.0), [], ElemType(et), isOrganised=(shape == "QUAD"))
            else:
                mesh = Mesher().Mesh_Extrude(Domain(Point(0, 0), Point(3, 2), 1.0), [], [0, 0, 2], [2], ElemType(et), isOrganised=(shape != "TETRA"))
        if mesh is None:
            continue
        size = (3,) if dim == 1 else BOXES[dim]
        # the mesh is also reflected: negative Jacobians must not change a measure
        for variant in ("as meshed", "reflected"):
            if variant == "reflected":
                with quiet():
                    mesh.Symmetry((0, 0, 0), (1, 0, 0))
                    mesh.Translate(3, 0, 0)
            for n in CANDIDATES[shape]:
                order = measured.get(f"{shape}/{n}")
                if order is None:
                    continue
                groups = mesh.Get_list_groupElem(dim)
                try:
                    meas = sum(float(np.sum(np.asarray(g.Get_weightedJacobian_e_pg(n)))) for g in groups)
                except Exception as ex:
                    ctx.violation(f"rule-on-mesh-raises/{shape}/{n}", f"Get_weightedJacobian_e_pg({n}) on {et} raises {type(ex).__name__}: {ex}", {"shape": shape, "nPg": n})
                    continue
                exm = float(np.prod(size))
                if abs(meas - exm) > 1e-10 * exm:
                    ctx.violation(f"rule-on-mesh/measure/{shape}/{n}", f"the weighted Jacobians of the {n}-point {shape} rule on the {size} box meshed with {et} ({variant}) sum to {meas}, exact measure {exm}", {"shape": shape, "nPg": n, "variant": variant})
                for e in itertools.product(range(3), repeat=3):
                    if sum(e) > min(int(order), 2) or any(e[k] for k in range(dim, 3)):
                        continue
                    expv = 1.0
                    for k in range(dim):
                        expv *= size[k] ** (e[k] + 1) / (e[k] + 1)
                    f = lambda x, y, z, ex=e: x ** ex[0] * y ** ex[1] * z ** ex[2] + 0.0 * x
                    got = sum(float(np.sum(g.Integrate_e(f, n))) for g in groups)
                    if abs(got - expv) > 1e-10 * max(1.0, abs(expv)):
                        ctx.violation(f"rule-on-mesh/integral/{shape}/{n}", f"Integrate_e(x^{e[0]} y^{e[1]} z^{e[2]}, {n}) over the {size} box meshed with {et} ({variant}) is {got}, exact {expv} (the rule is exact to degree {order})", {"shape": shape, "nPg": n, "exps": list(e), "variant": variant})
                    ctx.count(1, distinct_key=("rule-on-mesh", shape, n, e, variant))


def integer_typed_coordinates(ctx):
    """the same points written in an integer array: segments and triangles embedded in the plane / in space (their coordinates
    are re-expressed in the element's own axes) keep their lengths and areas; also after `coord = <integer array>`."""
    from EasyFEA.FEM import ElemType, Mesh
    from EasyFEA.FEM._group_elem import GroupElemFactory

    cases = [
        ("SEG2 in the plane", ElemType.SEG2, [[0, 0, 0], [1, 1, 0], [3, 3, 0], [4, 4, 0]], [[0, 1], [1, 2], [2, 3]], 4 * 2**0.5),
        ("SEG2 in space", ElemType.SEG2, [[0, 0, 0], [1, 2, 2], [2, 4, 4]], [[0, 1], [1, 2]], 6.0),
        ("TRI3 in space", ElemType.TRI3, [[0, 0, 0], [1, 0, 1], [0, 1, 2], [1, 1, 3]], [[0, 1, 2], [1, 3, 2]], 6**0.5),
        ("QUAD4 in space", ElemType.QUAD4, [[0, 0, 0], [2, 0, 1], [2, 3, 1], [0, 3, 0]], [[0, 1, 2, 3]], 3 * 5**0.5),
        ("TRI3 in the plane", ElemType.TRI3, [[0, 0, 0], [3, 0, 0], [0, 2, 0], [3, 2, 0]], [[0, 1, 2], [1, 3, 2]], 6.0),
    ]
    for label, et, pts, conn, exact in cases:
        for dt in (float, np.int64, np.int32, np.float32):
            g = GroupElemFactory.Create(et, np.array(conn), np.array(pts, dtype=dt))
            meas = g.length if g.dim == 1 else g.area
            if abs(meas - exact) > 1e-6 * exact if dt is np.float32 else abs(meas - exact) > 1e-12 * exact:
                ctx.violation(f"typed-coordinates/{label}", f"{label} built from a coordinate array of type {np.dtype(dt).name} measures {meas}, exact {exact}", {"case": label, "dtype": np.dtype(dt).name})
            # re-coordinated with an integer array (doubled): the measure scales with it
            mesh = Mesh({et: GroupElemFactory.Create(et, np.array(conn), np.array(pts, dtype=float))})
            mesh.coord = (2 * np.array(pts)).astype(dt)
            m2 = mesh.length if g.dim == 1 else mesh.area
            ex2 = exact * (2 if g.dim == 1 else 4)
            if abs(m2 - ex2) > (1e-6 if dt is np.float32 else 1e-12) * ex2:
                ctx.violation(f"typed-coordinates-set/{label}", f"{label} re-coordinated with an array of type {np.dtype(dt).name} measures {m2}, exact {ex2}", {"case": label, "dtype": np.dtype(dt).name})
            ctx.count(2, distinct_key=("typed-coordinates", label, np.dtype(dt).name))


def run(ctx):
    rules, factory = record()
    path = os.path.join(ctx.scratch, "quad_tables.json")
    json.dump({"rules": rules, "factory": factory}, open(path, "w"))
    res = ctx.tlc("Quadrature", "Quadrature.cfg", workers=8, env={"QUAD_TABLES": path}, timeout=3000)
    if not res.ok:
        from harness.core import MachineryError

        raise MachineryError(f"Quadrature: {res.violated} {res.counterexample[:1500]}")
    verdicts = res.prints.get("RULE", [])
    if len(verdicts) != len(rules):
        from harness.core import MachineryError

        raise MachineryError(f"TLC produced {len(verdicts)} verdicts for {len(rules)} rules")
    measured = {}
    for v, r in zip(sorted(verdicts, key=lambda v: (v["shape"], v["nPg"])), sorted(rules, key=lambda r: (r["shape"], r["nPg"]))):
        key = f"{v['shape']}/{v['nPg']}"
        ctx.traces(1)
        ctx.count(1, distinct_key=key)
        measured[key] = v["measured"]
        if not v["available"]:
            ctx.violation(f"rule-unavailable/{key}", f"the {v['nPg']}-point rule of {v['shape']} is documented as available but raises {r['error']}", {"rule": key})
            continue
        if not v["weightOK"]:
            ctx.violation(f"weights/{key}", f"weights of the {v['nPg']}-point {v['shape']} rule sum to {float(Fraction(*r['sumw']))!r}, not to the reference measure", {"rule": key, "sumw": r["sumw"]})
        if not v["insideOK"]:
            ctx.violation(f"inside/{key}", f"the {v['nPg']}-point {v['shape']} rule has a point outside the reference element (min barycentric {r['minbary'] / 1e9})", {"rule": key})
        if v["fails"]:
            ctx.violation(f"exactness/{key}", f"the {v['nPg']}-point {v['shape']} rule does not integrate the monomials {v['fails'][:6]} exactly although they are within its documented order (measured order {v['measured']})", {"rule": key, "fails": v["fails"]})
    fac = res.prints.get("FACTORY", [{}])[0]
    ctx.section("rules", measured_order=measured, single_element_counting_condition_not_met=fac.get("fails"), note="counting condition is a diagnostic for a single element only; the assembled rank is decided by eigen-analysis")
    # exact expectations for the mesh-level integrals come from the same module (ExactInt of boxes = products)
    expected = {}
    for dim in (1, 2, 3):
        size = (3,) if dim == 1 else BOXES[dim]
        for e in itertools.product(range(3), repeat=3):
            if sum(e) > 2 or any(e[k] for k in range(dim, 3)):
                continue
            val = Fraction(1)
            for k in range(dim):
                val *= Fraction(size[k] ** (e[k] + 1), e[k] + 1)
            expected[(dim, e)] = [val.numerator, val.denominator]
    mesh_level(ctx, expected)
    mesh_level_rules(ctx, measured)
    integer_typed_coordinates(ctx)
    from harness.props import c02

    c02.kernel_checks(ctx, which=("K",), label="C07-rank")
    ctx.sample({"rule": "TRI/6", "sumw": [r["sumw"] for r in rules if r["shape"] == "TRI" and r["nPg"] == 6][0]})
    ctx.cov["exhaustive"] = True
    ctx.cov["rule"] = "every point count accepted per shape (segments: 1..8 points) decided by TLC on snapped moments up to documented order + 2; mesh-level integrals for all element types; distinct = rules + (element type, monomial) pairs"
    ctx.assume("moments are snapped to rationals with denominator <= 1e6 within 1e-13 (rules tabulated to 15 digits)")
