"""C16 -- named results.  spec/Results.tla defines the meaning of result names per simulation
kind; the harness sets u, v, a to distinguishable random arrays (not an equilibrium state),
evaluates every advertised name, abstracts the returned array to the token it equals
(direction B) and TLC compares with the definition.  Derived relations (element <-> node
conversion of constants, Wdef = 1/2 u'Ku, reactions balance loads) are checked on top."""
from __future__ import annotations

import json
import os

import numpy as np

from harness.lifecycle import quiet, _grid_mesh


def vm2(xx, yy, xy):
    return np.sqrt(xx**2 + yy**2 - xx * yy + 3 * xy**2)


def vm3(xx, yy, zz, yz, xz, xy):
    return np.sqrt(0.5 * ((xx - yy) ** 2 + (yy - zz) ** 2 + (zz - xx) ** 2 + 6 * (xy**2 + yz**2 + xz**2)))


def build_sims():
    from EasyFEA import Models, Simulations, Mesher
    from EasyFEA.FEM import ElemType
    from EasyFEA.Geoms import Domain, Point, Line

    sims = []
    with quiet():
        m2 = _grid_mesh(2, 2, ElemType.QUAD4)
        # pairs (Nn, Ne) for which the size of an array does not say where it is stored (SizeClass in Results.tla)
        ambiguous = [_grid_mesh(nx, ny, et, L=float(nx), H=float(ny)) for nx, ny, et in ((1, 1, ElemType.QUAD4), (2, 1, ElemType.QUAD4), (2, 3, ElemType.TRI3), (2, 1, ElemType.TRI3))]
        m2t = _grid_mesh(2, 2, ElemType.TRI6)
        m3 = Mesher().Mesh_Extrude(Domain(Point(0, 0), Point(2, 1), 1.0), [], [0, 0, 1], [1], ElemType.HEXA8, isOrganised=True)
        el2 = Models.Elastic.Isotropic(2, E=10.0, v=0.3, planeStress=True, thickness=0.7)
        el3 = Models.Elastic.Isotropic(3, E=10.0, v=0.3)
        sims.append(("Elastic", 2, 2, Simulations.Elastic(m2, el2, verbosity=False)))
        sims.append(("Elastic", 2, 2, Simulations.Elastic(m2t, el2, verbosity=False)))
        sims.append(("Elastic", 3, 3, Simulations.Elastic(m3, el3, verbosity=False)))
        for m in ambiguous:
            sims.append(("Elastic", 2, 2, Simulations.Elastic(m, el2, verbosity=False)))
        from harness.props.c03 import _mixed_elastic

        sims.append(("Elastic", 2, 2, _mixed_elastic()))  # TRI3 + QUAD4 groups (and SEG2 edges) in one mesh
        sims.append(("Thermal", 2, 1, Simulations.Thermal(ambiguous[2], Models.Thermal(k=2.0, c=1.0), verbosity=False)))
        sims.append(("Thermal", 2, 1, Simulations.Thermal(m2, Models.Thermal(k=2.0, c=1.0), verbosity=False)))
        try:
            pf2 = Models.PhaseField(el2, Models.PhaseField.SplitType.Miehe, Models.PhaseField.ReguType.AT2, Gc=1.0, l0=0.5)
            sims.append(("PhaseField", 2, 2, Simulations.PhaseField(m2, pf2, verbosity=False)))
            sims.append(("PhaseField", 2, 2, Simulations.PhaseField(ambiguous[1], pf2, verbosity=False)))
            pf3 = Models.PhaseField(el3, Models.PhaseField.SplitType.Miehe, Models.PhaseField.ReguType.AT2, Gc=1.0, l0=0.5)
            sims.append(("PhaseField", 3, 3, Simulations.PhaseField(m3, pf3, verbosity=False)))
        except Exception as ex:
            sims.append(("ERR", 0, 0, f"PhaseField: {type(ex).__name__}: {ex}"))
        try:
            from EasyFEA.FEM import Field, BiLinearForm

            for dofn, mesh in ((2, m2), (3, m3)):
                field = Field(mesh.groupElem, dofn)

                @BiLinearForm
                def aform(u, v):
                    return u.grad.ddot(v.grad)

                wf = Models.WeakForms(field, aform)
                sims.append(("WeakForms", mesh.dim, dofn, Simulations.WeakForms(mesh, wf, verbosity=False)))
        except Exception as ex:
            sims.append(("ERR", 0, 0, f"WeakForms: {type(ex).__name__}: {ex}"))
        try:
            section = Mesher().Mesh_2D(Domain(Point(-0.25, -0.125), Point(0.25, 0.125)))
            for dim, p2, h in ((1, Point(3, 0), 1.0), (2, Point(1.8, 2.4), 1.0), (3, Point(2, 2, 1), 1.0), (2, Point(1.8, 2.4), 1.5), (3, Point(2, 2, 1), 3.0)):
                beam = Models.Beam.Isotropic(dim, Line(Point(0, 0), p2, h), section, 10.0, 0.25)
                mesh = Mesher().Mesh_Beams([beam], elemType=ElemType.SEG2)
                s = Simulations.Beam(mesh, Models.Beam.BeamStructure([beam]), verbosity=False)
                sims.append(("Beam", dim, s.Get_dof_n(), s))
        except Exception as ex:
            sims.append(("ERR", 0, 0, f"Beam: {type(ex).__name__}: {ex}"))
        try:
            IE = Models.InElastic
            for m in (m2, m2t, ambiguous[1]):
                law = IE.Behavior(2, Models.Elastic.Isotropic(3, E=200.0, v=0.3), yieldSurface=IE.Yield.VonMises(2.0), hardening=IE.IsotropicHardening.Linear(50.0), thickness=0.7)
                sims.append(("InElastic", 2, 2, Simulations.InElastic(m, law, verbosity=False)))
        except Exception as ex:
            sims.append(("ERR", 0, 0, f"InElastic: {type(ex).__name__}: {ex}"))
        try:
            he = Models.HyperElastic.NeoHookean(2, 1.0, 10.0) if hasattr(Models.HyperElastic, "NeoHookean") else None
            if he is not None:
                sims.append(("HyperElastic", 2, 2, Simulations.HyperElastic(m2, he, verbosity=False)))
                sims.append(("HyperElastic", 2, 2, Simulations.HyperElastic(ambiguous[1], he, verbosity=False)))
        except Exception as ex:
            sims.append(("ERR", 0, 0, f"HyperElastic: {type(ex).__name__}: {ex}"))
    return sims


def set_random_state(kind, sim, rng, mag=1.0):
    fields = {}
    for pt in sim.Get_problemTypes():
        n = sim.mesh.Nn * sim.Get_dof_n(pt)
        u, v, a = (rng.uniform(0.1, 1.0, n) * 1e-2 * mag for _ in range(3))
        sim._Set_solutions(pt, u, v, a)
        fields[str(pt)] = (u, v, a)
    return fields


def candidates(kind, dim, dofn, sim, fields):
    """token -> array"""
    Nn = sim.mesh.Nn
    c = {}
    pts = list(fields)
    if kind == "PhaseField":
        pts = [str(sim.ProblemTypes.elastic), str(sim.ProblemTypes.damage)]
    u, v, a = fields[pts[0]]
    nd = len(u) // Nn
    for f, arr in (("u", u), ("v", v), ("a", a)):
        mat = arr.reshape(Nn, nd)
        c[(f, "all")] = arr
        if kind in ("Elastic", "HyperElastic", "PhaseField", "InElastic"):
            c[(f, "matrix")] = np.hstack([mat, np.zeros((Nn, 3 - nd))])
        c[(f, "norm")] = np.linalg.norm(mat, axis=1)
        for i in range(nd):
            c[(f, str(i))] = mat[:, i]
    if kind == "PhaseField" and len(pts) > 1:
        c[("d", "all")] = fields[pts[1]][0]
    if kind == "Beam":
        K = sim.Get_K_C_M_F()[0].toarray()[: Nn * nd, : Nn * nd]
        ku = (K @ u).reshape(Nn, nd)
        for i in range(nd):
            c[("Ku", str(i))] = ku[:, i]
        # generalised strains, internal forces and stresses: element means of the Gauss-point values, rows in the documented order
        g = sim.mesh.groupElem
        ue = u[g.Get_assembly_e(nd)]
        B = np.asarray(g.Get_beam_B_e_pg(sim.structure))
        D = np.asarray(sim.structure.Calc_D_e_pg(g))
        eps = np.einsum("epij,ej->epi", B, ue)
        frc = np.einsum("epij,epj->epi", D, eps)
        for f, arr in (("Eb", eps.mean(1)), ("Fb", frc.mean(1)), ("Sb", np.asarray(sim._Calc_Sigma_e_pg(eps)).mean(1))):
            c[(f, "all")] = arr
            for i in range(arr.shape[1]):
                c[(f, str(i))] = arr[:, i]
        # the axial strain is also known without the library's operator: elongation along the member over its length
        X = sim.mesh.coord[g.connect[:, [0, -1]] if g.connect.shape[1] == 2 else g.connect[:, [0, 1]]]
        t = X[:, 1] - X[:, 0]
        Lg = np.linalg.norm(t, axis=1)
        t = t / Lg[:, None]
        nt = 1 if nd == 1 else (2 if nd == 3 else 3)
        um = u.reshape(Nn, nd)[:, :nt]
        con = g.connect[:, [0, -1]] if g.connect.shape[1] == 2 else g.connect[:, [0, 1]]
        axial = np.einsum("ei,ei->e", um[con[:, 1]] - um[con[:, 0]], t[:, :nt]) / Lg
        c[("ut", "norm")] = np.linalg.norm(um, axis=1)
        c[("ut", "matrix")] = np.hstack([um, np.zeros((Nn, 3 - nt))])
        if not np.allclose(axial, c[("Eb", "0")], rtol=1e-9, atol=1e-14):
            c[("Eb", "0")] = axial  # the independent value wins: a scaled operator then shows as a mismatch
    if kind in ("Elastic", "InElastic"):
        from EasyFEA.FEM import MatrixType

        S_parts, E_parts = [], []
        for g in sim.mesh.Get_list_groupElem():
            B = np.asarray(g.Get_B_e_pg(MatrixType.rigi))  # Kelvin-Mandel strain operator
            ue = u[g.Get_assembly_e(dim)]
            eps = np.einsum("epij,ej->epi", B, ue)
            C = np.asarray(sim.material.C) if kind == "Elastic" else np.eye(eps.shape[-1])
            sig = np.einsum("ij,epj->epi", C, eps)
            for arr, store in ((eps, E_parts), (sig, S_parts)):
                x = arr.copy()
                x[..., dim:] /= np.sqrt(2)
                store.append(x)
        for f, parts in (("S", S_parts), ("E", E_parts)) if kind == "Elastic" else (("E", E_parts),):
            x = np.concatenate([p.mean(1) for p in parts])
            nc = x.shape[1]
            c[(f, "all")] = x
            for i in range(nc):
                c[(f, str(i))] = x[:, i]
            fn = vm2 if dim == 2 else vm3
            c[(f, "vm")] = np.concatenate([fn(*[p[..., i] for i in range(nc)]).mean(1) for p in parts])
            c[(f, "vm-of-element-mean")] = fn(*[x[:, i] for i in range(nc)])  # a WRONG reading, listed so that it can be named
    return c


NODE_FIELDS = ("u", "ut", "v", "a", "d", "Ku")


def to_elements(sim, ref):
    """node values -> element values: the mean over each element's nodes, group by group"""
    Nn = sim.mesh.Nn
    x = np.asarray(ref, dtype=float).reshape(Nn, -1)
    return np.concatenate([x[g.connect].mean(1) for g in sim.mesh.Get_list_groupElem(sim.mesh.dim)])


def tokenise(arr, cands, sim=None, nodal=None, atol=1e-14):
    """all candidate tokens the array equals IN THE REQUESTED FORM (several when a vector has a single component)"""
    arr = np.asarray(arr, dtype=float)
    out = []
    for tok, ref in cands.items():
        ref = np.asarray(ref, dtype=float)
        if nodal is not None:
            stored_at_nodes = tok[0] in NODE_FIELDS
            if nodal and not stored_at_nodes:
                continue  # smoothing to the nodes: Results.tla judges the form only
            if not nodal and stored_at_nodes:
                ref = to_elements(sim, ref)
        if arr.size == ref.size and arr.size > 0 and np.allclose(arr.ravel(), ref.ravel(), rtol=1e-9, atol=atol):
            out.append(list(tok))
    return out


def record(ctx, seed, mag=1.0):
    """mag: magnitude of the random state relative to the default one (1e-2): a named result is the same function of the state
    at every magnitude - a state of 1e-11 (metres, kelvins) is as good a state as one of 1e-2"""
    rng = np.random.default_rng(seed + 3)
    rows, notes = [], []
    for kind, dim, dofn, sim in build_sims():
        if kind == "ERR":
            notes.append(sim)
            continue
        if mag != 1.0 and kind in ("PhaseField", "InElastic"):
            continue  # their results involve thresholds of the model (damage history, yield stress): a tiny state is a different regime, not a rescaled one
        fields = set_random_state(kind, sim, rng, mag)
        cands = candidates(kind, dim, dofn, sim, fields)
        avail = [str(getattr(n, "value", n)) for n in sim.Results_Available()]
        base = dict(sim=kind, dim=dim, dofn=dofn, Nn=int(sim.mesh.Nn), Ne=int(sim.mesh.Ne), avail=avail)
        for name in avail:
            for nodeValues in (False, True):
                try:
                    with quiet():
                        val = sim.Result(name, nodeValues=nodeValues)
                except Exception as ex:
                    rows.append(dict(base, name=name, tokens=[["raises", type(ex).__name__]], node=nodeValues, size=0))
                    continue
                if val is None:
                    rows.append(dict(base, name=name, tokens=[["raises", "None"]], node=nodeValues, size=0))
                    continue
                if np.ndim(val) == 0:
                    continue
                toks = tokenise(val, cands, sim, nodeValues, atol=1e-14 * mag ** (2 if kind == "HyperElastic" else 1)) or [["other", "other"]]
                rows.append(dict(base, name=name, tokens=toks, node=nodeValues, size=int(np.size(val))))
    return rows, notes


def derived(ctx):
    """Wdef = 1/2 u'Ku on an arbitrary state; node<->element conversion preserves constants; reactions balance loads."""
    from EasyFEA import Models, Simulations
    from EasyFEA.FEM import ElemType

    rng = np.random.default_rng(ctx.seed + 9)
    with quiet():
        from harness.props.c03 import _mixed_elastic

        for et in (ElemType.TRI3, ElemType.QUAD4, ElemType.TRI6, ElemType.QUAD8, "mixed"):
            mesh = _grid_mesh(3, 2, et, L=1.5) if et != "mixed" else _mixed_elastic().mesh
            mat = Models.Elastic.Isotropic(2, E=10.0, v=0.3, planeStress=True, thickness=0.7)
            sim = Simulations.Elastic(mesh, mat, verbosity=False)
            u = rng.uniform(-1, 1, mesh.Nn * 2) * 1e-2
            sim._Set_solutions(sim.problemType, u, u * 0, u * 0)
            K = sim.Get_K_C_M_F()[0]
            w = sim.Result("Wdef")
            ref = 0.5 * u @ (K @ u)
            if abs(w - ref) > 1e-10 * abs(ref):
                ctx.violation(f"wdef/{et}", f"Result('Wdef') = {w} but 1/2 u'Ku = {ref} on {et}", {"elem": str(et)})
            ctx.count(1, distinct_key=("wdef", str(et)))
            # constants survive the conversions
            ce = np.full(mesh.Ne, 3.25)
            cn = np.full(mesh.Nn, 3.25)
            a1 = sim.Results_Reshape_values(ce, True)
            a2 = sim.Results_Reshape_values(cn, False)
            if not (np.allclose(a1, 3.25) and np.allclose(a2, 3.25)):
                ctx.violation(f"const-conversion/{et}", f"node<->element conversion does not preserve a constant field on {et}", {"elem": str(et)})
            if et == "mixed":
                continue
            # reactions on a fully constrained boundary balance the applied loads
            sim.Bc_Init()
            left = mesh.Nodes_Conditions(lambda x, y, z: x == 0)
            right = mesh.Nodes_Conditions(lambda x, y, z: x == 1.5)
            sim.add_dirichlet(left, [0, 0], ["x", "y"])
            sim.add_surfLoad(right, [2.0, -1.0], ["x", "y"])
            sim.Solve()
            dofs = sim.Bc_dofs_nodes(left, ["x", "y"])
            R = sim.Calc_Reaction(dofs).reshape(-1, 2).sum(0)
            F = sim.Bc_vector_Neumann().reshape(-1, 2).sum(0)
            if np.abs(R + F).max() > 1e-9 * np.abs(F).max():
                ctx.violation(f"reaction-balance/{et}", f"reactions {R} do not balance the applied loads {F} on {et}", {"elem": str(et)})
            ctx.count(1, distinct_key=("reaction", str(et)))
            # the nodal resultant under every time scheme: K u (static), K u + C v (first order), K u + C v + M a (every second-order
            # scheme, whatever the scheme's own step matrix is made of), on an arbitrary state with Rayleigh damping
            from EasyFEA.Simulations.Solvers import AlgoType

            sim.Bc_Init()
            sim.rho = 1.3
            sim.Set_Rayleigh_Damping_Coefs(0.4, 0.2)
            N = mesh.Nn * 2
            U, V, A = (rng.uniform(-1, 1, N) * 1e-2 for _ in range(3))
            sim._Set_solutions(sim.problemType, U.copy(), V.copy(), A.copy())
            for algo in ["elliptic", "parabolic"] + [str(a) for a in AlgoType.Get_Hyperbolic_Types()]:
                if algo == "elliptic":
                    sim.Solver_Set_Elliptic_Algorithm()
                elif algo == "parabolic":
                    sim.Solver_Set_Parabolic_Algorithm(0.1, 0.5)
                else:
                    sim.Solver_Set_Hyperbolic_Algorithm(0.1, algo=AlgoType(algo), alpha=0.25)
                Kx, Cx, Mx, _ = sim.Get_K_C_M_F()
                expR = Kx @ U + (0 if algo == "elliptic" else Cx @ V) + (0 if algo in ("elliptic", "parabolic") else Mx @ A)
                gotR = sim.Calc_Reaction(dofs)
                if gotR.shape != expR[dofs].shape or np.abs(gotR - expR[dofs]).max() > 1e-10 * np.abs(expR).max():
                    ctx.violation(f"reaction-scheme/{algo}", f"Calc_Reaction under {algo} on {et} differs from K u{'' if algo == 'elliptic' else ' + C v'}{'' if algo in ('elliptic', 'parabolic') else ' + M a'} by {np.abs(gotR - expR[dofs]).max():.3g} (scale {np.abs(expR).max():.3g})", {"elem": str(et), "algo": algo})
                ctx.count(1, distinct_key=("reaction-scheme", algo))
            sim.Solver_Set_Elliptic_Algorithm()


def balance(ctx, cases):
    """BalanceCases of Results.tla: clamped on x = 0, uniform traction on x = L, reactions summed per direction"""
    from EasyFEA import Models, Simulations, Mesher
    from EasyFEA.FEM import ElemType
    from EasyFEA.Geoms import Domain, Point

    traction = {"x": 3.0, "y": -1.2, "z": 0.5}
    th = 0.7
    for c in cases:
        dim, n = c["dim"], (6 if c["fine"] else 2)
        for et in ((ElemType.TRI3, ElemType.QUAD4) if dim == 2 else (ElemType.TETRA4, ElemType.HEXA8)):
            with quiet():
                dom = Domain(Point(0, 0), Point(1, 1), 1.0 / n)
                mesh = Mesher().Mesh_2D(dom, [], et) if dim == 2 else Mesher().Mesh_Extrude(dom, [], [0, 0, 1], [n], et)
                mat = Models.Elastic.Isotropic(dim, E=210.0, v=0.3, planeStress=True, thickness=th)
                if c["sim"] == "Elastic":
                    sim = Simulations.Elastic(mesh, mat, verbosity=False)
                else:
                    PF = Models.PhaseField
                    sim = Simulations.PhaseField(mesh, PF(mat, PF.SplitType.Bourdin, PF.ReguType.AT2, Gc=2.7, l0=0.2), verbosity=False)
                unk = ["x", "y", "z"][:dim]
                n0 = mesh.Nodes_Conditions(lambda x, y, z: x == 0)
                nL = mesh.Nodes_Conditions(lambda x, y, z: x == 1)
                if c["damaged"]:
                    mid = mesh.Nodes_Conditions(lambda x, y, z: np.abs(x - 0.5) <= 1.0 / n)
                    sim.add_dirichlet(mid, [0.4], ["d"], problemType="damage")
                sim.add_dirichlet(n0, [0] * dim, unk)
                sim.add_surfLoad(nL, [traction[u] for u in unk], unk)
                sim.Solve()
                area = th if dim == 2 else 1.0
                for u in unk:
                    dofs = sim.Bc_dofs_nodes(n0, [u], "elastic")
                    R = float(np.sum(sim.Calc_Reaction(dofs, "elastic")))
                    F = traction[u] * area
                    if abs(R + F) > 1e-8 * abs(F):
                        ctx.violation(f"reaction-balance/{c['sim']}{dim}D/{et}/{'fine' if c['fine'] else 'coarse'}", f"{c['sim']} {dim}D {et} ({mesh.Nn} nodes{', damaged band' if c['damaged'] else ''}): the reactions in {u} over the clamped boundary sum to {R:.6g}, the applied load is {F:.6g}", dict(c, elem=str(et)))
            ctx.count(1, distinct_key=("balance", c["sim"], dim, str(et), c["fine"], c["damaged"]))
    ctx.section("reaction_balance", cases=len(cases))


def repeated_requests(ctx, seed):
    """a result request is a read: asking every name three times in a row, in element and nodal form, interleaved with all the
    other names, returns the same arrays (nothing a request computes may leak into a later one)"""
    rng = np.random.default_rng(seed + 9)
    n = 0
    for kind, dim, dofn, sim in build_sims():
        if kind == "ERR":
            continue
        set_random_state(kind, sim, rng)
        first = {}
        for pass_ in range(3):
            for name in sim.Results_Available():
                for nodal in (False, True):
                    try:
                        with quiet():
                            r = np.asarray(sim.Result(name, nodeValues=nodal), dtype=float)
                    except Exception:
                        continue
                    k = (name, nodal)
                    n += 1
                    if k not in first:
                        first[k] = r.copy()
                    elif r.shape != first[k].shape or not np.allclose(r, first[k], rtol=1e-12, atol=1e-14, equal_nan=True):
                        ctx.violation(f"repeat/{kind}{dim}D/{name}", f"{kind} ({dim}D): Result('{name}', nodeValues={nodal}) changes when it is requested again after the other results (pass {pass_ + 1}; max difference {np.abs(r - first[k]).max() if r.shape == first[k].shape else 'shape'})", {"sim": kind, "dim": dim, "name": name})
    ctx.count(n, distinct_key=("repeated-requests",))
    ctx.section("repeated_requests", requests=n, passes=3)


def binding_selftest(ctx, rows):
    """the judgement must reject corrupted records: one value too many, a token of another component, a component without its whole"""
    from harness.core import MachineryError

    good = next(r for r in rows if r["sim"] == "Elastic" and r["name"] == "Sxx" and not r["node"])
    bad = [dict(good, size=good["size"] + 1), dict(good, tokens=[["S", "1"]]), dict(good, avail=[n for n in good["avail"] if n != "Stress"]), good]
    path = os.path.join(ctx.scratch, "results_corrupted.json")
    json.dump(bad, open(path, "w"))
    res = ctx.tlc("Results", "Results.cfg", workers=1, env={"RESULT_TABLE": path}, timeout=600)
    got = [v["verdict"] for v in res.prints.get("VERDICT", [])]
    want = ["wrong-form", "mismatch", "orphan", "ok"]
    if sorted(got) != sorted(want):
        raise MachineryError(f"Results.tla does not reject corrupted records: verdicts {got}, expected {want}")
    ctx.section("binding_selftest", corrupted_records=3, verdicts=want)


def run(ctx):
    rows, notes = record(ctx, ctx.seed)
    rows_small, _ = record(ctx, ctx.seed + 1, mag=1e-9)
    rows = rows + rows_small
    path = os.path.join(ctx.scratch, "results.json")
    json.dump(rows, open(path, "w"))
    res = ctx.tlc("Results", "Results.cfg", workers=4, env={"RESULT_TABLE": path}, timeout=1200)
    if not res.ok:
        from harness.core import MachineryError

        raise MachineryError(f"Results: {res.violated} {res.counterexample[:1500]}")
    verdicts = res.prints.get("VERDICT", [])
    unmod = set()
    for v in verdicts:
        ctx.traces(1)
        ctx.count(1, distinct_key=(v["sim"], v["dim"], v["dofn"], v["name"]))
        if v["verdict"] == "unmodelled":
            unmod.add(f"{v['sim']}:{v['name']}")
        elif v["verdict"] == "wrong-form":
            form = "nodal" if v["node"] else "element"
            ctx.violation(f"form/{v['sim']}{v['dim']}D/{v['name']}/{form}/{v['class']}", f"{v['sim']} ({v['dim']}D) on a mesh with {v['Nn']} nodes and {v['Ne']} elements: Result('{v['name']}', nodeValues={v['node']}) returns {v['size']} values, which is not one {v['expected'][0]}[{v['expected'][1]}] entry per {'node' if v['node'] else 'element'}", v)
        elif v["verdict"] == "orphan":
            ctx.violation(f"orphan/{v['sim']}{v['dim']}D/{v['name']}", f"{v['sim']} ({v['dim']}D): the component '{v['name']}' is advertised without the whole result it belongs to", v)
        elif v["verdict"] == "mismatch":
            t0 = v["tokens"][0]
            if t0[0] == "other":
                what = "returns none of the candidate quantities"
            else:
                what = "returns " + " = ".join(f"{t[0]}[{t[1]}]" for t in v["tokens"])
            ctx.violation(f"name/{v['sim']}{v['dim']}D/{v['name']}", f"{v['sim']} ({v['dim']}D, {v['dofn']} dofs/node): Result('{v['name']}') {what}, it must be {v['expected'][0]}[{v['expected'][1]}]", v)
    classes = {}
    for sim_kind, cl in (res.prints.get("CLASSES") or [[]])[-1]:
        classes.setdefault(sim_kind, set()).add(cl)
    need = {"one-element", "equal", "multiple", "generic"}
    if not need <= classes.get("Elastic", set()):
        from harness.core import MachineryError

        raise MachineryError(f"Results: size classes {sorted(need - classes.get('Elastic', set()))} are not witnessed by an Elastic mesh")
    ctx.section("size_classes", **{k: sorted(v) for k, v in classes.items()})
    binding_selftest(ctx, rows)
    derived(ctx)
    bal = (res.prints.get("BALANCE") or [[]])[-1]
    if not bal:
        from harness.core import MachineryError

        raise MachineryError("Results.tla did not emit its balance cases")
    balance(ctx, bal)
    repeated_requests(ctx, ctx.seed)
    ctx.section("names", rows=len(rows), unmodelled=sorted(unmod), unavailable=notes)
    ctx.sample(rows[0])
    ctx.cov["rule"] = "every name of Results_Available() of every simulation kind, abstracted to a token on a random non-equilibrium state and judged by TLC against Results.tla; distinct = (simulation kind, dimension, name)"
    ctx.assume("tokens are matched at rtol 1e-9; names the module does not define are reported as unmodelled, not as violations")
