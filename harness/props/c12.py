"""C12 -- finite-element array algebra.  spec/FeShapes.tla computes the result descriptor (type,
shape, or Error) of every operation on every operand descriptor from the documented rank and
type rules; every TLC state is replayed: arrays of those shapes are built, the operation is run
through FeArray / Field / the linalg functions, and type, shape and VALUES are compared with
explicit loops over (e, p) on plain arrays."""
from __future__ import annotations

import operator

import numpy as np

EW_OPS = [("add", operator.add), ("sub", operator.sub), ("mul", operator.mul), ("truediv", operator.truediv), ("lt", operator.lt), ("maximum", np.maximum), ("sub-where", None)]


def _Norm(x, ax):
    from EasyFEA.FEM._linalg import Norm

    return Norm(x, axis=ax) if ax is not None else Norm(x)


# reducers reach a FeArray through three routes: methods, numpy functions (array-function protocol) and the library's wrappers
REDUCERS = [("sum", lambda x, ax: x.sum() if ax is None else x.sum(axis=ax)), ("np.mean", lambda x, ax: np.mean(x, axis=ax)), ("np.max", lambda x, ax: np.max(x, axis=ax)),
            ("np.linalg.norm", lambda x, ax: np.linalg.norm(x, axis=ax)), ("Norm", _Norm)]


def mk(desc, rng):
    from EasyFEA.FEM import FeArray

    arr = rng.uniform(0.5, 2.0, size=tuple(desc["shape"])) if desc["shape"] else np.float64(rng.uniform(0.5, 2.0))
    arr = np.asarray(arr)
    if desc["fe"]:
        return FeArray.asfearray(arr), np.array(arr)
    return np.array(arr), np.array(arr)


def sl(desc, plain, e, p):
    if not desc["fe"]:
        return plain
    ne, npg = desc["shape"][:2]
    return plain[e % ne if ne > 1 else 0, p % npg if npg > 1 else 0]


def lead_of(a, b):
    ls = [d["shape"][:2] for d in (a, b) if d["fe"]]
    return (max(l[0] for l in ls), max(l[1] for l in ls))


def expected_values(op, fn, a, b, A, B, arg):
    """explicit loops over (e, p) on plain arrays -> dense expected array"""
    if op == "reduce":
        red = fn or (lambda x, ax: x.sum() if ax is None else x.sum(axis=ax))
        return red(A, None if arg == 99 else arg)
    if op == "broadcast":
        ne, npg = a["shape"][:2]
        tn = arg
        v = B
        if tn == 0:
            # no tensor axes declared (FeShapes.tla): length Ne -> per element (also when nPg == Ne), length nPg -> per Gauss point,
            # (Ne, nPg) -> the field itself, anything else -> a constant tensor
            if v.ndim == 1 and v.shape[0] == ne:
                return np.repeat(v[:, None], npg, axis=1)
            if v.ndim == 1 and v.shape[0] == npg:
                return np.repeat(v[None, :], ne, axis=0)
            if v.ndim >= 2 and v.shape[:2] == (ne, npg):
                return v
            return np.broadcast_to(v[None, None], (ne, npg) + v.shape).copy()
        ld = v.shape[: v.ndim - tn]
        out = np.zeros((ne, npg) + v.shape[v.ndim - tn:])
        for e in range(ne):
            for p in range(npg):
                out[e, p] = v[e, p] if len(ld) == 2 else v[e] if len(ld) == 1 else v
        return out
    ne, npg = lead_of(a, b) if op in ("ew", "matmul", "dot", "ddot", "tensorprod") else a["shape"][:2]
    rows = []
    for e in range(ne):
        row = []
        for p in range(npg):
            x = sl(a, A, e, p)
            y = sl(b, B, e, p) if b is not None else None
            if op == "ew":
                r = fn(x, y)
            elif op == "dot":
                r = np.tensordot(x, y, axes=1)
            elif op == "ddot":
                r = np.tensordot(x, y, axes=2)
            elif op == "tensorprod":
                if np.ndim(x) == 1:
                    r = np.outer(x, y)
                elif not arg:
                    r = np.einsum("ij,kl->ijkl", x, y)
                else:  # 1/2 (A_ik B_jl + A_il B_jk), written out index by index
                    r = np.zeros((x.shape[0], y.shape[0], x.shape[1], y.shape[1]))
                    for i_ in range(x.shape[0]):
                        for j_ in range(y.shape[0]):
                            for k_ in range(x.shape[1]):
                                for l_ in range(y.shape[1]):
                                    r[i_, j_, k_, l_] = 0.5 * (x[i_, k_] * y[j_, l_] + x[i_, l_] * y[j_, k_])
            elif op == "matmul":
                r = np.matmul(x, y) if (np.ndim(x) <= 2 and np.ndim(y) <= 2) else np.tensordot(x, y, axes=1)
            elif op == "T":
                r = x.T
            elif op == "det":
                r = np.linalg.det(x)
            elif op == "trace":
                r = np.trace(x, axis1=-2, axis2=-1)
            elif op == "inv":
                r = np.linalg.inv(x)
            elif op == "transpose":
                r = np.swapaxes(x, -1, -2) if np.ndim(x) >= 2 else x
            row.append(np.asarray(r))
        rows.append(row)
    return np.array([[np.asarray(c, dtype=float) for c in row] for row in rows])


def run_case(cs, seed):
    """returns list of (key, message)"""
    from EasyFEA.FEM import FeArray
    from EasyFEA.FEM._linalg import Det, Inv, Trace, Transpose

    out = []
    op, a, b, arg, res = cs["op"], cs["a"], cs["b"], cs["arg"], cs["res"]
    rng = np.random.default_rng(seed)
    A_fe, A = mk(a, rng)
    B_fe, B = mk(b, rng) if op in ("ew", "matmul", "dot", "ddot", "broadcast", "tensorprod") else (None, None)
    variants = EW_OPS if op == "ew" else REDUCERS if op == "reduce" else [(op, None)]
    for vname, fn in variants:
        got, exc = None, None
        try:
            with np.errstate(all="ignore"):
                if op == "ew" and vname == "sub-where":
                    # masked ufunc: the mask is a scalar field on the operation's (Ne, nPg); entries outside the mask keep `out`
                    ne_, npg_ = lead_of(a, b)
                    mask_plain = (np.arange(ne_ * npg_).reshape(ne_, npg_) % 2) == 0
                    if res["err"]:
                        got = np.subtract(A_fe, B_fe, where=FeArray.asfearray(mask_plain))
                    else:
                        outb = FeArray.asfearray(np.full(tuple(res["shape"]), -7.0))
                        got = np.subtract(A_fe, B_fe, where=FeArray.asfearray(mask_plain), out=outb)
                elif op == "ew":
                    got = fn(A_fe, B_fe)
                elif op == "matmul":
                    got = A_fe @ B_fe
                elif op == "dot":
                    got = A_fe.dot(B_fe)
                elif op == "ddot":
                    got = A_fe.ddot(B_fe)
                elif op == "tensorprod":
                    from EasyFEA.FEM._linalg import TensorProd

                    got = TensorProd(A_fe, B_fe, symmetric=bool(arg))
                elif op == "T":
                    got = A_fe.T
                elif op == "reduce":
                    got = fn(A_fe, None if arg == 99 else arg)
                elif op == "det":
                    got = Det(A_fe)
                elif op == "trace":
                    got = Trace(A_fe)
                elif op == "inv":
                    got = Inv(A_fe)
                elif op == "transpose":
                    got = Transpose(A_fe)
                elif op == "broadcast":
                    got = FeArray.broadcast(B_fe, a["shape"][0], a["shape"][1], arg)
        except Exception as ex:  # noqa: BLE001
            exc = ex
        desc = f"{vname}({'fe' if a['fe'] else 'plain'}{a['shape']}, {'fe' if b['fe'] else 'plain'}{b['shape']}" + (f", arg={arg})" if op in ("reduce", "broadcast", "tensorprod") else ")")
        akey = f"{'fe' if a['fe'] else 'pl'}r{len(a['shape']) - (2 if a['fe'] else 0)}"
        bkey = f"{'fe' if b['fe'] else 'pl'}r{len(b['shape']) - (2 if b['fe'] else 0)}"
        key = f"{op}/{akey}/{bkey}"
        if res["err"]:
            if exc is None:
                gs = tuple(np.shape(got))
                out.append((f"no-error/{key}", f"{desc} must be rejected by the rank rule but returns a {type(got).__name__} of shape {gs}"))
            continue
        if exc is not None:
            out.append((f"raises/{key}", f"{desc} raises {type(exc).__name__}: {exc}; the rank rule gives {'fe' if res['fe'] else 'plain'}{res['shape']}"))
            continue
        is_fe = isinstance(got, FeArray)
        if tuple(np.shape(got)) != tuple(res["shape"]) or is_fe != res["fe"]:
            out.append((f"descriptor/{key}", f"{desc} returns {'fe' if is_fe else 'plain'}{list(np.shape(got))}, the rules give {'fe' if res['fe'] else 'plain'}{res['shape']}"))
            continue
        if vname == "sub-where":
            full = expected_values(op, operator.sub, a, b, A, B, arg)
            mk_ = mask_plain.reshape(mask_plain.shape + (1,) * (full.ndim - 2))
            exp = np.where(mk_, full, -7.0)
        else:
            exp = expected_values(op, fn, a, b if op != "broadcast" else b, A, B, arg)
        g = np.asarray(got, dtype=float)
        if op == "inv" and g.shape == np.shape(exp):
            # an inverse is known to eps x condition number only: the closed form of the library and numpy's LU are both within that
            # bound of the exact inverse, not within 1e-11 of each other (random 3 x 3 matrices reach cond 1e5 - 1e6)
            big = np.abs(exp).max(axis=(-1, -2))
            bound = 1e-11 + 8 * np.finfo(float).eps * np.linalg.cond(A)
            ok_inv = bool(np.all(np.abs(g - exp).max(axis=(-1, -2)) <= bound * big))
        else:
            ok_inv = None
        if ok_inv is True:
            pass
        elif g.shape != np.shape(exp) or ok_inv is False or not np.allclose(g, exp, rtol=1e-11, atol=1e-12, equal_nan=True):
            out.append((f"values/{key}", f"{desc} does not equal the operation carried out at each (e, p) independently (max diff {np.abs(g - exp).max() if g.shape == np.shape(exp) else 'shape'})"))
            continue
        if op in ("det", "trace", "inv", "transpose", "T") and a["fe"] and len(a["shape"]) >= 4:
            # FeShapes.tla, ScaleDegree: these operations are homogeneous in their operand (degree -1, n, 1, 1, 1) at EVERY magnitude -
            # a field of compliances in 1/Pa (entries of order 1e-12 and below) is inverted point by point like any other
            S = 1e-14
            n_ = a["shape"][-1]
            deg = {"det": n_, "trace": 1, "inv": -1, "transpose": 1, "T": 1}[op]
            try:
                with np.errstate(all="ignore"):
                    As = FeArray.asfearray(A * S)
                    gs_ = np.asarray({"det": Det, "trace": Trace, "inv": Inv, "transpose": Transpose, "T": (lambda x: x.T)}[op](As), dtype=float)
                exps = exp * S**deg
                if gs_.shape != exps.shape or not np.all(np.abs(gs_ - exps) <= 1e-8 * np.abs(exps).max()):
                    out.append((f"values-small/{key}", f"{desc} on the operand multiplied by {S:g} is not the result multiplied by {S:g}^{deg} (max relative difference {np.abs(gs_ - exps).max() / np.abs(exps).max() if gs_.shape == exps.shape else 'shape'})"))
            except Exception as ex:  # noqa: BLE001
                out.append((f"raises-small/{key}", f"{desc} on the operand multiplied by {S:g} raises {type(ex).__name__}: {ex}"))
    return out


def _job(job):
    i, cs = job
    res = run_case(cs, i)
    a, b = cs["a"], cs["b"]
    return {"viol": [(k, m, {"case": cs, "seed": i}) for k, m in res], "n": 1, "keys": [(cs["op"], a["fe"], tuple(a["shape"]), b["fe"], tuple(b["shape"]), cs["arg"])], "traces": 1}


def field_cases(ctx):
    """Field objects on either side of the operators (documented: a Field evaluates to its finite-element array)."""
    from EasyFEA.FEM import Field, FeArray, MatrixType
    from harness.lifecycle import _grid_mesh
    from EasyFEA.FEM import ElemType

    mesh = _grid_mesh(1, 1, ElemType.TRI3)
    g = mesh.groupElem
    for dof_n in (1, 2):
        try:
            f = Field(g, dof_n, MatrixType.mass)
        except Exception as ex:
            ctx.section("field_cases", unavailable=f"{type(ex).__name__}: {ex}")
            return
        fe = f()
        for c in (2.0, np.float64(3.0)):
            for name, fn in EW_OPS[:4]:
                for left in (True, False):
                    try:
                        got = fn(f, c) if left else fn(c, f)
                        exp = fn(np.asarray(fe), c) if left else fn(c, np.asarray(fe))
                    except Exception as ex:
                        ctx.violation(f"field/{name}/{'field-const' if left else 'const-field'}", f"{name} between a Field and a constant raises {type(ex).__name__}: {ex}", {"dof_n": dof_n})
                        continue
                    ok = np.shape(got) == np.shape(exp) and np.allclose(np.asarray(got), exp)
                    if not ok:
                        ctx.violation(f"field/{name}/{'field-const' if left else 'const-field'}", f"{'Field ' + name + ' const' if left else 'const ' + name + ' Field'} differs from the same operation on the field's array (c={c}): got {np.asarray(got).ravel()[:4]}, expected {np.asarray(exp).ravel()[:4]}", {"dof_n": dof_n, "op": name, "left": left})
                    ctx.count(1, distinct_key=("field", name, left, dof_n))


def run(ctx):
    if ctx.replay:
        import json

        rec = json.load(open(ctx.replay))["case"]
        for k, m in run_case(rec["case"], rec["seed"]):
            ctx.violation(k, m, rec)
        ctx.count(2, distinct_key="replay")
        ctx._distinct.add("r2")
        return
    t = "thorough" if ctx.thorough else "quick"
    cases = []
    # quick: tensorprod is part of the contract configuration; contract4: operands up to rank 4 (fourth-order constants) on one size
    for grp in ("ew", "contract", "unary") + (("tensor",) if ctx.thorough else ("contract4",)):
        res = ctx.tlc_must_hold("FeShapes", f"FeShapes_{grp}_{t}.cfg", what="TypeRule", workers=8, timeout=3000)
        cases += res.prints.get("CASE", [])
    ctx.pmap(_job, [(i + 1000 * ctx.seed, c) for i, c in enumerate(cases)])
    field_cases(ctx)
    ctx.section("replay", cases=len(cases), errors_expected=sum(1 for c in cases if c["res"]["err"]))
    ctx.sample(cases[len(cases) // 3])
    ctx.cov["exhaustive"] = True
    ctx.cov["rule"] = "every (operation, operand descriptors) tuple of FeShapes.tla within the configured sizes/ranks, each replayed with random data for type, shape and values; distinct = distinct tuples"
    ctx.assume("contraction configurations use tensor sizes > 1 (no size-1 broadcasting of contracted axes); both field operands live on the same (Ne, nPg)")
