"""C14 -- after any sequence of changes a simulation behaves like a freshly built one.
spec/Lifecycle.tla: TLC exhaustive (NoStale, MapsCurrent, Observing) + negative self-tests;
TLC simulation-mode behaviours replayed on real simulations with comparison against a fresh
simulation built in the final configuration at every observing action."""
from harness import lifecycle as lc


def beam_mesh_replacement(ctx):
    """Beam simulations keep a converted copy of every mesh: replacement is replayed outside the generated behaviours.
    simu.mesh = B, constraints re-entered, Solve(): K, F, solution and results equal those of a simulation built on B."""
    import numpy as np

    for timo in (False, True):
        ad = lc.BeamAdapter(timo=timo)
        w = lc.World(ad)
        sim = w.sims["s1"]
        tag = f"Beam{'-Timoshenko' if timo else ''}"
        try:
            with lc.quiet():
                sim.Solve()
                sim.Save_Iter()
                sim.mesh = ad.base_mesh("B")
            w.apply_bc_op(sim, ("set", 0))
            with lc.quiet():
                fresh = ad.make_sim(ad.base_mesh("B"), ad.make_model(0))
            w.apply_bc_op(fresh, ("set", 0))
            for nm, g, e in zip("KCMF", ad.kcmf(sim), ad.kcmf(fresh)):
                if lc.relerr(g, e) > lc.TOL:
                    ctx.violation(f"{tag}/stale/{nm}/SetMesh", f"{tag}: {nm} after simu.mesh = B differs from a simulation built on B (rel err {lc.relerr(g, e):.3g})", {"adapter": tag})
            with lc.quiet():
                sim.Solve()
                fresh.Solve()
            if lc.relerr(sim.displacement, fresh.displacement) > 1e-7:
                ctx.violation(f"{tag}/stale/solution-u/SetMesh", f"{tag}: solution after simu.mesh = B differs from a simulation built on B", {"adapter": tag})
            with lc.quiet():
                sim.Save_Iter()
                sim.Set_Iter(0)
            if sim.mesh.Nn != w.meshes["A"].Nn:
                ctx.violation(f"{tag}/store/restore-mesh/SetIter", f"{tag}: Set_Iter(0) after a mesh replacement does not bring back the first mesh", {"adapter": tag})
            with lc.quiet():
                sim.Set_Iter(1)
                sim.Solve()
            if lc.relerr(sim.displacement, fresh.displacement) > 1e-7:
                ctx.violation(f"{tag}/stale/solution-u/SetIter", f"{tag}: solution after Set_Iter(0), Set_Iter(1) differs from a simulation built on B", {"adapter": tag})
        except Exception as ex:
            ctx.violation(f"{tag}/stale/solve-raises/SetMesh", f"{tag}: simu.mesh = B then Solve() raises {type(ex).__name__}: {ex}, while a simulation built on B solves", {"adapter": tag})
        finally:
            w.close()
        ctx.count(6, distinct_key=("beam-mesh-replacement", timo))


def phasefield_history_replacement(ctx):
    """History solver of the phase-field simulation (a hidden field, so it is kept out of the generated behaviours): after
    the mesh is replaced by a mesh with as many elements, the simulation behaves like a new one on that mesh."""
    import numpy as np
    from EasyFEA import Models

    class AdH(lc.PhaseFieldAdapter):
        def make_model(self, parv):
            mat = Models.Elastic.Isotropic(2, E=10.0, v=0.25, planeStress=False, thickness=0.5)
            PF = Models.PhaseField
            return PF(mat, PF.SplitType.Miehe, PF.ReguType.AT2, Gc=5.0, l0=0.5, solver=PF.SolverType.History)

    ad = AdH()
    w = lc.World(ad)
    sim = w.sims["s1"]
    try:
        with lc.quiet():
            sim.Solve()
            sim.Save_Iter()
            sim.mesh = w.meshes["A"].copy()
        w.apply_bc_op(sim, ("set", 0))
        with lc.quiet():
            fresh = ad.make_sim(w.meshes["A"].copy(), ad.make_model(0))
        w.apply_bc_op(fresh, ("set", 0))
        with lc.quiet():
            sim.Solve()
            fresh.Solve()
        for nm, a, b in (("u", sim.displacement, fresh.displacement), ("d", sim.damage, fresh.damage)):
            if lc.relerr(a, b) > 1e-7:
                ctx.violation(f"PhaseField-History/stale/solution-{nm}/SetMesh", f"PhaseField (History solver): {nm} after Solve -> Save_Iter -> simu.mesh = copy -> Solve differs from a new simulation on that mesh (rel err {lc.relerr(a, b):.3g})", {"adapter": "PhaseField-History"})
    finally:
        w.close()
    ctx.count(2, distinct_key=("phasefield-history-replacement",))


def beam_section_replacement(ctx):
    """the cross-section of a member is a model parameter like any other: after beam.section = <other section> the matrices
    and the solution equal those of a structure built with that section (area, inertias AND shear correction factors)."""
    from EasyFEA import Mesher, ElemType
    from EasyFEA.Geoms import Circle, Point

    def round_section():
        with lc.quiet():
            return Mesher().Mesh_2D(Circle(Point(), 0.16, 0.03), [], ElemType.TRI6)

    for timo in (False, True):
        tag = f"Beam{'-Timoshenko' if timo else ''}"
        ad = lc.BeamAdapter(timo=timo)
        w = lc.World(ad)
        sim = w.sims["s1"]
        try:
            with lc.quiet():
                sim.Solve()
                sim.structure.beams[1].section = round_section()
                model = ad.make_model(0)
                model.beams[1]._Beam__name = "tmp"
                bs = ad.beams(0)
            # the structure built directly with the round section for member B
            from EasyFEA import Models

            with lc.quiet():
                b2 = Models.Beam.Isotropic(2, bs[1].line, round_section(), 20.0, 0.25)
            b2._Beam__name = "memberB"
            with lc.quiet():
                fresh = ad.make_sim(ad.base_mesh("A"), Models.Beam.BeamStructure([bs[0], b2]))
            w.apply_bc_op(fresh, ("set", 0))
            for nm, g, e in zip("KCMF", ad.kcmf(sim), ad.kcmf(fresh)):
                if lc.relerr(g, e) > lc.TOL:
                    ctx.violation(f"{tag}/stale/{nm}/SetSection", f"{tag}: {nm} after beam.section = <round section> differs from a structure built with that section (rel err {lc.relerr(g, e):.3g})", {"adapter": tag})
            with lc.quiet():
                sim.Solve()
                fresh.Solve()
            if lc.relerr(sim.displacement, fresh.displacement) > 1e-7:
                ctx.violation(f"{tag}/stale/solution-u/SetSection", f"{tag}: solution after beam.section = <round section> differs from a structure built with that section (rel err {lc.relerr(sim.displacement, fresh.displacement):.3g})", {"adapter": tag})
        except Exception as ex:
            ctx.violation(f"{tag}/stale/solve-raises/SetSection", f"{tag}: replacing a section then solving raises {type(ex).__name__}: {ex}", {"adapter": tag})
        finally:
            w.close()
        ctx.count(3, distinct_key=("beam-section-replacement", timo))


def inelastic_mesh_replacement(ctx):
    """a simulation with internal variables: plastic steps, then simu.mesh = <copy>, then a small step: displacement, results
    and the stored internal state equal those of a new simulation on that mesh (the displacement restarts, so does the state)."""
    import numpy as np
    from EasyFEA import Models, Simulations
    from EasyFEA.FEM import ElemType

    IE = Models.InElastic

    def law():
        return IE.Behavior(2, Models.Elastic.Isotropic(3, E=200.0, v=0.3), yieldSurface=IE.Yield.VonMises(1.0), hardening=IE.IsotropicHardening.Linear(20.0), kinematic=IE.KinematicHardening.Prager(10.0))

    def step(sim, val):
        mesh = sim.mesh
        left = mesh.Nodes_Conditions(lambda x, y, z: x == 0)
        right = mesh.Nodes_Conditions(lambda x, y, z: x == x.max())
        with lc.quiet():
            sim.Bc_Init()
            sim.add_dirichlet(left, [0, 0], ["x", "y"])
            sim.add_dirichlet(right, [val], ["x"])
            sim.Solve()
            sim.Save_Iter()

    for label, other in (("same-size", lambda m: m.copy()), ("other-size", lambda m: lc._grid_mesh(3, 2, ElemType.QUAD4))):
        try:
            mesh = lc._grid_mesh(2, 1, ElemType.QUAD4)
            with lc.quiet():
                sim = Simulations.InElastic(mesh, law(), verbosity=False)
            step(sim, 0.05)
            step(sim, 0.02)
            m2 = other(mesh)
            with lc.quiet():
                sim.mesh = m2
                fresh = Simulations.InElastic(m2.copy(), law(), verbosity=False)
            step(sim, 0.001)
            step(fresh, 0.001)
            err = lc.relerr(sim.displacement, fresh.displacement)
            if err > 1e-7:
                ctx.violation(f"InElastic/stale/solution-u/SetMesh/{label}", f"InElastic: displacement after plastic steps -> simu.mesh = <{label} mesh> -> small step differs from a new simulation on that mesh (rel err {err:.3g})", {"adapter": "InElastic", "mesh": label})
            for rn in ("Svm", "p"):
                try:
                    with lc.quiet():
                        ra, rb = np.asarray(sim.Result(rn, False)), np.asarray(fresh.Result(rn, False))
                except Exception:
                    continue
                if lc.relerr(ra, rb) > 1e-7:
                    ctx.violation(f"InElastic/stale/result-{rn}/SetMesh/{label}", f"InElastic: Result('{rn}') after the mesh replacement differs from a new simulation (max {np.abs(ra).max():.3g} vs {np.abs(rb).max():.3g})", {"adapter": "InElastic", "mesh": label})
        except Exception as ex:
            ctx.violation(f"InElastic/stale/solve-raises/SetMesh/{label}", f"InElastic: plastic steps -> simu.mesh = <{label} mesh> -> Solve raises {type(ex).__name__}: {ex}, while a new simulation on that mesh solves", {"adapter": "InElastic", "mesh": label})
        ctx.count(3, distinct_key=("inelastic-mesh-replacement", label))


def run(ctx):
    if ctx.replay:
        import json

        rec = json.load(open(ctx.replay))
        case = rec["case"]
        out = lc.replay_actions(case["adapter"], case["behaviour"], sims=case.get("sims", ["s1"]))
        for k, what in out:
            ctx.violation(f"{case['adapter']}/{k}", what, case)
        ctx.count(len(case["behaviour"]), distinct_key="replay")
        ctx._distinct.add("replay2")
        return
    ctx.tlc_must_hold("Lifecycle", "Lifecycle_cache.cfg", what="NoStale/MapsCurrent/Observing")
    ctx.tlc_must_hold("Lifecycle", "Lifecycle_store.cfg", what="NoStale + store properties")
    if ctx.thorough:
        ctx.tlc_must_hold("Lifecycle", "Lifecycle_two.cfg", what="two simulations sharing model and mesh", timeout=1800)
        ctx.tlc_must_hold("Lifecycle", "Lifecycle_cache_thorough.cfg", what="NoStale at MaxVer=2", timeout=3000)
        ctx.tlc_must_hold("Lifecycle", "Lifecycle_afterload.cfg", what="NoStale with cache and store actions together, life cycle continued after a load", timeout=3000)
    for d in ["coord_no_notify", "setmesh_no_observe", "setiter_keeps_maps", "rho_no_update", "bc_size_no_update", "move_keeps_simcache", "load_drops_observers"]:
        ctx.tlc_must_fail("Lifecycle", f"Lifecycle_neg_{d}.cfg")
    num = 1500 if ctx.thorough else 250
    for name in ["Elastic", "Thermal", "MatSimu"]:
        lc.simulate_and_replay(ctx, name, lc.CACHE_ACTS, num, 12, ctx.seed + 1, label="cache")
        lc.simulate_and_replay(ctx, name, lc.ALL_ACTS, num // 2, 14, ctx.seed + 2, label="all")
    for name in ["Elastic", "Thermal", "MatSimu"]:
        lc.simulate_and_replay(ctx, name, ["SetMesh", "SaveIter", "SetIter", "Solve", "GetKCMF", "Rotate", "SetCoord", "SetParam"], num, 14, ctx.seed + 4, label="restore")
    lc.simulate_and_replay(ctx, "Elastic", ["SetParam", "SetRho", "Translate", "SetCoord", "SetMesh", "GetKCMF", "Solve", "SetBc"], num // 2, 10, ctx.seed + 3, sims=("s1", "s2"), label="shared")
    for name in ["Beam", "BeamTimo", "Elastic3D", "WeakForms", "HyperElastic", "PhaseField", "ElasticField", "ElasticSmallUnits", "InElastic"]:
        lc.simulate_and_replay(ctx, name, lc.ALL_ACTS, num // 3, 14, ctx.seed + 5, label="all")
        lc.simulate_and_replay(ctx, name, lc.CACHE_ACTS, num // 3, 12, ctx.seed + 6, label="cache")
    # a mesh and its copies (spec/MeshCopy.tla): what is computed on / what moves one never shows on the other
    from harness.props import meshcopy_replay

    meshcopy_replay.run(ctx)
    beam_mesh_replacement(ctx)
    phasefield_history_replacement(ctx)
    beam_section_replacement(ctx)
    inelastic_mesh_replacement(ctx)
    # direction B: the repository's own tests as drivers, judged by Trace_Lifecycle.tla
    from harness import repo_trace

    sims = "tests/Simulations/"
    files = [sims + f for f in ("simu_test.py", "elastic_test.py", "thermal_test.py", "beam_test.py", "weak_forms_test.py")]
    if ctx.thorough:
        files = [sims, "tests/Models/"]
    repo_trace.validate(ctx, files, "thorough" if ctx.thorough else "quick")
    ctx.cov["rule"] = ("TLC simulation-mode behaviours of Lifecycle.tla (random walks over the enabled actions, seeded) replayed on real simulations; "
                       "distinct = distinct (simulation type, action, preceding action) triples executed")
    ctx.assume("direction B: events recorded by wrappers installed from /verif (no edit of the repository) while the repository's tests run; the configuration fingerprint covers the mesh (identity, coordinates), every declared parameter of the simulation / model / sub-models and the number of Lagrange rows")
    ctx.assume("fresh simulation = new mesh object built from the harness's own shadow coordinates + new model + re-applied BC program; comparison at 1e-9 (matrices) / 1e-7 (solutions)")
