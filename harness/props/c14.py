"""C14 -- after any sequence of changes a simulation behaves like a freshly built one.
spec/Lifecycle.tla: TLC exhaustive (NoStale, MapsCurrent, Observing) + negative self-tests;
TLC simulation-mode behaviours replayed on real simulations with comparison against a fresh
simulation built in the final configuration at every observing action."""
from harness import lifecycle as lc


def run(ctx):
    if ctx.replay:
        import json

        rec = json.load(open(ctx.replay))
        case = rec["case"]
        out = lc.replay_actions(case["adapter"], case["behaviour"], sims=case.get("sims", ["s1"]))
        for k, what in out:
            ctx.violation(f"{case['adapter']}/{k}", what, case)
        ctx.count(len(case["behaviour"]), distinct_key="replay")
        ctx._distinct.add("replay2")
        return
    ctx.tlc_must_hold("Lifecycle", "Lifecycle_cache.cfg", what="NoStale/MapsCurrent/Observing")
    ctx.tlc_must_hold("Lifecycle", "Lifecycle_store.cfg", what="NoStale + store properties")
    if ctx.thorough:
        ctx.tlc_must_hold("Lifecycle", "Lifecycle_two.cfg", what="two simulations sharing model and mesh", timeout=1800)
        ctx.tlc_must_hold("Lifecycle", "Lifecycle_cache_thorough.cfg", what="NoStale at MaxVer=2", timeout=3000)
    for d in ["coord_no_notify", "setmesh_no_observe", "setiter_keeps_maps", "rho_no_update", "bc_size_no_update"]:
        ctx.tlc_must_fail("Lifecycle", f"Lifecycle_neg_{d}.cfg")
    num = 1500 if ctx.thorough else 250
    for name in ["Elastic", "Thermal", "MatSimu"]:
        lc.simulate_and_replay(ctx, name, lc.CACHE_ACTS, num, 12, ctx.seed + 1, label="cache")
        lc.simulate_and_replay(ctx, name, lc.ALL_ACTS, num // 2, 14, ctx.seed + 2, label="all")
    for name in ["Elastic", "Thermal", "MatSimu"]:
        lc.simulate_and_replay(ctx, name, ["SetMesh", "SaveIter", "SetIter", "Solve", "GetKCMF", "Translate", "SetParam"], num // 2, 12, ctx.seed + 4, label="restore")
    lc.simulate_and_replay(ctx, "Elastic", ["SetParam", "SetRho", "Translate", "SetCoord", "SetMesh", "GetKCMF", "Solve", "SetBc"], num // 2, 10, ctx.seed + 3, sims=("s1", "s2"), label="shared")
    ctx.cov["rule"] = ("TLC simulation-mode behaviours of Lifecycle.tla (random walks over the enabled actions, seeded) replayed on real simulations; "
                       "distinct = distinct (simulation type, action, preceding action) triples executed")
    ctx.assume("fresh simulation = new mesh object built from the harness's own shadow coordinates + new model + re-applied BC program; comparison at 1e-9 (matrices) / 1e-7 (solutions)")
