"""C04 -- constraints hold exactly and the returned solution solves the stated system.
spec/Constraints.tla computes the solution of every bounded sequence of Dirichlet / point-load
conditions exactly (sum convention on duplicates, even split of point loads, unknown names in
any order, orphan dofs); each TLC behaviour is replayed through add_dirichlet / add_neumann /
Solve() with every installed back end, through the Lagrange-multiplier route and through the
Newton-incremental route, and compared with TLC's rationals."""
from __future__ import annotations

import contextlib
import json
import io
from fractions import Fraction

import numpy as np

SPRINGS = {"chain": ([[0, 1], [1, 2], [2, 3]], [2, 1, 3]), "orph": ([[0, 1], [1, 3]], [2, 3])}
KVEC = np.array([[4, 1, -2, 0], [1, 3, 0, -1], [-2, 0, 5, 1], [0, -1, 1, 2]], dtype=float)
DIRECT_TOL = 1e-10
KRYLOV_TOL = 1e-4  # scipy's default relative tolerance 1e-5 on the residual; stated, solver dependent


def fr(q):
    return Fraction(q[0], q[1])


def make(sysname, newton=False):
    from harness.matsimu import MatSimu, mesh_from_groups
    from EasyFEA.FEM import ElemType

    B = np.array([[1.0, -1.0], [-1.0, 1.0]])
    if sysname == "vec":
        mesh = mesh_from_groups(np.array([[0.0, 0], [1.0, 0]]), {ElemType.SEG2: [[0, 1]]})
        Ke = KVEC[None]
        dofn = 2
    elif sysname == "adv":
        # diffusion + advection: the element matrices, hence the assembled operator, are not symmetric
        mesh = mesh_from_groups(np.array([[float(i), 0] for i in range(4)]), {ElemType.SEG2: [[0, 1], [1, 2], [2, 3]]})
        Ke = np.array([k * B + np.array([[-1.0, 1.0], [-1.0, 1.0]]) for k in (4, 2, 6)])
        dofn = 1
    else:
        conn, ks = SPRINGS[sysname]
        mesh = mesh_from_groups(np.array([[float(i), 0] for i in range(4)]), {ElemType.SEG2: conn})
        Ke = np.array([k * B for k in ks])
        dofn = 1

    def local(simu, g):
        if simu.isNonLinear:
            u = simu._Solver_Get_Newton_Raphson_current_solution()
            asm = g.Get_assembly_e(dofn)
            Fe = -np.einsum("eij,ej->ei", Ke, u[asm])[:, :, None]
            return (Ke, None, None, Fe)
        return (Ke, None, None, None)

    s = MatSimu(mesh, dof_n=dofn, local_fn=local)
    if newton:
        s._Solver_Set_Newton_Raphson_Algorithm(absTol=1e-12, relTol=1e-13, incTol=1e-14, maxIter=5)
    return s


def value_form(v, form, n):
    if form == 0:
        return float(v)
    if form == 1:
        return np.full(n, float(v))
    return lambda x, y, z: float(v) + 0.0 * x


MODES = ["scipy", "cg", "bicg", "gmres", "lgmres", "lsq_linear", "lagrange", "newton"]


def replay(job):
    idx, beh = job
    viol, keys, n = [], [], 0
    exp = np.array([float(fr(q)) for q in beh["x"]])
    dir_dofs = [d for d, _ in beh["dir"]]
    has_dup = len(dir_dofs) != len(set(dir_dofs))
    scale = max(1.0, np.abs(exp).max())
    for mode in MODES:
        if mode in ("lsq_linear", "lgmres") and not beh["free"]:
            continue  # every dof prescribed, no equation left: scipy's lsq_linear / lgmres reject empty systems (not a statement about the property)
        if mode == "newton" and beh["sys"] == "orph" and any(d == 2 for d, _ in beh["neu"]):
            continue  # a load on the orphan dof: the unit diagonal the library adds is not part of the harness's residual (harness artefact)
        if mode == "cg" and beh["sys"] == "adv":
            continue  # conjugate gradients presuppose a symmetric positive-definite operator
        if mode == "lagrange" and (has_dup or not beh["free"]):
            continue  # a dof constrained twice makes the bordered system singular by construction: outside the property
        sim = make(beh["sys"], newton=(mode == "newton"))
        if mode in ("scipy", "cg", "bicg", "gmres", "lgmres", "lsq_linear"):
            sim.solver = mode
        if mode == "lsq_linear":
            sim.extra["wide_bounds"] = True
        k = 0
        entered = []  # (op, nodes, value objects, unknowns): re-entered later with the SAME objects
        for st in beh["steps"]:
            c = st["c"]
            if st["op"] == "solve":
                break
            nodes = np.array(c["nodes"])
            vals = [value_form(fr(v), (idx + k) % 3, len(nodes)) for v in c["vals"]]
            k += 1
            entered.append((st["op"], nodes, vals, c["unks"], [np.array(v, dtype=float).copy() if isinstance(v, np.ndarray) else None for v in vals]))
            if st["op"] == "dir":
                sim.add_dirichlet(nodes, vals, c["unks"])
            else:
                sim.add_neumann(nodes, vals, c["unks"])
        if mode == "lagrange":
            from EasyFEA.FEM import LagrangeCondition

            i = beh["free"][0]
            dn = sim.Get_dof_n()
            kn = sorted(beh["known"])
            if kn and (idx % 2 == 0):
                # a condition that TIES a free dof to a prescribed one, u_i - u_k = (exact difference): the solution is unchanged, and the
                # prescribed (possibly non-zero) value enters the row of the multiplier
                k_ = kn[0]
                sim._Bc_Add_Lagrange(LagrangeCondition(sim.problemType, np.array([i // dn, k_ // dn]), np.array([i, k_]), [sim.Get_unknowns()[i % dn]], np.array([exp[i] - exp[k_]]), np.array([1.0, -1.0])))
            else:
                sim._Bc_Add_Lagrange(LagrangeCondition(sim.problemType, np.array([i // dn]), np.array([i]), [sim.Get_unknowns()[i % dn]], np.array([exp[i]]), np.array([1.0])))
        case = {"behaviour": beh, "mode": mode}
        try:
            with contextlib.redirect_stdout(io.StringIO()), np.errstate(all="ignore"):
                x = sim.Solve()
        except Exception as ex:
            viol.append((f"solve-raises/{mode}/{beh['sys']}", f"Solve() raises {type(ex).__name__}: {ex} for conditions {beh['steps']}", case))
            continue
        tol = KRYLOV_TOL if mode in ("cg", "bicg", "gmres", "lgmres") else (1e-8 if mode in ("lsq_linear",) else DIRECT_TOL)
        err = np.abs(x - exp).max() / scale
        if not np.all(np.isfinite(x)) or err > tol:
            bad = int(np.argmax(np.abs(x - exp)))
            kind = "constrained" if bad in beh["known"] else "free"
            viol.append((f"solution/{mode}/{beh['sys']}/{kind}", f"Solve() with {mode} returns {x} but the stated system has the solution {exp} (dof {bad}, {kind}; conditions {[(s['op'], s['c']['nodes'], s['c']['unks'], [str(fr(v)) for v in s['c']['vals']]) for s in beh['steps'][:-1]]})", case))
        # the caller's value arrays are inputs: entering a condition must not modify them, and the same objects entered again
        # after Bc_Init() describe the same problem
        if mode == "scipy":
            for op_, nodes_, vals_, unks_, snaps_ in entered:
                for v_, s_ in zip(vals_, snaps_):
                    if s_ is not None and not np.array_equal(v_, s_):
                        viol.append((f"input-modified/{beh['sys']}", f"the array given as value of a {'Dirichlet' if op_ == 'dir' else 'point-load'} condition on nodes {list(nodes_)} was modified in place: {s_} -> {v_}", case))
                        break
            try:
                with contextlib.redirect_stdout(io.StringIO()), np.errstate(all="ignore"):
                    sim.Bc_Init()
                    for op_, nodes_, vals_, unks_, _ in entered:
                        (sim.add_dirichlet if op_ == "dir" else sim.add_neumann)(nodes_, vals_, unks_)
                    x2 = sim.Solve()
                if not np.all(np.isfinite(x2)) or np.abs(x2 - exp).max() / scale > tol:
                    viol.append((f"re-entered/{beh['sys']}", f"the same conditions entered again after Bc_Init() (same value objects) give {x2}, the stated system has the solution {exp}", case))
            except Exception as ex:
                viol.append((f"re-entered-raises/{beh['sys']}", f"re-entering the conditions after Bc_Init() raises {type(ex).__name__}: {ex}", case))
        # the prescribed vector the library reports
        vd = sim.Bc_vector_Dirichlet()
        for d in set(dir_dofs):
            if abs(vd[d] - exp[d]) > 1e-12 * scale:
                viol.append((f"dirichlet-vector/{beh['sys']}", f"Bc_vector_Dirichlet()[{d}] = {vd[d]} but the entered values sum to {exp[d]}", case))
                break
        # the stated system is linear in its data (Constraints.tla: Solution is Cramer's rule on B and Xc): the same conditions with every
        # value multiplied by 1e-11 / 1e9 have the solution multiplied by that factor - whatever the magnitude (direct route)
        if mode == "scipy" and idx % 4 == 0:
            for fac in (1e-11, 1e9):
                try:
                    with contextlib.redirect_stdout(io.StringIO()), np.errstate(all="ignore"):
                        sim.Bc_Init()
                        for op_, nodes_, vals_, unks_, _ in entered:
                            sc_vals = [(v_ * fac if not callable(v_) else (lambda x, y, z, f_=v_: f_(x, y, z) * fac)) for v_ in vals_]
                            (sim.add_dirichlet if op_ == "dir" else sim.add_neumann)(nodes_, sc_vals, unks_)
                        x3 = sim.Solve()
                    if not np.all(np.isfinite(x3)) or np.abs(x3 - exp * fac).max() / (scale * fac) > tol:
                        viol.append((f"scaled/{beh['sys']}", f"the same conditions with every value multiplied by {fac:g} give {x3}, the stated system has the solution {exp * fac}", case))
                        break
                except Exception as ex:
                    viol.append((f"scaled-raises/{beh['sys']}", f"the conditions with every value multiplied by {fac:g} raise {type(ex).__name__}: {ex}", case))
                    break
        n += 1
        keys.append((beh["sys"], mode, len(beh["steps"]), has_dup, tuple(sorted(set(dir_dofs)))))
    return {"viol": viol, "n": n, "keys": keys, "traces": 1}


def replay_chain(job):
    """Constraints.tla, Reset: several condition sets solved one after the other on ONE simulation object (Bc_Init() in between);
    the solution of every round is the one of that round's conditions alone."""
    idx, ch = job
    viol, n = [], 0
    for mode in ("scipy", "lsq_linear"):
        sim = make(ch["sys"])
        sim.solver = mode
        if mode == "lsq_linear":
            sim.extra["wide_bounds"] = True
        done = []
        for r, rd in enumerate(ch["rounds"]):
            if mode == "lsq_linear" and not rd["free"]:
                break
            exp = np.array([float(fr(q)) for q in rd["x"]])
            scale = max(1.0, np.abs(exp).max())
            sim.Bc_Init()
            k = 0
            for st in rd["steps"]:
                if st["op"] == "solve":
                    break
                c = st["c"]
                nodes = np.array(c["nodes"])
                vals = [value_form(fr(v), (idx + k + r) % 3, len(nodes)) for v in c["vals"]]
                k += 1
                (sim.add_dirichlet if st["op"] == "dir" else sim.add_neumann)(nodes, vals, c["unks"])
            done.append([(s_["op"], s_["c"]["nodes"], s_["c"]["unks"], [str(fr(v)) for v in s_["c"]["vals"]]) for s_ in rd["steps"][:-1]])
            try:
                with contextlib.redirect_stdout(io.StringIO()), np.errstate(all="ignore"):
                    x = sim.Solve()
            except Exception as ex:
                viol.append((f"chain-raises/{mode}/{ch['sys']}", f"Solve() of round {r + 1} on the same object raises {type(ex).__name__}: {ex} (rounds {done})", {"chain": ch, "mode": mode}))
                break
            n += 1
            tol = 1e-8 if mode == "lsq_linear" else DIRECT_TOL
            if not np.all(np.isfinite(x)) or np.abs(x - exp).max() / scale > tol:
                bad = int(np.argmax(np.abs(x - exp)))
                viol.append((f"chain/{mode}/{ch['sys']}/{'constrained' if bad in rd['known'] else 'free'}", f"round {r + 1} solved on the object that solved the earlier rounds returns {x}, the stated system of this round has the solution {exp} (rounds {done})", {"chain": ch, "mode": mode}))
                break
    return {"viol": viol, "n": n, "keys": [("chain", ch["sys"], len(ch["rounds"]), idx % 16)], "traces": 1}


def orphan_under_schemes(ctx):
    """the orphan clause under every time scheme: the chain 0-1-3 with node 2 attached to nothing is stepped with each
    algorithm; it must stay regular (finite values, the orphan dof stays at rest) and the connected dofs must follow the
    same chain without the orphan node (metamorphic: the orphan node is not part of the physics)."""
    import warnings
    from harness.matsimu import MatSimu, mesh_from_groups
    from EasyFEA.FEM import ElemType
    from EasyFEA import AlgoType

    B = np.array([[1.0, -1.0], [-1.0, 1.0]])
    Mloc = np.array([[2.0, 1.0], [1.0, 2.0]]) / 6.0

    def build(with_orphan):
        if with_orphan:
            mesh = mesh_from_groups(np.array([[float(i), 0] for i in range(4)]), {ElemType.SEG2: [[0, 1], [1, 3]]})
        else:
            mesh = mesh_from_groups(np.array([[0.0, 0], [1.0, 0], [3.0, 0]]), {ElemType.SEG2: [[0, 1], [1, 2]]})
        Ke = np.array([2.0 * B, 3.0 * B])
        Me = np.array([1.0 * Mloc, 2.0 * Mloc])
        return MatSimu(mesh, dof_n=1, local_fn=lambda simu, g: (Ke, 0.1 * Ke, Me, None))

    algos = [a for a in AlgoType.Get_Hyperbolic_Types()] + [AlgoType.parabolic]
    for algo in algos:
        name = str(algo).split(".")[-1]
        out = {}
        bad = None
        for with_orphan in (True, False):
            sim = build(with_orphan)
            last = 3 if with_orphan else 2
            sim.add_dirichlet(np.array([0]), [0.0], ["x"])
            sim.add_neumann(np.array([last]), [1.5], ["x"])
            with contextlib.redirect_stdout(io.StringIO()):
                if algo == AlgoType.parabolic:
                    sim.Solver_Set_Parabolic_Algorithm(dt=0.2, alpha=0.5)
                else:
                    sim.Solver_Set_Hyperbolic_Algorithm(dt=0.2, algo=algo, **({"alpha": 0.1} if name in ("hht", "hht_newmark") else {}))
            try:
                with contextlib.redirect_stdout(io.StringIO()), warnings.catch_warnings():
                    from scipy.sparse.linalg import MatrixRankWarning

                    warnings.simplefilter("error", category=MatrixRankWarning)  # a singular-matrix warning is the violation
                    for _ in range(3):
                        sim.Solve()
                        sim.Save_Iter()
                pt = sim.problemType
                out[with_orphan] = [np.asarray(sim._Get_u_n(pt)).copy(), np.asarray(sim._Get_v_n(pt)).copy()]
            except Exception as ex:
                bad = f"{type(ex).__name__}: {ex}"
                break
        ctx.count(2, distinct_key=("orphan-scheme", name))
        if bad is not None:
            ctx.violation(f"orphan-scheme/{name}", f"{name}: stepping the chain with an orphan node raises / warns {bad}", {"algo": name})
            continue
        (uo, vo), (ur, vr) = out[True], out[False]
        if not (np.isfinite(uo).all() and np.isfinite(vo).all()):
            ctx.violation(f"orphan-scheme/{name}", f"{name}: non-finite solution on the chain with an orphan node: u = {uo}", {"algo": name})
        elif abs(uo[2]) > 1e-12 or np.abs(uo[[0, 1, 3]] - ur).max() > 1e-10 * max(1.0, np.abs(ur).max()) or np.abs(vo[[0, 1, 3]] - vr).max() > 1e-10 * max(1.0, np.abs(vr).max()):
            ctx.violation(f"orphan-scheme/{name}", f"{name}: with an orphan node u = {uo}, v = {vo}; the same chain without it gives u = {ur}, v = {vr}", {"algo": name})
    ctx.section("orphan_under_schemes", algorithms=[str(a).split(".")[-1] for a in algos], steps=3)


def run(ctx):
    if ctx.replay:
        case = json.load(open(ctx.replay))["case"]
        r = replay_chain((0, case["chain"])) if "chain" in case else replay((0, case["behaviour"]))
        for v in r["viol"]:
            ctx.violation(*v)
        ctx.count(r["n"], distinct_key="replay")
        ctx._distinct.add("r2")
        return
    res = ctx.tlc_must_hold("MC_Constraints", "MC_Constraints_thorough.cfg" if ctx.thorough else "MC_Constraints_quick.cfg", what="Holds (prescribed sums, free-row equilibrium, orphan dofs)", timeout=3000)
    behs = res.prints.get("BEH", [])
    ctx.pmap(replay, list(enumerate(behs)))
    ctx.section("replay", behaviours=len(behs), modes=MODES, direct_tol=DIRECT_TOL, krylov_tol=KRYLOV_TOL)
    # rounds: condition sets solved one after the other on the same object (Constraints.tla, Reset)
    resc = ctx.tlc_must_hold("MC_Constraints", "MC_Constraints_chain.cfg", what="Holds with Reset (two rounds on one object)", timeout=3000)
    chains = sorted(resc.prints.get("CHAIN", []), key=lambda c: json.dumps(c, sort_keys=True))
    step = 1 if ctx.thorough else 5
    chains = [c for i, c in enumerate(chains) if i % step == ctx.seed % step]
    ctx.pmap(replay_chain, list(enumerate(chains)))
    ctx.section("rounds_on_one_object", chains=len(chains))
    orphan_under_schemes(ctx)
    # Newton-incremental driver (spec/Newton.tla) and multi-point connections of beam structures (spec/Connections.tla)
    from harness.props import newton_replay, connections_replay, solver_options_replay

    newton_replay.newton_driver(ctx)
    connections_replay.connections(ctx)
    solver_options_replay.solver_options(ctx)
    for i in (0, len(behs) // 2):
        if behs:
            ctx.sample({"sys": behs[i]["sys"], "steps": behs[i]["steps"], "x": behs[i]["x"]})
    ctx.cov["rule"] = ("all sequences of up to MaxConds Dirichlet / point-load conditions on three systems (scalar chain, 2 dofs per node with unknown names in any order, chain with an orphan node) enumerated by TLC; "
                       "each replayed with 8 solve modes; distinct = distinct (system, mode, length, duplicate-dof?, constrained set)")
    ctx.cov["exhaustive"] = True
    ctx.assume("Krylov back ends are compared at 1e-4 (their own default tolerance), direct ones at 1e-10; the Lagrange route is exercised only when no dof is constrained twice")
