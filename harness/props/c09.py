"""C09 -- distributed loads.  spec/Loads.tla enumerates (dimension, load kind, region, polynomial
density, thickness, value form, stray nodes) and computes resultant and first moments exactly;
every state is replayed on box meshes of every element type through the add_* methods and
`Bc_vector_Neumann()` is summed and compared."""
from __future__ import annotations

from fractions import Fraction as Fr

import numpy as np

from harness.lifecycle import quiet

POLY = {
    "one": lambda x, y, z: 1.0 + 0 * x,
    "lin": lambda x, y, z: 2.0 + x - y,
    "quad": lambda x, y, z: 1.0 + x**2 - 2 * x * y + z,
    "zero": lambda x, y, z: 0.0 * x,
}
REGION = {
    "right": lambda x, y, z: np.isclose(x, 3), "top": lambda x, y, z: np.isclose(y, 2), "left": lambda x, y, z: np.isclose(x, 0), "bulk": lambda x, y, z: x > -1,
    "xmax": lambda x, y, z: np.isclose(x, 3), "zmax": lambda x, y, z: np.isclose(z, 2), "ymin": lambda x, y, z: np.isclose(y, 0), "edge": lambda x, y, z: np.isclose(x, 3) & np.isclose(y, 2),
}
_MESH = {}


def f2(q):
    return float(Fr(q[0], q[1]))


def box_mesh(dim, elem, fine=False):
    from EasyFEA import Mesher, ElemType
    from EasyFEA.Geoms import Domain, Point

    key = (dim, elem, fine)
    if key not in _MESH:
        with quiet():
            if dim == 2 and "|" in elem:
                # the box meshed in two pieces of different element types, merged (the type listed first is inserted first): two element
                # groups of the main dimension AND of the boundary, in an order the mesher itself never produces
                from EasyFEA.FEM import Mesh

                ea, eb = elem.split("|")
                h = 0.4 if fine else 1.1
                ma = Mesher().Mesh_2D(Domain(Point(0, 0), Point(1.5, 2), h), [], ElemType(ea))
                mb = Mesher().Mesh_2D(Domain(Point(1.5, 0), Point(3, 2), h), [], ElemType(eb))
                _MESH[key] = Mesh.Merge([ma, mb])
                if _MESH[key].Nn >= ma.Nn + mb.Nn:
                    raise RuntimeError("harness: the two pieces of the box were not joined")
            elif dim == 2:
                _MESH[key] = Mesher().Mesh_2D(Domain(Point(0, 0), Point(3, 2), 0.4 if fine else 1.1), [], ElemType(elem))
            else:
                _MESH[key] = Mesher().Mesh_Extrude(Domain(Point(0, 0), Point(3, 2), 0.25 if fine else 1.3), [], [0, 0, 2], [8 if fine else 2], ElemType(elem))
    return _MESH[key]


def run_case(job):
    i, case, elem, phys = job
    from EasyFEA import Models, Simulations

    c = case["cfg"]
    dim = c["dim"]
    key = f"{phys}{dim}D/{elem}/{c['kind']}/{c['region']}/{c['dens'][0]}/{c['form']}" + ("/stray" if c["stray"] else "") + ("/flood" if c.get("flood") else "") + ("/dup" if c.get("dup") else "") + ("/permuted" if c.get("order") == "permuted" else "")
    viol = []
    vec = phys != "thermal"
    kw = {}
    try:
        mesh = box_mesh(dim, elem, fine=bool(c.get("flood")))
        th = f2(c["thick"])
        with quiet():
            if vec:
                mat = Models.Elastic.Isotropic(dim, E=10.0, v=0.3, planeStress=(phys != "phasefield"), thickness=th)
                if phys == "elastic":
                    sim = Simulations.Elastic(mesh, mat, verbosity=False)
                elif phys == "phasefield":
                    PF = Models.PhaseField
                    sim = Simulations.PhaseField(mesh, PF(mat, PF.SplitType.Miehe, PF.ReguType.AT2, Gc=1.0, l0=0.5), verbosity=False)
                    kw = {"problemType": "elastic"}  # the displacement problem of the two-field simulation, named explicitly
                else:
                    sim = Simulations.HyperElastic(mesh, Models.HyperElastic.NeoHookean(dim, K=10.0, thickness=th), verbosity=False)
                unk = ["x", "y", "z"][:dim]
                dens = [POLY[c["dens"][0]], POLY[c["dens"][1]], POLY["one"]][:dim]
            else:
                sim = Simulations.Thermal(mesh, Models.Thermal(k=1.0, c=1.0, thickness=th), verbosity=False)
                unk = ["t"]
                dens = [POLY[c["dens"][0]]]
        nodes = mesh.Nodes_Conditions(REGION[c["region"]])
        if c["stray"]:
            X = mesh.coord
            inner = np.where((X[:, 0] > 0.2) & (X[:, 0] < 2.8) & (X[:, 1] > 0.2) & (X[:, 1] < 1.8) & ((X[:, 2] > 0.2) & (X[:, 2] < 1.8) if dim == 3 else True))[0]
            if c.get("flood"):
                nb = sum(g.Nn for g in mesh.Get_list_groupElem(dim - 1))
                if nodes.size + inner.size < nb:
                    raise RuntimeError(f"harness: the flooded selection ({nodes.size + inner.size} nodes) is smaller than the boundary ({nb} nodes)")
            else:
                inner = inner[:2]
            nodes = np.concatenate([nodes, inner])
        if c.get("dup"):
            nodes = np.concatenate([nodes, nodes[:2]])  # the same region, two nodes listed twice
        if c.get("order") == "permuted":
            nodes = nodes[np.random.default_rng(len(nodes)).permutation(len(nodes))]  # the same selection, listed in another order
        Xn = mesh.coord[nodes]
        if c["form"] == "const":
            vals = [1.0, 0.0, 1.0][: len(unk)] if vec else [1.0]
        elif c["form"] == "func":
            vals = dens
        else:
            vals = [d(Xn[:, 0], Xn[:, 1], Xn[:, 2]) for d in dens]
        with quiet():
            if c["kind"] == "lineLoad":
                sim.add_lineLoad(nodes, vals, unk, **kw)
            elif c["kind"] == "surfLoad":
                sim.add_surfLoad(nodes, vals, unk, **kw)
            elif c["kind"] == "volumeLoad":
                sim.add_volumeLoad(nodes, vals, unk, **kw)
            elif c["kind"] == "pressure":
                if not vec:
                    return {"viol": [], "n": 0, "keys": [], "traces": 0}
                sim.add_pressureLoad(nodes, 1.0, **kw)
            elif c["kind"] == "point":
                if c["form"] == "array":
                    # the total given as nodal arrays, the SAME array object for the first two unknowns, entered twice with a
                    # Bc_Init() in between (load stepping): the input is not the library's to modify
                    f = np.full(len(nodes), 5.0)
                    g_ = np.full(len(nodes), -2.0)
                    pv = ([f, f, g_][: len(unk)] if vec else [f])
                    sim.add_neumann(nodes, pv, unk, **kw)
                    sim.Bc_Init()
                    sim.add_neumann(nodes, pv, unk, **kw)
                    if not (np.all(f == 5.0) and np.all(g_ == -2.0)):
                        viol.append((f"input-modified/{key}", f"{key}: the nodal array given to add_neumann was modified in place (now {f[:3]}...)", {"case": case, "elem": elem}))
                else:
                    sim.add_neumann(nodes, [5.0, -2.0, 0.0][: len(unk)] if vec else [5.0], unk, **kw)
        F = sim.Bc_vector_Neumann(*kw.values()).reshape(mesh.Nn, -1)
        if i % 3 == 0 and c["kind"] in ("lineLoad", "surfLoad", "volumeLoad", "pressure"):
            # a load is linear in its intensity (Loads.tla: the resultant is the integral of the density): the same load with the
            # intensity multiplied by 1e-9 gives the nodal forces multiplied by 1e-9, node by node
            FAC = 1e-9
            if c["kind"] == "pressure":
                vs = None
            elif c["form"] == "func":
                vs = [(lambda x, y, z, d_=d: d_(x, y, z) * FAC) for d in vals]
            else:
                vs = [np.asarray(v) * FAC if isinstance(v, np.ndarray) else v * FAC for v in vals]
            with quiet():
                sim.Bc_Init()
                if c["kind"] == "pressure":
                    sim.add_pressureLoad(nodes, 1.0 * FAC, **kw)
                else:
                    {"lineLoad": sim.add_lineLoad, "surfLoad": sim.add_surfLoad, "volumeLoad": sim.add_volumeLoad}[c["kind"]](nodes, vs, unk, **kw)
            Fs = sim.Bc_vector_Neumann(*kw.values()).reshape(mesh.Nn, -1)
            if np.abs(Fs - FAC * F).max() > 1e-10 * FAC * max(np.abs(F).max(), 1e-300):
                viol.append((f"small-intensity/{key}", f"{key}: the load with its intensity multiplied by {FAC:g} does not give the nodal forces multiplied by {FAC:g} (max relative difference {np.abs(Fs - FAC * F).max() / (FAC * np.abs(F).max()):.3g})", {"case": case, "elem": elem}))
        R = F.sum(0)
        exp = np.array([f2(q) for q in case["resultant"]])[: len(unk)]
        if c["kind"] == "point" and vec and dim == 3:
            exp = np.array([5.0, -2.0, 0.0])
        if c["kind"] == "point" and c["form"] == "array":
            exp = np.array([5.0, 5.0, -2.0][: len(unk)]) if vec else np.array([5.0])
        sc = max(np.abs(exp).max(), 1.0)
        if c["kind"] == "pressure":
            # magnitude pressure x area (x thickness), directed along the face normal (sign convention of the library aside)
            if abs(np.linalg.norm(R) - np.linalg.norm(exp)) > 1e-10 * sc or np.linalg.norm(np.cross(np.append(R, 0)[:3] if dim == 2 else R, np.append(exp, 0)[:3] if dim == 2 else exp)) > 1e-10 * sc:
                viol.append((f"resultant/{key}", f"{key}: pressure resultant {R}, expected magnitude {np.linalg.norm(exp)} along {exp / np.linalg.norm(exp)}", {"case": case, "elem": elem}))
        elif np.abs(R - exp).max() > 1e-10 * sc:
            viol.append((f"resultant/{key}", f"{key}: nodal forces sum to {R}, the exact integral of the density is {exp}", {"case": case, "elem": elem}))
        if case["moments"] and c["dens"][0] != "quad" and c["kind"] not in ("pressure", "point"):
            M = np.array([[f2(q) for q in row] for row in case["moments"]])[:, : len(unk)]
            got = mesh.coord.T @ F  # M_ab = sum_n x_a(n) F_b(n)
            if np.abs(got[:dim] - M[:dim]).max() > 1e-10 * max(np.abs(M).max(), 1.0):
                viol.append((f"moment/{key}", f"{key}: first moments of the nodal forces {got[:dim].ravel()} differ from the moments of the density {M[:dim].ravel()}", {"case": case, "elem": elem}))
        # nodes that bound no loaded element carry no force
        if c["stray"] and np.abs(F[inner]).max() > 0:
            viol.append((f"stray/{key}", f"{key}: nodes that bound no loaded element received a force", {"case": case, "elem": elem}))
    except Exception as ex:
        import traceback

        viol.append((f"raises/{key}", f"{key}: {type(ex).__name__}: {ex} | {traceback.format_exc()[-300:]}", {"case": case, "elem": elem}))
    return {"viol": viol, "n": 1, "keys": [(phys, dim, elem, c["kind"], c["region"], c["dens"][0], c["form"], c["stray"], c.get("dup"), c.get("order"), tuple(c["thick"]))], "traces": 1,
            "cls": type(sim).__name__ if "sim" in dir() else None, "phys": phys}


def beam_loads(ctx, cases):
    """Loads.tla BeamCases: force per unit length on straight (aligned / inclined) members, resultant 3 q and moment (9/2) t x q
    about the origin counting nodal forces and nodal couples."""
    from EasyFEA import Models, Simulations, Mesher, ElemType
    from EasyFEA.Geoms import Domain, Point, Line

    fq = lambda v: np.array([float(Fr(q[0], q[1])) for q in v])
    for case in cases:
        c = case["cfg"]
        dim, timo = c["dim"], c["theory"] == "Timo"
        t, q = fq(case["t"]), fq(case["q"])
        for elem in ("SEG2", "SEG3"):
            tag = f"beam{dim}D/{elem}/{c['theory']}/{c['dir']}/{c['load']}"
            try:
                with quiet():
                    section = Mesher().Mesh_2D(Domain(Point(-0.25, -0.125), Point(0.25, 0.125)))
                    beam = Models.Beam.Isotropic(dim, Line(Point(0, 0, 0), Point(*(3 * t)), 0.75), section, 10.0, 0.25)
                    mesh = Mesher().Mesh_Beams([beam], elemType=ElemType(elem))
                    sim = Simulations.Beam(mesh, Models.Beam.BeamStructure([beam]), verbosity=False, useTimoshenko=timo)
                    comps = [k for k in range(dim) if q[k] != 0]
                    sim.add_lineLoad(sim.mesh.nodes, [float(q[k]) for k in comps], [["x", "y", "z"][k] for k in comps])
                F = sim.Bc_vector_Neumann().reshape(sim.mesh.Nn, -1)
            except Exception as ex:
                ctx.violation(f"raises/{tag}", f"{tag}: {type(ex).__name__}: {ex}", {"case": case, "elem": elem})
                continue
            X = sim.mesh.coord
            force = np.zeros((sim.mesh.Nn, 3))
            couple = np.zeros((sim.mesh.Nn, 3))
            if dim == 2:
                force[:, :2], couple[:, 2] = F[:, :2], F[:, 2]
            else:
                force, couple = F[:, :3], F[:, 3:]
            R = force.sum(0)
            M = np.cross(X, force).sum(0) + couple.sum(0)
            Rexp, Mexp = fq(case["resultant"]), fq(case["moment"])
            if np.abs(R - Rexp).max() > 1e-10 * max(1.0, np.abs(Rexp).max()):
                ctx.violation(f"resultant/{tag}/lineLoad", f"{tag}: a force per unit length {q} (global components) over the member of length 3 along {t} gives the resultant {R}, expected {Rexp}", {"case": case, "elem": elem})
            if np.abs(M - Mexp).max() > 1e-10 * max(1.0, np.abs(Mexp).max()):
                ctx.violation(f"moment/{tag}/lineLoad", f"{tag}: nodal forces and couples have the moment {M} about the origin, expected {Mexp}", {"case": case, "elem": elem})
            ctx.count(1, distinct_key=("beam", dim, elem, timo, c["dir"], c["load"]))


def run(ctx):
    if ctx.replay:
        import json

        rec = json.load(open(ctx.replay))["case"]
        r = run_case((0, rec["case"], rec["elem"], "elastic"))
        for v in r["viol"]:
            ctx.violation(*v)
        ctx.count(2, distinct_key="replay")
        ctx._distinct.add("r2")
        return
    res = ctx.tlc_must_hold("MC_Loads", "MC_Loads.cfg", what="oracle sanity", workers=8)
    allcases = res.prints.get("CASE", [])
    beamcases = sorted([c for c in allcases if c["cfg"]["kind"] == "beamLine"], key=lambda c: sorted(c["cfg"].items()))
    cases = [c for c in allcases if c["cfg"]["kind"] != "beamLine"]
    e2 = ["TRI3", "TRI6", "QUAD4", "QUAD8", "QUAD4|TRI3"] + (["TRI10", "TRI15", "QUAD9", "TRI6|QUAD8"] if ctx.thorough else [])
    e3 = ["TETRA4", "HEXA8", "PRISM6"] + (["TETRA10", "HEXA20", "HEXA27", "PRISM15", "PRISM18"] if ctx.thorough else [])
    jobs = []
    for i, c in enumerate(cases):
        for elem in (e2 if c["cfg"]["dim"] == 2 else e3):
            if "|" in elem and (c["cfg"]["stray"] or c["cfg"].get("flood")):
                continue  # a merged mesh keeps the welded interface as boundary elements: interior nodes of a selection may legitimately bound one
            jobs.append((i, c, elem, "elastic"))
            if c["cfg"]["kind"] != "pressure" and (ctx.thorough or i % 3 == 0):
                jobs.append((i, c, elem, "thermal"))
            # the other simulation types that accept the loads: the displacement problem of PhaseField, HyperElastic
            if (ctx.thorough or i % 4 == 1) and elem in ("TRI3", "QUAD4", "TETRA4", "HEXA8", "PRISM6"):
                jobs.append((i, c, elem, "phasefield"))
                jobs.append((i, c, elem, "hyperelastic"))
    outs = ctx.pmap(run_case, jobs, chunksize=16)
    built = {(o["phys"], o["cls"]) for o in outs if o and o.get("cls")}
    want = {("elastic", "Elastic"), ("thermal", "Thermal"), ("phasefield", "PhaseField"), ("hyperelastic", "HyperElastic")}
    if not want <= built:
        from harness.core import MachineryError

        raise MachineryError(f"vacuous load replay: simulation classes actually built {sorted(built)}, expected {sorted(want)}")
    beam_loads(ctx, beamcases)
    if not beamcases:
        from harness.core import MachineryError

        raise MachineryError('Loads.tla emitted no beam case')
    ctx.section("replay", cases=len(cases), jobs=len(jobs), element_types=e2 + e3)
    ctx.sample(cases[3])
    ctx.cov["rule"] = "every (dimension, load kind, region, density, thickness, value form, stray) state of Loads.tla replayed on every listed element type for Elastic (and Thermal); distinct = (physics, element type, state)"
    ctx.cov["exhaustive"] = True
    ctx.assume("first moments are compared for densities of degree <= 1 (x * density must lie within the exactness of every mass rule); resultants for degree <= 2; pressure: magnitude and direction up to the library's sign convention")
