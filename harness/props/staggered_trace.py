"""Direction B for spec/Staggered.tla (the staggered driver of PhaseField.Solve, attached to C17: what a step saves is what
the driver returns).  The two sub-solves of real simulations are wrapped FROM THE HARNESS (instance attributes shadowing the
name-mangled methods; nothing is edited in the library), every call of Solve() becomes a record of events and TLC
(Trace_Staggered.tla) accepts or rejects each record.

Verdicts are limited to the structure a saved step relies on: damage and displacement are solved in turn, the returned pair
is the last one computed (the maximum with the old damage for the HistoryDamage solver) and is the state of the simulation,
1 <= Niter <= maxIter, converged = False only at maxIter.  The value of the criterion is not judged (TLC infers it from the
continuation of the loop); the documented formulas are evaluated on the logged arrays and compared with that inference, a
difference being a note in the evidence (`criterion_differences`)."""
from __future__ import annotations

import json
import os

import numpy as np

from harness.lifecycle import quiet, _grid_mesh


def record_runs(job):
    idx, (solver, elem, option, tol, max_iter, loads) = job
    from EasyFEA import Models, Simulations
    from EasyFEA.FEM import ElemType

    PF = Models.PhaseField
    with quiet():
        mesh = _grid_mesh(3, 3, ElemType(elem))
        mat = Models.Elastic.Isotropic(2, E=10.0, v=0.25, planeStress=False)
        model = PF(mat, PF.SplitType.Miehe, PF.ReguType.AT2, Gc=1e-4, l0=0.5, solver=PF.SolverType(solver))
        sim = Simulations.PhaseField(mesh, model, verbosity=False)
    tokens, events = {}, []

    def tok(a):
        key = np.ascontiguousarray(np.asarray(a, dtype=float)).tobytes()
        return tokens.setdefault(key, len(tokens) + 1)

    arrays = {}
    inner_d, inner_u = sim._PhaseField__Solve_damage, sim._PhaseField__Solve_elastic

    def solve_damage():
        d = inner_d()
        t = tok(d)
        arrays[t] = np.array(d, dtype=float)
        events.append(dict(ev="damage", tok=t))
        return d

    def solve_elastic():
        u = inner_u()
        t = tok(u)
        arrays[t] = np.array(u, dtype=float)
        events.append(dict(ev="elastic", tok=t))
        return u

    sim._PhaseField__Solve_damage = solve_damage
    sim._PhaseField__Solve_elastic = solve_elastic
    bottom = mesh.Nodes_Conditions(lambda x, y, z: y == 0)
    top = mesh.Nodes_Conditions(lambda x, y, z: y == y.max())
    runs = []
    for n, l in enumerate(loads):
        events.clear()
        old_d = np.array(sim.damage, dtype=float)
        old_u = np.array(sim.displacement, dtype=float)
        with quiet():
            sim.Bc_Init()
            sim.add_dirichlet(bottom, [0, 0], ["x", "y"])
            sim.add_dirichlet(top, [0.0, 2.5e-3 * l], ["x", "y"])
            out = sim.Solve(tolConv=tol, maxIter=max_iter, convOption=option)
        u, d, converged = out[0], out[1], bool(out[-1])
        evs = [dict(e) for e in events]
        last_d = next((e["tok"] for e in reversed(evs) if e["ev"] == "damage"), 0)
        if solver == "HistoryDamage" and last_d:
            dtok = "max" if np.array_equal(np.asarray(d, dtype=float), np.maximum(old_d, arrays[last_d])) else "neither the last damage nor its maximum with the old one"
        else:
            dtok = tok(d)
        state_d = dtok if np.array_equal(np.asarray(sim.damage, dtype=float), np.asarray(d, dtype=float)) else "another array"
        utok = tok(u)
        state_u = utok if np.array_equal(np.asarray(sim.displacement, dtype=float), np.asarray(u, dtype=float)) else "another array"
        niter = int(getattr(sim, "_PhaseField__Niter"))
        evs.append(dict(ev="return", u=utok, d=dtok, converged=converged, niter=niter, state_u=state_u, state_d=state_d))
        # the documented criterion on the logged arrays (options 0 and 3; the energy options need quantities that are not logged)
        doc = []
        prev_d, prev_u = old_d, old_u
        ds = [arrays[e["tok"]] for e in evs if e["ev"] == "damage"]
        us = [arrays[e["tok"]] for e in evs if e["ev"] == "elastic"]
        for dk, uk in zip(ds, us):
            if tol == 1 or dk.max() == 0:
                doc.append("yes")
            elif option == 0:
                v = np.max(np.abs(dk - prev_d))
                doc.append("edge" if abs(v - tol) <= 1e-9 * tol else ("yes" if v <= tol else "no"))
            elif option == 3:
                du = np.abs(uk - prev_u)
                du[uk != 0] *= 1 / np.abs(uk[uk != 0])
                dd = np.abs(dk - prev_d)
                dd[dk != 0] *= 1 / np.abs(dk[dk != 0])
                cu, cd = du.sum(), dd.sum()
                edge = abs(cd - tol) <= 1e-9 * tol or abs(cu - 0.999 * tol) <= 1e-9 * tol
                doc.append("edge" if edge else ("yes" if (cd <= tol and cu <= tol * 0.999) else "no"))
            else:
                doc.append("unknown")
            prev_d, prev_u = dk, uk
        runs.append(dict(id=f"{solver}/{elem}/opt{option}/tol{tol:g}/max{max_iter}/{'-'.join(map(str, loads))}/step{n + 1}", solver=solver, maxIter=int(max_iter), option=option, events=evs, documented=doc,
                         dmax=float(np.max(d))))
    return {"runs": runs, "n": len(runs)}


def staggered(ctx):
    from harness.core import MachineryError

    ctx.tlc_must_hold("Staggered", "Staggered.cfg", what="LastPair / Bounded / FlagHonest / FirstHit", workers=2, timeout=600)
    ctx.tlc_must_fail("Staggered", "Staggered_neg_previous_u.cfg", expect="LastPair")
    ctx.tlc_must_fail("Staggered", "Staggered_neg_extra_pass.cfg", expect="FirstHit")
    jobs = []
    elems = ("QUAD4", "TRI3") if ctx.thorough else ("QUAD4",)
    for solver in ("History", "HistoryDamage", "BoundConstrain"):
        for elem in elems:
            for option in (0, 1, 2, 3):
                for tol, max_iter in ((1.0, 500), (1e-2, 500), (1e-3, 3), (1e-6, 2)) if not ctx.thorough else ((1.0, 500), (1e-1, 500), (1e-2, 500), (1e-3, 500), (1e-3, 3), (1e-6, 2), (1e-6, 7)):
                    jobs.append((solver, elem, option, tol, max_iter, [1, 2, 0, 2]))
    outs = [o for o in ctx.pmap(record_runs, list(enumerate(jobs)), chunksize=1) if o]
    runs = [r for o in outs for r in o.get("runs", [])]
    if not runs:
        raise MachineryError("Staggered: no call of Solve() was recorded")
    # binding self-test: three corrupted copies of a recorded call must be rejected
    base = next(r for r in runs if sum(e["ev"] == "damage" for e in r["events"]) >= 2)
    def corrupt(name, f):
        c = json.loads(json.dumps(base))
        c["id"] = "selftest/" + name
        f(c["events"])
        return c
    bad = [corrupt("swapped-sub-solves", lambda ev: ev.__setitem__(slice(0, 2), [ev[1], ev[0]])),
           corrupt("returns-previous-displacement", lambda ev: ev[-1].__setitem__("u", [e["tok"] for e in ev if e["ev"] == "elastic"][-2])),
           corrupt("niter-off-by-one", lambda ev: ev[-1].__setitem__("niter", ev[-1]["niter"] + 1))]
    path = os.path.join(ctx.scratch, "staggered_runs.json")
    json.dump(runs + bad, open(path, "w"))
    res = ctx.tlc("Trace_Staggered", "Trace_Staggered.cfg", workers=1, env={"STAGGERED_TRACES": path}, timeout=1800)
    if res.violated:
        raise MachineryError(f"Trace_Staggered: {res.violated} {res.counterexample[:1000]}")
    accepted = {a["run"] for a in res.prints.get("ACCEPT", [])}
    stuck = {}
    for s in res.prints.get("STUCK", []):
        if s["run"] not in stuck or s["at"] > stuck[s["run"]]["at"]:
            stuck[s["run"]] = s
    for b in bad:
        if b["id"] in accepted:
            raise MachineryError(f"Trace_Staggered accepted the corrupted record {b['id']}")
    notes, passes = [], 0
    for r in runs:
        ctx.traces(1)
        n_pass = sum(e["ev"] == "damage" for e in r["events"])
        passes += n_pass
        ctx.count(n_pass, distinct_key=("staggered", r["solver"], r["option"], r["maxIter"], min(n_pass, 4)))
        if r["id"] not in accepted:
            s = stuck.get(r["id"], {})
            at = s.get("at", 0)
            ev = r["events"][at - 1] if 0 < at <= len(r["events"]) else {}
            ctx.violation(f"staggered/{r['solver']}/opt{r['option']}/{s.get('event', '?')}", f"call {r['id']}: the recorded call of PhaseField.Solve is not a behaviour of Staggered.tla; stuck at event {at} {ev} with the model at pc={s.get('pc')}, {s.get('passes')} passes made, last damage / displacement tokens {s.get('lastD')} / {s.get('lastU')} (maxIter {r['maxIter']})", r)
            continue
        # criterion inferred by TLC: not met before the last pass, met at the last pass iff converged
        conv = r["events"][-1]["converged"]
        inferred = ["no"] * (n_pass - 1) + ["yes" if conv else "no"]
        for i, (a, b) in enumerate(zip(inferred, r["documented"])):
            if b in ("edge", "unknown") or a == b:
                continue
            notes.append(dict(run=r["id"], pass_=i + 1, documented=b, library=a))
    if max(r["dmax"] for r in runs) < 0.05 or not any(sum(e["ev"] == "damage" for e in r["events"]) >= 3 for r in runs):
        raise MachineryError("vacuous staggered check: no recorded call produced damage / made three passes")
    ctx.section("staggered", calls=len(runs), passes=passes, corrupted_records_rejected=len(bad), criterion_differences=notes[:30], criterion_differences_count=len(notes))
