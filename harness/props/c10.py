"""C10 -- frame indifference.  spec/FrameIndiff.tla (instance of Geometry.tla) enumerates exact
isometries; for each one the WHOLE problem (mesh, material / beam axes, constraints, loads) is
moved and solved with the real code and compared with the transformed baseline solution
(metamorphic replay: the baseline numbers come from the implementation itself)."""
from __future__ import annotations

from fractions import Fraction as Fr

import numpy as np

from harness.lifecycle import quiet, clone_mesh_with_coords
from harness.props.c01 import base_mesh
from harness.props.c08 import apply_moves
from harness.props.c11 import PARAMS

TOL = 1e-8


def f2(q):
    return float(Fr(q[0], q[1]))


def inplane(A, b):
    return abs(A[2, 2] - 1) < 1e-15 and abs(b[2]) < 1e-15 and np.abs(A[2, :2]).max() < 1e-15 and np.abs(A[:2, 2]).max() < 1e-15


def assembly_mesh(dim, elem):
    """a body assembled from a part and its mirror image (Mesh.Merge of a mesh and of its Symmetry copy): half of the elements are
    orientation-reversed, the boundary groups of the two halves run in opposite senses - a rigidly moved assembly is still one problem"""
    from EasyFEA import Mesher
    from EasyFEA.FEM import ElemType, Mesh
    from EasyFEA.Geoms import Domain, Point

    dom = Domain(Point(0, 0), Point(2, 3), 1.0)
    if dim == 2:
        half = Mesher().Mesh_2D(dom, [], ElemType(elem), isOrganised=(elem == "QUAD4"))
    else:
        half = Mesher().Mesh_Extrude(dom, [], [0, 0, 1], [2], ElemType(elem), isOrganised=(elem == "HEXA8"))
    other = half.copy()
    other.Symmetry((2, 0, 0), (1, 0, 0))
    mesh = Mesh.Merge([half, other])
    if mesh.Nn >= 2 * half.Nn:
        raise RuntimeError("harness: the two halves of the assembly were not joined")
    return mesh


def solve_continuum(kind, dim, elem, A, b, moves, dynamic=False):
    """returns displacement matrix (Nn, dim) / temperature, energy"""
    from EasyFEA import Models, Simulations

    assembly = kind.endswith("+assembly")
    kind = kind.split("+")[0]
    with quiet():
        if assembly:
            mesh = assembly_mesh(dim, elem)
        else:
            mesh = base_mesh(dim, elem, False).copy()
        X0 = mesh.coord.copy()
        apply_moves(mesh, moves)  # the public motions move the mesh
    a1 = A @ np.array([0.6, 0.8, 0.0]) if dim == 2 else A @ np.array([1 / 3, 2 / 3, 2 / 3])
    a2 = A @ np.array([-0.8, 0.6, 0.0]) if dim == 2 else A @ np.array([2 / 3, -2 / 3, 1 / 3])
    E = Models.Elastic
    with quiet():
        if kind == "iso":
            mat = E.Isotropic(dim, E=10.0, v=0.3, planeStress=True, thickness=0.5)
        elif kind == "ortho":
            mat = E.Orthotropic(dim, axis_1=a1, axis_2=a2, planeStress=False, thickness=0.5, **{k: float(v) for k, v in PARAMS["Orthotropic"][0].items()})
        if kind == "thermal":
            sim = Simulations.Thermal(mesh, Models.Thermal(k=2.0, c=1.0, thickness=0.5), verbosity=False)
        else:
            sim = Simulations.Elastic(mesh, mat, verbosity=False)
    # constraints and loads are defined on material points (node sets of the un-moved mesh) and moved with the frame
    fixed = np.where(X0[:, 0] < 1e-9)[0]
    loaded = np.where(X0[:, 1] > 2.0)[0]
    L = A[:dim, :dim]
    with quiet():
        if kind == "thermal":
            sim.add_dirichlet(fixed, [1.0], ["t"])
            sim.add_neumann(loaded, [3.0], ["t"])
            u = sim.Solve().copy()
            return u.reshape(-1, 1), float(0.5 * u @ (sim.Get_K_C_M_F()[0] @ u))
        unk = ["x", "y", "z"][:dim]
        d0 = np.array([0.01, -0.02, 0.015])[:dim]
        f0 = np.array([1.0, -2.0, 0.5])[:dim]
        sim.add_dirichlet(fixed, list(L @ d0), unk)
        sim.add_neumann(loaded, list(L @ f0), unk)
        # a pressure is a scalar: its direction is the normal of the moved boundary, so it needs no transformation at all
        sim.add_pressureLoad(loaded, 0.7)
        if dynamic:
            sim.Solver_Set_Hyperbolic_Algorithm(dt=0.1)
        u = sim.Solve().copy()
        W = sim.Result("Wdef")
    return u.reshape(-1, dim), float(W)


def solve_beam(dim, elem, timo, A, b, dynamic=False, form=None):
    from EasyFEA import Models, Simulations, Mesher, ElemType
    from EasyFEA.Geoms import Domain, Point, Line

    form = form or {"yaxis": "perp", "load": "tip"}
    t0 = np.array([1.0, 0, 0])
    y0 = np.array([0, 1.0, 0])
    if form["yaxis"] == "oblique":
        y0 = y0 + 0.7 * t0  # in the plane (member, vertical), not perpendicular to the member: same orthonormal frame
    t, ny = A @ t0, A @ y0
    p0 = b.copy()
    with quiet():
        section = Mesher().Mesh_2D(Domain(Point(-0.25, -0.125), Point(0.25, 0.125)))
        beam = Models.Beam.Isotropic(dim, Line(Point(*p0), Point(*(p0 + 3 * t)), 0.75), section, 10.0, 0.25, yAxis=tuple(ny))
        mesh = Mesher().Mesh_Beams([beam], elemType=ElemType(elem))
        sim = Simulations.Beam(mesh, Models.Beam.BeamStructure([beam]), verbosity=False, useTimoshenko=timo)
        X = sim.mesh.coord
        s = (X - p0) @ t
        root = np.where(np.abs(s) < 1e-9)[0]
        tip = np.where(np.abs(s - 3) < 1e-9)[0]
        sim.add_connection_fixed(root) if False else None
        unk = sim.Get_unknowns()
        sim.add_dirichlet(root, [0.0] * len(unk), unk)
        # tip load: transverse force along the local y axis and an axial force, plus (3-D) a force along local z
        F = A @ (np.array([0.5, 0.3, 0.2]) if dim == 3 else np.array([0.5, 0.3, 0.0]))  # the moved load
        fu = ["x", "y", "z"][:dim] if dim > 1 else ["x"]
        if form["load"] == "tip":
            sim.add_neumann(tip, list(F[: len(fu)]), fu)
        else:  # the same vector as a force per unit length on the whole member
            sim.add_lineLoad(sim.mesh.nodes, list(F[: len(fu)]), fu)
        if dynamic:  # one Newmark step from rest: the mass matrix takes part
            sim.rho = 2.0
            sim.Solver_Set_Hyperbolic_Algorithm(dt=0.1)
        u = sim.Solve().copy().reshape(sim.mesh.Nn, -1)
    order = np.argsort(s)
    return u[order], s[order], t, ny


def run_case(job):
    i, frame, prob = job
    viol = []
    moves = frame["moves"]
    A = np.array([[f2(q) for q in row] for row in frame["A"]])
    b = np.array([f2(q) for q in frame["b"]])
    det = f2(frame["det"])
    key = f"{prob[0]}/{'/'.join(('-'.join(p.values()) if isinstance(p, dict) else str(p)) for p in prob[1:])}/{'+'.join(moves) if moves else 'identity'}"
    I = np.eye(3)
    try:
        if prob[0].split("+")[0] in ("iso", "ortho", "thermal"):
            kind, dim, elem, dyn = prob
            if dim == 2 and not inplane(A, b):
                return None
            u0, W0 = solve_continuum(kind, dim, elem, I, np.zeros(3), [], dyn)
            u1, W1 = solve_continuum(kind, dim, elem, A, b, moves, dyn)
            exp = u0 if kind.split("+")[0] == "thermal" else u0 @ A[:dim, :dim].T
            sc = np.abs(exp).max()
            if np.abs(u1 - exp).max() > TOL * sc:
                viol.append((f"solution/{key}", f"{key}: solution of the moved problem differs from the moved solution (max relative {np.abs(u1 - exp).max() / sc:.3g})", {"frame": frame, "problem": list(prob)}))
            if abs(W1 - W0) > TOL * abs(W0):
                viol.append((f"energy/{key}", f"{key}: energy {W1} of the moved problem differs from {W0}", {"frame": frame, "problem": list(prob)}))
        else:
            _, dim, elem, timo = prob[:4]
            dyn = len(prob) > 4 and prob[4] is True
            form = prob[-1] if isinstance(prob[-1], dict) else None
            if dim == 2 and not inplane(A, b):
                return None
            # the baseline is the plain form in the identity frame: the form of the axes / of the load may not matter either
            u0, s0, t0, y0 = solve_beam(dim, elem, timo, I, np.zeros(3), dyn, {"yaxis": "perp", "load": (form or {}).get("load", "tip")})
            u1, s1, t1, y1 = solve_beam(dim, elem, timo, A, b, dyn, form)
            if dim == 2:
                d0, r0 = u0[:, :2], u0[:, 2]
                d1, r1 = u1[:, :2], u1[:, 2]
                expd = d0 @ A[:2, :2].T
                expr = det * r0  # rz is an axial vector component
            else:
                d0, r0 = u0[:, :3], u0[:, 3:]
                d1, r1 = u1[:, :3], u1[:, 3:]
                expd = d0 @ A.T
                expr = det * (r0 @ A.T)
            sc = np.abs(expd).max()
            if np.abs(d1 - expd).max() > TOL * sc:
                viol.append((f"beam-displacement/{key}", f"{key}: displacements of the moved beam differ from the moved displacements: tip {d1[-1]} vs {expd[-1]}", {"frame": frame, "problem": list(prob)}))
            scr = max(np.abs(expr).max(), 1e-12)
            if np.abs(r1 - expr).max() > TOL * scr:
                viol.append((f"beam-rotation/{key}", f"{key}: rotations of the moved beam differ from the moved rotations (axial vectors): tip {r1[-1]} vs {expr[-1]}", {"frame": frame, "problem": list(prob)}))
    except Exception as ex:
        import traceback

        viol.append((f"raises/{key}", f"{key}: {type(ex).__name__}: {ex} | {traceback.format_exc()[-300:]}", {"frame": frame, "problem": list(prob)}))
    return {"viol": viol, "n": 1, "keys": [(tuple(tuple(p.items()) if isinstance(p, dict) else p for p in prob), tuple(moves))], "traces": 1}


def run(ctx):
    res = ctx.tlc_must_hold("FrameIndiff", f"FrameIndiff_{'thorough' if ctx.thorough else 'quick'}.cfg", what="AllFramesEqual / Isometry", workers=8)
    ctx.tlc_must_fail("FrameIndiff", "FrameIndiff_neg.cfg", expect="AllFramesEqual")
    frames = res.prints.get("FRAME", [])
    probs = [("iso+assembly", 2, "TRI3", False), ("iso+assembly", 2, "QUAD4", False), ("iso+assembly", 3, "HEXA8", False), ("iso", 2, "TRI3", False), ("ortho", 2, "QUAD4", False), ("iso", 3, "TETRA4", False), ("ortho", 3, "HEXA8", False), ("thermal", 2, "TRI6", False), ("thermal", 3, "PRISM6", False),
             ("iso", 2, "TRI6", True), ("beam", 2, "SEG2", False), ("beam", 2, "SEG3", True), ("beam", 3, "SEG2", False), ("beam", 3, "SEG3", True),
             ("beam", 2, "SEG2", False, True), ("beam", 3, "SEG3", False, True), ("beam", 3, "SEG2", True, True)]   # last flag: one dynamic step (mass matrix)
    if ctx.thorough:
        probs += [("ortho", 2, "TRI10", False), ("ortho", 3, "TETRA10", False), ("iso", 3, "PRISM6", True), ("beam", 2, "SEG4", False), ("beam", 3, "SEG5", False), ("beam", 3, "SEG4", True)]
    # the forms of Beam problems (FrameIndiff.tla: BeamForms) multiply the static beam problems
    forms = sorted((res.prints.get("FORMS") or [[]])[0], key=lambda f: (f["yaxis"], f["load"]))
    if len(forms) != 4:
        from harness.core import MachineryError

        raise MachineryError(f"FrameIndiff did not emit the beam forms: {forms}")
    probs = [p for p in probs if p[0] != "beam"] + [p for p in probs if p[0] == "beam" and len(p) > 4] + [tuple(p) + (f,) for p in probs if p[0] == "beam" and len(p) == 4 for f in forms]
    jobs = [(i, f, p) for i, f in enumerate(frames) for p in probs]
    ctx.pmap(run_case, jobs, chunksize=1)
    ctx.section("replay", frames=len(frames), problems=[list(p) for p in probs])
    ctx.sample(frames[min(2, len(frames) - 1)])
    ctx.cov["rule"] = "every isometry of FrameIndiff.tla x every listed problem, solved in the identity frame and in the moved frame; distinct = (problem, motion sequence) actually comparable (2-D problems only under in-plane motions)"
    ctx.assume("metamorphic: the baseline solution comes from the implementation in the identity frame; comparison at 1e-8 relative")
