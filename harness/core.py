"""Check context: tier/seed, violations, known findings, evidence.

A property check is a function `run(ctx)` in harness/props/<id>.py.  It calls
`ctx.tlc(...)` for model checking (counts accumulate into the evidence), reports every
disagreement between specification and implementation through `ctx.violation(key, ...)`
and finishes with `ctx.finish()`.

Known findings (known_findings.json, read-only at run time): an entry
{"property": id, "key": <structured key string>, "what": text} suppresses exactly the
violations whose key equals entry["key"]; it prints a KNOWN-FINDING line instead.
Entries with "status": "fixed" suppress nothing.
"""
from __future__ import annotations

import json
import os
import random
import shutil
import sys
import tempfile
import time
import traceback

ROOT = os.path.dirname(os.path.dirname(os.path.abspath(__file__)))
sys.path.insert(0, ROOT)

from harness import tlc as tlcmod  # noqa: E402

EVIDENCE_DIR = os.environ.get("VERIF_EVIDENCE_DIR") or os.path.join(ROOT, "evidence")  # the override is used only by seeded/matrix.sh (parallel scratch runs)
REPLAY_DIR = os.path.join(EVIDENCE_DIR, "replays")
FINDINGS_FILE = os.path.join(ROOT, "known_findings.json")


class MachineryError(RuntimeError):
    pass


def load_findings():
    if not os.path.exists(FINDINGS_FILE):
        return []
    with open(FINDINGS_FILE) as f:
        return json.load(f).get("findings", [])


class Ctx:
    def __init__(self, pid: str, tier: str, seed: int, replay: str | None = None):
        self.pid = pid
        self.tier = tier
        self.thorough = tier == "thorough"
        self.seed = seed
        self.replay = replay
        self.rng = random.Random(seed)
        self.t0 = time.time()
        self.scratch = tempfile.mkdtemp(prefix=f"verif_{pid}_")
        self.violations = []  # (key, what, replay_path)
        self.known_hit = {}  # key -> what
        self.viol_count = {}  # key -> number of failing cases
        self.findings = [f for f in load_findings() if f.get("property") == pid and f.get("status", "open") == "open"]
        self.finding_keys = {f["key"]: f for f in self.findings}
        self.cov = {
            "states": 0,
            "transitions": 0,
            "traces_validated_against_impl": 0,
            "samples": [],
            "evaluations": 0,
            "distinct_nontrivial": 0,
            "rule": "",
            "tlc_runs": [],
            "sections": {},
        }
        self.assumptions = []
        self.level = "model_checking"
        self._distinct = set()

    # ---- TLC ----------------------------------------------------------------
    def tlc(self, module, cfg=None, **kw):
        kw.setdefault("scratch", self.scratch)
        res = tlcmod.run(module, cfg, **kw)
        self.cov["states"] += res.distinct
        self.cov["transitions"] += res.generated
        self.cov["tlc_runs"].append(
            {
                "module": module,
                "cfg": res.cfg,
                "distinct_states": res.distinct,
                "states_generated": res.generated,
                "depth": res.depth,
                "wall_s": round(res.wall_s, 2),
                "violated": res.violated,
                **({"coverage": {k: list(v) for k, v in res.coverage.items()}} if res.coverage else {}),
            }
        )
        return res

    def tlc_must_hold(self, module, cfg=None, what="specification invariants", **kw):
        """Model-check a design configuration: a violation here means the specification
        itself is inconsistent -> machinery failure, never a verdict about the code."""
        res = self.tlc(module, cfg, **kw)
        if not res.ok:
            raise MachineryError(f"TLC: {what} violated in {module}/{res.cfg}: {res.violated}\n{res.counterexample[:3000]}")
        return res

    def tlc_must_fail(self, module, cfg, expect=None, **kw):
        """Negative self-test: a deliberately broken design must be rejected by TLC
        (shows the invariant is not vacuous)."""
        res = tlcmod.run(module, cfg, scratch=self.scratch, **kw)
        ok = res.violated is not None and (expect is None or res.violated == expect)
        self.cov["sections"].setdefault("negative_selftests", []).append({"module": module, "cfg": cfg, "rejected": ok, "violated": res.violated})
        if not ok:
            raise MachineryError(f"negative self-test {module}/{cfg} was not rejected by TLC (got {res.violated})")
        return res

    # ---- parallel replay -----------------------------------------------------
    def pmap(self, func, items, procs=None, chunksize=None):
        """Runs func(item) -> dict(viol=[(key, what, obj)], n=int, keys=[...], traces=int) in worker
        processes (fork) and folds the results into the context."""
        import multiprocessing as mp

        items = list(items)
        procs = procs or min(16, max(1, len(items)))
        out = []
        if procs == 1 or len(items) < 4:
            out = [_guarded_call((func, it)) for it in items]
        else:
            ctxmp = mp.get_context("fork")
            with ctxmp.Pool(procs) as pool:
                out = pool.map(_guarded_call, [(func, it) for it in items], chunksize or max(1, len(items) // (procs * 8)))
        for r in out:
            if r is None:
                continue
            for key, what, obj in r.get("viol", []):
                self.violation(key, what, obj)
            self.cov["evaluations"] += r.get("n", 0)
            for k in r.get("keys", []):
                self._distinct.add(k if not isinstance(k, list) else tuple(k))
            self.cov["traces_validated_against_impl"] += r.get("traces", 0)
        return out

    # ---- accounting ----------------------------------------------------------
    def count(self, n=1, distinct_key=None):
        self.cov["evaluations"] += n
        if distinct_key is not None:
            self._distinct.add(distinct_key)

    def traces(self, n=1):
        self.cov["traces_validated_against_impl"] += n

    def sample(self, s, cap=6):
        if len(self.cov["samples"]) < cap:
            self.cov["samples"].append(s)

    def section(self, name, **kv):
        self.cov["sections"].setdefault(name, {}).update(kv)

    def assume(self, text):
        if text not in self.assumptions:
            self.assumptions.append(text)

    # ---- verdicts ------------------------------------------------------------
    def violation(self, key: str, what: str, replay_obj=None):
        """key: structured identifier of the failing case (stable across runs)."""
        f = self._match_finding(key)
        if f is not None:
            if key not in self.known_hit:
                self.known_hit[key] = f
            return False
        self.viol_count[key] = self.viol_count.get(key, 0) + 1
        if self.viol_count[key] > 1:
            return True  # same structured key already reported once; counted
        path = self._write_replay(key, what, replay_obj)
        self.violations.append((key, what, path))
        return True

    def _match_finding(self, key):
        if key in self.finding_keys:
            return self.finding_keys[key]
        import re

        for f in self.findings:
            pre = f.get("key_prefix")
            if pre and key.startswith(pre):
                return f
            rx = f.get("key_regex")
            if rx and re.search(rx, key):
                return f
        return None

    def is_known(self, key):
        return self._match_finding(key) is not None

    def _write_replay(self, key, what, obj):
        os.makedirs(REPLAY_DIR, exist_ok=True)
        safe = "".join(c if c.isalnum() or c in "-_." else "_" for c in key)[:120]
        path = os.path.join(REPLAY_DIR, f"{self.pid}_{safe}.json")
        with open(path, "w") as f:
            json.dump({"property": self.pid, "key": key, "what": what, "case": obj, "seed": self.seed, "tier": self.tier}, f, indent=1, default=str)
        return path

    def finish(self):
        wall = time.time() - self.t0
        cov = self.cov
        cov["distinct_nontrivial"] = max(cov["distinct_nontrivial"], len(self._distinct))
        if cov["evaluations"] == 0:
            cov["evaluations"] = cov["traces_validated_against_impl"]
        cov["known_findings_reproduced"] = sorted(self.known_hit)
        hit_ids = {id(f) for f in self.known_hit.values()}
        stale = [f.get("key") or f.get("key_regex") or f.get("key_prefix") for f in self.findings if id(f) not in hit_ids]
        cov["known_findings_not_reproduced_this_run"] = stale
        ev = {
            "property_id": self.pid,
            "tier": self.tier,
            "seed": self.seed,
            "level": self.level,
            "coverage": cov,
            "assumptions": self.assumptions,
            "wall_s": round(wall, 2),
            "violations": sum(self.viol_count.values()),
        }
        cov["violation_keys"] = dict(self.viol_count)
        os.makedirs(EVIDENCE_DIR, exist_ok=True)
        tmp = os.path.join(EVIDENCE_DIR, f".{self.pid}.json.tmp")
        with open(tmp, "w") as f:
            json.dump(ev, f, indent=1, default=str)
        os.replace(tmp, os.path.join(EVIDENCE_DIR, f"{self.pid}.json"))
        seen = {}
        for key, f in sorted(self.known_hit.items()):
            seen.setdefault(id(f), (f, []))[1].append(key)
        for f, keys in seen.values():
            print(f"KNOWN-FINDING: property={self.pid} {f.get('what', keys[0])} [{len(keys)} matching case keys, e.g. {keys[0]}]")
        for key, what, path in self.violations[:50]:
            print(f"VIOLATION property={self.pid} replay={path}  # {key} ({self.viol_count[key]} cases): {what[:600]}")
        if len(self.violations) > 50:
            print(f"... {len(self.violations) - 50} more violations")
        print(
            f"[{self.pid}] tier={self.tier} seed={self.seed} states={cov['states']} transitions={cov['transitions']} "
            f"impl_traces={cov['traces_validated_against_impl']} evaluations={cov['evaluations']} "
            f"violations={len(self.violations)} known={len(self.known_hit)} wall={wall:.1f}s"
        )
        shutil.rmtree(self.scratch, ignore_errors=True)
        return 1 if self.violations else 0


def code_under_test_raised(ex):
    """(harness frame, repository frame) when the traceback of `ex` has a frame of the repository below the last harness
    frame - the code under test raised in a scenario the harness built -, else None (the harness itself failed)."""
    frames = traceback.extract_tb(ex.__traceback__)
    repo = os.path.realpath(os.environ.get("VERIF_REPO", "/repo")) + os.sep
    here = os.path.dirname(os.path.dirname(os.path.abspath(__file__))) + os.sep
    last_h = max([i for i, f in enumerate(frames) if os.path.realpath(f.filename).startswith(here)] or [-1])
    in_repo = [f for f in frames[last_h + 1:] if os.path.realpath(f.filename).startswith(repo)]
    if in_repo and last_h >= 0:
        return frames[last_h], in_repo[-1], repo
    return None


def _guarded_call(arg):
    """worker-side wrapper of pmap: an exception escaping from the code under test inside a job becomes a violation of that
    job (the traceback does not survive the trip back from a worker process)."""
    func, item = arg
    try:
        return func(item)
    except Exception as ex:
        hit = code_under_test_raised(ex)
        if hit is None:
            raise
        hf, rf, repo = hit
        return {"viol": [(f"raises/{hf.name}/{rf.name}",
                          f"the code under test raises {type(ex).__name__}: {str(ex)[:300]} (in {os.path.relpath(rf.filename, repo)}:{rf.lineno} {rf.name}) when driven by {os.path.basename(hf.filename)}:{hf.lineno} {hf.name}",
                          {"traceback": traceback.format_exc()[-3000:], "job": repr(item)[:2000]})], "n": 1, "keys": [], "traces": 0}


def main(argv=None):
    import argparse
    import importlib

    ap = argparse.ArgumentParser()
    ap.add_argument("pid")
    ap.add_argument("--tier", default=os.environ.get("VERIF_TIER", "quick"), choices=["quick", "thorough"])
    ap.add_argument("--seed", type=int, default=int(os.environ.get("VERIF_SEED", "0") or 0))
    ap.add_argument("--replay", default=None)
    a = ap.parse_args(argv)
    os.environ.setdefault("PYTHONHASHSEED", "0")
    os.environ.setdefault("MPLBACKEND", "Agg")
    ctx = Ctx(a.pid, a.tier, a.seed, a.replay)
    try:
        mod = importlib.import_module(f"harness.props.{a.pid.lower()}")
        mod.run(ctx)
        if not ctx.replay:
            from harness import scenarios

            scenarios.run_scenarios(ctx, a.pid)
        rc = ctx.finish()
    except (MachineryError, tlcmod.TLCError) as ex:
        print(f"MACHINERY-ERROR [{a.pid}]: {ex}", file=sys.stderr)
        shutil.rmtree(ctx.scratch, ignore_errors=True)
        return 2
    except Exception as ex:
        # An exception that escapes from the code under test (a frame of the repository lies below the last harness frame)
        # in a scenario the harness built is a verdict about the code: the sections that were not reached are not judged.
        hit = code_under_test_raised(ex)
        if hit is not None:
            hf, rf, repo = hit
            try:
                ctx.violation(
                    f"raises/{hf.name}/{rf.name}",
                    f"the code under test raises {type(ex).__name__}: {str(ex)[:300]} (in {os.path.relpath(rf.filename, repo)}:{rf.lineno} {rf.name}) "
                    f"when driven by {os.path.basename(hf.filename)}:{hf.lineno} {hf.name}; the remaining sections of this check were not reached",
                    {"traceback": traceback.format_exc()[-3000:]},
                )
                ctx.cov["sections"]["aborted"] = {"by": f"{type(ex).__name__} in {rf.name}"}
                return ctx.finish()
            except Exception:
                pass
        traceback.print_exc()
        print(f"MACHINERY-ERROR [{a.pid}]: unexpected exception in harness", file=sys.stderr)
        shutil.rmtree(ctx.scratch, ignore_errors=True)
        return 2
    return rc


if __name__ == "__main__":
    sys.exit(main())
