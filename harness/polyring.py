"""Exact polynomial ring over Q used to read the library's shape-function lambdas as
polynomials (not samples): calling `f(r, s, t)` with ring generators returns the polynomial
the lambda denotes.  Python floats enter as their exact dyadic value; coefficients are snapped
to the nearest small rational AFTER evaluation (decimal literals such as 0.3333 carry
round-off noise, which is recorded)."""
from __future__ import annotations

from fractions import Fraction
import numbers


class P:
    __array_priority__ = 1000
    __slots__ = ("t",)

    def __init__(self, terms=None):
        self.t = {e: c for e, c in (terms or {}).items() if c != 0}

    @staticmethod
    def const(c):
        return P({(0, 0, 0): _frac(c)})

    @staticmethod
    def var(i):
        e = [0, 0, 0]
        e[i] = 1
        return P({tuple(e): Fraction(1)})

    @staticmethod
    def lift(x):
        if isinstance(x, P):
            return x
        return P.const(x)

    def __add__(self, o):
        o = P.lift(o)
        d = dict(self.t)
        for e, c in o.t.items():
            d[e] = d.get(e, 0) + c
        return P(d)

    __radd__ = __add__

    def __neg__(self):
        return P({e: -c for e, c in self.t.items()})

    def __pos__(self):
        return self

    def __sub__(self, o):
        return self + (-P.lift(o))

    def __rsub__(self, o):
        return P.lift(o) + (-self)

    def __mul__(self, o):
        o = P.lift(o)
        d = {}
        for e1, c1 in self.t.items():
            for e2, c2 in o.t.items():
                e = (e1[0] + e2[0], e1[1] + e2[1], e1[2] + e2[2])
                d[e] = d.get(e, 0) + c1 * c2
        return P(d)

    __rmul__ = __mul__

    def __truediv__(self, o):
        if isinstance(o, P):
            if set(o.t) <= {(0, 0, 0)} and o.t:
                o = o.t[(0, 0, 0)]
            else:
                raise TypeError("division by a non-constant polynomial")
        o = _frac(o)
        return P({e: c / o for e, c in self.t.items()})

    def __rtruediv__(self, o):
        raise TypeError("division by a polynomial")

    def __pow__(self, n):
        if isinstance(n, P):
            n = n.t.get((0, 0, 0), 0)
        n = int(n)
        assert n >= 0
        r = P.const(1)
        for _ in range(n):
            r = r * self
        return r

    def degree(self):
        return max((sum(e) for e in self.t), default=0)


def _frac(c):
    if isinstance(c, Fraction):
        return c
    if isinstance(c, numbers.Integral):
        return Fraction(int(c))
    return Fraction(float(c))  # exact dyadic value of the float


def snap(p: P, max_den=10**6, tol=1e-11):
    """-> (terms list [[e1,e2,e3],[n,d]], literal_noise)"""
    out, noise = [], 0.0
    for e in sorted(p.t):
        c = p.t[e]
        s = c.limit_denominator(max_den)
        dist = abs(float(c - s))
        if dist > tol:
            # not a small rational: keep a high-precision rational so that the specification sees the difference
            s = c.limit_denominator(10**9)
            dist = abs(float(c - s))
        noise = max(noise, dist)
        if s != 0:
            out.append([list(e), [s.numerator, s.denominator]])
    return out, noise


def read_callable(f, dim):
    gens = [P.var(i) for i in range(dim)]
    r = f(*gens)
    return P.lift(r)
