"""Exact polynomial ring over Q used to read the library's shape-function lambdas as
polynomials (not samples): calling `f(r, s, t)` with ring generators returns the polynomial
the lambda denotes.  Python floats enter as their exact dyadic value; coefficients are snapped
to the nearest small rational AFTER evaluation (decimal literals such as 0.3333 carry
round-off noise, which is recorded)."""
from __future__ import annotations

from fractions import Fraction
import numbers


class P:
    __array_priority__ = 1000
    __slots__ = ("t",)

    def __init__(self, terms=None):
        self.t = {e: c for e, c in (terms or {}).items() if c != 0}

    @staticmethod
    def const(c):
        return P({(0, 0, 0): _frac(c)})

    @staticmethod
    def var(i):
        e = [0, 0, 0]
        e[i] = 1
        return P({tuple(e): Fraction(1)})

    @staticmethod
    def lift(x):
        if isinstance(x, P):
            return x
        return P.const(x)

    def __add__(self, o):
        o = P.lift(o)
        d = dict(self.t)
        for e, c in o.t.items():
            d[e] = d.get(e, 0) + c
        return P(d)

    __radd__ = __add__

    def __neg__(self):
        return P({e: -c for e, c in self.t.items()})

    def __pos__(self):
        return self

    def __sub__(self, o):
        return self + (-P.lift(o))

    def __rsub__(self, o):
        return P.lift(o) + (-self)

    def __mul__(self, o):
        o = P.lift(o)
        d = {}
        for e1, c1 in self.t.items():
            for e2, c2 in o.t.items():
                e = (e1[0] + e2[0], e1[1] + e2[1], e1[2] + e2[2])
                d[e] = d.get(e, 0) + c1 * c2
        return P(d)

    __rmul__ = __mul__

    def __truediv__(self, o):
        if isinstance(o, P):
            if set(o.t) <= {(0, 0, 0)} and o.t:
                o = o.t[(0, 0, 0)]
            else:
                raise TypeError("division by a non-constant polynomial")
        o = _frac(o)
        return P({e: c / o for e, c in self.t.items()})

    def __rtruediv__(self, o):
        raise TypeError("division by a polynomial")

    def __pow__(self, n):
        if isinstance(n, P):
            n = n.t.get((0, 0, 0), 0)
        n = int(n)
        assert n >= 0
        r = P.const(1)
        for _ in range(n):
            r = r * self
        return r

    def degree(self):
        return max((sum(e) for e in self.t), default=0)


def _frac(c):
    if isinstance(c, Fraction):
        return c
    if isinstance(c, numbers.Integral):
        return Fraction(int(c))
    return Fraction(float(c))  # exact dyadic value of the float


def snap(p: P, max_den=10**6, tol=1e-11):
    """-> (terms list [[e1,e2,e3],[n,d]], literal_noise)"""
    out, noise = [], 0.0
    for e in sorted(p.t):
        c = p.t[e]
        s = c.limit_denominator(max_den)
        dist = abs(float(c - s))
        if dist > tol:
            # not a small rational: keep a high-precision rational so that the specification sees the difference
            s = c.limit_denominator(10**9)
            dist = abs(float(c - s))
        noise = max(noise, dist)
        if s != 0:
            out.append([list(e), [s.numerator, s.denominator]])
    return out, noise


def read_callable(f, dim):
    """The polynomial a tabulated callable computes.  First choice: the callable is run on the generators of the polynomial ring
    (exact).  A callable written with array functions the ring does not support (np.divide, np.where, ...) is not wrong for
    that: it is then sampled at generic points and the polynomial is recovered by a least-squares fit on the monomials of
    degree <= FIT_DEG per variable; the fit must reproduce fresh samples to 1e-10, otherwise the callable is not such a
    polynomial at generic points and NotPolynomial is raised (the caller decides what that means)."""
    gens = [P.var(i) for i in range(dim)]
    try:
        return P.lift(f(*gens))
    except (TypeError, ValueError, AttributeError, NotImplementedError, ZeroDivisionError):
        return fit_callable(f, dim)


class NotPolynomial(Exception):
    pass


FIT_DEG = {1: 6, 2: 4, 3: 3}
_FIT_CACHE = {}


def _fit_basis(dim):
    import itertools

    import numpy as np

    if dim not in _FIT_CACHE:
        deg = FIT_DEG[dim]
        exps = list(itertools.product(range(deg + 1), repeat=dim))
        rng = np.random.default_rng(12345 + dim)
        pts = rng.uniform(-0.93, 0.97, (4 * len(exps), dim))   # generic points: none of them is a node, a mid-side or a Gauss point
        V = np.stack([np.prod(pts ** np.array(e), axis=1) for e in exps], axis=1)
        _FIT_CACHE[dim] = (exps, pts, V, np.linalg.pinv(V[: 3 * len(exps)]))
    return _FIT_CACHE[dim]


def fit_callable(f, dim):
    import numpy as np

    exps, pts, V, pinv = _fit_basis(dim)
    vals = np.array([float(np.asarray(f(*[float(c) for c in x]))) for x in pts])
    n = pinv.shape[1]
    coef = pinv @ vals[:n]
    scale = max(1.0, np.abs(vals).max())
    if np.abs(V[n:] @ coef - vals[n:]).max() > 1e-10 * scale:
        raise NotPolynomial(f"the callable is not a polynomial of degree <= {FIT_DEG[dim]} per variable at generic points (misfit {np.abs(V[n:] @ coef - vals[n:]).max():.3g})")
    out = P()
    for e, c in zip(exps, coef):
        if abs(c) > 1e-12 * scale:
            out.t[tuple(e) + (0,) * (3 - len(e))] = Fraction(float(c)).limit_denominator(10**9)
    return out
