"""Recorder for direction B of spec/Lifecycle.tla (Trace_Lifecycle.tla): wraps, at import time and from OUTSIDE the
repository, the linearisation points of the cache / store protocol of `_Simu` and writes one event per call to
$VERIF_TRACE_FILE (ndjson).  Loaded as a pytest plugin (`-p harness.trace_plugin`) so that the repository's own tests
become the drivers; nothing in /repo is edited and the wrappers only observe (they call the original and log in
`finally`).

Events (s = simulation number, c = number of the configuration fingerprint):
  asm   Assembly() returned                       {s, c}
  obs   Get_K_C_M_F() returned                    {s, c, need (flag before the call), rebuilt (Assembly ran inside)}
  save  Save_Iter() returned                      {s, n (stored iterations after), before}
  set   Set_Iter() returned                       {s, n, before}
The configuration fingerprint is everything the assembled matrices are a function of, apart from the current solution:
identity and coordinates of the mesh, every declared parameter (`_params._Parameter` descriptors, which promise to
raise the flag when set) of the simulation, of its model and of the objects the model is made of, and the number of
Lagrange rows."""
from __future__ import annotations

import atexit
import hashlib
import json
import os

_OUT = None
_SIMS = {}
_CFGS = {}
_DEPTH = {}
_INSTALLED = False


def _emit(ev):
    global _OUT
    if _OUT is None:
        path = os.environ.get("VERIF_TRACE_FILE")
        if not path:
            return
        _OUT = open(path, "a")
        atexit.register(_OUT.close)
    _OUT.write(json.dumps(ev) + "\n")


def _sid(sim):
    k = id(sim)
    if k not in _SIMS or _SIMS[k][1] is not sim:
        _SIMS[k] = (len(_SIMS) + 1, sim)  # the object is kept alive so that ids are never reused
    return _SIMS[k][0]


def _enc(v, depth=0):
    import numpy as np

    if isinstance(v, np.ndarray):
        return "nd" + hashlib.blake2b(np.ascontiguousarray(v).tobytes(), digest_size=8).hexdigest() + str(v.shape)
    if isinstance(v, (int, float, str, bool, complex, type(None))):
        return repr(v)
    if isinstance(v, (list, tuple)):
        return "[" + ",".join(_enc(x, depth + 1) for x in v) + "]"
    if isinstance(v, dict):
        return "{" + ",".join(f"{k}:{_enc(x, depth + 1)}" for k, x in sorted(v.items(), key=lambda kv: str(kv[0]))) + "}"
    if depth < 4 and hasattr(type(v), "__mro__"):
        p = _params_of(v, depth + 1)
        if p:
            return type(v).__name__ + p
    return type(v).__name__


def _params_of(obj, depth=0):
    from EasyFEA.Utilities._params import _Parameter

    out = []
    seen = set()
    for cls in type(obj).__mro__:
        for name, attr in vars(cls).items():
            if isinstance(attr, _Parameter) and name not in seen:
                seen.add(name)
                try:
                    out.append(f"{name}={_enc(getattr(obj, name), depth)}")
                except Exception:
                    out.append(f"{name}=?")
    return "(" + ";".join(sorted(out)) + ")" if out else ""


def fingerprint(sim):
    mesh = sim.mesh
    parts = [f"mesh{id(mesh)}", _enc(mesh.coord), f"Ne{mesh.Ne}", type(sim).__name__ + _params_of(sim), type(sim.model).__name__ + _params_of(sim.model)]
    # objects the model is made of (material of a phase-field / beams of a structure ...)
    for name in ("material", "beams", "isotropicHardening", "kinematicHardening", "yieldSurface"):
        try:
            sub = getattr(sim.model, name)
        except Exception:
            continue
        parts.append(name + _enc(sub, 1))
    try:
        parts.append(f"lag{sim._Bc_Lagrange_dim(sim.problemType)}")
    except Exception:
        pass
    key = "|".join(parts)
    if key not in _CFGS:
        _CFGS[key] = len(_CFGS) + 1
    return _CFGS[key]


def install():
    global _INSTALLED
    if _INSTALLED or not os.environ.get("VERIF_TRACE_FILE"):
        return
    _INSTALLED = True
    from EasyFEA.Simulations._simu import _Simu

    orig_asm, orig_get, orig_save, orig_set = _Simu.Assembly, _Simu.Get_K_C_M_F, _Simu.Save_Iter, _Simu.Set_Iter

    def Assembly(self, *a, **k):
        ok = False
        try:
            r = orig_asm(self, *a, **k)
            ok = True
            return r
        finally:
            if ok:
                self.__dict__["_verif_asm"] = self.__dict__.get("_verif_asm", 0) + 1
                try:
                    _emit({"k": "asm", "s": _sid(self), "c": fingerprint(self)})
                except Exception:
                    pass

    def Get_K_C_M_F(self, *a, **k):
        try:
            need = bool(self.needUpdate)
            n0 = self.__dict__.get("_verif_asm", 0)
        except Exception:
            need, n0 = None, None
        ok = False
        try:
            r = orig_get(self, *a, **k)
            ok = True
            return r
        finally:
            if ok and need is not None:
                try:
                    _emit({"k": "obs", "s": _sid(self), "c": fingerprint(self), "need": int(need), "rebuilt": int(self.__dict__.get("_verif_asm", 0) > n0)})
                except Exception:
                    pass

    def _store_size(self):
        try:
            return int(self.Niter)
        except Exception:
            return -1

    def Save_Iter(self, *a, **k):
        d = _DEPTH.get(id(self), 0)
        _DEPTH[id(self)] = d + 1
        before = _store_size(self)
        ok = False
        try:
            r = orig_save(self, *a, **k)
            ok = True
            return r
        finally:
            _DEPTH[id(self)] = d
            if ok and d == 0:  # subclasses call super().Save_Iter(): one event per public call
                _emit({"k": "save", "s": _sid(self), "n": _store_size(self), "before": before})

    def Set_Iter(self, *a, **k):
        d = _DEPTH.get(id(self), 0)
        _DEPTH[id(self)] = d + 1
        before = _store_size(self)
        ok = False
        try:
            r = orig_set(self, *a, **k)
            ok = True
            return r
        finally:
            _DEPTH[id(self)] = d
            if ok and d == 0:
                _emit({"k": "set", "s": _sid(self), "n": _store_size(self), "before": before})

    _Simu.Assembly, _Simu.Get_K_C_M_F, _Simu.Save_Iter, _Simu.Set_Iter = Assembly, Get_K_C_M_F, Save_Iter, Set_Iter


def pytest_configure(config):
    install()


def pytest_runtest_setup(item):
    _emit({"k": "test", "name": item.nodeid})
