"""A refused call of Solver_Set_Hyperbolic_Algorithm / Solver_Set_Parabolic_Algorithm must change nothing.

History: newmark(beta=0.3025, gamma=0.6) is set and stepped; the user then asks for hht_newmark with alpha = 0.5, which the
library refuses (AssertionError: alpha must lie in [0, 1/3]); the next Solve() must still be the newmark step that was set -
not hht_newmark run with the parameters left over from the first call.  Same for a parabolic call with dt = 0 on a
hyperbolic simulation.

exit 0 = after each refused call the algorithm is the one set before and the step satisfies ITS documented update relation;
exit 1 = the refused call switched the algorithm.      Run with PYTHONPATH=<tree>.
"""

import sys
import numpy as np
import EasyFEA
from EasyFEA import ElemType, Models, Simulations
from EasyFEA.Geoms import Domain
from EasyFEA.Simulations.Solvers import AlgoType

print("EasyFEA from", EasyFEA.__file__)
mesh = Domain((0, 0), (2, 1), 0.5).Mesh_2D([], ElemType.TRI3, isOrganised=True)
simu = Simulations.Elastic(mesh, Models.Elastic.Isotropic(2, E=10.0, v=0.25, planeStress=True, thickness=0.5), verbosity=False)
simu.rho = 1.5
left = mesh.Nodes_Conditions(lambda x, y, z: x == 0)
right = mesh.Nodes_Conditions(lambda x, y, z: x == 2)
dt, beta, gamma = 0.1, 0.3025, 0.6
bad = False


def step_and_check(label):
    """one step; the newmark relations with (beta, gamma) must hold between the old and the new state"""
    global bad
    u0, v0, a0 = simu.displacement.copy(), simu.speed.copy(), simu.accel.copy()
    simu.Bc_Init()
    simu.add_dirichlet(left, [0, 0], ["x", "y"])
    simu.add_neumann(right, [0.3], ["x"])
    simu.Solve()
    u1, v1, a1 = simu.displacement, simu.speed, simu.accel
    ru = np.abs(u1 - (u0 + dt * v0 + dt**2 / 2 * ((1 - 2 * beta) * a0 + 2 * beta * a1))).max()
    rv = np.abs(v1 - (v0 + dt * ((1 - gamma) * a0 + gamma * a1))).max()
    K, C, M, F = simu.Get_K_C_M_F()
    free = np.setdiff1d(np.arange(u1.size), simu.Bc_dofs_Dirichlet())
    b = np.zeros(u1.size)
    b[simu.Bc_dofs_nodes(right, ["x"])] = 0.3 / right.size
    rm = np.abs((K @ u1 + M @ a1 - b)[free]).max()
    scale = max(1.0, np.abs(a1).max())
    print(f"{label}: algo = {simu.algo}, newmark update relations off by {ru:.2e}, {rv:.2e}; K u + M a - F at n+1 off by {rm:.2e}")
    if simu.algo != AlgoType.newmark or max(ru, rv, rm) > 1e-9 * scale:
        bad = True


simu.Solver_Set_Hyperbolic_Algorithm(dt, algo=AlgoType.newmark, beta=beta, gamma=gamma)
step_and_check("newmark as set           ")
try:
    simu.Solver_Set_Hyperbolic_Algorithm(dt, algo=AlgoType.hht_newmark, alpha=0.5)
    print("hht_newmark with alpha = 0.5 was accepted: nothing to judge")
    sys.exit(0)
except AssertionError as e:
    print("hht_newmark(alpha=0.5) refused:", str(e)[:60])
step_and_check("after the refused call   ")
try:
    simu.Solver_Set_Parabolic_Algorithm(0.0)
    print("parabolic with dt = 0 was accepted: nothing to judge")
    sys.exit(0)
except AssertionError as e:
    print("parabolic(dt=0) refused:", str(e)[:60])
step_and_check("after the refused call 2 ")
try:
    simu.Solver_Set_Hyperbolic_Algorithm(-1.0, algo=AlgoType.midpoint)
except AssertionError as e:
    print("midpoint(dt=-1) refused:", str(e)[:60])
step_and_check("after the refused call 3 ")
print("VIOLATED" if bad else "holds")
sys.exit(1 if bad else 0)
