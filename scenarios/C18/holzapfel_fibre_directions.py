"""Observation 2 (C18): HolzapfelOgden, the reference configuration must be energy- and stress-free.

(a) fibre directions given through the public attributes `material.T1 = ...` / `material.T2 = ...`
    must describe the same material as the same vectors given to the constructor (which
    normalises them): W(ref) = 0 and S(ref) = 0.
(b) 2-D (plane strain, C is padded with C_zz = 1) and 1-D: a unit fibre with a component out of
    the modelled space must still give I4(ref) = 1, W(ref) = 0, S(ref) = 0, and
    I4 = T . C . T with the padded C in a deformed state (what the library's own automatic
    differentiation reference `T1 @ C @ T1` evaluates).

exit 0 = correct, exit 1 = defect shown.
"""

import sys

import numpy as np

from EasyFEA import ElemType, MatrixType, Models
from EasyFEA.Geoms import Domain
from EasyFEA.Models.HyperElastic import HyperElasticState

HO = dict(C0=1.18, C1=8.023, C2=192.1, C3=16.026, C4=37.2, C5=11.12, C6=3.15, C7=11.436,
          K=1e6, Mu1=0.0, Mu2=0.0)  # fmt: skip
TOL = 1e-9
bad = []


def ref(mat, state):
    W = float(np.abs(np.asarray(mat.Compute_W(state))).max())
    S = float(np.abs(np.asarray(mat.Compute_dWde(state))).max())
    return W, S


# ------------------------------------------------------------------ (a)
print("(a) fibre given through the attribute after construction (3-D)")
mesh3 = Domain((0, 0), (1, 1), 1.0).Mesh_Extrude(
    [], [0, 0, 1], [1], ElemType.HEXA8, isOrganised=True
)
state3 = HyperElasticState(mesh3.groupElem, np.zeros(mesh3.Nn * 3), MatrixType.rigi)
rng = np.random.default_rng(0)
u3 = 0.05 * rng.standard_normal(mesh3.Nn * 3)
state3_def = HyperElasticState(mesh3.groupElem, u3, MatrixType.rigi)

mat = Models.HyperElastic.HolzapfelOgden(
    3, T1=np.array([2.0, 0, 0]), T2=np.array([0, 3.0, 0]), **HO
)
W, S = ref(mat, state3)
print(f"  constructor, |T1| = 2, |T2| = 3    : W(ref) = {W:.3e}  max|S(ref)| = {S:.3e}")
if W > TOL or S > TOL:
    bad.append("a-constructor")
W_ctor_def = np.asarray(mat.Compute_W(state3_def))

mat.T1 = np.array([1.05, 0.0, 0.0])  # same direction, 5 % off unit length
W, S = ref(mat, state3)
print(f"  after mat.T1 = [1.05, 0, 0]        : W(ref) = {W:.3e}  max|S(ref)| = {S:.3e}")
if W > TOL or S > TOL:
    bad.append("a-T1-attribute")
mat.T2 = np.array([0.0, 0.5, 0.0])
W, S = ref(mat, state3)
print(f"  after mat.T2 = [0, 0.5, 0]         : W(ref) = {W:.3e}  max|S(ref)| = {S:.3e}")
if W > TOL or S > TOL:
    bad.append("a-T2-attribute")
dW = float(np.abs(np.asarray(mat.Compute_W(state3_def)) - W_ctor_def).max())
print(f"  deformed state, attribute vs constructor: max|dW| = {dW:.3e}")
if dW > 1e-9 * np.abs(W_ctor_def).max():
    bad.append("a-deformed")

# ------------------------------------------------------------------ (b)
print("(b) unit fibre with a component out of the modelled space")
mesh2 = Domain((0, 0), (1, 1), 0.5).Mesh_2D([], ElemType.QUAD4, isOrganised=True)
state2 = HyperElasticState(mesh2.groupElem, np.zeros(mesh2.Nn * 2), MatrixType.rigi)
u2 = 0.05 * rng.standard_normal(mesh2.Nn * 2)
state2_def = HyperElasticState(mesh2.groupElem, u2, MatrixType.rigi)
C2 = np.asarray(state2_def.Compute_C())  # (Ne, nPg, 3, 3), C_zz = 1

for angle_deg, ks in [(0, 100.0), (5, 100.0), (20, 100.0), (20, 1.0)]:
    a = np.deg2rad(angle_deg)
    T1 = np.array([np.cos(a), 0.0, np.sin(a)])  # unit fibre, tilted out of the plane
    # second unit fibre, also tilted, orthogonal to the first one (I8(ref) = 0)
    T2 = np.array([-np.sin(a) ** 2, np.cos(a), np.cos(a) * np.sin(a)])
    mat = Models.HyperElastic.HolzapfelOgden(2, T1=T1, T2=T2, ks=ks, **HO)
    W, S = ref(mat, state2)
    I4 = float(np.asarray(state2.Compute_I4(T1)).max())
    # deformed state: the invariants against T . C . T with the padded C
    errs = []
    for Ta, Tb, got in [
        (T1, T1, state2_def.Compute_I4(T1)),
        (T2, T2, state2_def.Compute_I6(T2)),
        (T1, T2, state2_def.Compute_I8(T1, T2)),
    ]:
        expected = np.einsum("i,epij,j->ep", Ta, C2, Tb)
        errs.append(float(np.abs(np.asarray(got) - expected).max()))
    ok = W < TOL and S < TOL and abs(I4 - 1) < 1e-12 and max(errs) < 1e-12
    print(
        f"  2-D tilt {angle_deg:2d} deg, ks = {ks:5.1f}: I4(ref) = {I4:.6f}  W(ref) = {W:.3e}  "
        f"max|S(ref)| = {S:.3e}  max|I - T.C.T| = {max(errs):.2e}  {'ok' if ok else 'BAD'}"
    )
    if not ok:
        bad.append(f"b-2D-tilt{angle_deg}-ks{ks}")

if bad:
    print("DEFECT:", bad)
    sys.exit(1)
print("the reference configuration is energy- and stress-free in every case")
sys.exit(0)
