import numpy as np, sys, contextlib, io
from EasyFEA import Mesher, ElemType, Models, Simulations
from EasyFEA.Geoms import Domain, Point
with contextlib.redirect_stdout(io.StringIO()):
    mesh=Mesher().Mesh_2D(Domain(Point(0,0),Point(1,1),0.3),[],ElemType.TRI3)
    mat=Models.Elastic.Isotropic(2,E=10.,v=0.25,planeStress=True)
    s=Simulations.Elastic(mesh,mat,verbosity=False)
    K0=s.Get_K_C_M_F()[0].toarray()
    mesh.Rotate(30,(0,0,0),(1,0,0)); 
    try: mesh.Rotate(-30,(0,0,0),(1,0,0))
    except AssertionError: pass
    K1=s.Get_K_C_M_F()[0].toarray()
err=np.abs(K1-K0).max()/np.abs(K0).max()
print("zmax",np.abs(mesh.coord[:,2]).max(),"groupElem.inDim",mesh.groupElem.inDim,"mesh.inDim",mesh.inDim,"K change",err)
sys.exit(1 if err>1e-9 or mesh.groupElem.inDim!=2 else 0)
