"""Observation 1: after simu.Save(folder) the mesh history lives on disk. A mesh that Set_Iter brings
back from it is re-read with Load_Mesh, and the simulation must still hear about its modifications
(as it does for the mesh given at construction and for every `simu.mesh = ...`).

exit 0: moving the restored mesh reaches the simulation (K equals the K of a fresh simulation)
exit 1: the simulation keeps the stiffness of the geometry before the motion
"""

import sys
import tempfile

import numpy as np

import EasyFEA
from EasyFEA import ElemType, Models, Simulations
from EasyFEA.Geoms import Domain, Point
from EasyFEA.Simulations import Load_Simu

print("EasyFEA from:", EasyFEA.__file__)


def mk(h):
    return Domain(Point(), Point(2, 1), meshSize=h).Mesh_2D([], ElemType.TRI3)


def mat():
    return Models.Elastic.Isotropic(2, E=210e3, v=0.3, planeStress=True, thickness=1.0)


def relErr(A, B):
    return abs(A - B).max() / abs(B).max()


def check(simu: Simulations.Elastic, label: str) -> list[str]:
    """simu has iteration 0 on the coarse mesh and iteration 1 on the fine one."""
    bad = []
    simu.Set_Iter(0)  # back on the first mesh
    mesh = simu.mesh
    simu.Get_K_C_M_F()  # matrices are assembled, needUpdate is False

    mesh.Rotate(30, mesh.center)  # public modification of the simulation's current mesh
    print(f"  [{label}] observers of the restored mesh = {len(mesh.observers)}")
    print(f"  [{label}] simu.needUpdate after mesh.Rotate = {simu.needUpdate}")
    K = simu.Get_K_C_M_F()[0]

    fresh = mk(0.5)
    fresh.coord = mesh.coord
    Kf = Simulations.Elastic(fresh, mat()).Get_K_C_M_F()[0]
    err = relErr(K, Kf)
    print(f"  [{label}] rel. err of K against a fresh simulation = {err:.3e}")
    if err > 1e-12:
        bad.append(f"[{label}] stale K after moving the restored mesh (rel. err {err:.3e})")
    return bad


def build():
    simu = Simulations.Elastic(mk(0.5), mat(), verbosity=False)
    simu.Save_Iter()  # iteration 0 on the coarse mesh
    simu.mesh = mk(0.25)
    simu.Save_Iter()  # iteration 1 on the fine mesh
    return simu


bad = []

print("control: mesh history kept in memory")
bad += check(build(), "memory")

print("mesh history on disk after simu.Save(folder)")
simu = build()
folder = tempfile.mkdtemp(prefix="obs1_")
simu.Save(folder)
bad += check(simu, "saved")

print("simulation read back with Load_Simu(folder)")
bad += check(Load_Simu(folder), "loaded")

if bad:
    print("\nDEFECT SHOWN:")
    for b in bad:
        print(" -", b)
    sys.exit(1)
print("\nbehaves correctly: a mesh restored from the saved history is observed by the simulation")
sys.exit(0)
