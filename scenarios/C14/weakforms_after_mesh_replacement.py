"""C14 / obs 2: `Simulations.WeakForms` after `simu.mesh = newMesh`.

exit 0 = the matrices / solution are those of a simulation built on the new mesh, exit 1 = defect shown.
"""

import sys
import numpy as np

import EasyFEA
from EasyFEA import ElemType, Models, Simulations
from EasyFEA.FEM import Field, BiLinearForm, LinearForm
from EasyFEA.Geoms import Domain, Point

print("EasyFEA from", EasyFEA.__file__)


def mk(scale=1.0, meshSize=0.5, elemType=ElemType.TRI3):
    m = Domain(Point(), Point(1, 1), meshSize).Mesh_2D([], elemType)
    if scale != 1.0:
        m.coord = m.coord * scale
    return m


@BiLinearForm
def mass(u, v):
    return u * v


@BiLinearForm
def stiff(u, v):
    return u.grad.dot(v.grad)


@LinearForm
def source(v):
    return 3.0 * v


def build(mesh):
    field = Field(mesh.groupElem, 1)
    model = Models.WeakForms(field, computeK=stiff, computeM=mass, computeF=source)
    return Simulations.WeakForms(mesh, model)


def solve(simu):
    mesh = simu.mesh
    nodes = mesh.Nodes_Conditions(lambda x, y, z: x == x.min())
    simu.Bc_Init()
    simu.add_dirichlet(nodes, [0], ["u"])
    return simu.Solve().copy()


def rel(a, b):
    a = a.toarray() if hasattr(a, "toarray") else np.asarray(a)
    b = b.toarray() if hasattr(b, "toarray") else np.asarray(b)
    if a.shape != b.shape:
        return np.inf
    return np.abs(a - b).max() / np.abs(b).max()


bad = False

cases = {
    "same connectivity, coordinates x 2": dict(scale=2.0),
    "finer mesh (other connectivity)": dict(scale=2.0, meshSize=0.25),
    "other element type (QUAD4)": dict(scale=2.0, elemType=ElemType.QUAD4),
}

for name, kw in cases.items():
    print(f"\n--- simu.mesh = newMesh : {name}")
    fresh = build(mk(**kw))
    K_f, _, M_f, F_f = fresh.Get_K_C_M_F()
    u_f = solve(fresh)

    simu = build(mk())
    M_0 = simu.Get_K_C_M_F()[2]
    solve(simu)
    simu.mesh = mk(**kw)
    print("needUpdate after the assignment:", simu.needUpdate)
    try:
        K_1, _, M_1, F_1 = simu.Get_K_C_M_F()
        u_1 = solve(simu)
    except Exception as err:
        print(f"raises {type(err).__name__}: {err}")
        bad = True
        continue

    print(f"sum(M) before / after / fresh = {M_0.sum():.6f} / {M_1.sum():.6f} / {M_f.sum():.6f}"
          "   (= area of the mesh)")
    dK, dM, dF, du = rel(K_1, K_f), rel(M_1, M_f), rel(F_1, F_f), rel(u_1, u_f)
    print(f"rel. diff to the fresh simulation -> K: {dK:.2e}, M: {dM:.2e}, F: {dF:.2e}, u: {du:.2e}")
    if not (dK <= 1e-12 and dM <= 1e-12 and dF <= 1e-12 and du <= 1e-10):
        bad = True

# control: a mesh modified in place was already handled
print("\n--- control: mesh.coord = 2 * coord (same mesh object)")
fresh = build(mk(2.0))
simu = build(mk())
simu.Get_K_C_M_F()
simu.mesh.coord = simu.mesh.coord * 2.0
d = rel(simu.Get_K_C_M_F()[2], fresh.Get_K_C_M_F()[2])
print(f"rel. diff M: {d:.2e}")
if d > 1e-12:
    bad = True

print("\nDEFECT SHOWN" if bad else "\nbehaves correctly")
sys.exit(1 if bad else 0)
