"""C14 / obs 1: `Simulations.Beam.useTimoshenko` assigned after the construction.

exit 0 = the simulation behaves like one constructed with the final value, exit 1 = defect shown.
"""

import sys
import numpy as np

import EasyFEA
from EasyFEA import Mesher, ElemType, Models, Simulations
from EasyFEA.Geoms import Domain, Point, Line

print("EasyFEA from", EasyFEA.__file__)

L, h, F = 120.0, 13.0, -800.0


def build(useT: bool):
    section = Domain(Point(-h / 2, -h / 2), Point(h / 2, h / 2), h / 4).Mesh_2D(
        [], ElemType.QUAD4
    )
    beam = Models.Beam.Isotropic(2, Line(Point(), Point(L), L / 4), section, 210000, 0.3)
    mesh = Mesher().Mesh_Beams([beam], elemType=ElemType.SEG3)
    return Simulations.Beam(mesh, beam, useTimoshenko=useT, verbosity=False)


def load_and_solve(simu):
    mesh = simu.mesh
    simu.add_dirichlet(mesh.Nodes_Point(Point()), [0, 0, 0], simu.Get_unknowns())
    simu.add_neumann(mesh.Nodes_Point(Point(L)), [F], ["y"])
    simu.Solve()
    uy = simu.Result("uy")
    return uy[mesh.Nodes_Point(Point(L))][0], np.asarray(simu.Result("Ty", nodeValues=False))


def rel(a, b):
    a = a.toarray() if hasattr(a, "toarray") else np.asarray(a)
    b = b.toarray() if hasattr(b, "toarray") else np.asarray(b)
    return np.abs(a - b).max() / np.abs(b).max()


bad = False

for start, final in [(False, True), (True, False)]:
    name = {False: "Euler-Bernoulli", True: "Timoshenko"}
    print(f"\n--- constructed as {name[start]}, then simu.useTimoshenko = {final}")

    fresh = build(final)
    K_f = fresh.Get_K_C_M_F()[0]
    tip_f, Ty_f = load_and_solve(fresh)

    simu = build(start)
    K_0 = simu.Get_K_C_M_F()[0]
    # boundary conditions and a solution exist before the switch
    load_and_solve(simu)
    simu.useTimoshenko = final
    print("needUpdate after the assignment:", simu.needUpdate)
    K_1 = simu.Get_K_C_M_F()[0]
    # like after a replaced mesh, the loads are set again (they were integrated with the former elements)
    simu.Bc_Init()
    try:
        tip_1, Ty_1 = load_and_solve(simu)
    except Exception as err:
        print(f"solve + Result('Ty') after the switch raises {type(err).__name__}: {err}")
        tip_1, Ty_1 = np.nan, np.full_like(Ty_f, np.nan)

    dK_old = rel(K_1, K_0)
    dK = rel(K_1, K_f)
    dTip = abs(tip_1 - tip_f) / abs(tip_f)
    dTy = np.abs(Ty_1 - Ty_f).max() / max(np.abs(Ty_f).max(), 1e-300)
    print(f"rel |K_after - K_before|       = {dK_old:.3e}   (must be > 0)")
    print(f"rel |K_after - K_fresh|        = {dK:.3e}")
    print(f"tip deflection after / fresh   = {tip_1:.6e} / {tip_f:.6e}  (rel {dTip:.3e})")
    print(f"rel |Ty_after - Ty_fresh|      = {dTy:.3e}")
    print("element group after the switch :", type(simu.mesh.groupElem).__name__,
          "| fresh:", type(fresh.mesh.groupElem).__name__)

    if not (dK <= 1e-12 and dTip <= 1e-10 and dTy <= 1e-8):
        bad = True

# assigning the value already in use changes nothing
simu = build(True)
K_0 = simu.Get_K_C_M_F()[0]
load_and_solve(simu)
u_0 = simu.displacement
simu.useTimoshenko = True
same = rel(simu.Get_K_C_M_F()[0], K_0)
print(f"\nsame value assigned again: rel |dK| = {same:.3e}")
if same > 1e-14:
    bad = True

print("\nDEFECT SHOWN" if bad else "\nbehaves correctly")
sys.exit(1 if bad else 0)
