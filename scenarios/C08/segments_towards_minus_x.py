"""O1: nodal-field evaluation on a 1-D mesh lying on the x axis whose segments run toward -x.

exit 0 = behaves correctly, exit 1 = defect shown.
"""

import sys
import numpy as np
import EasyFEA
from EasyFEA import ElemType, Mesh
from EasyFEA.FEM import GroupElemFactory

print("EasyFEA from", EasyFEA.__file__)

rng = np.random.default_rng(1)
NPE = {ElemType.SEG2: 2, ElemType.SEG3: 3, ElemType.SEG4: 4}
# gmsh node ordering of a segment: the two ends first, then the inner nodes
LOCAL = {
    ElemType.SEG2: [0, 1],
    ElemType.SEG3: [0, 2, 1],
    ElemType.SEG4: [0, 3, 1, 2],
}


def line_mesh(elemType, p1, p2, n=5):
    order = NPE[elemType] - 1
    Nn = n * order + 1
    t = np.linspace(0, 1, Nn)
    coord = np.outer(1 - t, p1) + np.outer(t, p2)
    connect = np.array(
        [[e * order + k for k in LOCAL[elemType]] for e in range(n)], dtype=int
    )
    return Mesh(
        {
            ElemType.POINT: GroupElemFactory.Create(
                ElemType.POINT, np.array([[0], [Nn - 1]]), coord
            ),
            elemType: GroupElemFactory.Create(elemType, connect, coord),
        }
    )


worst = 0.0
cases = [
    ((0, 0, 0), (1, 0, 0)),  # +x (control)
    ((1, 0, 0), (0, 0, 0)),  # -x
    ((2, 0, 0), (-1, 0, 0)),  # -x, crossing the origin
    ((1, 1, 0), (0, 0, 0)),  # in the xy plane (control)
    ((1, 1, 1), (0, 0, 0)),  # in 3-D (control)
]
for elemType in [ElemType.SEG2, ElemType.SEG3, ElemType.SEG4]:
    order = NPE[elemType] - 1
    for p1, p2 in cases:
        mesh = line_mesh(elemType, p1, p2)
        f = lambda c: 1 + 2 * c[:, 0] - c[:, 0] ** order  # noqa: E731
        tq = np.concatenate([rng.random(7), [0.0, 0.2, 1.0]])  # inside, on nodes
        q = np.outer(1 - tq, p1) + np.outer(tq, p2)
        v = mesh.Evaluate_dofsValues_at_coordinates(q, f(mesh.coord)).ravel()
        err = np.abs(v - f(q)).max()
        worst = max(worst, err)
        print(
            f"  {elemType} {p1}->{p2}: inDim {mesh.inDim}, length {mesh.length:.3f}, "
            f"max|u_h-u| = {err:.3e}"
        )

print(f"worst error = {worst:.3e}")
sys.exit(0 if worst < 1e-10 else 1)
