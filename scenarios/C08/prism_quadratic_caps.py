"""O6: Get_pointsInElem of PRISM15 / PRISM18 ignores the triangular caps.

exit 0 = behaves correctly, exit 1 = defect shown.
"""

import sys
import numpy as np
import EasyFEA
from EasyFEA import Mesher, ElemType
from EasyFEA.Geoms import Points

print("EasyFEA from", EasyFEA.__file__)

bad = False

# 1) one prism 0 <= z <= 1 over the triangle (0,0) (1,0) (0,1)
tri = Points([(0, 0), (1, 0), (0, 1)], 2.0)
q = np.array(
    [[0.2, 0.2, 0.5], [0.2, 0.2, 1.5], [0.2, 0.2, -0.5], [2, 2, 0.5], [0.2, 0.2, 1.0]]
)
expected = [0, 4]  # inside, above, below, beside, on the top cap
for et in [ElemType.PRISM6, ElemType.PRISM15, ElemType.PRISM18]:
    m = Mesher().Mesh_Extrude(tri, [], [0, 0, 1.0], [1], et)
    assert m.Ne == 1
    idx = m.groupElem.Get_pointsInElem(q, 0)
    ok = list(idx) == expected
    bad |= not ok
    print(f"{et} one prism: points reported inside = {idx}, expected {expected} -> {'ok' if ok else 'WRONG'}")

# 2) 3 layers of prisms: each interior point belongs to exactly one element and a quadratic field is reproduced
penta = Points([(0, 0), (2, 0), (2.5, 1.2), (1, 2), (-0.3, 1)], 1.0)
rng = np.random.default_rng(0)
f = lambda c: 1 + c[:, 0] - 2 * c[:, 1] + 3 * c[:, 2] + c[:, 0] * c[:, 2] - c[:, 2] ** 2  # noqa: E731
for et in [ElemType.PRISM6, ElemType.PRISM15, ElemType.PRISM18]:
    m = Mesher().Mesh_Extrude(penta, [], [0, 0, 1.5], [3], et)
    g = m.groupElem
    # random points strictly inside each element (convex combination of the vertices)
    w = rng.dirichlet(np.ones(6), size=g.Ne)
    pts = np.einsum("ek,ekd->ed", w, m.coord[g.connect[:, :6]])
    count = np.zeros(g.Ne, dtype=int)
    for e in range(g.Ne):
        count[g.Get_pointsInElem(pts, e)] += 1
    own = all(e in g.Get_pointsInElem(pts, e) for e in range(g.Ne))
    line = f"{et} {g.Ne} prisms in 3 layers: interior points found in [{count.min()}, {count.max()}] element(s), own element found: {own}"
    ok = count.min() == 1 and count.max() == 1 and own
    if et != ElemType.PRISM6:
        fq = lambda c: f(c)  # noqa: E731
    else:
        fq = lambda c: 1 + c[:, 0] - 2 * c[:, 1] + 3 * c[:, 2]  # noqa: E731
    v = m.Evaluate_dofsValues_at_coordinates(pts, fq(m.coord)).ravel()
    err = np.abs(v - fq(pts)).max()
    ok &= err < 1e-9
    bad |= not ok
    print(line + f"; max|u_h-u| = {err:.3e} -> {'ok' if ok else 'WRONG'}")

# 3) the same layers turned in space (the bounding boxes of the elements now overlap), nodal field that is not a polynomial:
#    the value at the integration points must be the one given by the shape functions of the element that owns the point
from EasyFEA import MatrixType  # noqa: E402

for et in [ElemType.PRISM6, ElemType.PRISM15, ElemType.PRISM18]:
    m = Mesher().Mesh_Extrude(penta, [], [0, 0, 1.5], [3], et)
    u = np.sin(4 * m.coord[:, 2]) + np.cos(3 * m.coord[:, 0])
    m.Rotate(40, (0, 0, 0), (1, 1, 0))
    g = m.groupElem
    x_e_pg = np.asarray(g.Get_GaussCoordinates_e_pg(MatrixType.mass))
    N_pg = np.asarray(g.Get_N_pg(MatrixType.mass))[:, 0]  # (pg, nPe)
    ref = np.einsum("pn,en->ep", N_pg, u[g.connect]).ravel()
    v = m.Evaluate_dofsValues_at_coordinates(x_e_pg.reshape(-1, 3), u).ravel()
    err = np.abs(v - ref).max()
    ok = err < 1e-9
    bad |= not ok
    print(f"{et} turned layers: max|u_h(x_pg) - N_pg u_e| = {err:.3e} -> {'ok' if ok else 'WRONG'}")

print("DEFECT" if bad else "OK")
sys.exit(1 if bad else 0)
