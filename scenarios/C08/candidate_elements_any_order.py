"""O2: Evaluate_dofsValues_at_coordinates(..., elements=...) must not depend on the order of `elements`.

exit 0 = behaves correctly, exit 1 = defect shown.
"""

import sys
import numpy as np
import EasyFEA
from EasyFEA import Mesher, ElemType
from EasyFEA.Geoms import Points

print("EasyFEA from", EasyFEA.__file__)

rng = np.random.default_rng(1)
penta = Points([(0, 0), (2, 0), (2.5, 1.2), (1, 2), (-0.3, 1)], 0.5)
lin = lambda c: 1 + 2 * c[:, 0] - 3 * c[:, 1]  # noqa: E731


def edge_points(mesh):
    """one random point on every edge of every element (shared by two elements inside the mesh)"""
    g = mesh.groupElem
    c, con, nv = mesh.coord, g.connect, g.Nvertex
    t = rng.random((g.Ne, nv, 1))
    a = c[con[:, :nv]]
    b = c[con[:, np.roll(np.arange(nv), -1)]]
    return ((1 - t) * a + t * b).reshape(-1, 3)


worst = 0.0
for elemType in [ElemType.TRI3, ElemType.QUAD4]:
    mesh = Mesher().Mesh_2D(penta, [], elemType)
    q = np.concatenate([edge_points(mesh), mesh.coord])  # edges and nodes
    u = lin(mesh.coord)
    Ne = mesh.Ne
    for name, els in [
        ("None", None),
        ("arange(Ne)", np.arange(Ne)),
        ("arange(Ne)[::-1]", np.arange(Ne)[::-1]),
        ("permutation(Ne)", rng.permutation(Ne)),
        ("list, duplicates", list(rng.permutation(Ne)) + [3, 1, 2]),
    ]:
        v = mesh.Evaluate_dofsValues_at_coordinates(q, u, elements=els).ravel()
        err = np.abs(v - lin(q)).max()
        if elemType == ElemType.QUAD4:
            # general quadrangles are inverted iteratively (default least_squares tolerances)
            ok = err < 1e-5
        else:
            ok = err < 1e-10
        worst = max(worst, 0.0 if ok else err)
        print(f"  {elemType} elements={name:18s} max|u_h-u| = {err:.3e} {'' if ok else '<-- wrong'}")

print(f"worst unacceptable error = {worst:.3e}")
sys.exit(0 if worst == 0.0 else 1)
