"""a valid HEXA8 whose det J is constant although J is not (x = xi + 0.3 eta zeta): linear fields must be reproduced at interior points"""
import numpy as np, sys
from EasyFEA import ElemType, Mesh
from EasyFEA.FEM import GroupElemFactory
c = 0.3
ref = np.array([[-1,-1,-1],[1,-1,-1],[1,1,-1],[-1,1,-1],[-1,-1,1],[1,-1,1],[1,1,1],[-1,1,1]], float)
coord = ref.copy(); coord[:, 0] += c * ref[:, 1] * ref[:, 2]
mesh = Mesh({ElemType.HEXA8: GroupElemFactory.Create(ElemType.HEXA8, np.arange(8).reshape(1, 8), coord)})
f = lambda p: 1 + 2 * p[:, 0] - 3 * p[:, 1] + 0.5 * p[:, 2]
pts = np.array([[0.5, 0.5, 0.5], [-0.3, 0.6, -0.7], [0.2, -0.5, 0.8]])
err = np.abs(mesh.Evaluate_dofsValues_at_coordinates(pts, f(coord)).ravel() - f(pts)).max()
print("max error of a linear field at interior points:", err)
sys.exit(0 if err < 1e-8 else 1)
