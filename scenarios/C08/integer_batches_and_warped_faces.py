import EasyFEA; print("EasyFEA from", EasyFEA.__file__)
"""R07 - point location must not depend on the dtype / ordering of the query batch (S3)
and must find every interior point of general hexahedra, warped faces included (S4).
Public API only: Mesh.Evaluate_dofsValues_at_coordinates, _GroupElem.Get_Mapping."""
import sys
import numpy as np
from EasyFEA import ElemType, Mesh
from EasyFEA.Geoms import Points
from EasyFEA.FEM import GroupElemFactory

rng = np.random.default_rng(1)
TOL = 1e-9
failures = []


def check(name, ok, detail):
    print(f"   [{'ok' if ok else 'FAIL'}] {name}: {detail}")
    if not ok:
        failures.append(name)


def grid(xs, ys):
    return np.array([[x, y, 0] for y in ys for x in xs])  # integer dtype, row by row


print("S3. integer-dtype query batches on a TRI3 mesh of [0,4]x[0,3], field 1+2x-3y (degree 1)")
mesh = Points([(0, 0), (4, 0), (4, 3), (0, 3)], 0.7).Mesh_2D([], ElemType.TRI3)
f2 = lambda c: 1 + 2 * c[:, 0] - 3 * c[:, 1]
u = f2(mesh.coord)
g43 = grid(range(4), range(3))
batches = {
    "4x3 grid from (0,0), row by row (image layout)": g43,
    "same 12 points, shuffled": g43[rng.permutation(12)],
    "same 12 points, column by column": np.array([[x, y, 0] for x in range(4) for y in range(3)]),
    "12 points that form no grid at all": np.array([[k % 4, k % 3, 0] for k in range(12)]),
    "5x4 grid from (0,0) covering the closed domain": grid(range(5), range(4)),
    "3x2 grid starting at (1,1)": grid((1, 2, 3), (1, 2)),
}
for name, P in batches.items():
    errFloat = np.abs(mesh.Evaluate_dofsValues_at_coordinates(P.astype(float), u)[:, 0] - f2(P)).max()
    try:
        errInt = np.abs(mesh.Evaluate_dofsValues_at_coordinates(P, u)[:, 0] - f2(P)).max()
        located = mesh.groupElem.Get_Mapping(P)[0].size
    except ValueError as e:  # the one error the reviewer reports; everything else propagates
        errInt, located = np.inf, f"ValueError: {e}"
    check(name, errInt < TOL and errFloat < TOL and located == len(P),
          f"max err as int = {errInt:.3g}, as float = {errFloat:.3g}, points located as int = {located} / {len(P)}")

print("S4. two HEXA8 stacked on a warped (non-planar) common face, field 1+2x-3y+0.5z (degree 1)")
c = np.array([[0, 0, 0], [1, 0, 0], [1, 1, 0], [0, 1, 0], [0, 0, 1], [1, 0, 1.3], [1, 1, 0.8], [0, 1, 1.2],
              [0, 0, 2], [1, 0, 2], [1, 1, 2], [0, 1, 2]], float)
conn = np.array([[0, 1, 2, 3, 4, 5, 6, 7], [4, 5, 6, 7, 8, 9, 10, 11]])
hexa = Mesh({ElemType.HEXA8: GroupElemFactory.Create(ElemType.HEXA8, conn, c)})
f3 = lambda p: 1 + 2 * p[:, 0] - 3 * p[:, 1] + 0.5 * p[:, 2]
jac = np.asarray(hexa.groupElem.Get_jacobian_e_pg(EasyFEA.MatrixType.mass, absoluteValues=False))
check("mesh is valid", jac.min() > 0 and abs(hexa.volume - 2) < 1e-12, f"min jacobian = {jac.min():.3g}, volume = {hexa.volume:.15g}")
P = rng.uniform([0, 0, 0], [1, 1, 2], (1000, 3))
v = hexa.Evaluate_dofsValues_at_coordinates(P, f3(c))[:, 0]
bad = np.abs(v - f3(P)) > TOL
located = hexa.groupElem.Get_Mapping(P)[0].size
check("batch of 1000 interior points", not bad.any() and located == len(P),
      f"wrong at {bad.sum()} points (values there: {np.unique(v[bad])[:3]}), located {located} / {len(P)}")
single = np.array([[0.8, 0.8, 1.2]])  # the common face passes at z = 0.952 under it: the point is in element 1
vs = hexa.Evaluate_dofsValues_at_coordinates(single, f3(c))[0, 0]
check("single point above the common face", abs(vs - f3(single)[0]) < TOL, f"value = {vs:.6g}, expected {f3(single)[0]:.6g}")
# the two elements tile the box: no interior point may be claimed by both (overlap of the two location tests)
ge = hexa.groupElem
in0, in1 = ge.Get_pointsInElem(P, 0), ge.Get_pointsInElem(P, 1)
both = np.intersect1d(in0, in1).size
check("each point is in exactly one of the two hexahedra", both == 0 and in0.size + in1.size == len(P),
      f"in element 0: {in0.size}, in element 1: {in1.size}, in both: {both}, of {len(P)}")

print("controls: general QUAD4 / HEXA8 with planar faces, float queries")
cq = np.array([[0, 0, 0], [2, 0, 0], [2.5, 1.2, 0], [0.3, 1, 0], [1, 0.1, 0], [2.2, 0.5, 0], [1.3, 1.1, 0], [0.1, 0.5, 0], [1.1, 0.6, 0]], float)
quad = Mesh({ElemType.QUAD4: GroupElemFactory.Create(ElemType.QUAD4, np.array([[0, 4, 8, 7], [4, 1, 5, 8], [8, 5, 2, 6], [7, 8, 6, 3]]), cq)})
t = rng.uniform(0.05, 0.95, (200, 2))
Pq = np.c_[(1 - t[:, :1]) * (1 - t[:, 1:]) * cq[0, :2] + t[:, :1] * (1 - t[:, 1:]) * cq[4, :2]
           + t[:, :1] * t[:, 1:] * cq[8, :2] + (1 - t[:, :1]) * t[:, 1:] * cq[7, :2], np.zeros(200)]
errq = np.abs(quad.Evaluate_dofsValues_at_coordinates(Pq, f2(cq))[:, 0] - f2(Pq)).max()
check("QUAD4, 200 points", errq < TOL, f"max err = {errq:.3g}")
ch = c.copy(); ch[4:8, 2] = 1 + 0.3 * ch[4:8, 0] - 0.2 * ch[4:8, 1]  # tilted but planar common face
hexp = Mesh({ElemType.HEXA8: GroupElemFactory.Create(ElemType.HEXA8, conn, ch)})
errh = np.abs(hexp.Evaluate_dofsValues_at_coordinates(P, f3(ch))[:, 0] - f3(P)).max()
check("HEXA8 with planar faces, 1000 points", errh < TOL, f"max err = {errh:.3g}")

print("FAILED:" if failures else "all checks passed", *failures, sep="\n   " if failures else " ")
sys.exit(1 if failures else 0)
