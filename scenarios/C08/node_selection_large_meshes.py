"""O5: the node selection helpers Mesh.Nodes_Line / Nodes_Domain / Nodes_Circle / Nodes_Cylinder
use an ABSOLUTE tolerance 1e-12, so the nodes that the mesher itself put on a geometry are only
partly found once the coordinates are large (round-off of a node is eps * |x|).
The same geometry is meshed at several scales; the number of nodes found must not depend on it.
exit 0 = same selection at every scale, exit 1 = defect shown."""

import sys
import io
import contextlib
import numpy as np
import EasyFEA
from EasyFEA import Mesher, ElemType, Models
from EasyFEA.Geoms import Point, Points, Domain, Line, Circle

print("EasyFEA from", EasyFEA.__file__)


def quiet(f, *a, **k):
    with contextlib.redirect_stdout(io.StringIO()):
        return f(*a, **k)


def beam(L, deg=33.7):
    """the reviewer's case: beam mesh of an inclined line, Nodes_Line(line) -> every node"""
    c, s = np.cos(np.deg2rad(deg)), np.sin(np.deg2rad(deg))
    sect = quiet(Mesher().Mesh_2D, Domain(Point(-0.05, -0.05), Point(0.05, 0.05)))
    line = Line(Point(0, 0), Point(L * c, L * s), L / 10)
    b = Models.Beam.Isotropic(2, line, sect, 210e9, 0.3, yAxis=(-s, c, 0))
    mesh = quiet(Mesher().Mesh_Beams, [b], elemType=ElemType.SEG2)
    return mesh.Nodes_Line(line).size, mesh.Nn


def plate(L):
    """inclined plate with a hole meshed at unit scale, then expressed in another unit of length
    (coordinates * L): nodes of one inclined edge, of the hole, of the bounding box"""
    pts = np.array([(0, 0), (2, 0.7), (1.6, 2.1), (-0.4, 1.3)])
    hole = Circle(Point(0.8, 1.05), 0.6, 1 / 8, isFilled=False)
    mesh = quiet(Mesher().Mesh_2D, Points([tuple(p) for p in pts], 1 / 4), [hole], ElemType.TRI3)
    mesh.coord = mesh.coord * L
    pts = pts * L
    hole = Circle(Point(0.8 * L, 1.05 * L), 0.6 * L)
    nLine = mesh.Nodes_Line(Line(Point(*pts[1]), Point(*pts[2]))).size
    nCircle = mesh.Nodes_Circle(hole, onlyOnEdge=True).size
    nCyl = mesh.Nodes_Cylinder(hole, onlyOnEdge=True).size
    x, y = mesh.coord[:, 0], mesh.coord[:, 1]
    box = Domain(Point(-0.4 * L, 0.0), Point(2 * L, 2.1 * L))
    nDomain = mesh.Nodes_Domain(box).size
    return nLine, nCircle, nCyl, nDomain, mesh.Nn


bad = False
print("beam mesh of a line inclined by 33.7 deg: Nodes_Line(line)")
for L in (1.0, 1e3, 1e6, 1e9):
    n, Nn = beam(L)
    ok = n == Nn
    bad |= not ok
    print(f"  L = {L:g}: {n} of {Nn} nodes  {'ok' if ok else 'DEFECT'}")

print("plate with inclined edges and a hole: (edge line, hole circle, hole cylinder, bounding box, Nn)")
ref = plate(1.0)
for L in (1.0, 1e3, 1e6, 1e9, 1e-6):
    res = plate(L)
    ok = res == ref
    bad |= not ok
    print(f"  L = {L:g}: {res}  {'ok' if ok else 'DEFECT'} (L = 1: {ref})")

print("square [0, L]^2 rotated by 90 deg: Nodes_Domain(box [-L, 0] x [0, L]) -> every node")
for L in (1.0, 1e3, 1e6, 1e9):
    m = quiet(Mesher().Mesh_2D, Domain(Point(0, 0), Point(L, L), L / 7), [], ElemType.TRI3)
    m.Rotate(90)
    n = m.Nodes_Domain(Domain(Point(-L, 0), Point(0, L))).size
    ok = n == m.Nn
    bad |= not ok
    print(f"  L = {L:g}: {n} of {m.Nn} nodes  {'ok' if ok else 'DEFECT'}")

print("a selection stays a selection: nodes at a relative distance 1e-9 are not taken")
for L in (1.0, 1e6):
    m = quiet(Mesher().Mesh_2D, Domain(Point(0, 0), Point(L, L), L / 7), [], ElemType.TRI3)
    off = 1e-9 * L
    n = m.Nodes_Line(Line(Point(0, -off), Point(L, -off))).size
    n += m.Nodes_Domain(Domain(Point(0, -L), Point(L, -off))).size
    ok = n == 0
    bad |= not ok
    print(f"  L = {L:g}: {n} nodes taken  {'ok' if ok else 'DEFECT'}")

print("O5:", "DEFECT shown" if bad else "behaves correctly")
sys.exit(1 if bad else 0)
