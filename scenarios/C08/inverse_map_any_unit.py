"""O4: inverse isoparametric map of non-affine elements (scipy.optimize.least_squares with its
default, partly ABSOLUTE, tolerances) versus the unit in which the geometry is given. A linear
nodal field has to be reproduced at interior points of general QUAD4 / HEXA8 whatever the scale.
exit 0 = reproduced to 1e-6 at every scale, exit 1 = defect shown (wrong values). An error
between 1e-10 and 1e-6 is only flagged as a low precision (what the default tolerances give at
unit scale on the unchanged tree)."""

import sys
import time
import numpy as np
import EasyFEA
from EasyFEA import Mesher, ElemType
from EasyFEA.Geoms import Points

print("EasyFEA from", EasyFEA.__file__)
penta = Points([(0, 0), (2, 0), (2.5, 1.2), (1, 2), (-0.3, 1)], 0.5)

bad = False
for et in [ElemType.QUAD4, ElemType.QUAD8, ElemType.HEXA8]:
    for scale in [1, 1e3, 1e-3, 1e-6]:
        rng = np.random.default_rng(1)
        if et == ElemType.HEXA8:
            m = Mesher().Mesh_Extrude(penta, [], [0, 0, 1.0], [2], et)
        else:
            m = Mesher().Mesh_2D(penta, [], et)
        m.coord = m.coord * scale
        g = m.groupElem
        nv = g.Nvertex
        # interior points: strictly convex combinations of the vertices of each element
        w = rng.dirichlet(np.ones(nv), size=g.Ne)
        q = np.einsum("ek,ekd->ed", w, m.coord[g.connect[:, :nv]])
        ff = lambda c: 1 + 2 * c[:, 0] / scale - 3 * c[:, 1] / scale + 0.5 * c[:, 2] / scale  # noqa: E731
        tic = time.time()
        v = m.Evaluate_dofsValues_at_coordinates(q, ff(m.coord)).ravel()
        tic = time.time() - tic
        err = np.abs(v - ff(q)).max()
        ok = err < 1e-6
        bad |= not ok
        print(
            f"  {et:6s} scale {scale:g}: {q.shape[0]} interior points, max|u_h-u| = {err:.3e}"
            f"  ({tic:.2f} s)  {'ok' if ok else 'DEFECT'}{' (low precision)' if 1e-10 < err < 1e-6 else ''}"
        )

# The absolute gtol acts on J^T r, i.e. on (size of the element)^2 * error: refining the mesh at
# unit scale is enough to lose digits. Calc_projector recognises coincident nodes with
# |N_i - 1| <= 1e-12 and therefore needs the reference coordinates to that accuracy.
from EasyFEA.FEM import Calc_projector  # noqa: E402

pts = [(0, 0), (2, 0), (2.5, 1.2), (1, 2), (-0.3, 1)]
old = Mesher().Mesh_2D(Points(pts, 0.06), [], ElemType.QUAD4)
new = Mesher().Mesh_2D(Points(pts, 0.05), [], ElemType.QUAD4)
lin = lambda c: 1 + 2 * c[:, 0] - 3 * c[:, 1]  # noqa: E731
v = old.Evaluate_dofsValues_at_coordinates(new.coord, lin(old.coord)).ravel()
err = np.abs(v - lin(new.coord)).max()
ok = err < 1e-6
bad |= not ok
print(f"  QUAD4 h = 0.06, scale 1, nodes of a h = 0.05 mesh: max|u_h-u| = {err:.3e}  {'ok' if ok else 'DEFECT'}")
proj = Calc_projector(old, new)
err = np.abs(proj @ lin(old.coord) - lin(new.coord)).max()
ok = err < 1e-6
bad |= not ok
print(f"  Calc_projector between the two meshes: max|P u_old - u(new nodes)| = {err:.3e}  {'ok' if ok else 'DEFECT'}")

print("O4:", "DEFECT shown" if bad else "behaves correctly")
sys.exit(1 if bad else 0)
