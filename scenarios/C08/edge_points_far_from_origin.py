"""O3: point location (Get_pointsInElem / _Get_coord_Near, absolute tolerance 1e-12) versus the
position / size of the mesh. Points are taken ON element edges (2D) / faces (3D); a linear nodal
field has to be reproduced there whatever the translation / scale of the mesh.
exit 0 = every point located and the field reproduced, exit 1 = defect shown."""

import sys
import numpy as np
import EasyFEA
from EasyFEA import Mesher, ElemType
from EasyFEA.Geoms import Points

print("EasyFEA from", EasyFEA.__file__)
penta = Points([(0, 0), (2, 0), (2.5, 1.2), (1, 2), (-0.3, 1)], 0.5)


def boundary_points(mesh, rng):
    """random points on the edges (2D) / faces (3D) of every element"""
    g = mesh.groupElem
    c, con, nv = mesh.coord, g.connect, g.Nvertex
    if mesh.dim == 2:
        t = rng.random((g.Ne, nv, 1))
        a = c[con[:, :nv]]
        b = c[con[:, np.roll(np.arange(nv), -1)]]
        return ((1 - t) * a + t * b).reshape(-1, 3)
    # TETRA4: convex combinations of the 3 vertices of each of the 4 faces
    faces = np.array([[0, 1, 2], [0, 1, 3], [0, 2, 3], [1, 2, 3]])
    w = rng.dirichlet(np.ones(3), size=(g.Ne, 4))  # (Ne, 4, 3)
    x = c[con[:, faces]]  # (Ne, 4, 3, 3)
    return np.einsum("efk,efkd->efd", w, x).reshape(-1, 3)


bad = False
for scale, shift in [(1, 0), (1e3, 0), (1e6, 0), (1, 1e5), (1e-6, 0), (1e-3, 1e3)]:
    for et in [ElemType.TRI3, ElemType.QUAD4, ElemType.TETRA4]:
        rng = np.random.default_rng(1)
        if et == ElemType.TETRA4:
            m = Mesher().Mesh_Extrude(penta, [], [0, 0, 1.0], [2], et)
        else:
            m = Mesher().Mesh_2D(penta, [], et)
        m.coord = m.coord * scale
        m.Rotate(31)
        m.Translate(shift, shift)
        q = boundary_points(m, rng)
        ff = lambda c: 1 + 2 * (c[:, 0] - shift) / scale - 3 * (c[:, 1] - shift) / scale  # noqa: E731
        v = m.Evaluate_dofsValues_at_coordinates(q, ff(m.coord)).ravel()
        located = m.groupElem.Get_Mapping(q)[0].size
        err = np.abs(v - ff(q)).max()
        # the exact field itself carries a round-off of eps * |x| / scale. General QUAD4 are
        # inverted iteratively to about 1e-7, and not at all at small scale: that is O4, not
        # what is looked at here, so only the location is checked for small QUAD4
        tolErr = 1e-6 + 1e-10 * max(shift / scale, 1)
        checkErr = et != ElemType.QUAD4 or scale >= 1
        ok = located == q.shape[0] and (err < tolErr or not checkErr)
        bad |= not ok
        print(
            f"  scale {scale:g} shift {shift:g} {et:7s}: located {located}/{q.shape[0]},"
            f" max|u_h-u| = {err:.3e}  {'ok' if ok else 'DEFECT'}{'' if checkErr else ' (error not checked, see O4)'}"
        )

print("points outside the mesh, at 1e-9 * |x| from its boundary, must not be located:")
for scale, shift in [(1, 0), (1e6, 0), (1, 1e5)]:
    m = Mesher().Mesh_2D(penta, [], ElemType.TRI3)
    m.coord = m.coord * scale
    m.Translate(shift, shift)
    g = m.Get_list_groupElem(1)[0]  # boundary segments
    xa, xb = m.coord[g.connect[:, 0]], m.coord[g.connect[:, 1]]
    t = (xb - xa) / np.linalg.norm(xb - xa, axis=1)[:, None]
    n = np.c_[t[:, 1], -t[:, 0], 0 * t[:, 0]]
    mid = (xa + xb) / 2
    # the side of the normal is not assumed: both sides are tried and one point of two is inside
    d = 1e-9 * np.abs(m.coord).max()
    located = m.groupElem.Get_Mapping(np.vstack([mid + d * n, mid - d * n]))[0].size
    ok = located == mid.shape[0]
    bad |= not ok
    print(f"  scale {scale:g} shift {shift:g}: located {located} of {2 * mid.shape[0]} (expected {mid.shape[0]})  {'ok' if ok else 'DEFECT'}")

print("O3:", "DEFECT shown" if bad else "behaves correctly")
sys.exit(1 if bad else 0)
