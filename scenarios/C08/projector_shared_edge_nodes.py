"""O5: Calc_projector, new nodes lying on an edge shared by two old elements.

A projector built from nodal shape functions must have rows that sum to 1 and must
reproduce a linear field exactly on TRI3 (u_new = P u_old).
exit 0 = behaves correctly, exit 1 = defect shown.
"""

import sys
import numpy as np
import EasyFEA
from EasyFEA import Mesher, ElemType
from EasyFEA.Geoms import Points
from EasyFEA.FEM import Calc_projector

print("EasyFEA from", EasyFEA.__file__)

lin = lambda c: 1 + 2 * c[:, 0] - 3 * c[:, 1]  # noqa: E731
sq = lambda h: Points([(0, 0), (1, 0), (1, 1), (0, 1)], h)  # noqa: E731

bad = False
for elemType, isOrganised, hOld, hNew in [
    (ElemType.TRI3, True, 0.5, 0.25),  # nested: new nodes on old shared edges
    (ElemType.QUAD4, True, 0.5, 0.25),
    (ElemType.TRI3, False, 0.5, 0.2),  # generic: (almost) no new node on an old edge
]:
    old = Mesher().Mesh_2D(sq(hOld), [], elemType, isOrganised=isOrganised)
    new = Mesher().Mesh_2D(sq(hNew), [], elemType, isOrganised=isOrganised)
    proj = Calc_projector(old, new)
    err = np.abs(proj @ lin(old.coord) - lin(new.coord)).max()
    rs = np.asarray(proj.sum(1)).ravel()
    print(
        f"{elemType} organised={isOrganised} h {hOld}->{hNew}: Nn {old.Nn}->{new.Nn}; "
        f"max|P u_old - u(new nodes)| = {err:.3e}; row sums in [{rs.min():.3f}, {rs.max():.3f}]"
    )
    if err > 1e-9 or np.abs(rs - 1).max() > 1e-9:
        bad = True

print("DEFECT" if bad else "OK")
sys.exit(1 if bad else 0)
