"""Connectivity stored in a narrow integer type (uint8, int16, uint16): the dof tables must not wrap.

A mesh is rebuilt from the same connectivity arrays converted to uint8 (169 nodes, 338 dofs > 255) and to int16 (a mesh
with more than 16 384 nodes: 2 Nn > 32 767); its stiffness matrix must be the one of the original mesh.

exit 0 = identical matrices, exit 1 = contributions misplaced.      Run with PYTHONPATH=<tree>.
"""

import sys
import numpy as np
import EasyFEA
from EasyFEA import ElemType, Models, Simulations, Mesher
from EasyFEA.FEM import Mesh, GroupElemFactory
from EasyFEA.Geoms import Domain, Point

print("EasyFEA from", EasyFEA.__file__)
bad = False
for n, dtypes in ((12, (np.uint8, np.int16)), (130, (np.int16, np.uint16))):
    mesh = Mesher().Mesh_2D(Domain(Point(0, 0), Point(1, 1), 1 / n), [], ElemType.TRI3, isOrganised=True)
    mat = Models.Elastic.Isotropic(2, E=1.0, v=0.3)
    K = Simulations.Elastic(mesh, mat, verbosity=False).Get_K_C_M_F()[0]
    for dt in dtypes:
        if mesh.Nn - 1 > np.iinfo(dt).max:
            continue  # the node ids themselves do not fit
        groups = {et: GroupElemFactory.Create(et, g.connect.astype(dt), mesh.coord) for et, g in mesh.dict_groupElem.items()}
        m2 = Mesh(groups)
        top = int(m2.groupElem.Get_assembly_e(2).max())
        K2 = Simulations.Elastic(m2, mat, verbosity=False).Get_K_C_M_F()[0]
        err = abs(K2 - K).max() if K2.shape == K.shape else float("inf")
        print(f"Nn = {mesh.Nn:6d}  connectivity as {np.dtype(dt).name:7s}: largest dof in the table {top} (expected {2 * mesh.Nn - 1}), max |K - K_int64| = {err:.3g}")
        if top != 2 * mesh.Nn - 1 or err > 1e-12:
            bad = True
print("VIOLATED" if bad else "holds")
sys.exit(1 if bad else 0)
