"""Observation 1 (C03): the matrices returned by the public `_Simu.Assembly()` must be the caller's own.

On the unchanged tree K, C, M of one `Assembly()` call - and of every later call - are built on the SAME
`indices` / `indptr` buffers, which are also the ones held in the simulation's cache (`__Get_csr_map`).
A structural in-place edit of one returned matrix (`K.eliminate_zeros()`, the usual clean-up of stored zeros)
compacts those shared buffers, so
  (a) the sibling C of the same call is corrupted,
  (b) the next `Assembly()` scatters the element values through the stale map into the compacted pattern,
  (c) `Get_K_C_M_F()` / `Solve()` of the same simulation are then wrong as well.

exit 0 = behaves correctly, exit 1 = defect shown.
"""

import sys

import numpy as np

import EasyFEA
from EasyFEA import Models, Simulations, ElemType
from EasyFEA.Geoms import Domain, Point

print("EasyFEA imported from:", EasyFEA.__file__)

TOL = 1e-12


def scatter_add(simu, slot):
    """Independent dense summation of the element matrices at the rows / columns given by the connectivity."""
    pt = simu.problemType
    dof_n = simu.Get_dof_n(pt)
    N = simu.mesh.Nn * dof_n
    A = np.zeros((N, N))
    for g, KCMF in simu.Construct_local_matrix_system(pt).items():
        if KCMF[slot] is None:
            continue
        asm = g.Get_assembly_e(dof_n)
        for e in range(g.Ne):
            A[np.ix_(asm[e], asm[e])] += np.asarray(KCMF[slot][e])
    return A


def new_simu():
    mesh = Domain(Point(), Point(1, 1), 0.5).Mesh_2D(
        [], ElemType.TRI3, isOrganised=True
    )
    simu = Simulations.Thermal(mesh, Models.Thermal(1, 1, 1))
    return mesh, simu


def solve(mesh, simu):
    simu.Bc_Init()
    simu.add_dirichlet(mesh.Nodes_Conditions(lambda x, y, z: x == 0), [0], ["t"])
    simu.add_dirichlet(mesh.Nodes_Conditions(lambda x, y, z: x == 1), [1], ["t"])
    return simu.Solve().copy()


failures = []


def check(name, err):
    ok = err <= TOL
    print(f"  {name:<68s} max err = {err:.3e}  {'ok' if ok else 'WRONG'}")
    if not ok:
        failures.append(name)


# reference solution on an untouched simulation (t = x)
mesh, simu = new_simu()
t_ref = solve(mesh, simu)

mesh, simu = new_simu()
refK, refC = scatter_add(simu, 0), scatter_add(simu, 1)

K1, C1, M1, F1 = simu.Assembly(simu.problemType)
print(
    "K and C of one Assembly() share buffers: indices",
    np.shares_memory(K1.indices, C1.indices),
    " indptr",
    np.shares_memory(K1.indptr, C1.indptr),
)
print(
    f"1st assembly: nnz(K) = {K1.nnz}, stored zeros in K = {int((K1.data == 0).sum())}, nnz(C) = {C1.nnz}"
)
check("1st assembly K vs scatter-add", abs(K1.toarray() - refK).max())
check("1st assembly C vs scatter-add", abs(C1.toarray() - refC).max())

# the caller cleans HIS matrix
K1.eliminate_zeros()
print(f"caller ran K1.eliminate_zeros(): nnz(K1) = {K1.nnz}")
check("K1 itself after eliminate_zeros", abs(K1.toarray() - refK).max())

# (a) sibling of the same call
try:
    errC = abs(C1.toarray() - refC).max()
except Exception as exc:  # a corrupted pattern may also make scipy raise
    print("  C1.toarray() raised", type(exc).__name__, exc)
    errC = np.inf
check("(a) C of the SAME call, after K1.eliminate_zeros()", errC)

# (b) next assembly
K2, C2, _, _ = simu.Assembly(simu.problemType)
print(f"2nd assembly: nnz(K) = {K2.nnz}, nnz(C) = {C2.nnz}")
check("(b) 2nd assembly K vs scatter-add", abs(K2.toarray() - refK).max())
check("(b) 2nd assembly C vs scatter-add", abs(C2.toarray() - refC).max())

# (c) the library's own path on the same simulation
simu.Need_Update()
K3 = simu.Get_K_C_M_F()[0]
check("(c) Get_K_C_M_F()[0] vs scatter-add", abs(K3.toarray() - refK).max())
try:
    t = solve(mesh, simu)
    errT = abs(t - t_ref).max()
except Exception as exc:
    print("  Solve() raised", type(exc).__name__, exc)
    errT = np.inf
check("(c) Solve() vs the solution of an untouched simulation", errT)

if failures:
    print(f"\nDEFECT: {len(failures)} check(s) wrong:", *failures, sep="\n  - ")
    sys.exit(1)
print("\nOK: every returned / later matrix equals the scatter-add of its element arrays.")
sys.exit(0)
