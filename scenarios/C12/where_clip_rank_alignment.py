"""Obs 1: np.where / np.clip with fields of different tensor rank.

The rank rule of FeArray (class docstring): a (Ne, nPg) FeArray is a scalar field, fields are
padded to the widest rank and then broadcast once. Ufuncs follow it (np.maximum(m, s)), the
method m.clip(s, 1.0) follows it, np.where / np.clip called as functions must follow it too.
exit 0 = behaves correctly, exit 1 = defect shown.
"""

import sys
import numpy as np
import EasyFEA
from EasyFEA.FEM import FeArray

print("EasyFEA imported from", EasyFEA.__file__)
rng = np.random.default_rng(0)
bad = 0


def check(title, fn, want, fe=True):
    global bad
    try:
        got = fn()
    except Exception as err:
        bad += 1
        print(f"FAIL {title:<52s} raised {type(err).__name__}: {err}")
        return
    ok = np.shape(got) == want.shape and isinstance(got, FeArray) == fe
    dev = np.abs(np.asarray(got) - want).max() if np.shape(got) == want.shape else np.nan
    ok = ok and dev == 0
    bad += not ok
    print(f"{'ok  ' if ok else 'FAIL'} {title:<52s} {type(got).__name__} {np.shape(got)} max dev = {dev:.3f}")


for Ne, nPg, dim in [(4, 4, 4), (5, 3, 2), (3, 2, 3)]:
    print(f"(Ne, nPg, dim) = ({Ne}, {nPg}, {dim})")
    s = FeArray.asfearray(rng.random((Ne, nPg)))  # scalar field
    v = FeArray.asfearray(rng.random((Ne, nPg, dim)))  # vector field
    m = FeArray.asfearray(rng.random((Ne, nPg, dim, dim)))  # matrix field
    S, V, M = (np.asarray(x) for x in (s, v, m))
    A = rng.random((dim, dim))  # constant matrix

    check("np.where(s > 0.5, m, 0.0)", lambda: np.where(s > 0.5, m, 0.0),
          np.where(S[:, :, None, None] > 0.5, M, 0.0))
    check("np.where(s > 0.5, v, -v)", lambda: np.where(s > 0.5, v, -v),
          np.where(S[:, :, None] > 0.5, V, -V))
    check("np.where(m > 0.5, s, A)", lambda: np.where(m > 0.5, s, A),
          np.where(M > 0.5, S[:, :, None, None], A))
    check("np.clip(m, s, 1.0)", lambda: np.clip(m, s, 1.0),
          np.clip(M, S[:, :, None, None], 1.0))
    check("np.clip(m, 0.0, s)", lambda: np.clip(m, 0.0, s),
          np.clip(M, 0.0, S[:, :, None, None]))
    check("np.clip(v, min=s, max=1.0)", lambda: np.clip(v, min=s, max=1.0),
          np.clip(V, S[:, :, None], 1.0))
    # controls: what already works must keep working
    check("[control] m.clip(s, 1.0)", lambda: m.clip(s, 1.0),
          np.clip(M, S[:, :, None, None], 1.0))
    check("[control] np.maximum(m, s)", lambda: np.maximum(m, s),
          np.maximum(M, S[:, :, None, None]))
    check("[control] np.where(m > 0.5, m, A)", lambda: np.where(m > 0.5, m, A),
          np.where(M > 0.5, M, A))
    check("[control] np.where(s > 0.5, s, 0.0)", lambda: np.where(s > 0.5, s, 0.0),
          np.where(S > 0.5, S, 0.0))
    check("[control] np.clip(m, 0.2, 0.8)", lambda: np.clip(m, 0.2, 0.8), np.clip(M, 0.2, 0.8))

got = np.where(FeArray.asfearray(np.eye(3)) > 0)  # one-argument form: indices, not a field
ok = isinstance(got, tuple) and len(got) == 2 and not isinstance(got[0], FeArray)
bad += not ok
print(f"{'ok  ' if ok else 'FAIL'} [control] np.where(cond) returns a tuple of plain index arrays")

print("defect shown" if bad else "behaves correctly", f"({bad} check(s) failed)")
sys.exit(1 if bad else 0)
