"""Obs 3: two-output ufuncs on two fields of the same shape, and v.ravel('F').

(a) np.divmod(v, v) / divmod(v, v) / np.divmod(v, w) must give the per-point (quotient, remainder)
    pair, as np.divmod(v, 2.0) already does.
(b) v.ravel('F') is valid numpy (the positional argument of ravel is `order`); ravel never keeps
    the (Ne, nPg) axes, so the result is a plain array (class docstring, Type rule).
exit 0 = behaves correctly, exit 1 = defect shown.
"""

import sys
import numpy as np
import EasyFEA
from EasyFEA.FEM import FeArray

print("EasyFEA imported from", EasyFEA.__file__)
rng = np.random.default_rng(0)
bad = 0


def check(title, fn, want, fe):
    global bad
    try:
        got = fn()
    except Exception as err:
        bad += 1
        print(f"FAIL {title:<44s} raised {type(err).__name__}: {err}")
        return
    gots = got if isinstance(got, tuple) else (got,)
    wants = want if isinstance(want, tuple) else (want,)
    ok = len(gots) == len(wants) and isinstance(got, tuple) == isinstance(want, tuple)
    for g, w in zip(gots, wants):
        ok = ok and np.shape(g) == w.shape and np.array_equal(np.asarray(g), w)
        ok = ok and isinstance(g, FeArray) == fe
    bad += not ok
    print(f"{'ok  ' if ok else 'FAIL'} {title:<44s} "
          f"{[type(g).__name__ + str(np.shape(g)) for g in gots]}")


for shape in [(4, 4, 4), (5, 3, 2)]:
    print("vector field of shape", shape)
    v = FeArray.asfearray(rng.random(shape) + 0.5)
    w = FeArray.asfearray(rng.random(shape) + 0.5)
    V, W = np.asarray(v), np.asarray(w)
    check("np.divmod(v, v)", lambda: np.divmod(v, v), np.divmod(V, V), True)
    check("np.divmod(v, w)", lambda: np.divmod(v, w), np.divmod(V, W), True)
    check("divmod(v, w)", lambda: divmod(v, w), np.divmod(V, W), True)
    check("[control] np.divmod(v, 2.0)", lambda: np.divmod(v, 2.0), np.divmod(V, 2.0), True)
    check("[control] np.add(v, w)", lambda: np.add(v, w), V + W, True)
    check("[control] np.modf(v)", lambda: np.modf(v), np.modf(V), True)
    check("v.ravel('F')", lambda: v.ravel("F"), V.ravel("F"), False)
    check("v.ravel('C')", lambda: v.ravel("C"), V.ravel("C"), False)
    check("[control] v.ravel(order='F')", lambda: v.ravel(order="F"), V.ravel("F"), False)
    check("[control] v.ravel()", lambda: v.ravel(), V.ravel(), False)
    check("[control] np.ravel(v, 'F')", lambda: np.ravel(v, "F"), V.ravel("F"), False)

print("defect shown" if bad else "behaves correctly", f"({bad} check(s) failed)")
sys.exit(1 if bad else 0)
