"""Obs 2: np.matmul(a, b) called as a function vs the operator a @ b.

`@` applies the rank rule (a plain array is a constant tensor, multiplied at each element and
Gauss point; the (Ne, nPg) axes of a scalar / vector field are never matrix axes). np.matmul is
the ufunc behind `@`; routed through __array_ufunc__ it must give the same answer.
exit 0 = behaves correctly, exit 1 = defect shown.
"""

import sys
import numpy as np
import EasyFEA
from EasyFEA.FEM import FeArray

print("EasyFEA imported from", EasyFEA.__file__)
rng = np.random.default_rng(0)
bad = 0


def check(title, fn, want):
    """want: an array (per-point reference), or an exception type."""
    global bad
    try:
        got = fn()
    except Exception as err:
        ok = isinstance(want, type) and isinstance(err, want)
        bad += not ok
        print(f"{'ok  ' if ok else 'FAIL'} {title:<40s} raised {type(err).__name__}: {str(err)[:70]}")
        return
    if isinstance(want, type):
        bad += 1
        print(f"FAIL {title:<40s} {type(got).__name__} {np.shape(got)}, expected {want.__name__} as `@` raises")
        return
    same = np.shape(got) == want.shape
    dev = np.abs(np.asarray(got) - want).max() if same else np.nan
    ok = same and dev < 1e-12 and isinstance(got, FeArray)
    bad += not ok
    print(f"{'ok  ' if ok else 'FAIL'} {title:<40s} {type(got).__name__} {np.shape(got)} max dev = {dev:.3e}")


for Ne, nPg, dim in [(4, 4, 4), (5, 3, 3), (5, 3, 2)]:
    print(f"(Ne, nPg, dim) = ({Ne}, {nPg}, {dim})")
    s = FeArray.asfearray(rng.random((Ne, nPg)))
    v = FeArray.asfearray(rng.random((Ne, nPg, dim)))
    m = FeArray.asfearray(rng.random((Ne, nPg, dim, dim)))
    V, M = np.asarray(v), np.asarray(m)
    A = rng.random((dim, dim))
    a = rng.random(dim)

    check("np.matmul(A, v)", lambda: np.matmul(A, v), np.einsum("ij,epj->epi", A, V))
    check("np.matmul(v, A)", lambda: np.matmul(v, A), np.einsum("epi,ij->epj", V, A))
    check("np.matmul(a, v)", lambda: np.matmul(a, v), np.einsum("i,epi->ep", a, V))
    check("np.matmul(v, a)", lambda: np.matmul(v, a), np.einsum("epi,i->ep", V, a))
    check("np.matmul(m, v)", lambda: np.matmul(m, v), np.einsum("epij,epj->epi", M, V))
    check("np.matmul(v, m)", lambda: np.matmul(v, m), np.einsum("epi,epij->epj", V, M))
    check("np.matmul(v, v)", lambda: np.matmul(v, v), np.einsum("epi,epi->ep", V, V))
    check("np.matmul(s, s)  (s @ s raises)", lambda: np.matmul(s, s), ValueError)
    out = FeArray.zeros(Ne, nPg, dim)
    check("np.matmul(A, v, out=out)", lambda: np.matmul(A, v, out=out), np.einsum("ij,epj->epi", A, V))
    # controls
    check("[control] A @ v", lambda: A @ v, np.einsum("ij,epj->epi", A, V))
    check("[control] s @ s", lambda: s @ s, ValueError)
    check("[control] np.matmul(m, m)", lambda: np.matmul(m, m), np.einsum("epij,epjk->epik", M, M))
    check("[control] np.matmul(A, m)", lambda: np.matmul(A, m), np.einsum("ij,epjk->epik", A, M))
    check("[control] np.matmul(m, A)", lambda: np.matmul(m, A), np.einsum("epij,jk->epik", M, A))
    check("[control] np.matmul(m, a)", lambda: np.matmul(m, a), np.einsum("epij,j->epi", M, a))
    check("[control] m @ m", lambda: m @ m, np.einsum("epij,epjk->epik", M, M))
    st = FeArray.asfearray(rng.random((Ne, nPg, 2, dim, dim)))  # a stack of matrices per point
    check("[control] np.matmul(stack, stack)", lambda: np.matmul(st, st),
          np.einsum("epkij,epkjl->epkil", np.asarray(st), np.asarray(st)))

print("defect shown" if bad else "behaves correctly", f"({bad} check(s) failed)")
sys.exit(1 if bad else 0)
