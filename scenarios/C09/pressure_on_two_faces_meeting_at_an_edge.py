"""R08: one add_pressureLoad call on a selection spanning two planar faces that meet at an edge.

Property: the nodal forces of a pressure sum to the integral of its density (magnitude x unit normal)
over the loaded region, i.e. to the sum of the resultants of the two faces (magnitude x area x normal),
and have the same moment; one call on both faces = two calls, one per face.
Also: the nodes returned by mesh.Get_normals are each listed once.
Public API only. exit 0: property holds, exit 1: defect.
"""
import EasyFEA; print("EasyFEA from", EasyFEA.__file__)
import sys
import numpy as np
from EasyFEA import Mesher, ElemType, Models, Simulations
from EasyFEA.Geoms import Domain, Point

L, H, e, p = 2.0, 1.0, 0.5, 1.0
TOL = 1e-9
failures = []


def check(label, got, expected):
    got, expected = np.asarray(got, dtype=float), np.asarray(expected, dtype=float)
    ok = np.max(np.abs(got - expected)) < TOL * max(1.0, np.max(np.abs(expected)))
    print(f"  {label:<44s} got={np.round(got, 6)} expected={np.round(expected, 6)} {'ok' if ok else 'VIOLATED'}")
    if not ok:
        failures.append(label)


def resultant(simu, mesh):
    """force and moment about the origin of the assembled Neumann vector"""
    f = np.asarray(simu.Bc_vector_Neumann()).reshape(mesh.Nn, -1)
    f3 = np.zeros((mesh.Nn, 3)); f3[:, : f.shape[1]] = f
    return np.concatenate([f3.sum(0), np.cross(mesh.coord, f3).sum(0)])


planes = [lambda x, y, z: x == 0, lambda x, y, z: x == L, lambda x, y, z: y == 0,
          lambda x, y, z: y == H, lambda x, y, z: z == 0, lambda x, y, z: z == e]


def pressure(simu, mesh, *selections):
    simu.Bc_Init()
    for nodes in selections:
        simu.add_pressureLoad(nodes, p)
    return resultant(simu, mesh)


# ---- 3D block L x H x e, faces x = L (area H e, normal +x) and z = e (area L H, normal +z)
for elemType in [ElemType.HEXA8, ElemType.TETRA4, ElemType.PRISM6, ElemType.HEXA20]:
    contour = Domain(Point(0, 0), Point(L, H), H / 2)
    mesh = Mesher().Mesh_Extrude(contour, [], [0, 0, e], [2], elemType, isOrganised=True)
    simu = Simulations.Elastic(mesh, Models.Elastic.Isotropic(3, E=210e9, v=0.3))
    print(f"\n[{elemType}] Nn={mesh.Nn}")
    nodesX = mesh.Nodes_Conditions(lambda x, y, z: x == L)
    nodesZ = mesh.Nodes_Conditions(lambda x, y, z: z == e)
    both = mesh.Nodes_Conditions(lambda x, y, z: (x == L) | (z == e))
    # sign convention of the library measured on one planar face (s = +1 or -1)
    rx = pressure(simu, mesh, nodesX)
    s = np.sign(rx[0])
    Fx, Fz = s * p * H * e, s * p * L * H
    # analytic: F = s p (A_x e_x + A_z e_z), M = sum of c_face x F_face
    exact = np.array([Fx, 0, Fz, H / 2 * Fz, e / 2 * Fx - L / 2 * Fz, -H / 2 * Fx])
    check("face x=L alone (F, M)", rx, [Fx, 0, 0, 0, e / 2 * Fx, -H / 2 * Fx])
    check("two calls, one per face (F, M)", pressure(simu, mesh, nodesX, nodesZ), exact)
    # loaded region of the one-call selection = boundary elements whose nodes are all selected; on a
    # TETRA4 mesh this also holds corner triangles of the faces y=0 / y=H: load each planar part alone
    parts = [np.intersect1d(both, mesh.Nodes_Conditions(f)) for f in planes]
    parts = [n for n in parts if any(g.Get_Elements_Nodes(n, True).size for g in mesh.Get_list_groupElem(2))]
    ref = pressure(simu, mesh, *parts)
    print(f"  loaded region: {len(parts)} planar parts; analytic two-face resultant {np.round(exact, 6)}")
    check("ONE call on both faces (F, M)", pressure(simu, mesh, both), ref)
    normals, nodes = mesh.Get_normals(both)
    print(f"  Get_normals(both faces): {nodes.size} nodes returned, {np.unique(nodes).size} distinct")

# ---- 2D plate L x H, thickness t, edges x = L and y = H in one call
t = 0.25
mesh = Mesher().Mesh_2D(Domain(Point(0, 0), Point(L, H), H / 2), [], ElemType.TRI3, isOrganised=True)
simu = Simulations.Elastic(mesh, Models.Elastic.Isotropic(2, E=210e9, v=0.3, planeStress=True, thickness=t))
print(f"\n[2D TRI3] Nn={mesh.Nn}")
nodesX = mesh.Nodes_Conditions(lambda x, y, z: x == L)
nodesY = mesh.Nodes_Conditions(lambda x, y, z: y == H)
both = mesh.Nodes_Conditions(lambda x, y, z: (x == L) | (y == H))
s = np.sign(pressure(simu, mesh, nodesX)[0])
exact = np.array([s * p * H * t, s * p * L * t, 0, 0, 0, L / 2 * s * p * L * t - H / 2 * s * p * H * t])
check("two calls, one per edge (F, M)", pressure(simu, mesh, nodesX, nodesY), exact)
check("ONE call on both edges (F, M)", pressure(simu, mesh, both), exact)

print()
if failures:
    print(f"DEFECT: {len(failures)} measurement(s) violate the property")
    sys.exit(1)
print("property holds")
sys.exit(0)
