"""Observation 1: on a mesh with two element groups of the main dimension (QUAD4 + TRI3) the
History solver must keep the history field H = max over the saved steps of psi+ for EVERY group.
Load, hold, then unload: H (per element) and the damage may not decrease between saved steps.
exit 0 = behaves correctly, exit 1 = defect shown."""
import os, sys, tempfile
import numpy as np
import gmsh
import EasyFEA
from EasyFEA import Models, Simulations, SolverType, Mesher

print("EasyFEA from", EasyFEA.__file__)

# unit square = two rectangles, the left one recombined into quadrangles
path = os.path.join(tempfile.mkdtemp(), "mixed.msh")
gmsh.initialize()
gmsh.option.setNumber("General.Terminal", 0)
occ = gmsh.model.occ
s1 = occ.addRectangle(0, 0, 0, 0.5, 1)
s2 = occ.addRectangle(0.5, 0, 0, 0.5, 1)
occ.fragment([(2, s1)], [(2, s2)])
occ.synchronize()
gmsh.option.setNumber("Mesh.MeshSizeMin", 0.1)
gmsh.option.setNumber("Mesh.MeshSizeMax", 0.1)
for dim, tag in gmsh.model.getEntities(2):
    if gmsh.model.occ.getCenterOfMass(dim, tag)[0] < 0.5:
        gmsh.model.mesh.setTransfiniteSurface(tag)
        gmsh.model.mesh.setRecombine(dim, tag)
gmsh.model.mesh.generate(2)
gmsh.write(path)
gmsh.finalize()

mesh = Mesher().Mesh_Import_mesh(path)
groups = mesh.Get_list_groupElem()
print("groups:", [(str(g.elemType), g.Ne) for g in groups])
assert len(groups) == 2

mat = Models.Elastic.Isotropic(2, E=210.0, v=0.3, planeStress=False)
pfm = Models.PhaseField(mat, "Miehe", "AT2", Gc=2.7e-3, l0=0.1, solver="History")
simu = Simulations.PhaseField(mesh, pfm)
simu.solver = SolverType.scipy
n0 = mesh.Nodes_Conditions(lambda x, y, z: x == 0)
n1 = mesh.Nodes_Conditions(lambda x, y, z: x == 1)

Hs, ds = [], []
for ud in [0, 3e-3, 6e-3, 6e-3, 0, 0, 0]:
    simu.Bc_Init()
    simu.add_dirichlet(n0, [0, 0], ["x", "y"])
    simu.add_dirichlet(n1, [ud], ["x"])
    simu.Solve()
    simu.Save_Iter()
    H = simu.Result("psiP", nodeValues=False)  # driving energy max(psi+(u), history), per element
    H_g = np.split(H, [groups[0].Ne])
    d = simu.damage.copy()
    Hs.append(H)
    ds.append(d)
    print(
        f"ud={ud:7.0e}  max H {groups[0].elemType}: {H_g[0].max():.3e}  {groups[1].elemType}: {H_g[1].max():.3e}"
        f"   max damage: {d.max():.4f}"
    )

dropH = max(float(np.max(Hs[k] - Hs[k + 1])) for k in range(len(Hs) - 1))
dropD = max(float(np.max(ds[k] - ds[k + 1])) for k in range(len(ds) - 1))
print(f"largest decrease of the driving energy between saved steps: {dropH:.3e}")
print(f"largest decrease of the nodal damage between saved steps  : {dropD:.3e}")

# the restore path must work on such a mesh too, and leave the driving energy untouched
ok_reset = True
try:
    simu.Set_Iter(-1, resetAll=True)
    H_after = simu.Result("psiP", nodeValues=False)
    print(f"Set_Iter(-1, resetAll=True) works: max H = {H_after.max():.3e}")
except Exception as ex:
    ok_reset = False
    print("Set_Iter(-1, resetAll=True) raised", type(ex).__name__, str(ex)[:80])

ok = dropH <= 1e-12 and dropD <= 1e-3 and ok_reset
print("OK" if ok else "DEFECT: the history of one element group is lost")
sys.exit(0 if ok else 1)
