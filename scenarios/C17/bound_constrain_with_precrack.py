"""Observation 4: BoundConstrain solver + a Dirichlet condition on the damage (pre-crack, as in
examples/PhaseField/Tension.py). The bounds given to scipy.optimize.lsq_linear must be restricted
to the unknown dofs like the matrix, the right-hand side and x0.
exit 0 = behaves correctly, exit 1 = defect shown."""
import sys
import numpy as np
import EasyFEA
from EasyFEA import Models, Simulations, SolverType
from EasyFEA.Geoms import Domain

print("EasyFEA from", EasyFEA.__file__)

a = 1.0
mesh = Domain((0, 0), (a, a), a / 10).Mesh_2D([], "TRI3")
n0 = mesh.Nodes_Conditions(lambda x, y, z: x == 0)
na = mesh.Nodes_Conditions(lambda x, y, z: x == a)
nc = mesh.Nodes_Conditions(lambda x, y, z: (np.abs(y - 0.5) <= 0.05) & (x <= 0.31))
mat = Models.Elastic.Isotropic(2, E=210.0, v=0.3, planeStress=False)


def Run(solver, precrack):
    pfm = Models.PhaseField(mat, "Miehe", "AT2", Gc=2.7e-3, l0=0.1, solver=solver)
    simu = Simulations.PhaseField(mesh, pfm)
    simu.solver = SolverType.scipy
    ds = []
    for ud in [0, 3e-3, 6e-3, 3e-3, 0.0]:
        simu.Bc_Init()
        if precrack:
            simu.add_dirichlet(nc, [1.0], ["d"], problemType="damage")
        simu.add_dirichlet(n0, [0, 0], ["x", "y"])
        simu.add_dirichlet(na, [ud], ["y"])
        simu.Solve()
        simu.Save_Iter()
        ds.append(simu.damage.copy())
    return ds


ok = True

# control: no Dirichlet condition on the damage (already handled)
ds = Run("BoundConstrain", False)
print("BoundConstrain, no pre-crack : max damage per step", " ".join(f"{d.max():.4f}" for d in ds))

# reference for the pre-crack: the unconstrained History solver on the same (monotone part of the) loading
ref = Run("History", True)
print("History, pre-crack           : max damage away from the crack per step",
      " ".join(f"{np.delete(d, nc).max():.4f}" for d in ref))

try:
    ds = Run("BoundConstrain", True)
except Exception as ex:
    print(f"BoundConstrain, {nc.size} pre-cracked nodes -> {type(ex).__name__}: {ex}")
    ok = False
else:
    print("BoundConstrain, pre-crack    : max damage away from the crack per step",
          " ".join(f"{np.delete(d, nc).max():.4f}" for d in ds))
    imposed = all(np.allclose(d[nc], 1.0) for d in ds)
    inside = all(d.min() >= -1e-8 and d.max() <= 1 + 1e-8 for d in ds)
    drop = max(float(np.max(ds[k] - ds[k + 1])) for k in range(len(ds) - 1))
    # on the loading part (steps 0-2) the bound d >= d_old is not active: same result as History
    same = max(float(np.abs(ds[k] - ref[k]).max()) for k in range(3))
    print(f"  damage imposed on the crack: {imposed}, 0 <= d <= 1: {inside}, "
          f"largest nodal decrease: {drop:.2e}, |d - d_History| while loading: {same:.2e}")
    ok = imposed and inside and drop <= 1e-8 and same <= 1e-6

print("OK" if ok else "DEFECT")
sys.exit(0 if ok else 1)
