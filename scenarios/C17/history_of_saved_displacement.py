"""Observation 2: History solver, Solve(tolConv < 1) with the four documented convOption.
Load to a peak, save, then unload. The driving energy max(H, psi+(u)) of a saved step
(simu.Result("psiP") right after Save_Iter) may not decrease at the next saved step, whatever
the convergence criterion: the peak psi+(u_saved) has to enter the history field.
exit 0 = behaves correctly, exit 1 = defect shown."""
import sys
import numpy as np
import EasyFEA
from EasyFEA import Models, Simulations, SolverType
from EasyFEA.Geoms import Domain

print("EasyFEA from", EasyFEA.__file__)

a = 1.0
mesh = Domain((0, 0), (a, a), a / 10).Mesh_2D([], "TRI3")
n0 = mesh.Nodes_Conditions(lambda x, y, z: x == 0)
na = mesh.Nodes_Conditions(lambda x, y, z: x == a)
mat = Models.Elastic.Isotropic(2, E=210.0, v=0.3, planeStress=False)
loads = [0, 3e-3, 6e-3, 3e-3, 0.0]

ok = True
final = {}
for regu in ("AT1", "AT2"):
    for convOption in (2, 1, 0, 3):
        pfm = Models.PhaseField(mat, "Miehe", regu, Gc=2.7e-3, l0=0.1, solver="History")
        simu = Simulations.PhaseField(mesh, pfm)
        simu.solver = SolverType.scipy
        print(f"{regu} convOption={convOption}")
        Ds = []
        for ud in loads:
            simu.Bc_Init()
            simu.add_dirichlet(n0, [0, 0], ["x", "y"])
            simu.add_dirichlet(na, [ud], ["x"])
            simu.Solve(tolConv=1e-3, maxIter=50, convOption=convOption)
            simu.Save_Iter()
            # psi+ of the saved displacement, computed with the model alone
            eps = mat.Calc_Epsilon_e_pg(simu.displacement, mesh.groupElem, "mass")
            psiP = np.asarray(pfm.Calc_psi_e_pg(eps)[0]).mean(1)
            # driving energy of the saved state (per element)
            D = simu.Result("psiP", nodeValues=False)
            Ds.append(D)
            print(
                f"  ud={ud:7.0e}  max psi+(saved u) = {psiP.max():.3e}   max driving energy = {D.max():.3e}"
                f"   max damage = {simu.damage.max():.4f}"
            )
        drop = max(float(np.max(Ds[k] - Ds[k + 1])) for k in range(len(Ds) - 1))
        print(f"  largest decrease of the driving energy between saved steps: {drop:.3e}")
        final[regu, convOption] = simu.damage.max()
        if drop > 1e-12:
            ok = False

    # the converged state does not depend on the way convergence is measured
    ref = final[regu, 2]
    for convOption in (1, 0, 3):
        if abs(final[regu, convOption] - ref) > 5e-3:
            print(f"{regu}: final max damage {final[regu, convOption]:.4f} with convOption={convOption}"
                  f" against {ref:.4f} with convOption=2")
            ok = False

print("OK" if ok else "DEFECT: the peak of the loading history is not recorded with convOption 0 / 3")
sys.exit(0 if ok else 1)
