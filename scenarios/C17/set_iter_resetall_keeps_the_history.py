import EasyFEA; print("EasyFEA from", EasyFEA.__file__)
"""PhaseField.Set_Iter(i, resetAll=True) must keep the history field saved with iteration i.

Unit square, Miehe split, AT2, History solver. Load, load more, then UNLOAD; every step is saved.
The run is then restarted from the saved unloading step with Set_Iter(3, resetAll=True): the same load is
solved and saved again. The history field H (result "psiP" = driving energy per element) of the new saved
step must not be below the H of the step it was restarted from (H never decreases between saved steps),
and the damage must not heal.
"""
import sys
import numpy as np
from EasyFEA import Mesher, ElemType, Models, Simulations
from EasyFEA.Geoms import Domain, Point

l0 = 0.1
mesh = Mesher().Mesh_2D(Domain(Point(0, 0), Point(1, 1), l0 / 2), [], ElemType.TRI3)
nodesLow = mesh.Nodes_Conditions(lambda x, y, z: y == 0)
nodesUp = mesh.Nodes_Conditions(lambda x, y, z: y == 1)

mat = Models.Elastic.Isotropic(2, E=210e3, v=0.3, planeStress=False)
pfm = Models.PhaseField(mat, "Miehe", "AT2", Gc=2.7, l0=l0, solver="History")


def run(resetAll):
    simu = Simulations.PhaseField(mesh, pfm)

    def step(ud):
        simu.Bc_Init()
        simu.add_dirichlet(nodesLow, [0, 0], ["x", "y"])
        simu.add_dirichlet(nodesUp, [ud], ["y"])
        simu.Solve(tolConv=1e-2, maxIter=50)
        simu.Save_Iter()
        # history (driving energy) per element and damage per node of the step just saved
        return simu.Result("psiP", nodeValues=False).copy(), simu.damage.copy()

    saved = [step(ud) for ud in (0.0, 2e-3, 4e-3, 1e-3)]  # last step unloads
    print("  saved steps, max H :", [round(float(H.max()), 4) for H, _ in saved])
    H3, d3 = saved[3]

    simu.Set_Iter(3, resetAll=resetAll)
    Hr = simu.Result("psiP", nodeValues=False).copy()
    print(f"  after Set_Iter(3, resetAll={resetAll}): max H = {Hr.max():.4f}, min(H - H3) = {(Hr - H3).min():.3e}")
    H4, d4 = step(1e-3)  # same load again, saved as step 4
    dH, dd = (H4 - H3).min(), (d4 - d3).min()
    print(f"  step 4 (same load): max H = {H4.max():.4f}, min(H4 - H3) = {dH:.3e}, min(d4 - d3) = {dd:.3e}")
    tol = 1e-9 * H3.max()
    return (Hr - H3).min() >= -tol and dH >= -tol and dd >= -1e-9


print("restart WITHOUT resetAll")
okPlain = run(False)
print("restart WITH resetAll=True")
okReset = run(True)

if okPlain and okReset:
    print("OK: the history field never decreases across a restart")
    sys.exit(0)
print(f"DEFECT: history decreased after a restart (resetAll=False ok: {okPlain}, resetAll=True ok: {okReset})")
sys.exit(1)
