"""C10 obs 2: Simulations.Beam.center when the centre of mass is at the origin.

The same beam translated along x must return the translated centre.
exit 0 = all centres returned and correct, exit 1 = an exception / wrong centre.
"""
import sys
import numpy as np
import EasyFEA
from EasyFEA import Mesher, Models, Simulations, ElemType
from EasyFEA.Geoms import Domain, Point, Line

print(EasyFEA.__file__)


def make(x0):
    m = Mesher()
    sec = m.Mesh_2D(Domain(Point(-0.01, -0.01), Point(0.01, 0.01)))
    line = Line(Point(x0, 0), Point(x0 + 2, 0), 0.5)
    beam = Models.Beam.Isotropic(2, line, sec, 210e9, 0.3)
    mesh = m.Mesh_Beams([beam], elemType=ElemType.SEG2)
    simu = Simulations.Beam(mesh, Models.Beam.BeamStructure([beam]))
    simu.rho = 7800.0
    return simu


bad = []
for x0 in [0.0, 3.0, -1.0, float(np.nextafter(-1.0, 0.0)), -0.3]:
    expected = np.array([x0 + 1, 0, 0])
    try:
        center = make(x0).center
        err = np.linalg.norm(center - expected)
        print(f"x0 = {x0!r:>6} -> center {center}  |center - expected| = {err:.1e}")
        if not err < 1e-12:
            bad.append(x0)
    except Exception as e:  # noqa
        print(f"x0 = {x0!r:>6} -> {type(e).__name__} {e}")
        bad.append(x0)

if bad:
    print("DEFECT: Beam.center fails for x0 in", bad)
    sys.exit(1)
print("ok")
