"""Observation 1 (C10): axial force N of a dim=1 beam (bar) drawn towards -x.

The only dof of a dim=1 beam is the GLOBAL x displacement ("x" / result "ux",
Results_displacement_matrix writes it in the x column). A reflection x -> -x of the whole
problem must leave the scalars N and ux' (axial strain) unchanged.

(A) one bar clamped at the origin, pulled outwards by 1000 N: N must be +1000 whatever the
    direction in which the line is drawn (dim 2 and 3 are printed for comparison).
(B) two bars in ONE structure sharing the middle node, clamped at both ends, the middle node
    pushed towards +x: the left bar is in tension (+F/2), the right bar in compression (-F/2),
    whatever the direction in which the right bar is drawn. Here the shared dof can only be
    the global x displacement, so no reading of "N in the bar's own axis" saves the sign.

exit 0 = correct, exit 1 = defect shown.
"""

import io
import sys
import contextlib

import numpy as np

from EasyFEA import Mesher, ElemType, Models, Simulations
from EasyFEA.Geoms import Point, Domain, Line

E, v, F, L = 210e9, 0.3, 1000.0, 1.0
bad = []


def section():
    with contextlib.redirect_stdout(io.StringIO()):
        return Mesher().Mesh_2D(Domain(Point(-0.05, -0.05), Point(0.05, 0.05)))


def single_bar(dim, sgn, elemType, timo):
    p1, p2 = Point(0, 0), Point(sgn * L, 0)
    beam = Models.Beam.Isotropic(dim, Line(p1, p2, L / 4), section(), E, v)
    with contextlib.redirect_stdout(io.StringIO()):
        mesh = Mesher().Mesh_Beams([beam], elemType=elemType)
        simu = Simulations.Beam(
            mesh, Models.Beam.BeamStructure([beam]), useTimoshenko=timo
        )
    m = simu.mesh
    simu.add_dirichlet(m.Nodes_Point(p1), [0] * simu.Get_dof_n(), simu.Get_unknowns())
    simu.add_neumann(m.Nodes_Point(p2), [sgn * F], ["x"])  # pulled outwards: tension
    simu.Solve()
    N = simu.Result("N", nodeValues=False)
    dux = simu.Result("ux'", nodeValues=False)  # axial strain du/dx of the member
    ux = simu.Result("ux")[m.Nodes_Point(p2)][0]
    return N, dux, ux


print("(A) single bar clamped at 0, pulled outwards by 1000 N (expected N = +1000)")
for dim in (1, 2, 3):
    for elemType, timo in ((ElemType.SEG2, False), (ElemType.SEG3, False), (ElemType.SEG3, True)):
        for sgn in (1, -1):
            N, dux, ux = single_bar(dim, sgn, elemType, timo)
            ok = np.allclose(N, F, rtol=1e-8) and np.all(dux > 0)  # stretched member
            ok = ok and np.isclose(ux, sgn * F * L / (E * 0.01), rtol=1e-8)
            print(
                f"  dim={dim} {elemType.name} {'Timoshenko' if timo else 'Euler-Bern.'} "
                f"towards {'+x' if sgn > 0 else '-x'}: N = {N.mean():+9.2f}  "
                f"ux' = {dux.mean():+.4e}  tip ux = {ux:+.4e}  {'ok' if ok else 'BAD'}"
            )
            if not ok:
                bad.append(("A", dim, elemType.name, timo, sgn))


def two_bars(right_drawn_towards):
    pa, pb, pc = Point(0, 0), Point(L, 0), Point(2 * L, 0)
    sect = section()
    beamA = Models.Beam.Isotropic(1, Line(pa, pb, L / 2), sect, E, v)
    lineB = Line(pb, pc, L / 2) if right_drawn_towards > 0 else Line(pc, pb, L / 2)
    beamB = Models.Beam.Isotropic(1, lineB, sect, E, v)
    with contextlib.redirect_stdout(io.StringIO()):
        mesh = Mesher().Mesh_Beams([beamA, beamB], elemType=ElemType.SEG2)
        simu = Simulations.Beam(mesh, Models.Beam.BeamStructure([beamA, beamB]))
    m = simu.mesh
    nodes = np.concatenate([m.Nodes_Point(pa), m.Nodes_Point(pc)])
    simu.add_dirichlet(nodes, [0], ["x"])
    simu.add_neumann(m.Nodes_Point(pb), [F], ["x"])
    simu.Solve()
    N_e = simu.Result("N", nodeValues=False)
    NA = N_e[m.Elements_Tags([beamA.name])]
    NB = N_e[m.Elements_Tags([beamB.name])]
    return NA, NB, simu.Result("ux")[m.Nodes_Point(pb)][0]


print("(B) bars [0,1] and [1,2] clamped at 0 and 2, +1000 N at x=1 (expected N = +500 / -500)")
for drawn in (1, -1):
    NA, NB, ux = two_bars(drawn)
    ok = np.allclose(NA, F / 2, rtol=1e-8) and np.allclose(NB, -F / 2, rtol=1e-8)
    print(
        f"  right bar drawn towards {'+x' if drawn > 0 else '-x'}: N_left = {NA.mean():+8.2f}  "
        f"N_right = {NB.mean():+8.2f}  ux(mid) = {ux:+.4e}  {'ok' if ok else 'BAD'}"
    )
    if not ok:
        bad.append(("B", drawn))

if bad:
    print("DEFECT:", bad)
    sys.exit(1)
print("N and ux' are independent of the direction in which the bar is drawn")
sys.exit(0)
