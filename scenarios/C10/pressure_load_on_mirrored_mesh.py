"""C10 obs 1: add_pressureLoad on a mesh mirrored with Mesh.Symmetry.

A pressure is a scalar: the mirrored problem (mesh mirrored, same clamped nodes,
same pressure on the same nodes) must have the mirror image of the original solution.
exit 0 = mirror image obtained, exit 1 = the pressure acts with the opposite sense.
"""
import sys
import numpy as np
import EasyFEA
from EasyFEA import Mesher, Models, Simulations, ElemType
from EasyFEA.Geoms import Domain, Point

print(EasyFEA.__file__)
bad = []


def solve(dim, elemType, mirror_n):
    dom = Domain(Point(0, 0), Point(2, 1), 0.25)
    if dim == 2:
        mesh = Mesher().Mesh_2D(dom, [], elemType)
        mat = Models.Elastic.Isotropic(2, 210000.0, 0.3, planeStress=True, thickness=1.0)
    else:
        mesh = Mesher().Mesh_Extrude(dom, [], [0, 0, 0.5], [2], elemType)
        mat = Models.Elastic.Isotropic(3, 210000.0, 0.3)
    nL = mesh.Nodes_Conditions(lambda x, y, z: x == 0)
    nR = mesh.Nodes_Conditions(lambda x, y, z: x == 2)
    if mirror_n is not None:
        mesh.Symmetry((0, 0, 0), mirror_n)  # node numbers are kept
    simu = Simulations.Elastic(mesh, mat)
    simu.add_dirichlet(nL, [0] * dim, ["x", "y", "z"][:dim])
    simu.add_pressureLoad(nR, 10.0)
    return simu.Solve().reshape(-1, dim)


for dim, elemType in [(2, ElemType.TRI3), (2, ElemType.QUAD8), (3, ElemType.PRISM6), (3, ElemType.HEXA8)]:
    u = solve(dim, elemType, None)
    # mirror y -> -y : S = diag(1, -1, 1)
    S = np.ones(dim)
    S[1] = -1
    u2 = solve(dim, elemType, (0, 1, 0))
    err = np.abs(u2 - u * S).max() / np.abs(u).max()
    print(
        f"{dim}D {elemType}: original ux in [{u[:,0].min():.3e}, {u[:,0].max():.3e}]  "
        f"mirrored ux in [{u2[:,0].min():.3e}, {u2[:,0].max():.3e}]  |u' - S u|/|u| = {err:.2e}"
    )
    if not err < 1e-9:
        bad.append(f"{dim}D {elemType}")

if bad:
    print("DEFECT: pressure load not mirrored for", bad)
    sys.exit(1)
print("ok: the mirrored problem has the mirrored solution")
