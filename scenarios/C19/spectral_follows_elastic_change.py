"""Observation 3: the eigenspace of the spectral return is built once in Behavior.__init__. After the elastic law
is changed through its public setters (`elastic.E = ...`, which the library supports everywhere: the parameters
are descriptors that mark the law for an update and `Behavior.C` reads `elastic.C` live), the default local solver
keeps integrating with the OLD stiffness while the trial stress uses the NEW one.

Public API only. After the change of E (and, separately, of v, and of an orthotropic modulus) the behaviour built
BEFORE the change must give the same answer as a behaviour built AFTER it, and as the general local solver:
  - same stress, same state, same tangent;
  - von Mises plastic strain traceless;
  - no plastic strain on a sub-yield step;
  - stress = C_new : (eps - eps_p).

exit 0 = behaves correctly, exit 1 = defect shown.
"""

import sys
import numpy as np

import EasyFEA
from EasyFEA import Models
from EasyFEA.FEM import FeArray
from EasyFEA.Models.Elastic import Isotropic, Orthotropic

IE = Models.InElastic
print("EasyFEA from", EasyFEA.__file__)


def fe(v):
    return FeArray.asfearray(np.asarray(v, float)[None, None])


def A(x):
    return np.asarray(x)[0, 0]


eps = np.array([3e-3, -5e-4, -5e-4, 1e-4, -2e-4, 3e-4])
bad = []


def check(label, make_elastic, change, surface):
    kw = dict(yieldSurface=surface, hardening=IE.IsotropicHardening.Linear(2000.0))
    el = make_elastic()
    stale = IE.Behavior(3, el, **kw)  # built before the change (default solver: spectral)
    change(el)
    fresh = IE.Behavior(3, el, **kw)  # built after the change
    slow = IE.Behavior(3, el, solver="newton", **kw)  # the general local solver

    sS, CS, zS, _ = stale.Integrate(fe(eps))
    sF, CF, zF, _ = fresh.Integrate(fe(eps))
    sN, CN, zN, _ = slow.Integrate(fe(eps))

    dsig = np.linalg.norm(A(sS) - A(sF))
    dsigN = np.linalg.norm(A(sS) - A(sN))
    dz = np.max(np.abs(A(zS) - A(zF)))
    dC = np.linalg.norm(A(CS) - A(CF)) / np.linalg.norm(A(CF))
    tr = abs(A(zS)[:3].sum())
    hooke = np.linalg.norm(A(sS) - el.C @ (eps - A(zS)[:6]))
    zsub = A(stale.Integrate(fe(0.05 * eps))[2])
    sub = np.max(np.abs(zsub))

    print(f"\n{label}")
    print(f"  |sig(built before) - sig(built after)|   = {dsig:.3e}")
    print(f"  |sig(built before) - sig(newton solver)| = {dsigN:.3e}")
    print(f"  max |state difference|                   = {dz:.3e}")
    print(f"  rel. tangent difference                  = {dC:.3e}")
    print(f"  |tr(eps_p)|                              = {tr:.3e}")
    print(f"  |sig - C_new:(eps - eps_p)|              = {hooke:.3e}")
    print(f"  sub-yield step, max |internal variable|  = {sub:.3e}")
    if dsig > 1e-6 or dsigN > 1e-6:
        bad.append((label, f"stress differs by {max(dsig, dsigN):.3e}"))
    if dz > 1e-10:
        bad.append((label, f"state differs by {dz:.3e}"))
    if dC > 1e-8:
        bad.append((label, f"tangent differs by {dC:.3e}"))
    if tr > 1e-12 and surface.P is not None and label.startswith("VonMises"):
        bad.append((label, f"von Mises plastic strain is not traceless ({tr:.3e})"))
    if hooke > 1e-6:
        bad.append((label, f"sigma is not C:(eps - eps_p) ({hooke:.3e})"))
    if sub > 1e-12:
        bad.append((label, f"plastic strain on a sub-yield step ({sub:.3e})"))


def set_E(el):
    el.E = 105000.0


def set_v(el):
    el.v = 0.2


def set_E2(el):
    el.E2 = 60000.0


check("VonMises, Isotropic, E: 210000 -> 105000", lambda: Isotropic(3, E=210000.0, v=0.3), set_E, IE.Yield.VonMises(250.0))
check("VonMises, Isotropic, v: 0.3 -> 0.2", lambda: Isotropic(3, E=210000.0, v=0.3), set_v, IE.Yield.VonMises(250.0))
check(
    "Hill, Orthotropic, E2: 105000 -> 60000",
    lambda: Orthotropic(3, E1=210000.0, E2=105000.0, E3=70000.0, G12=52500.0, G13=42000.0, G23=35000.0, v12=0.3, v13=0.2, v23=0.1),
    set_E2,
    IE.Yield.Hill(250.0, F=0.7, G=0.4, H=0.6, L=1.8, M=1.2, N=1.4),
)

if bad:
    print(f"\nDEFECT ({len(bad)}):")
    for label, m in bad:
        print("  -", label, ":", m)
    sys.exit(1)
print("\nOK: the default local solver follows the elastic law")
sys.exit(0)
