"""Observation 1: kinematic hardening together with Maxwell branches -> the algorithmic tangent returned by
Behavior.Integrate is not dsigma/deps.

Public API only. The tangent is compared with central differences of the returned stress (h = 1e-6, the step at
which the finite-difference noise of the local solver tolerance is ~1e-9) for every combination of
{kinematic hardening, Maxwell branches}, in 3D, plane strain and plane stress, for one and two back-stresses /
branches, rate-independent and with a Norton rate law, from a virgin and from a non-virgin state.

exit 0 = every tangent is the derivative of the stress (rel. error < 1e-6); exit 1 = defect shown.
"""

import sys
import numpy as np

import EasyFEA
from EasyFEA import Models
from EasyFEA.FEM import FeArray
from EasyFEA.Models.Elastic import Isotropic

IE = Models.InElastic
print("EasyFEA from", EasyFEA.__file__)


def fe(v):
    return FeArray.asfearray(np.asarray(v, float)[None, None])


def law(dim, nKin, nBr, rate=False, planeStress=False):
    kin = [
        IE.KinematicHardening.ArmstrongFrederick(20000.0, 200.0),
        IE.KinematicHardening.Prager(5000.0),
    ][:nKin]
    br = [IE.ViscoElastic.Maxwell(0.3, 1.0), IE.ViscoElastic.Maxwell(0.2, 0.1)][:nBr]
    return IE.Behavior(
        dim,
        Isotropic(3, E=210000.0, v=0.3),
        yieldSurface=IE.Yield.VonMises(250.0),
        hardening=IE.IsotropicHardening.Linear(2000.0),
        kinematic=kin if kin else None,
        rate=IE.ViscoPlastic.Norton(1e-2, 2.0, 250.0) if rate else None,
        branches=br,
        planeStress=planeStress,
    )


def tangent_error(b, eps, zOld, dt, h=1e-6):
    sig, C, z, ok = b.Integrate(fe(eps), zOld, dt)
    assert bool(ok.all())
    n = eps.size
    Cfd = np.zeros((n, n))
    for j in range(n):
        d = np.zeros(n)
        d[j] = h
        sp = np.asarray(b.Integrate(fe(eps + d), zOld, dt)[0])[0, 0]
        sm = np.asarray(b.Integrate(fe(eps - d), zOld, dt)[0])[0, 0]
        Cfd[:, j] = (sp - sm) / (2 * h)
    err = np.linalg.norm(np.asarray(C)[0, 0] - Cfd) / np.linalg.norm(Cfd)
    return err, z


eps3 = np.array([6e-3, -1e-3, -1e-3, 2e-3, -4e-4, 6e-4])
eps2 = np.array([6e-3, -1e-3, 2e-3])
TOL = 1e-6
bad = []

print("\n kin  br  rate   dim/kind        state        rel.err(C_alg vs central differences)")
for dim, ps, kind in [(3, False, "3D"), (2, False, "plane strain"), (2, True, "plane stress")]:
    eps = eps3 if dim == 3 else eps2
    for rate in (False, True):
        for nKin, nBr in [(1, 0), (0, 1), (1, 1), (2, 1), (1, 2), (2, 2)]:
            b = law(dim, nKin, nBr, rate, ps)
            # virgin state, then a second (non proportional) increment from the state just reached
            err0, z = tangent_error(b, eps, None, 1.0)
            eps_b = 1.3 * eps[::-1] if dim == 3 else 1.3 * eps * np.array([1.0, -0.5, 2.0])
            err1, _ = tangent_error(b, eps_b, z, 0.5)
            for state, err in (("virgin", err0), ("non-virgin", err1)):
                flag = "" if err < TOL else "   <-- not the derivative of the stress"
                print(f"  {nKin}    {nBr}   {rate!s:5}  {kind:13}  {state:11}  {err:.3e}{flag}")
                if err >= TOL:
                    bad.append((nKin, nBr, rate, kind, state, err))

if bad:
    print(f"\nDEFECT: {len(bad)} tangents are not dsigma/deps (all with kinematic hardening AND branches: "
          f"{all(k > 0 and b > 0 for k, b, *_ in bad)})")
    sys.exit(1)
print("\nOK: every tangent is the derivative of the returned stress")
sys.exit(0)
