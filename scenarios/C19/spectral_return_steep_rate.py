"""Observation 2: the spectral return mapping (the default local solver for a quadratic yield surface without
kinematic hardening / branches) with a Norton / Perzyna exponent n >= 5 stops unconverged but reports
converged = True, and disagrees with the general local solver (solver="newton").

Public API only. For each exponent it integrates one strain increment with both solvers and checks, on the
output of the DEFAULT solver alone (no reference to the other one):
  (a) the viscoplastic consistency condition  f(sigma, R(p)) = inverse(dp/dt)  rebuilt from the public pieces
      (Yield.f, IsotropicHardening.R, RateLaw.inverse);
  (b) the flow rule  eps_p = dp * N(sigma);
  (c) the returned tangent against central differences of the returned stress;
and (d) that the two solvers agree. A result that fails (a) while `converged` is True is the defect.

exit 0 = behaves correctly, exit 1 = defect shown.
"""

import sys
import numpy as np

import EasyFEA
from EasyFEA import Models
from EasyFEA.FEM import FeArray
from EasyFEA.Models.Elastic import Isotropic

IE = Models.InElastic
print("EasyFEA from", EasyFEA.__file__)


def fe(v):
    return FeArray.asfearray(np.asarray(v, float)[None, None])


SY, H = 250.0, 2000.0
eps = np.array([3e-3, -5e-4, -5e-4, 1e-4, -2e-4, 3e-4])
DT = 1.0
bad = []

cases = []
for n in [1, 2, 3, 5, 8, 12, 20]:
    cases.append((f"Norton  n={n:2d} VonMises+Linear", IE.ViscoPlastic.Norton(1e-2, n, SY),
                  IE.Yield.VonMises(SY), IE.IsotropicHardening.Linear(H)))
cases.append(("Perzyna n= 6 VonMises+Voce  ", IE.ViscoPlastic.Perzyna(50.0, 6, SY),
              IE.Yield.VonMises(SY), IE.IsotropicHardening.Voce(100.0, 50.0)))
cases.append(("Norton  n= 7 Hill+Swift     ", IE.ViscoPlastic.Norton(1e-3, 7, SY),
              IE.Yield.Hill(SY, F=0.3, G=0.6, H=0.5, L=1.2, M=1.8, N=1.5), IE.IsotropicHardening.Swift(500.0, 0.2)))

print("\ncase                          conv(spec) conv(newt)  |f - inv(dp/dt)|  |eps_p - dp N|  tangent err  |sig_s - sig_n|")
for name, rate, surface, hard in cases:
    kw = dict(yieldSurface=surface, hardening=hard, rate=rate)
    fast = IE.Behavior(3, Isotropic(3, E=210000.0, v=0.3), **kw)  # default: spectral
    slow = IE.Behavior(3, Isotropic(3, E=210000.0, v=0.3), solver="newton", **kw)
    sf, Cf, zf, okf = fast.Integrate(fe(eps), dt=DT)
    ss, Cs, zs, oks = slow.Integrate(fe(eps), dt=DT)
    okf, oks = bool(np.all(okf)), bool(np.all(oks))

    epsP = np.asarray(zf)[0, 0, :6]
    p = float(np.asarray(zf)[0, 0, 6])
    R = hard.R(fe(p))
    # (a) consistency, in stress units
    res = float(np.asarray(surface.f(sf, R))[0, 0] - np.asarray(rate.inverse(fe(p / DT)))[0, 0])
    # (b) flow rule
    flow = float(np.linalg.norm(epsP - p * np.asarray(surface.N(sf, R))[0, 0]))
    # (c) tangent against central differences
    h = 1e-6
    Cfd = np.zeros((6, 6))
    for j in range(6):
        d = np.zeros(6)
        d[j] = h
        Cfd[:, j] = (
            np.asarray(fast.Integrate(fe(eps + d), dt=DT)[0])[0, 0]
            - np.asarray(fast.Integrate(fe(eps - d), dt=DT)[0])[0, 0]
        ) / (2 * h)
    terr = float(np.linalg.norm(np.asarray(Cf)[0, 0] - Cfd) / np.linalg.norm(Cfd))
    # (d) agreement
    diff = float(np.linalg.norm(np.asarray(sf) - np.asarray(ss)))

    notes = []
    if okf and abs(res) > 1e-6 * SY:
        notes.append("reported converged but the consistency condition is violated")
    if okf and flow > 1e-9:
        notes.append("flow rule violated")
    if okf and terr > 1e-5:
        notes.append("tangent is not dsigma/deps")
    if okf and oks and diff > 1e-6 * SY:
        notes.append("the two solvers disagree")
    if not okf and oks:
        notes.append("default solver fails where the general one converges")
    print(f"{name}  {okf!s:9}  {oks!s:9}  {abs(res):.3e}         {flow:.3e}       {terr:.3e}    {diff:.3e}"
          + ("   <-- " + "; ".join(notes) if notes else ""))
    bad += [(name, m) for m in notes]

# the same through a simulation-sized batch with elastic, barely-yielding and far-yielding points together
rate = IE.ViscoPlastic.Norton(1e-2, 8, SY)
kw = dict(yieldSurface=IE.Yield.VonMises(SY), hardening=IE.IsotropicHardening.Linear(H), rate=rate)
fast = IE.Behavior(3, Isotropic(3, E=210000.0, v=0.3), **kw)
amps = np.array([0.1, 0.4, 0.45, 0.5, 1.0, 3.0, 10.0, 30.0])
batch = FeArray.asfearray((amps[:, None] * eps[None, :])[None])
sf, _, zf, okf = fast.Integrate(batch, dt=DT)
p = np.asarray(zf)[0, :, 6]
res = np.asarray(IE.Yield.Svm(sf))[0] - SY - H * p - np.asarray(rate.inverse(FeArray.asfearray(p[None] / DT)))[0]
res = np.where(p > 0, res, 0.0)  # an elastic point has nothing to satisfy
print("\nbatch n=8, amplitudes", amps, "\n  converged:", np.asarray(okf)[0], "\n  p:", p, "\n  |f - inv(dp/dt)|:", np.abs(res))
if np.any(np.asarray(okf)[0] & (np.abs(res) > 1e-6 * SY)) or np.any((amps > 0.45) & (p < 1e-12)):
    bad.append(("batch n=8", "converged points violate the consistency condition / yielding points did not flow"))

if bad:
    print(f"\nDEFECT ({len(bad)}):")
    for name, m in bad:
        print("  -", name.strip(), ":", m)
    sys.exit(1)
print("\nOK: the default local solver converges, says the truth about it, and agrees with the general one")
sys.exit(0)
