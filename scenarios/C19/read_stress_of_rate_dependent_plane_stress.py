import EasyFEA; print("EasyFEA from", EasyFEA.__file__)

"""R06: reading the stress of a PLANE-STRESS, RATE-DEPENDENT Behavior.

Behavior.Compute_stress "reads the state; it does not advance it" (docstring), and
Simulations.InElastic.Result("Stress"/"Svm"/"Sxx") goes through it. For a converged step
(sig, z) = Integrate(eps, zOld, dt), the stress read back from (eps, z) must be the stress
that Integrate returned (zero out-of-plane stress included), without numerical warnings, on both
local solvers. exit 0: it is; exit 1 (or an uncaught library exception): it is not.
"""
import sys
import warnings

import numpy as np

from EasyFEA import ElemType, Models, Simulations
from EasyFEA.FEM import FeArray
from EasyFEA.Geoms import Domain, Point
from EasyFEA.Models.Elastic import Isotropic


def Read(fun, *args, **kwargs):
    """fun(*args) -> (value or None, message): a refusal of the plane-stress solve (its own
    AssertionError) or numerical RuntimeWarnings inside the library are failures to read."""
    with warnings.catch_warnings(record=True) as caught:
        warnings.simplefilter("always")
        try:
            value = np.asarray(fun(*args, **kwargs))
        except AssertionError as error:
            return None, f"AssertionError: {error}"
    nWarn = sum(issubclass(w.category, RuntimeWarning) for w in caught)
    return value, (f"{nWarn} RuntimeWarning(s), first: {caught[0].message}" if nWarn else "")


IE = Models.InElastic
E, NU, SIGMA_Y, HARD = 210e3, 0.3, 250.0, 2000.0
RATES = {
    "none": None,  # control: rate-independent
    "Norton": IE.ViscoPlastic.Norton(1e-2, 1.0, SIGMA_Y),
    "Perzyna": IE.ViscoPlastic.Perzyna(50.0, 2.0, SIGMA_Y),
}


def Law(rate, solver):
    return IE.Behavior(
        2, Isotropic(3, E=E, v=NU), yieldSurface=IE.Yield.VonMises(SIGMA_Y),
        hardening=IE.IsotropicHardening.Linear(HARD), rate=rate,
        planeStress=True, solver=solver,
    )  # fmt: skip


bad = []

# ---- 1. material point: two steps, then read the stress back from the new state
eps1 = FeArray.asfearray(np.array([[[3e-3, -5e-4, 3e-4]]]))
eps2 = FeArray.asfearray(np.array([[[4e-3, -1e-3, 5e-4]]]))
for name, rate in RATES.items():
    for solver in ("auto", "newton"):
        law = Law(rate, solver)
        _, _, z1, ok1 = law.Integrate(eps1, None, 1.0)
        sig, _, z2, ok2 = law.Integrate(eps2, z1, 1.0)
        assert ok1.all() and ok2.all() and np.asarray(z2)[0, 0, 6] > 0  # it yielded
        read, msg = Read(law.Compute_stress, eps2, z2)
        err = np.inf if read is None else float(np.max(np.abs(read - np.asarray(sig))))
        print(f"point  rate={name:8s} solver={solver:6s} integrated={np.round(np.asarray(sig)[0, 0], 3)}"
              f"  |read - integrated|={err:.2e}  {msg}")  # fmt: skip
        if msg or not err < 1e-6 * SIGMA_Y:
            bad.append(f"point {name}/{solver}: |read - integrated| = {err:.3e} {msg}")

# ---- 2. simulation: plane-stress Norton bar, hold the displacement, read the results
L, H = 10.0, 4.0
mesh = Domain(Point(0, 0), Point(L, H), H / 2).Mesh_2D([], ElemType.QUAD4, isOrganised=True)
for solver in ("auto", "newton"):
    simu = Simulations.InElastic(mesh, Law(RATES["Norton"], solver))
    simu.dt = 1.0
    nodes0 = mesh.Nodes_Conditions(lambda x, y, z: x == 0)
    nodesL = mesh.Nodes_Conditions(lambda x, y, z: x == L)
    history = []
    for _ in range(4):
        simu.Bc_Init()
        simu.add_dirichlet(nodes0, [0, 0], ["x", "y"])
        simu.add_dirichlet(nodesL, [3 * SIGMA_Y / E * L], ["x"])
        simu.Solve()
        simu.Save_Iter()
        svm, msg = Read(simu.Result, "Svm", nodeValues=False)
        p = np.asarray(simu.Result("p", nodeValues=False))
        history.append(np.nan if svm is None else float(svm.max()))
        print(f"simu   solver={solver:6s} max Svm={history[-1]:9.4f} max p={p.max():.3e}  {msg}")
        if msg or not np.isfinite(svm).all():
            bad.append(f"simu {solver}: Result('Svm') {msg or 'not finite'}")
    # viscoplastic relaxation at held displacement: overstress above yield, decreasing
    if not (history[0] > SIGMA_Y and np.all(np.diff(history) < 0)):
        bad.append(f"simu {solver}: Svm history {history} does not relax")

print()
for b in bad:
    print("VIOLATION:", b)
print("exit", 1 if bad else 0)
sys.exit(1 if bad else 0)
