"""obs1: the spectral return must read the yield stress from the surface, not from its `scale`.

exit 0 = both local solvers agree and the flowing point sits on the surface; exit 1 = defect.
"""
import sys
import warnings

import numpy as np

warnings.filterwarnings("ignore")
import EasyFEA
from EasyFEA import Models
from EasyFEA.FEM import FeArray
from EasyFEA.Models.Elastic._laws import Isotropic

print("EasyFEA from", EasyFEA.__file__)
I = Models.InElastic
E, nu, sy, H = 210000.0, 0.3, 250.0, 2000.0
vm = I.Yield.VonMises(sy)
hill = I.Yield.Hill(sy, F=0.3, G=0.6, H=0.5, L=1.2, M=1.7, N=1.4)
eps = FeArray.asfearray(np.array([3e-3, -5e-4, -5e-4, 1e-4, -2e-4, 3e-4])[None, None])

bad = 0
for name, ref in [("VonMises(250)", vm), ("Hill(250, ...)", hill)]:
    # the same surface (same f, N, dNdSig, P), another "representative stress" for the tolerance
    for scale in [sy, 100.0, 1000.0]:
        surf = I.YieldSurface(ref.f, ref.N, scale, ref.dNdSig, ref.P)
        out = {}
        for solver in ["auto", "newton"]:
            law = I.Behavior(3, Isotropic(3, E=E, v=nu), yieldSurface=surf,
                             hardening=I.IsotropicHardening.Linear(H), solver=solver)
            sig, C, z, ok = law.Integrate(eps)
            p = float(np.asarray(z)[0, 0, 6])
            f = float(np.asarray(surf.f(sig, FeArray.asfearray(np.array([[H * p]])))).ravel()[0])
            out[solver] = (np.asarray(sig)[0, 0], p, f, bool(np.all(ok)))
            print(f"{name:15s} scale={scale:6.0f} solver={solver:7s} converged={out[solver][3]} "
                  f"p={p:.6e} f(returned)={f:+.4e}")
        dsig = np.max(np.abs(out["auto"][0] - out["newton"][0]))
        print(f"{'':15s} max |sig_spectral - sig_newton| = {dsig:.3e}")
        if dsig > 1e-6 * sy or abs(out["auto"][2]) > 1e-6 * sy or not out["auto"][3]:
            bad += 1

if bad:
    print(f"DEFECT: {bad} surface(s) integrated to a different stress by the spectral solver")
    sys.exit(1)
print("OK: the spectral and the Newton solver agree whatever the tolerance scale")
sys.exit(0)
