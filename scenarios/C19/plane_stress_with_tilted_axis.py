"""obs2: plane stress must leave no out-of-plane stress (sig_zz = sig_yz = sig_xz = 0).

exit 0 = behaves correctly; exit 1 = defect.
"""
import sys
import warnings

import numpy as np

warnings.filterwarnings("ignore")
import EasyFEA
from EasyFEA import Models
from EasyFEA.FEM import FeArray
from EasyFEA.Models.Elastic._laws import TransverselyIsotropic

print("EasyFEA from", EasyFEA.__file__)
I = Models.InElastic
E = 210000.0
bad = 0
e2 = np.array([1e-3, 5e-4, 2e-4])
eps = FeArray.asfearray(e2[None, None])

for axis in [(1, 0, 0), (1, 0, 1)]:
    ax1 = np.array(axis, float) / np.linalg.norm(axis)
    kw = dict(El=E, Et=E / 2, Gl=E / 3, vl=0.3, vt=0.2, axis_l=ax1, axis_t=np.array([0, 1, 0.0]))
    el3 = TransverselyIsotropic(3, **kw)
    el2 = TransverselyIsotropic(2, planeStress=True, **kw)
    print(f"--- axis_l = {axis}")

    # (a) no internal variables: must be Models.Elastic's own plane-stress law
    law = I.Behavior(2, el3, planeStress=True)
    sig, C, z, ok = law.Integrate(eps)
    e6 = law.Compute_strain_6d(eps, z)
    s6 = np.asarray(law.Compute_sigma(e6, z))[0, 0]
    sig, C = np.asarray(sig)[0, 0], np.asarray(C)[0, 0]
    print("elastic  Behavior  sigma2d", sig)
    print("elastic  Elastic2D sigma2d", el2.C @ e2)
    print("elastic  sig6 [xx yy zz yz xz xy]", np.round(s6, 4))
    errS = np.max(np.abs(sig - el2.C @ e2)) / np.max(np.abs(sig))
    errC = np.max(np.abs(C - el2.C)) / np.max(np.abs(el2.C))
    out = np.max(np.abs(s6[[2, 3, 4]]))
    print(f"elastic  rel. stress diff = {errS:.2e}, rel. tangent diff = {errC:.2e}, max out-of-plane |sig| = {out:.3e}")
    if errS > 1e-8 or errC > 1e-8 or out > 1e-5:
        bad += 1

    # (b) flowing (Newton and spectral): no out-of-plane stress, tangent = d sigma / d eps
    for solver in ["auto", "newton"]:
        law = I.Behavior(2, el3, yieldSurface=I.Yield.VonMises(100.0),
                         hardening=I.IsotropicHardening.Linear(2000.0), planeStress=True, solver=solver)
        big = 3.0 * e2
        sig, C, z, ok = law.Integrate(FeArray.asfearray(big[None, None]))
        e6 = law.Compute_strain_6d(FeArray.asfearray(big[None, None]))
        s6 = np.asarray(law.Compute_sigma(e6, z))[0, 0]
        out = np.max(np.abs(s6[[2, 3, 4]]))
        h = 1e-7
        Cfd = np.zeros((3, 3))
        for j in range(3):
            d = np.zeros(3); d[j] = h
            sp = np.asarray(law.Integrate(FeArray.asfearray((big + d)[None, None]))[0])[0, 0]
            sm = np.asarray(law.Integrate(FeArray.asfearray((big - d)[None, None]))[0])[0, 0]
            Cfd[:, j] = (sp - sm) / (2 * h)
        errT = np.max(np.abs(np.asarray(C)[0, 0] - Cfd)) / np.max(np.abs(Cfd))
        p = float(np.asarray(z)[0, 0, 6])
        print(f"plastic  solver={solver:7s} converged={bool(np.all(ok))} p={p:.4e} "
              f"max out-of-plane |sig| = {out:.3e}, rel. tangent vs finite differences = {errT:.2e}")
        if out > 1e-5 or errT > 1e-5 or not np.all(ok):
            bad += 1

if bad:
    print(f"DEFECT: {bad} plane-stress case(s) leave out-of-plane stress / differ from the plane-stress law")
    sys.exit(1)
print("OK: plane stress leaves no out-of-plane stress and matches Models.Elastic's plane-stress law")
sys.exit(0)
