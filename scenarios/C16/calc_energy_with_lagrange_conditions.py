import EasyFEA; print("EasyFEA from", EasyFEA.__file__)
# R05: the deformation energy 1/2 u'Ku through _Simu.Calc_Energy(K, u), used as documented
# (docs/howto/use_mpi.md: `K, _, M, _ = simu.Get_K_C_M_F(); simu.Calc_Energy(K, u)`), on a
# two-member beam frame whose members are joined by a connection (Lagrange conditions).
import sys
import numpy as np
from EasyFEA import Mesher, Models, Simulations
from EasyFEA.Geoms import Point, Line, Domain

L, b, h, E, v, F = 10.0, 0.5, 0.5, 210e9, 0.3, 1000.0


def frame(connection: str):
    """L-frame clamped at (0,0), joint at (L,0). fixed: load F along x at the tip (L,L);
    hinged: tip pinned, load F along x at the middle (L,L/2) of member 2."""
    mesher = Mesher()
    section = mesher.Mesh_2D(Domain(Point(), Point(b, h)))
    line1 = Line(Point(0, 0), Point(L, 0), L / 10)
    line2 = Line(Point(L, 0), Point(L, L), L / 10)
    beam1 = Models.Beam.Isotropic(2, line1, section, E, v)
    beam2 = Models.Beam.Isotropic(2, line2, section, E, v)
    mesh = mesher.Mesh_Beams([beam1, beam2], elemType="SEG3")
    simu = Simulations.Beam(
        mesh, Models.Beam.BeamStructure([beam1, beam2]), verbosity=False
    )
    clamp = mesh.Nodes_Point(Point(0, 0))
    corner = mesh.Nodes_Point(Point(L, 0))
    tip = mesh.Nodes_Point(Point(L, L))
    simu.add_dirichlet(clamp, [0, 0, 0], ["x", "y", "rz"])
    if connection == "fixed":
        simu.add_connection_fixed(corner)
    elif connection == "hinged":
        simu.add_connection_hinged(corner)
        # the hinge leaves member 2 free to rotate: pin its tip so it is not a mechanism
        simu.add_dirichlet(tip, [0, 0], ["x", "y"])
        tip = mesh.Nodes_Point(Point(L, L / 2))
    simu.add_neumann(tip, [F], ["x"])
    simu.Solve()
    return simu, tip


bad = 0
for connection in ["fixed", "hinged"]:
    simu, tip = frame(connection)
    u = simu.displacement
    n = u.size
    K, _, M, _ = simu.Get_K_C_M_F()
    print(f"\n[{connection}] Lagrange conditions: {len(simu.Bc_Lagrange)}, "
          f"K {K.shape}, M {M.shape}, u {u.shape}")

    # every named energy result the Beam simulation offers
    named = [r for r in simu.Results_Available() if r.startswith(("W", "Psi"))]
    print("  named energy results:", named, " Results_dict_Energy():", simu.Results_dict_Energy())
    for r in named:
        print("   ", r, "=", simu.Result(r))

    # references: 1/2 u'Ku on the rows and columns of the solution, and the work of the only load
    # (Clapeyron: homogeneous Dirichlet conditions, so 1/2 u'Ku = 1/2 F ux(load))
    ref = 0.5 * u @ (K[:n, :n] @ u)
    work = 0.5 * F * simu.Result("ux")[tip][0]
    refM = 0.5 * u @ (M[:n, :n] @ u)
    print(f"  1/2 u'K[:n,:n]u = {ref:.12e}   1/2 F ux(load) = {work:.12e}")

    # an uncaught exception here is the reported defect (exit code 1)
    W = simu.Calc_Energy(K, u)
    WM = simu.Calc_Energy(M, u)
    errs = [abs(W - ref) / abs(ref), abs(W - work) / abs(work), abs(WM - refM) / abs(refM)]
    print(f"  Calc_Energy(K, u) = {W:.12e}   Calc_Energy(M, u) = {WM:.12e}")
    print("  relative errors (vs u'Ku, vs load work, M form):", ["%.2e" % e for e in errs])
    if max(errs) > 1e-8:
        bad += 1

print("\nRESULT:", "defect" if bad else "consistent")
sys.exit(1 if bad else 0)
