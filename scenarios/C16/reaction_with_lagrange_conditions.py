"""Observation 3 - Calc_Reaction
  (a) with Lagrange conditions (welded L-frame, Beam.add_connection_fixed): the reactions at the clamp must
      balance the applied load (fx = -F, fy = 0, cz = F * L) and agree with Result("fx" / "fy" / "cz");
  (b) a dof listed twice in `dofs` (reported, informative only: the documented return is one value per entry
      of `dofs`, shape (len(dofs),), so this part does not count in the exit code).

exit 0 = behaves correctly, exit 1 = defect shown.  Public API + numpy only.
"""

import sys

import numpy as np

import EasyFEA
from EasyFEA import ElemType, Mesher, Models, Simulations
from EasyFEA.Geoms import Domain, Line, Point

print("EasyFEA imported from", EasyFEA.__file__)

bad = []


def check(label, ok, detail=""):
    print(f"  [{'ok' if ok else 'WRONG'}] {label} {detail}")
    if not ok:
        bad.append(label)


# ---------------------------------------------------------------------------------------------
print("(a) welded L-frame (Lagrange conditions), clamped at (0, 0), F along x at (L, L)")
L, b, h, E, v, F = 10.0, 0.5, 0.5, 210e9, 0.3, 1000.0
mesher = Mesher()
section = mesher.Mesh_2D(Domain(Point(-b / 2, -h / 2), Point(b / 2, h / 2)))
beam1 = Models.Beam.Isotropic(2, Line(Point(0, 0), Point(L, 0), L / 4), section, E, v)
beam2 = Models.Beam.Isotropic(2, Line(Point(L, 0), Point(L, L), L / 4), section, E, v, yAxis=(-1, 0, 0))
mesh = mesher.Mesh_Beams([beam1, beam2], elemType=ElemType.SEG2)
simu = Simulations.Beam(mesh, Models.Beam.BeamStructure([beam1, beam2]), verbosity=False)
clamp = mesh.Nodes_Point(Point(0, 0))
simu.add_dirichlet(clamp, [0, 0, 0], ["x", "y", "rz"])
simu.add_connection_fixed(mesh.Nodes_Point(Point(L, 0)))
simu.add_neumann(mesh.Nodes_Point(Point(L, L)), [F], ["x"])
simu.Solve()
K = simu.Get_K_C_M_F()[0]
print(f"  K is {K.shape}, the displacement has {simu.displacement.size} entries")
ref = np.array([simu.Result("fx")[clamp][0], simu.Result("fy")[clamp][0], simu.Result("cz")[clamp][0]])
print("  Result('fx'/'fy'/'cz') at the clamp :", ref, " expected", [-F, 0.0, F * L])
try:
    reac = simu.Calc_Reaction(simu.Bc_dofs_nodes(clamp, ["x", "y", "rz"]))
    print("  Calc_Reaction(clamp dofs)          :", reac)
    check("Calc_Reaction balances the load", np.allclose(reac, [-F, 0.0, F * L], rtol=1e-6, atol=1e-5))
    check("Calc_Reaction agrees with Result('fx'/'fy'/'cz')", np.allclose(reac, ref, rtol=1e-9, atol=1e-6))
    full = simu.Calc_Reaction()
    check("Calc_Reaction() has one value per dof of the problem", full.shape == (simu.displacement.size,), f"shape {full.shape}")
except Exception as err:  # noqa
    check("Calc_Reaction with Lagrange conditions", False, f"raised {type(err).__name__}: {err}")

# same structure in dynamics (M and C carry the Lagrange rows too)
simu.Solver_Set_Hyperbolic_Algorithm(dt=1e-3)
simu.Solve()
try:
    reac = simu.Calc_Reaction(simu.Bc_dofs_nodes(clamp, ["x", "y", "rz"]))
    print("  Newmark step, Calc_Reaction(clamp dofs):", reac)
    check("Calc_Reaction works with Lagrange conditions and a hyperbolic algo", reac.shape == (3,))
except Exception as err:  # noqa
    check("Calc_Reaction with Lagrange conditions and a hyperbolic algo", False, f"raised {type(err).__name__}: {err}")

# without Lagrange conditions nothing changes: cantilever
beam = Models.Beam.Isotropic(2, Line(Point(0, 0), Point(L, 0), L / 4), section, E, v)
mesh = mesher.Mesh_Beams([beam], elemType=ElemType.SEG2)
simu = Simulations.Beam(mesh, Models.Beam.BeamStructure([beam]), verbosity=False)
clamp = mesh.Nodes_Point(Point(0, 0))
simu.add_dirichlet(clamp, [0, 0, 0], ["x", "y", "rz"])
simu.add_neumann(mesh.Nodes_Point(Point(L, 0)), [F, F], ["x", "y"])
simu.Solve()
reac = simu.Calc_Reaction(simu.Bc_dofs_nodes(clamp, ["x", "y", "rz"]))
print("  cantilever (no Lagrange) Calc_Reaction:", reac)
check("cantilever reactions", np.allclose(reac, [-F, -F, -F * L], rtol=1e-6))

# ---------------------------------------------------------------------------------------------
print("(b) [informative] a dof listed twice in `dofs`")
mesh = Mesher().Mesh_2D(Domain(Point(0, 0), Point(1, 1), 0.25), [], ElemType.QUAD4, isOrganised=True)
simu = Simulations.Elastic(mesh, Models.Elastic.Isotropic(2, thickness=1.0), verbosity=False)
left = mesh.Nodes_Conditions(lambda x, y, z: x == 0)
bottom = mesh.Nodes_Conditions(lambda x, y, z: y == 0)
simu.add_dirichlet(left, [0, 0], ["x", "y"])
simu.add_dirichlet(bottom, [0, 0], ["x", "y"])
simu.add_neumann(mesh.Nodes_Point(Point(1, 1)), [-100.0], ["y"])
simu.Solve()
dofsY = simu.Bc_dofs_nodes(np.concatenate([left, bottom]), ["y"])  # the corner node appears twice
r_dup = simu.Calc_Reaction(dofsY)
r_unq = simu.Calc_Reaction(np.unique(dofsY))
print(f"  len(dofs) = {len(dofsY)} ({len(np.unique(dofsY))} distinct); returned shape {r_dup.shape} (documented: (len(dofs),))")
print(f"  applied -100 ; sum with the corner twice = {r_dup.sum():.6f} ; sum over distinct dofs = {r_unq.sum():.6f}")
print("  value returned for each entry equals K[dof] @ u :",
      np.allclose(r_dup, (simu.Get_K_C_M_F()[0] @ simu.displacement)[dofsY]))
check("reactions over the distinct constrained dofs balance the load", np.isclose(r_unq.sum(), 100.0))

if bad:
    print(f"\nDEFECT: {len(bad)} check(s) wrong")
    sys.exit(1)
print("\nall checks ok")
sys.exit(0)
