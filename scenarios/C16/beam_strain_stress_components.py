"""Observation 2 - Beam: the strain / stress named results against the strain and stress vectors.

A cantilever of length L, clamped at x = 0, loaded at x = L with a force (and moments in 3D):
  ux' must be N / (E A), rz' = Mz / (E Iz), ry' = My / (E Iy), rx' = Mx / (mu J)
  (generalised strains [ux', rx', ry', rz'] conjugate to the internal forces [N, Mx, My, Mz], see
  Beam._Calc_Epsilon_e_pg / _Calc_InternalForces_e_pg), every advertised name returns an array,
  and Sxx ... are the columns of the stress vector (Sxx = N / A for a bar).

exit 0 = behaves correctly, exit 1 = defect shown.  Public API + numpy only.
"""

import sys

import numpy as np

import EasyFEA
from EasyFEA import ElemType, Mesher, Models, Simulations
from EasyFEA.Geoms import Domain, Line, Point

print("EasyFEA imported from", EasyFEA.__file__)

bad = []


def check(label, ok, detail=""):
    print(f"    [{'ok' if ok else 'WRONG'}] {label} {detail}")
    if not ok:
        bad.append(label)


def result(simu, name, nodeValues=False):
    try:
        return simu.Result(name, nodeValues=nodeValues)
    except Exception as err:  # noqa
        return err


L, E, v, F = 2.0, 210e3, 0.3, 1000.0
b, h = 0.1, 0.2
section = Mesher().Mesh_2D(Domain(Point(-b / 2, -h / 2), Point(b / 2, h / 2)))

for dim in (1, 2, 3):
    for timo in (False, True):
        for elemType in (ElemType.SEG2, ElemType.SEG3):
            beam = Models.Beam.Isotropic(dim, Line(Point(), Point(L, 0, 0), L / 4), section, E, v)
            mesh = Mesher().Mesh_Beams([beam], elemType)
            simu = Simulations.Beam(mesh, Models.Beam.BeamStructure([beam]), useTimoshenko=timo, verbosity=False)
            unknowns = simu.Get_unknowns()
            simu.add_dirichlet(mesh.Nodes_Point(Point()), [0] * len(unknowns), unknowns)
            # end load: forces F, F/2, F/4 and, in 3D, moments about x, y and z
            load = {"x": F, "y": F / 2, "z": F / 4, "rx": 30.0, "ry": 20.0, "rz": 10.0}
            simu.add_neumann(mesh.Nodes_Point(Point(L, 0, 0)), [load[u] for u in unknowns], unknowns)
            simu.Solve()
            A, Iy, Iz, J, mu = beam.area, beam.Iy, beam.Iz, beam.J, beam.mu
            print(f"dim={dim} {'Timoshenko' if timo else 'Euler-Bernoulli'} {elemType}  (Ne={mesh.Ne}, Nn={mesh.Nn})")

            avail = simu.Results_Available()

            # every advertised result returns something in both forms
            for name in avail:
                for nv in (True, False):
                    val = result(simu, name, nv)
                    if not isinstance(val, (np.ndarray, float)):
                        check(f"Result('{name}', nodeValues={nv}) returns an array", False, f"-> {val!r}")

            # generalised strains against the internal forces
            pairs = [("ux'", "N", E * A)]
            if dim >= 2:
                pairs.append(("rz'", "Mz", E * Iz))
            if dim == 3:
                pairs.extend([("rx'", "Mx", mu * J), ("ry'", "My", E * Iy)])
            for strain, force, stiff in pairs:
                eps = result(simu, strain)
                ref = result(simu, force) / stiff
                if isinstance(eps, Exception):
                    check(f"{strain} = {force} / stiffness", False, f"raised {type(eps).__name__}: {eps}")
                else:
                    check(f"{strain} = {force} / stiffness", np.allclose(eps, ref, rtol=1e-9, atol=1e-14),
                          f"{strain}[0] = {eps[0]:.6e}, {force}[0]/stiffness = {ref[0]:.6e}")

            # stress components against the stress vector
            S = result(simu, "Stress")
            layout = {1: ["Sxx"], 2: ["Sxx", "Syy", "Sxy"], 3: ["Sxx", "Syy", "Szz", "Syz", "Sxz", "Sxy"]}[dim]
            for name in [n for n in layout if n in avail]:
                comp = result(simu, name)
                if isinstance(comp, Exception):
                    check(f"{name} is a column of Stress", False, f"raised {type(comp).__name__}: {comp}")
                elif not isinstance(S, np.ndarray):
                    check(f"{name} is a column of Stress", False, f"Result('Stress') -> {S!r}")
                else:
                    check(f"{name} is a column of Stress", np.allclose(comp, S[:, layout.index(name)]))
            if dim == 1:
                sxx = result(simu, "Sxx")
                if isinstance(sxx, np.ndarray):
                    check("Sxx = F / A for the bar", np.allclose(sxx, F / A), f"Sxx[0] = {sxx[0]:.6e}, F/A = {F / A:.6e}")

            # strain components against the strain vector
            strainName = "Strain" if "Strain" in avail else "Srain"
            Eps = result(simu, strainName)
            names = {1: ["ux'"], 2: ["ux'", "rz'"], 3: ["ux'", "rx'", "ry'", "rz'"]}[dim]
            if not isinstance(Eps, np.ndarray):
                check(f"Result('{strainName}') returns the strain vector", False, f"-> {Eps!r}")
            else:
                for i, name in enumerate(names):
                    comp = result(simu, name)
                    check(f"{name} is column {i} of {strainName}",
                          isinstance(comp, np.ndarray) and np.allclose(comp, Eps[:, i]))

if bad:
    print(f"\nDEFECT: {len(bad)} check(s) wrong")
    sys.exit(1)
print("\nall checks ok")
sys.exit(0)
