"""Observation 1 - Result(name, nodeValues) must return nodal values of size Nn or element values of
size Ne whatever the sizes of the mesh (Results_Reshape_values guessed the location from the size).

exit 0 = behaves correctly, exit 1 = defect shown.  Public API + numpy only.
"""

import sys

import numpy as np

import EasyFEA
from EasyFEA import ElemType, Mesher, Models, Simulations
from EasyFEA.Geoms import Domain, Point

print("EasyFEA imported from", EasyFEA.__file__)

bad = []


def check(label, ok, detail=""):
    print(f"  [{'ok' if ok else 'WRONG'}] {label} {detail}")
    if not ok:
        bad.append(label)


def simu_ux_equals_x(Lx, Ly, elemType, thickness=1.0):
    """ux = x and uy = 0 imposed on every node: uniform stress, linear ux."""
    mesh = Mesher().Mesh_2D(
        Domain(Point(0, 0), Point(Lx, Ly), 1.0), [], elemType, isOrganised=True
    )
    mat = Models.Elastic.Isotropic(2, E=1.0, v=0.3, thickness=thickness)
    simu = Simulations.Elastic(mesh, mat, verbosity=False)
    simu.add_dirichlet(mesh.nodes, [lambda x, y, z: x, 0], ["x", "y"])
    simu.Solve()
    return mesh, simu


def elem_means(mesh, values_n):
    return np.concatenate(
        [values_n[g.connect].mean(1) for g in mesh.Get_list_groupElem(mesh.dim)]
    )


# (a) Nn = 6, Ne = 2 : Nn is a multiple of Ne
mesh, simu = simu_ux_equals_x(2, 1, ElemType.QUAD4)
print(f"(a) QUAD4 Nn={mesh.Nn} Ne={mesh.Ne}")
ux_e = simu.Result("ux", nodeValues=False)
print("    Result('ux', nodeValues=False) =", ux_e)
check("ux element form is the 2 element means [0.5, 1.5]",
      ux_e.shape == (mesh.Ne,) and np.allclose(ux_e, elem_means(mesh, mesh.coord[:, 0])))
u_e = simu.Result("displacement", nodeValues=False)
check("displacement element form has Ne*dim entries", u_e.size == mesh.Ne * 2, f"size {u_e.size}")

# (b) a single element: every size is a multiple of Ne = 1
mesh, simu = simu_ux_equals_x(1, 1, ElemType.QUAD4)
print(f"(b) QUAD4 Nn={mesh.Nn} Ne={mesh.Ne}")
ux_e = simu.Result("ux", nodeValues=False)
print("    Result('ux', nodeValues=False) =", ux_e)
check("ux element form is the mean 0.5 of shape (1,)", ux_e.shape == (1,) and np.allclose(ux_e, 0.5))

# (c) 2 x 3 TRI3 grid : Ne = Nn = 12, non uniform stress
mesh = Mesher().Mesh_2D(Domain(Point(0, 0), Point(2, 3), 1.0), [], ElemType.TRI3, isOrganised=True)
simu = Simulations.Elastic(mesh, Models.Elastic.Isotropic(2, thickness=1.0), verbosity=False)
simu.add_dirichlet(mesh.Nodes_Conditions(lambda x, y, z: x == 0), [0, 0], ["x", "y"])
simu.add_dirichlet(mesh.Nodes_Conditions(lambda x, y, z: x == 2), [0.1, 0.05], ["x", "y"])
simu.Solve()
print(f"(c) TRI3 Nn={mesh.Nn} Ne={mesh.Ne}")
svm_e = simu.Result("Svm", nodeValues=False)
svm_n = simu.Result("Svm", nodeValues=True)
ref_n = mesh.Get_Node_Values(svm_e)
print("    max|Svm_n - Get_Node_Values(Svm_e)| =", np.abs(svm_n - ref_n).max(),
      " max|Svm_n - Svm_e| =", np.abs(svm_n - svm_e).max())
check("Svm nodal form is Get_Node_Values of the element form", np.allclose(svm_n, ref_n))
ux_n = simu.Result("ux", nodeValues=True)
ux_e = simu.Result("ux", nodeValues=False)
check("ux element form is the mean over each element's nodes", np.allclose(ux_e, elem_means(mesh, ux_n)))

# (d) TRI3 Nn = 6, Ne = 4 : 3 * Ne is a multiple of Nn, uniform stress
mesh, simu = simu_ux_equals_x(2, 1, ElemType.TRI3)
print(f"(d) TRI3 Nn={mesh.Nn} Ne={mesh.Ne}")
S_e = simu.Result("Stress", nodeValues=False)
S_n = simu.Result("Stress", nodeValues=True)
print("    Stress element form", S_e.shape, "every row", S_e[0])
print("    Stress nodal form  ", S_n.shape, "\n", S_n)
check("uniform Stress keeps its value on the nodes, shape (Nn, 3)",
      S_n.shape == (mesh.Nn, 3) and np.allclose(S_n, S_e[0]))

# (e) ordinary mesh where the sizes are not ambiguous: unchanged behaviour
mesh, simu = simu_ux_equals_x(5, 3, ElemType.TRI3)
print(f"(e) TRI3 Nn={mesh.Nn} Ne={mesh.Ne} (sizes not ambiguous)")
check("ux element form", np.allclose(simu.Result("ux", False), elem_means(mesh, mesh.coord[:, 0])))
check("Svm nodal form", simu.Result("Svm", True).shape == (mesh.Nn,))
check("Stress nodal form", simu.Result("Stress", True).shape == (mesh.Nn, 3))

if bad:
    print(f"\nDEFECT: {len(bad)} check(s) wrong")
    sys.exit(1)
print("\nall checks ok")
sys.exit(0)
