"""Obs 3: BiLinearForm / LinearForm.Integrate_e allocate dtype=float, so that a complex-valued form loses
its imaginary part (numpy only emits a ComplexWarning), in Integrate_e, Assemble and Simulations.WeakForms
(whose assembly has a dedicated complex branch that is never reached).

exit 0 = behaves correctly, exit 1 = defect shown.
"""

import sys
import warnings
import numpy as np
import EasyFEA
from EasyFEA import ElemType, Models, Simulations
from EasyFEA.FEM import Field, BiLinearForm, LinearForm
from EasyFEA.Geoms import Domain

print("EasyFEA imported from", EasyFEA.__file__)
bad = []


def check(name, err, tol=1e-12):
    ok = err < tol
    print(f"  [{'ok  ' if ok else 'FAIL'}] {name:66s} err = {err:.3e}")
    if not ok:
        bad.append(name)


mesh = Domain((0, 0), (1, 1), 0.25).Mesh_2D([], ElemType.TRI6, isOrganised=True)
g = mesh.groupElem

for dof_n in (1, 2):
    print(f"dof_n = {dof_n}")
    field = Field(g, dof_n)
    if dof_n == 1:
        re_K = BiLinearForm(lambda u, v: u.grad.dot(v.grad))
        im_K = BiLinearForm(lambda u, v: 2 * u.dot(v))
        cx_K = BiLinearForm(lambda u, v: u.grad.dot(v.grad) + 2j * u.dot(v))
        re_F = LinearForm(lambda v: 3.0 * v)
        im_F = LinearForm(lambda v: -0.5 * v)
        cx_F = LinearForm(lambda v: (3.0 - 0.5j) * v)
    else:
        re_K = BiLinearForm(lambda u, v: u.grad.ddot(v.grad))
        im_K = BiLinearForm(lambda u, v: 2 * u.dot(v))
        cx_K = BiLinearForm(lambda u, v: u.grad.ddot(v.grad) + 2j * u.dot(v))
        re_F = LinearForm(lambda v: 3.0 * v.dot(np.array([1.0, 0.0])).reshape(-1, v().shape[1], 1))
        im_F = LinearForm(lambda v: -0.5 * v.dot(np.array([1.0, 0.0])).reshape(-1, v().shape[1], 1))
        cx_F = LinearForm(lambda v: (3.0 - 0.5j) * v.dot(np.array([1.0, 0.0])).reshape(-1, v().shape[1], 1))

    with warnings.catch_warnings(record=True) as w:
        warnings.simplefilter("always")
        K_e = cx_K.Integrate_e(field)
        F_e = cx_F.Integrate_e(field)
        K = cx_K.Assemble(field).toarray()
        F = cx_F.Assemble(field).toarray()
        simu = Simulations.WeakForms(mesh, Models.WeakForms(field, cx_K, computeM=cx_K, computeF=cx_F))
        Ks, _, Ms, Fs = simu.Get_K_C_M_F()
        Ks, Ms, Fs = Ks.toarray(), Ms.toarray(), Fs.toarray()
    print("  warnings:", sorted({f"{x.category.__name__}: {x.message}" for x in w}))

    refK_e = re_K.Integrate_e(field) + 1j * im_K.Integrate_e(field)
    refF_e = re_F.Integrate_e(field) + 1j * im_F.Integrate_e(field)
    refK = re_K.Assemble(field).toarray() + 1j * im_K.Assemble(field).toarray()
    refF = re_F.Assemble(field).toarray() + 1j * im_F.Assemble(field).toarray()
    print("  max|Im K_e ref| =", np.abs(refK_e.imag).max(), "  max|Im F_e ref| =", np.abs(refF_e.imag).max())
    check(f"BiLinearForm.Integrate_e (dtype {K_e.dtype})", np.abs(K_e - refK_e).max())
    check(f"LinearForm.Integrate_e   (dtype {F_e.dtype})", np.abs(F_e - refF_e).max())
    check(f"BiLinearForm.Assemble    (dtype {K.dtype})", np.abs(K - refK).max())
    check(f"LinearForm.Assemble      (dtype {F.dtype})", np.abs(F - refF).max())
    check(f"Simulations.WeakForms K  (dtype {Ks.dtype})", np.abs(Ks - refK).max())
    check(f"Simulations.WeakForms M  (dtype {Ms.dtype})", np.abs(Ms - refK).max())
    check(f"Simulations.WeakForms F  (dtype {Fs.dtype})", np.abs(Fs - refF).max())

    # control: real forms stay real (float64) and unchanged
    check(f"control: real form stays float ({re_K.Integrate_e(field).dtype}, {re_F.Integrate_e(field).dtype})",
          float(re_K.Integrate_e(field).dtype != np.float64 or re_F.Integrate_e(field).dtype != np.float64))

print("DEFECT SHOWN in %d checks" % len(bad) if bad else "behaves correctly")
sys.exit(1 if bad else 0)
