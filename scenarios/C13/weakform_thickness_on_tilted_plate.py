import numpy as np, sys, contextlib, io
from EasyFEA import ElemType, Models, Simulations, Mesh
from EasyFEA.FEM import Field, BiLinearForm
from EasyFEA.Geoms import Domain
def run(rotate):
    with contextlib.redirect_stdout(io.StringIO()):
        mesh = Domain((0, 0), (1, 1), 1 / 3).Mesh_2D([], ElemType.TRI3)
        if rotate:
            mesh.Rotate(30, (0, 0, 0), (1, 0, 0)); mesh = Mesh(mesh.dict_groupElem)
        th = Simulations.Thermal(mesh, Models.Thermal(k=1.0, thickness=2.0), verbosity=False)
        form = BiLinearForm(lambda u, v: u.grad.dot(v.grad))
        wf = Simulations.WeakForms(mesh, Models.WeakForms(Field(mesh.groupElem, 1), form, thickness=2.0), verbosity=False)
        Kt = th.Get_K_C_M_F()[0].toarray(); Kw = wf.Get_K_C_M_F()[0].toarray()
    return np.abs(Kw-Kt).max()/np.abs(Kt).max(), mesh.dim, mesh.inDim
bad=0
for r in (False, True):
    e,d,i=run(r); print(f"tilted={r}: mesh.dim={d} inDim={i}  |K_weakform - K_thermal| / |K_thermal| = {e:.3g}"); bad+= e>1e-12
sys.exit(1 if bad else 0)
