"""Obs 4: Field.Evaluate_e is not exception-safe.

`Evaluate_e` switches the field to 'evaluated' mode (field.grad = gradient of the stored dofs values),
calls the user's function, checks the result and only then switches back. When the user's function
raises - or returns a plain ndarray, which trips the `assert isinstance(values_e_pg, FeArray)` - the
field stays in 'evaluated' mode: the matrices integrated afterwards with this field are silently wrong.

exit 0 = behaves correctly, exit 1 = defect shown.
"""

import sys
import numpy as np
import EasyFEA
from EasyFEA import ElemType, Models, Simulations, SolverType
from EasyFEA.FEM import Field, BiLinearForm, Sym_Grad
from EasyFEA.Geoms import Domain

print("EasyFEA imported from", EasyFEA.__file__)
bad = []


def check(name, err, tol=1e-12):
    ok = err < tol
    print(f"  [{'ok  ' if ok else 'FAIL'}] {name:70s} err = {err:.3e}")
    if not ok:
        bad.append(name)


mesh = Domain((0, 0), (1, 1), 0.25).Mesh_2D([], ElemType.TRI6, isOrganised=True)
g = mesh.groupElem
rng = np.random.default_rng(0)
vals = rng.random(g.Ncoords * 2)

form = BiLinearForm(lambda u, v: Sym_Grad(u).ddot(Sym_Grad(v)))


def user_error(u):
    raise ZeroDivisionError("bug in the user's post-processing function")


def returns_ndarray(u):
    return np.asarray(u.grad)  # not a FeArray -> AssertionError("must be a FeArray")


for name, function, exc in [
    ("the function raises", user_error, ZeroDivisionError),
    ("the function returns a plain ndarray", returns_ndarray, AssertionError),
]:
    print(name)
    field = Field(g, 2)
    before = form.Integrate_e(field)
    grad_before = np.asarray(field.grad).copy()
    try:
        field.Evaluate_e(function, vals)
        print("  no exception ?")
        bad.append(name + ": no exception")
    except exc as e:
        print(f"  Evaluate_e raised {type(e).__name__}: {e}")
    # the same field is used again (e.g. the next Newton iteration / time step assembles K)
    try:
        after = form.Integrate_e(field)
        print("  max|K_e| =", np.abs(before).max())
        check("Integrate_e after the failed Evaluate_e == before", np.abs(after - before).max())
    except Exception as e:  # noqa
        print(f"  [FAIL] Integrate_e now raises {type(e).__name__}: {e}")
        bad.append(name + ": Integrate_e raises")
    check("field.grad is the active shape function's gradient again", np.abs(np.asarray(field.grad) - grad_before).max())

# the simulation that owns the field is corrupted as well
print("Simulations.WeakForms after a failed post-processing call")
field = Field(g, 2)
simu = Simulations.WeakForms(mesh, Models.WeakForms(field, form))
simu.solver = SolverType.scipy
simu.add_dirichlet(mesh.Nodes_Conditions(lambda x, y, z: x == 0), [0, 0], ["x", "y"])
simu.add_dirichlet(mesh.Nodes_Conditions(lambda x, y, z: x == 1), [0.1], ["x"])
u1 = simu.Solve().copy()
try:
    field.Evaluate_e(user_error, simu.u)
except ZeroDivisionError:
    pass
simu.Need_Update()
u2 = simu.Solve().copy()
check("same problem solved again gives the same solution", np.abs(u2 - u1).max(), 1e-10)

# control: a successful evaluation is unchanged and leaves the field in assembly mode
print("control")
field = Field(g, 2)
before = form.Integrate_e(field)
G = field.Evaluate_e(lambda u: u.grad, vals, returnMeanValues=False)
ref = np.asarray(g.Get_Gradient_e_pg(vals, field.matrixType))[..., :2, :2]
check("Evaluate_e(grad) == Get_Gradient_e_pg", np.abs(np.asarray(G) - ref).max())
check("Integrate_e after a successful Evaluate_e == before", np.abs(form.Integrate_e(field) - before).max())

print("DEFECT SHOWN in %d checks" % len(bad) if bad else "behaves correctly")
sys.exit(1 if bad else 0)
