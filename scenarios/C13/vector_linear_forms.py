"""Obs 2: a LinearForm on a VECTOR field raises a shape error unless the mesh has exactly one element.

l(v) = b . v (a body force) evaluates to a scalar (Ne, nPg) array; LinearForm.Integrate_e stores the
(Ne,) integral with `data[:, i] = values_e` where data[:, i] has shape (Ne, 1).

exit 0 = behaves correctly, exit 1 = defect shown.
"""

import sys
import numpy as np
import EasyFEA
from EasyFEA import ElemType, MatrixType, Models, Simulations, SolverType
from EasyFEA.FEM import Field, BiLinearForm, LinearForm, FeArray, Sym_Grad, Trace
from EasyFEA.FEM.Operators import Linear
from EasyFEA.Geoms import Domain

print("EasyFEA imported from", EasyFEA.__file__)
bad = []


def check(name, fun, tol=1e-12):
    try:
        err = fun()
    except Exception as e:  # noqa
        print(f"  [FAIL] {name:60s} raised {type(e).__name__}: {e}")
        bad.append(name)
        return
    ok = err < tol
    print(f"  [{'ok  ' if ok else 'FAIL'}] {name:60s} err = {err:.3e}")
    if not ok:
        bad.append(name)


bvec = np.array([0.3, -1.0])


def scatter(g, F_e, dof_n):
    F = np.zeros(g.Ncoords * dof_n)
    np.add.at(F, g.Get_assembly_e(dof_n).ravel(), np.asarray(F_e).ravel())
    return F


for elemType, h in [(ElemType.QUAD4, 2.0), (ElemType.QUAD4, 0.5), (ElemType.TRI6, 0.25)]:
    mesh = Domain((0, 0), (1, 1), h).Mesh_2D([], elemType, isOrganised=True)
    g = mesh.groupElem
    print(f"{elemType}  Ne = {g.Ne}")
    field = Field(g, 2)
    # built-in: (Ne, nPe*dof_n, dof_n) array of int N_i e_d, contracted with b
    ref = np.asarray(Linear.V(g, 1.0, 2)) @ bvec

    # constant body force
    form = LinearForm(lambda v: v.dot(bvec))
    check("Integrate_e( b . v ) == Linear.V", lambda: np.abs(form.Integrate_e(field)[..., 0] - ref).max())
    check("Integrate_e( b . v ) has shape (Ne, nPe*dof_n, 1)", lambda: float(form.Integrate_e(field).shape != (g.Ne, g.nPe * 2, 1)))
    check("Assemble( b . v ) == scatter-add", lambda: np.abs(form.Assemble(field).toarray().ravel() - scatter(g, ref, 2)).max())

    # position-dependent body force  f(x) = (x, -y)
    def fx(v):
        x, y, _ = v.Get_coords()
        f = FeArray.asfearray(np.stack([np.asarray(x), -np.asarray(y)], axis=-1))
        return v.dot(f)

    x_e_pg = np.asarray(g.Get_GaussCoordinates_e_pg(MatrixType.mass))
    wJ = np.asarray(g.Get_weightedJacobian_e_pg(MatrixType.mass))
    N = np.asarray(g.Get_N_pg(MatrixType.mass))[:, 0]
    ref_x = np.einsum("ep,pn,epd->end", wJ, N, x_e_pg[..., :2] * np.array([1.0, -1.0])).reshape(g.Ne, -1)
    check("Integrate_e( f(x) . v ) == hand-written", lambda: np.abs(LinearForm(fx).Integrate_e(field)[..., 0] - ref_x).max())

# scalar linear forms must keep working (control, this is what the examples use)
mesh = Domain((0, 0), (1, 1), 0.25).Mesh_2D([], ElemType.TRI6, isOrganised=True)
g = mesh.groupElem
print("control: scalar field, TRI6")
f1 = Field(g, 1)
check("Integrate_e( 2 v ) == Linear.V", lambda: np.abs(LinearForm(lambda v: 2.0 * v).Integrate_e(f1)[..., 0] - np.asarray(Linear.V(g, 2.0, 1))[..., 0]).max())

# linear elasticity with a body force: WeakForms vs the dedicated simulation
print("elasticity with a body force: Simulations.WeakForms vs Simulations.Elastic (TRI6)")


def elasticity():
    mat = Models.Elastic.Isotropic(dim=2, E=1000.0, v=0.3, planeStress=False)
    lmbda, mu = mat.get_lambda(), mat.get_mu()
    nodes = mesh.Nodes_Conditions(lambda x, y, z: x == 0)
    ref = Simulations.Elastic(mesh, mat)
    ref.solver = SolverType.scipy
    ref.add_dirichlet(nodes, [0, 0], ["x", "y"])
    ref.add_volumeLoad(mesh.nodes, [bvec[0], bvec[1]], ["x", "y"])
    ref.Solve()

    field = Field(g, 2)

    @BiLinearForm
    def K(u, v):
        Eps = Sym_Grad(u)
        return (2 * mu * Eps + lmbda * Trace(Eps) * np.eye(2)).ddot(Sym_Grad(v))

    simu = Simulations.WeakForms(mesh, Models.WeakForms(field, K, computeF=LinearForm(lambda v: v.dot(bvec))))
    simu.solver = SolverType.scipy
    simu.add_dirichlet(nodes, [0, 0], ["x", "y"])
    simu.Solve()
    print("    max|u| (Elastic) =", np.abs(ref.displacement).max())
    return np.abs(simu.u - ref.displacement).max() / np.abs(ref.displacement).max()


check("WeakForms(K, F = b . v) == Elastic + volume load (rel.)", elasticity, 1e-9)

print("DEFECT SHOWN in %d checks" % len(bad) if bad else "behaves correctly")
sys.exit(1 if bad else 0)
