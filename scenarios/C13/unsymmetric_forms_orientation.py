"""Obs 1: BiLinearForm.Integrate_e puts the TRIAL index on the rows and the TEST index on the columns.

For an unsymmetric form a(u, v) (advection: (b . grad u) v) the element matrix, the assembled matrix and
the matrix solved by Simulations.WeakForms are the transpose of the operator K of "K u = F", where
F[row] = l(N_row) (row = test function, which is what LinearForm and Operators.Linear use).

exit 0 = behaves correctly, exit 1 = defect shown.
"""

import sys
import numpy as np
import EasyFEA
from EasyFEA import ElemType, MatrixType, Models, Simulations, SolverType
from EasyFEA.FEM import Field, BiLinearForm, LinearForm
from EasyFEA.Geoms import Domain

print("EasyFEA imported from", EasyFEA.__file__)
bad = []


def check(name, err, tol):
    ok = err < tol
    print(f"  [{'ok  ' if ok else 'FAIL'}] {name:62s} err = {err:.3e} (tol {tol:.0e})")
    if not ok:
        bad.append(name)


mesh = Domain((0, 0), (1, 1), 1 / 10).Mesh_2D([], ElemType.TRI6, isOrganised=True)
g = mesh.groupElem
b = 30.0
bvec = np.array([b, 0.0])


@BiLinearForm
def convdiff(u, v):  # a(u, v) = grad u . grad v + (b . grad u) v
    return u.grad.dot(v.grad) + u.grad.dot(v * bvec)


@LinearForm
def rhs(v):  # f such that u = sin(pi x) solves -lap u + b du/dx = f
    x, _, _ = v.Get_coords()
    return (np.pi**2 * np.sin(np.pi * x) + b * np.pi * np.cos(np.pi * x)) * v


field = Field(g, 1)

# 1) element matrices against a hand-written reference  K_e[e, i, j] = a(u = N_j, v = N_i)
wJ = np.asarray(g.Get_weightedJacobian_e_pg(MatrixType.mass))
N = np.asarray(g.Get_N_pg(MatrixType.mass))[:, 0]  # (p, nPe)
dN = np.asarray(g.Get_dN_e_pg(MatrixType.mass))  # (e, p, dim, nPe)
ref = np.einsum("ep,epdi,epdj->eij", wJ, dN, dN) + b * np.einsum(
    "ep,pi,epj->eij", wJ, N, dN[:, :, 0]
)  # [e, test i, trial j]
K_e = convdiff.Integrate_e(field)
print("element matrices of grad u.grad v + (b.grad u) v, TRI6")
print("  max|K_e - ref^T| (row = trial, col = test) =", np.abs(K_e - ref.transpose(0, 2, 1)).max())
check("Integrate_e: K_e[e, i, j] == a(u=N_j, v=N_i)", np.abs(K_e - ref).max(), 1e-10)

# 2) global assembly = scatter-add of the reference element matrices
Kref = np.zeros((mesh.Nn, mesh.Nn))
for e in range(g.Ne):
    Kref[np.ix_(g.connect[e], g.connect[e])] += ref[e]
K = convdiff.Assemble(field).toarray()
check("Assemble: K[row = test, col = trial]", np.abs(K - Kref).max(), 1e-10)

# 3) the convection-diffusion problem through Simulations.WeakForms
simu = Simulations.WeakForms(mesh, Models.WeakForms(field, convdiff, computeF=rhs))
simu.solver = SolverType.scipy
nodes = mesh.Nodes_Conditions(lambda x, y, z: (x == 0) | (x == 1))
simu.add_dirichlet(nodes, [0], ["u"])
simu.Solve()
exact = np.sin(np.pi * mesh.coord[:, 0])
print("convection-diffusion -lap u + 30 du/dx = f, u_exact = sin(pi x)")
check("Simulations.WeakForms: max|u - u_exact|", np.abs(simu.u - exact).max(), 5e-3)

# 4) a vector field, coupling between components: a(u, v) = u_x * v_y  (only K[y-dof, x-dof] is filled)
f2 = Field(g, 2)
ex, ey = np.array([1.0, 0.0]), np.array([0.0, 1.0])
K2 = BiLinearForm(lambda u, v: u.dot(ex) * v.dot(ey)).Integrate_e(f2)
M = np.einsum("ep,pi,pj->eij", wJ, N, N)
ref2 = np.zeros_like(K2)
ref2[:, 1::2, 0::2] = M  # rows: y-dofs of the test function, columns: x-dofs of the trial function
check("vector field: a(u, v) = u_x v_y fills K[y-dofs, x-dofs]", np.abs(K2 - ref2).max(), 1e-12)

# 5) symmetric forms must not change (control)
Ks = BiLinearForm(lambda u, v: u.grad.dot(v.grad)).Integrate_e(field)
check("control: grad u . grad v", np.abs(Ks - np.einsum("ep,epdi,epdj->eij", wJ, dN, dN)).max(), 1e-10)

print("DEFECT SHOWN in %d checks" % len(bad) if bad else "behaves correctly")
sys.exit(1 if bad else 0)
