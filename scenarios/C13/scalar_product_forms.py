import numpy as np, sys, contextlib, io
from EasyFEA import Mesher, ElemType
from EasyFEA.FEM import Field, BiLinearForm, MatrixType
from EasyFEA.Geoms import Domain, Point
with contextlib.redirect_stdout(io.StringIO()):
    mesh=Mesher().Mesh_2D(Domain(Point(0,0),Point(2,1),0.9),[],ElemType.TRI3)
g=mesh.groupElem
f=Field(g,1,MatrixType.mass)
ref=np.asarray(BiLinearForm(lambda u,v: u.dot(v)).Integrate_e(f))
try:
    got=np.asarray(BiLinearForm(lambda u,v: u*v).Integrate_e(f))
except Exception as ex:
    print("u * v raises", type(ex).__name__, ex); sys.exit(1)
err=np.abs(got-ref).max(); print("max |int u*v - int u.dot(v)| =",err); sys.exit(0 if err<1e-14 else 1)
