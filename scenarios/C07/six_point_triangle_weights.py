import numpy as np, sys
from EasyFEA.FEM import ElemType
from EasyFEA.FEM._gauss import Gauss
g=Gauss(ElemType.TRI3,6)
s=float(np.sum(g.weights)); print("sum of the 6-point triangle weights - 1/2 =", s-0.5)
sys.exit(0 if abs(s-0.5)<1e-15 else 1)
