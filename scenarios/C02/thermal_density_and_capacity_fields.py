"""Thermal capacity matrix with a per-element density and a per-Gauss-point specific heat.

sum(C) must be the integral of rho c over the mesh (x thickness).  With Ne == nPg (4 QUAD4 elements, 4 points of the mass rule)
the plain product rho * c aligned the per-element density with the Gauss-point axis.

exit 0 = sum(C) is the integral for Ne == nPg and for Ne != nPg; exit 1 = not.      Run with PYTHONPATH=<tree>.
"""

import sys
import numpy as np
import EasyFEA
from EasyFEA import ElemType, Models, Simulations, Mesher
from EasyFEA.FEM import MatrixType
from EasyFEA.Geoms import Domain, Point

print("EasyFEA from", EasyFEA.__file__)
bad = False
for nx, ny in ((2, 2), (3, 2)):
    mesh = Mesher().Mesh_2D(Domain(Point(0, 0), Point(nx, ny), 1.0), [], ElemType.QUAD4, isOrganised=True)
    g = mesh.groupElem
    Ne, nPg = g.Ne, g.Get_gauss(MatrixType.mass).nPg
    rho_e = 1.0 + np.arange(Ne)                                     # one value per element
    c_e_pg = 2.0 + 0.1 * np.arange(Ne * nPg).reshape(Ne, nPg)       # one value per Gauss point
    wJ = np.asarray(g.Get_weightedJacobian_e_pg(MatrixType.mass))
    th = 0.5
    exact = float((rho_e[:, None] * c_e_pg * wJ).sum() * th)
    try:
        sim = Simulations.Thermal(mesh, Models.Thermal(k=1.0, c=c_e_pg, thickness=th), verbosity=False)
        sim.rho = rho_e
        C = sim.Get_K_C_M_F()[1]
        got = float(C.sum())
        print(f"Ne = {Ne}, nPg = {nPg}: sum(C) = {got:.6f}, integral of rho c x thickness = {exact:.6f}")
        if abs(got - exact) > 1e-10 * exact:
            bad = True
    except Exception as ex:
        print(f"Ne = {Ne}, nPg = {nPg}: {type(ex).__name__}: {ex}")
        bad = True
print("VIOLATED" if bad else "holds")
sys.exit(1 if bad else 0)
