"""Observation 1: a TransverselyIsotropic law whose ONLY array-valued parameter is Gl.

exit 0 = behaves correctly, exit 1 = defect shown.

For each of the five parameters in turn, that parameter alone is given as an (Ne,) array, then as an
(Ne, nPg) array, the four others staying scalars. The law must be built, and the matrix of each
element / Gauss point must be the matrix of the homogeneous law built with the values of that point.
"""

import sys
import numpy as np
import EasyFEA
from EasyFEA.Models.Elastic import TransverselyIsotropic

print("EasyFEA:", EasyFEA.__file__)

base = dict(El=11580.0, Et=500.0, Gl=450.0, vl=0.02, vt=0.44)
Ne, nPg = 3, 2
c = np.sqrt(2) / 2
axes = dict(axis_l=[c, c, 0], axis_t=[c, -c, 0])

nbad = 0
for dim, planeStress in [(3, False), (2, True), (2, False)]:
    for name in base:
        for shape in [(Ne,), (Ne, nPg)]:
            factor = np.linspace(1.0, 1.05, int(np.prod(shape))).reshape(shape)
            params = dict(base)
            params[name] = base[name] * factor
            label = f"dim={dim} planeStress={planeStress!s:5} array={name} shape={shape}"
            try:
                mat = TransverselyIsotropic(dim, **params, **axes, planeStress=planeStress)
                C, S = mat.C, mat.S
            except Exception as err:  # noqa: BLE001
                nbad += 1
                print(f"  DEFECT {label}: {type(err).__name__}: {str(err)[:70]}")
                continue
            # reference: the homogeneous law of every point
            err_C = err_S = 0.0
            for idx in np.ndindex(*shape):
                p = dict(base)
                p[name] = float(params[name][idx])
                ref = TransverselyIsotropic(dim, **p, **axes, planeStress=planeStress)
                err_C = max(err_C, np.linalg.norm(C[idx] - ref.C) / np.linalg.norm(ref.C))
                err_S = max(err_S, np.linalg.norm(S[idx] - ref.S) / np.linalg.norm(ref.S))
            ok = C.shape[:-2] == shape and err_C < 1e-12 and err_S < 1e-12
            if not ok:
                nbad += 1
            print(
                f"  {'ok    ' if ok else 'DEFECT'} {label}: C{C.shape} "
                f"max rel err C {err_C:.1e}, S {err_S:.1e}"
            )

print(f"{nbad} defect(s)")
sys.exit(1 if nbad else 0)
