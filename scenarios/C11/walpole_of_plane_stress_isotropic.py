import EasyFEA; print("EasyFEA from", EasyFEA.__file__)
# R02: Isotropic(2, planeStress=True).Walpole_Decomposition() must rebuild the material's 3D law
# (6x6 projectors Ei, "C = sum(ci * Ei)"), of which the 2D law is the plane-stress / plane-strain reduction.
import sys
import numpy as np
from EasyFEA.Models.Elastic import Isotropic, TransverselyIsotropic

E, v = 210000.0, 0.3
mu = E / (2 * (1 + v))
bulk3 = E / (3 * (1 - 2 * v))  # 175000
X = np.array([0, 1, 5])  # in-plane components xx, yy, xy of the Kelvin-Mandel (6,6) matrix
bad = []


def rel(a, b):
    return float(np.max(np.linalg.norm(a - b, axis=(-2, -1)) / np.linalg.norm(b, axis=(-2, -1))))


def check(name, err, tol=1e-10):
    ok = err < tol
    print(f"  {'ok  ' if ok else 'FAIL'} {name}: {err:.3e}")
    if not ok:
        bad.append(name)


def rebuild(mat):
    ci, Ei = mat.Walpole_Decomposition()
    ci = np.asarray(ci, dtype=float)
    return ci, np.einsum("i...,ijk->...jk", ci, Ei)


C3 = Isotropic(3, E=E, v=v).C
for planeStress in [False, True]:
    mat = Isotropic(2, E=E, v=v, planeStress=planeStress)
    print(f"Isotropic(2, planeStress={planeStress})  [{mat.simplification}]")
    ci, C6 = rebuild(mat)
    print(f"  c1 = {ci[0]:.1f} (3D bulk modulus {bulk3:.1f}), c2 = {ci[1]:.1f} (mu {mu:.1f})")
    check("c1 is the bulk modulus K = E/(3(1-2v))", abs(ci[0] - bulk3) / bulk3)
    check("c2 is the shear modulus", abs(ci[1] - mu) / mu)
    check("sum(ci Ei) is the 3D law of the same (E, v)", rel(C6, C3))
    # the law's own 2D C must be the reduction of the rebuilt 3D law
    if planeStress:
        red = np.linalg.inv(np.linalg.inv(C6)[X][:, X])  # zero out-of-plane stress
    else:
        red = C6[X][:, X]  # zero out-of-plane strain
    check("mat.C is the 2D reduction of sum(ci Ei)", rel(red, mat.C))
    check("mat.C . mat.S = I", float(np.abs(mat.C @ mat.S - np.eye(3)).max()))

# same material written as a (degenerate) transversely isotropic law: its decomposition is the 3D law
ti = TransverselyIsotropic(2, El=E, Et=E, Gl=mu, vl=v, vt=v, planeStress=True)
iso = Isotropic(2, E=E, v=v, planeStress=True)
print("Isotropic vs TransverselyIsotropic(El=Et=E, vl=vt=v, Gl=mu), both dim=2 plane stress")
check("same 2D law C", rel(iso.C, ti.C))
check("same rebuilt 3D law sum(ci Ei)", rel(rebuild(iso)[1], rebuild(ti)[1]))

# per-element parameters (no internal assert there), and switching the simplification afterwards
Ee = np.array([E, 2 * E, 70000.0])
het = Isotropic(2, E=Ee, v=v, planeStress=True)
print("Isotropic(2, E=(Ne,), planeStress=True)")
check("per element: sum(ci Ei) is the 3D law", rel(rebuild(het)[1], Isotropic(3, E=Ee, v=v).C))
mat = Isotropic(2, E=E, v=v, planeStress=False)
c_before = rebuild(mat)[0]
mat.planeStress = True
c_after = rebuild(mat)[0]
print("planeStress False -> True on the same object: c1", c_before[0], "->", c_after[0])
check("the decomposition of the material does not depend on the 2D simplification",
      float(np.abs(c_after - c_before).max() / bulk3))

if bad:
    print(f"DEFECT: {len(bad)} checks failed")
    sys.exit(1)
print("property holds")
sys.exit(0)
