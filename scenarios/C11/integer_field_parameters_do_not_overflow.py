import EasyFEA; print("EasyFEA from", EasyFEA.__file__)
# Heterogeneous (one value per element) moduli given as INTEGER arrays in Pa.
# Property: C is SPD, S is its inverse, and the law is the one obtained from the same values as floats.
import sys
import numpy as np
from EasyFEA.Models.Elastic import Isotropic, TransverselyIsotropic, Orthotropic

Ei = np.array([210_000_000_000, 70_000_000_000])  # default integer dtype (int64)
assert Ei.dtype.kind == "i"
TOL = 1e-9
bad = 0


def check(name, build):
    """build(cast) -> law; compares the integer-array law with its float-array twin."""
    global bad
    m_int = build(lambda a: a.copy())
    m_flt = build(lambda a: a.astype(float))
    C, S, Cf = m_int.C, m_int.S, m_flt.C
    I = np.eye(C.shape[-1])
    inv_err = np.abs(C @ S - I).max()
    min_eig = np.linalg.eigvalsh((C + np.swapaxes(C, -2, -1)) / 2).min()
    rel = np.abs(C - Cf).max() / np.abs(Cf).max()
    ok = inv_err < TOL and min_eig > 0 and rel < TOL
    bad += not ok
    print(f"{name:34s} max|C.S-I| = {inv_err:.3e}  min eig(C) = {min_eig: .3e}  "
          f"|C_int-C_float|/|C_float| = {rel:.3e}  {'ok' if ok else 'VIOLATED'}")


for dim, ps in [(3, False), (2, True), (2, False)]:
    tag = "3D" if dim == 3 else ("2D plane stress" if ps else "2D plane strain")
    check(f"Isotropic {tag}",
          lambda c: Isotropic(dim, E=c(Ei), v=0.3, planeStress=ps))
    check(f"TransverselyIsotropic {tag}",
          lambda c: TransverselyIsotropic(dim, El=c(Ei), Et=c(Ei // 20), Gl=c(Ei // 25),
                                          vl=0.02, vt=0.44, planeStress=ps))
    check(f"Orthotropic {tag}",
          lambda c: Orthotropic(dim, E1=c(Ei), E2=c(Ei // 2), E3=c(Ei // 3),
                                G23=c(Ei // 10), G13=c(Ei // 10), G12=c(Ei // 10),
                                v23=0.2, v13=0.2, v12=0.2, planeStress=ps))

# control: the same moduli as python ints (scalars) are exact
m = Orthotropic(3, E1=210_000_000_000, E2=105_000_000_000, E3=70_000_000_000,
                G23=21_000_000_000, G13=21_000_000_000, G12=21_000_000_000, v23=0.2, v13=0.2, v12=0.2)
print(f"control, python int scalars        max|C.S-I| = {np.abs(m.C @ m.S - np.eye(6)).max():.3e}")

# changing a parameter (again an integer field) changes the law on next read
m = TransverselyIsotropic(3, El=Ei, Et=Ei // 20, Gl=Ei // 25, vl=0.02, vt=0.44)
m.C  # read once
m.El = 2 * Ei
ref = TransverselyIsotropic(3, El=2.0 * Ei, Et=Ei / 20, Gl=Ei / 25, vl=0.02, vt=0.44)
rel = np.abs(m.C - ref.C).max() / np.abs(ref.C).max()
ok = rel < TOL and np.abs(m.C @ m.S - np.eye(6)).max() < TOL
bad += not ok
print(f"TI after m.El = 2*Ei (int)         |C-C_ref|/|C_ref| = {rel:.3e}  {'ok' if ok else 'VIOLATED'}")

if bad:
    print(f"PROPERTY VIOLATED ({bad} checks): integer-array moduli give a law that is not SPD / C.S != I")
    sys.exit(1)
print("property holds")
sys.exit(0)
