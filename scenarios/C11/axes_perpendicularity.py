"""Observation 3: the perpendicularity check of the material axes in the constructors.

exit 0 = behaves correctly, exit 1 = defect shown.

(a) exactly orthogonal axes of length L = 1, 1e3, 1e6 (both signs of the second axis, several angles)
    must be accepted by TransverselyIsotropic, Orthotropic and Anisotropic, and give the law obtained
    with the unit axes ("material axes of any length").
(b) axes that are clearly not perpendicular must be refused by the constructor, whatever the sign of
    their dot product.
"""

import sys
import numpy as np
import EasyFEA
from EasyFEA.Models.Elastic import TransverselyIsotropic, Orthotropic, Anisotropic

print("EasyFEA:", EasyFEA.__file__)

C_voigt3D = np.array(
    [
        [60, 20, 10, 0, 0, 0],
        [20, 120, 80, 0, 0, 0],
        [10, 80, 300, 0, 0, 0],
        [0, 0, 0, 400, 0, 0],
        [0, 0, 0, 0, 500, 0],
        [0, 0, 0, 0, 0, 600],
    ],
    dtype=float,
)

laws = {
    "TransverselyIsotropic": lambda a, b: TransverselyIsotropic(
        3, 11580, 500, 450, 0.02, 0.44, axis_l=a, axis_t=b
    ),
    "Orthotropic": lambda a, b: Orthotropic(
        3, 11580, 500, 400, 170, 450, 450, 0.44, 0.02, 0.02, axis_1=a, axis_2=b
    ),
    "Anisotropic": lambda a, b: Anisotropic(3, C_voigt3D, True, axis1=a, axis2=b),
}

nbad = 0

print("--- (a) orthogonal axes of length L")
for name, law in laws.items():
    refused = []
    worst = 0.0
    n = 0
    for t in (0.3, 0.7, 1.1, 2.0):
        a1 = np.array([np.cos(t), np.sin(t), 0])
        b1 = np.array([-np.sin(t), np.cos(t), 0])
        for sgn in (1, -1):
            ref = law(a1, sgn * b1).C
            for L in (1, 1e3, 1e6):
                a, b = L * a1, sgn * L * b1
                n += 1
                try:
                    C = law(a, b).C
                    worst = max(worst, np.linalg.norm(C - ref) / np.linalg.norm(ref))
                except AssertionError as err:
                    refused.append((t, sgn, L, a @ b, str(err)))
    for t, sgn, L, dot, msg in refused:
        print(
            f"  DEFECT {name}: angle {t} sign {sgn:+d} L={L:g} refused "
            f"(axis_1 @ axis_2 = {dot:+.2e}): {msg}"
        )
    ok = not refused and worst < 1e-12
    nbad += not ok
    print(
        f"  {'ok    ' if ok else 'DEFECT'} {name}: {n - len(refused)}/{n} accepted, "
        f"max rel diff with the law of the unit axes {worst:.1e}"
    )

print("--- (b) axes that are not perpendicular, refused by the constructor ?")
pairs = [
    ((1, 0, 0), (1, 1, 0)),  # dot = +1
    ((1, 0, 0), (-1, 1, 0)),  # dot = -1
    ((1, 0, 0), (-1, 0, 0)),  # opposite
    ((1e-7, 0, 0), (1e-7, 1e-7, 0)),  # 45 deg, dot = +1e-14
]
for name, law in laws.items():
    for a, b in pairs:
        dot = float(np.dot(a, b))
        try:
            law(a, b)
            nbad += 1
            print(f"  DEFECT {name}: {a}, {b} (dot = {dot:+.0e}) accepted")
        except AssertionError as err:
            print(f"  ok     {name}: {a}, {b} (dot = {dot:+.0e}) refused: {err}")

print(f"{nbad} defect(s)")
sys.exit(1 if nbad else 0)
