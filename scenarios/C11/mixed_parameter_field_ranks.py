"""Observation 2: a per-element (Ne,) parameter mixed with a per-Gauss-point (Ne, nPg) parameter.

exit 0 = behaves correctly, exit 1 = defect shown.

Everywhere in the library an (Ne,) array is "one value per element" and an (Ne, nPg) array is "one
value per element and Gauss point". When the two are mixed the law of element e, Gauss point p must
therefore be the law of (E[e], v[e, p]) - or the mix must be refused (which is what happens when
Ne != nPg). A law that is returned without error and is the law of (E[p], v[e, p]) is the defect.

The script also checks that the inputs that are handled correctly today keep giving the same law.
"""

import sys
import numpy as np
import EasyFEA
from EasyFEA.Models.Elastic import Isotropic, TransverselyIsotropic, Orthotropic

print("EasyFEA:", EasyFEA.__file__)

nbad = 0


def build(law, dim, params):
    if law == "Isotropic":
        return Isotropic(dim, **params)
    elif law == "TransverselyIsotropic":
        return TransverselyIsotropic(dim, **params)
    else:
        return Orthotropic(dim, **params)


def value(p, e, g):
    """value of a parameter at element e, Gauss point g; (Ne,) means per element"""
    if np.ndim(p) == 0:
        return float(p)
    elif np.ndim(p) == 1:
        return float(p[e])
    else:
        return float(p[e, g])


def check_mix(law, dim, params, Ne, nPg):
    """returns the largest relative difference with the pointwise law, or the exception raised"""
    try:
        C = build(law, dim, params).C
    except Exception as err:  # noqa: BLE001
        return err
    if C.shape[:2] != (Ne, nPg):
        return np.inf
    diff = 0.0
    for e in range(Ne):
        for g in range(nPg):
            ref = build(law, dim, {k: value(p, e, g) for k, p in params.items()}).C
            diff = max(diff, np.linalg.norm(C[e, g] - ref) / np.linalg.norm(ref))
    return diff


def cases(Ne, nPg):
    ramp_e = np.linspace(1, 2, Ne)
    ones_ep = np.ones((Ne, nPg))
    yield "Isotropic", dict(E=1e3 * ramp_e, v=0.3 * ones_ep)
    yield "Isotropic", dict(E=1e3 * ones_ep, v=0.1 + 0.1 * ramp_e)
    yield "TransverselyIsotropic", dict(
        El=11580.0 * ones_ep, Et=500.0, Gl=450.0 * ramp_e, vl=0.02, vt=0.44
    )
    yield "TransverselyIsotropic", dict(
        El=11580.0 * ramp_e, Et=500.0 * ones_ep, Gl=450.0, vl=0.02, vt=0.44
    )
    yield "Orthotropic", dict(
        E1=11580.0 * ones_ep, E2=500.0, E3=400.0, G23=170.0, G13=450.0,
        G12=450.0 * ramp_e, v23=0.44, v13=0.02, v12=0.02,
    )  # fmt: skip


print("--- (Ne,) mixed with (Ne, nPg), Ne == nPg = 4 : must be pointwise right, or refused")
for law, params in cases(4, 4):
    arrays = {k: np.shape(p) for k, p in params.items() if np.ndim(p) > 0}
    for dim in (3, 2):
        res = check_mix(law, dim, params, 4, 4)
        if isinstance(res, Exception):
            print(f"  ok     {law} dim={dim} {arrays}: refused, {type(res).__name__}")
        elif res < 1e-12:
            print(f"  ok     {law} dim={dim} {arrays}: pointwise law, rel diff {res:.1e}")
        else:
            nbad += 1
            print(
                f"  DEFECT {law} dim={dim} {arrays}: no error, and C[e, p] differs from "
                f"the law of (param[e], param[e, p]) by {res:.3e} (relative)"
            )

print("--- the reviewer's numbers")
Ne = 4
E = np.linspace(1, 2, Ne) * 1e3
v = np.full((Ne, Ne), 0.3)
try:
    C = Isotropic(3, E, v).C
    print(
        f"  C[1,0,0,0] = {C[1, 0, 0, 0]:.2f}  C[0,1,0,0] = {C[0, 1, 0, 0]:.2f}  "
        f"law of E[1]: {Isotropic(3, E[1], 0.3).C[0, 0]:.2f}  law of E[0]: {Isotropic(3, E[0], 0.3).C[0, 0]:.2f}"
    )
except Exception as err:  # noqa: BLE001
    print(f"  refused: {type(err).__name__}: {str(err).splitlines()[0]}")

print("--- (Ne,) mixed with (Ne, nPg), Ne = 4 != nPg = 3 : refused today, must stay refused")
for law, params in cases(4, 3):
    arrays = {k: np.shape(p) for k, p in params.items() if np.ndim(p) > 0}
    res = check_mix(law, 3, params, 4, 3)
    if isinstance(res, Exception):
        print(f"  ok     {law} {arrays}: refused, {type(res).__name__}")
    elif res < 1e-12:
        print(f"  ok     {law} {arrays}: pointwise law, rel diff {res:.1e}")
    else:
        nbad += 1
        print(f"  DEFECT {law} {arrays}: {res:.3e}")

print("--- inputs handled correctly today: same dimension everywhere, scalars, single values")
Ne, nPg = 4, 4
ramp_e = np.linspace(1, 2, Ne)
ramp_ep = np.linspace(1, 2, Ne * nPg).reshape(Ne, nPg)
good = [
    ("Isotropic", dict(E=1e3 * ramp_e, v=0.1 + 0.1 * ramp_e), Ne, 1),
    ("Isotropic", dict(E=1e3 * ramp_ep, v=0.1 + 0.1 * ramp_ep), Ne, nPg),
    ("Isotropic", dict(E=1e3 * ramp_ep, v=0.3), Ne, nPg),
    ("Isotropic", dict(E=1e3 * ramp_e[:, None], v=0.1 + 0.1 * ramp_ep), Ne, nPg),
    ("Isotropic", dict(E=np.array(1e3), v=0.1 + 0.1 * ramp_ep), Ne, nPg),
    ("Isotropic", dict(E=np.array([1e3]), v=0.1 + 0.1 * ramp_ep), Ne, nPg),
    ("Isotropic", dict(E=np.array([1e3]), v=0.1 + 0.1 * ramp_ep[:1]), 1, nPg),
    (
        "TransverselyIsotropic",
        dict(El=11580.0 * ramp_e, Et=500.0, Gl=450.0 * ramp_e, vl=0.02, vt=0.44),
        Ne,
        1,
    ),
    (
        "Orthotropic",
        dict(E1=11580.0 * ramp_ep, E2=500.0, E3=400.0, G23=170.0, G13=450.0,
             G12=450.0 * ramp_ep, v23=0.44, v13=0.02, v12=0.02),
        Ne,
        nPg,
    ),  # fmt: skip
]
for law, params, ne, npg in good:
    arrays = {k: np.shape(p) for k, p in params.items() if isinstance(p, np.ndarray)}
    try:
        C = build(law, 3, params).C
        C = C.reshape(ne, npg, 6, 6)
        diff = 0.0
        for e in range(ne):
            for g in range(npg):
                p = {
                    k: float(np.broadcast_to(q, (ne, npg))[e, g])
                    if np.ndim(q) != 1 or np.size(q) == 1
                    else float(q[e])
                    for k, q in params.items()
                }
                ref = build(law, 3, p).C
                diff = max(diff, np.linalg.norm(C[e, g] - ref) / np.linalg.norm(ref))
        ok = diff < 1e-12
        print(f"  {'ok    ' if ok else 'DEFECT'} {law} {arrays}: rel diff {diff:.1e}")
    except Exception as err:  # noqa: BLE001
        ok = False
        print(f"  DEFECT {law} {arrays}: {type(err).__name__}: {str(err)[:60]}")
    nbad += not ok

print(f"{nbad} defect(s)")
sys.exit(1 if nbad else 0)
