"""Observation 4: Isotropic(2, ...).Walpole_Decomposition().

exit 0 = behaves correctly, exit 1 = defect shown.

Walpole_Decomposition() returns ci, Ei with C = sum(ci * Ei) in Kelvin-Mandel notation. For the three
laws that implement it the Ei are 6x6 tensors whatever self.dim (a 2D TransverselyIsotropic or
Orthotropic material is decomposed that way, tests/Models/linear_elastic_test.py calls it on 2D
materials). For Isotropic:
  - it must not raise for a valid material, in 3D and in 2D (plane stress and plane strain);
  - sum(ci * Ei) must be the 6x6 law of the material - the 3D law of (E, v), as for the other laws; the material's own
    2D matrix is its reduction: the in-plane block [xx, yy, xy] of the 6x6 STIFFNESS in plane strain, the inverse of the
    in-plane block of the 6x6 COMPLIANCE in plane stress (the first version of this scenario asked for the in-plane block
    of the stiffness under plane stress too, i.e. for a 6x6 matrix built with the plane-stress Lame parameter - that is
    not a 3D law; corrected when the decomposition was repaired, d35172d);
  - the same with per-element parameters (where the built-in check is skipped).
"""

import sys
import numpy as np
import EasyFEA
from EasyFEA.Models.Elastic import Isotropic

print("EasyFEA:", EasyFEA.__file__)

nbad = 0
idx = np.array([0, 1, 5])
E, v = 210e3, 0.3


def rel(a, b):
    return np.linalg.norm(a - b) / np.linalg.norm(b)


for dim, planeStress in [(3, False), (2, False), (2, True)]:
    label = f"dim={dim} planeStress={planeStress!s:5}"
    # ---- homogeneous
    mat = Isotropic(dim, E, v, planeStress=planeStress)
    try:
        ci, Ei = mat.Walpole_Decomposition()
    except AssertionError:
        nbad += 1
        mu = mat.get_mu()
        print(
            f"  DEFECT {label} homogeneous: AssertionError "
            f"(get_bulk() = {mat.get_bulk():.6g} = lambda + 2 mu / {dim}, "
            f"lambda + 2 mu / 3 = {mat.get_lambda() + 2 * mu / 3:.6g})"
        )
    else:
        C6 = np.einsum("i,ijk->jk", ci, Ei)
        C = mat.C
        red = (lambda c6: np.linalg.inv(np.linalg.inv(c6)[idx][:, idx])) if planeStress else (lambda c6: c6[idx][:, idx])
        err = rel(C6, C) if dim == 3 else rel(red(C6), C)
        txt = f"ci = {ci}, |reduction of sum(ci Ei) - C| / |C| = {err:.1e}"
        ok = err < 1e-12
        err3 = rel(C6, Isotropic(3, E, v).C)
        txt += f", |sum(ci Ei) - C_3D| / |C_3D| = {err3:.1e}"
        ok = ok and err3 < 1e-12
        nbad += not ok
        print(f"  {'ok    ' if ok else 'DEFECT'} {label} homogeneous: {txt}")

    # ---- per element (the built-in check is skipped)
    E_e = E * np.array([1.0, 1.5, 2.0])
    mat = Isotropic(dim, E_e, v, planeStress=planeStress)
    ci, Ei = mat.Walpole_Decomposition()
    C6 = np.einsum("ie,ijk->ejk", ci, Ei)
    C = mat.C
    if dim == 3:
        err = rel(C6, C)
    elif planeStress:
        err = rel(np.linalg.inv(np.linalg.inv(C6)[:, idx][:, :, idx]), C)
    else:
        err = rel(C6[:, idx][:, :, idx], C)
    ok = err < 1e-12
    nbad += not ok
    print(
        f"  {'ok    ' if ok else 'DEFECT'} {label} per element: "
        f"|reduction of sum(ci Ei) - C| / |C| = {err:.1e}"
    )

print(f"{nbad} defect(s)")
sys.exit(1 if nbad else 0)
