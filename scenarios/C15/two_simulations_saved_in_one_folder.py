"""Observation 2 (C15): two simulations saved in ONE folder under two file names keep their own meshes.

`simu.Save(folder, filename)` / `Load_Simu(folder, filename)` take a file name, so that a folder can hold
several simulations. Each simulation has two meshes in its history (one iteration saved on each).

exit 0 = every iteration of every loaded simulation restores the mesh and the fields that were saved.
exit 1 = defect shown (a simulation restores the meshes of the other one).

Only the public API is used (plus numpy).
"""

import contextlib
import io
import sys
import tempfile

import numpy as np

import EasyFEA
from EasyFEA import Models, Simulations
from EasyFEA.Geoms import Domain, Point
from EasyFEA.Simulations import Load_Simu

print("EasyFEA imported from", EasyFEA.__file__)


def Mesh(h: float, L: float = 1.0):
    return Domain(Point(), Point(L, L), meshSize=h * L).Mesh_2D([], "TRI3")


def Run(h0: float, h1: float, L: float = 1.0):
    """Elastic plate, clamped left and pulled right: it0 on mesh(h0), it1 on mesh(h1)."""
    mat = Models.Elastic.Isotropic(2, E=210e3, v=0.3, planeStress=True, thickness=1.0)
    simu = Simulations.Elastic(Mesh(h0, L), mat, verbosity=False)
    saved = []
    for k, mesh in enumerate((None, Mesh(h1, L))):
        if mesh is not None:
            simu.mesh = mesh
        m = simu.mesh
        simu.Bc_Init()
        simu.add_dirichlet(m.Nodes_Conditions(lambda x, y, z: x == 0), [0, 0], ["x", "y"])
        simu.add_surfLoad(m.Nodes_Conditions(lambda x, y, z: x == L), [100.0 * (k + 1)], ["x"])
        simu.Solve()
        simu.Save_Iter()
        saved.append(
            {
                "coord": m.coord.copy(),
                "connect": m.connect.copy(),
                "displacement": simu.displacement.copy(),
                "Svm": simu.Result("Svm", nodeValues=False).copy(),
            }
        )
    return simu, saved


def Check(label: str, simu, saved: list[dict]) -> int:
    """Restores the iterations in the order 1, 0, 1 and compares with what was saved."""
    bad = 0
    for i in (1, 0, 1):
        ref = saved[i]
        try:
            simu.Set_Iter(i)
            mesh = simu.mesh
            sameMesh = (
                mesh.coord.shape == ref["coord"].shape
                and np.array_equal(mesh.connect, ref["connect"])
                and np.array_equal(mesh.coord, ref["coord"])
            )
            dCoord = (
                np.abs(mesh.coord - ref["coord"]).max()
                if mesh.coord.shape == ref["coord"].shape
                else np.nan
            )
            dU = np.abs(simu.displacement - ref["displacement"]).max()
            svm = simu.Result("Svm", nodeValues=False)
            dS = np.abs(svm - ref["Svm"]).max()
            ok = sameMesh and dU == 0 and dS <= 1e-9 * np.abs(ref["Svm"]).max()
            print(
                f"  {'ok  ' if ok else 'FAIL'} {label} it {i}: Nn restored {mesh.Nn} / saved {ref['coord'].shape[0]},"
                f" max|coord diff| = {dCoord:.3e}, max|u diff| = {dU:.3e},"
                f" max|Svm diff| = {dS:.3e} (max|Svm saved| = {np.abs(ref['Svm']).max():.3e})"
            )
        except Exception as err:
            ok = False
            print(
                f"  FAIL {label} it {i}: raised {type(err).__name__}: {err}"
                f" | mesh Nn now {simu.mesh.Nn}, saved {ref['coord'].shape[0]}"
            )
        bad += not ok
    return bad


def Case(title: str, argsA: tuple, argsB: tuple) -> int:
    print(title)
    bad = 0
    with tempfile.TemporaryDirectory() as tmp:
        a, savedA = Run(*argsA)
        b, savedB = Run(*argsB)
        print(
            "  Nn of the meshes: coarse",
            [s["coord"].shape[0] for s in savedA],
            "| fine",
            [s["coord"].shape[0] for s in savedB],
        )
        with contextlib.redirect_stdout(io.StringIO()):
            a.Save(tmp, "coarse")
            b.Save(tmp, "fine")
        bad += Check("Load_Simu(folder, 'coarse')", Load_Simu(tmp, "coarse"), savedA)
        bad += Check("Load_Simu(folder, 'fine')  ", Load_Simu(tmp, "fine"), savedB)
        # the simulation that was saved first is still alive: its own history must be intact too
        bad += Check("live simulation 'coarse'   ", a, savedA)
    return bad


if __name__ == "__main__":
    bad = 0
    bad += Case("meshes of different sizes", (0.5, 0.25), (0.4, 0.2))
    # same mesh sizes on a plate twice as large: same Nn / Ne, other coordinates (nothing can raise)
    bad += Case("meshes of equal sizes (other geometry)", (0.5, 0.25, 1.0), (0.5, 0.25, 2.0))

    # control: one simulation per folder (the documented use) is not concerned
    print("control: one folder per simulation, default file name")
    with tempfile.TemporaryDirectory() as tmp:
        a, savedA = Run(0.5, 0.25)
        with contextlib.redirect_stdout(io.StringIO()):
            a.Save(tmp)
        ctrl = Check("Load_Simu(folder)", Load_Simu(tmp), savedA)
    bad += ctrl

    if bad:
        print(f"\nDEFECT: {bad} restored iteration(s) differ from what was saved.")
        sys.exit(1)
    print("\nOK: every simulation restores its own meshes and fields.")
    sys.exit(0)
