"""Observation 2: a simulation holding two meshes is saved in folder A.

 (a) simu.Save(B) must work and B must be complete on its own (A deleted -> Load_Simu(B) restores both meshes);
 (b) after Save(A), changing simu.folder (the folder the next results are written to) must not
     prevent Set_Iter from restoring an iteration that lives on the older mesh - on the live simulation
     and on the one read back with Load_Simu(A).

exit 0: every restore brings back the mesh and the displacement saved; exit 1: something raises / differs
"""

import shutil
import sys
import tempfile

import numpy as np

import EasyFEA
from EasyFEA import ElemType, Models, Simulations
from EasyFEA.Geoms import Domain, Point
from EasyFEA.Simulations import Load_Simu

print("EasyFEA from:", EasyFEA.__file__)


def mk(h):
    return Domain(Point(), Point(1, 1), meshSize=h).Mesh_2D([], ElemType.TRI3)


def load(simu, ux):
    mesh = simu.mesh
    simu.Bc_Init()
    simu.add_dirichlet(mesh.Nodes_Conditions(lambda x, y, z: x == 0), [0, 0], ["x", "y"])
    simu.add_dirichlet(mesh.Nodes_Conditions(lambda x, y, z: x == 1), [ux], ["x"])
    simu.Solve()


def build():
    mat = Models.Elastic.Isotropic(2, E=210e3, v=0.3, planeStress=True, thickness=1.0)
    simu = Simulations.Elastic(mk(0.5), mat, verbosity=False)
    saved = []
    for h, ux in [(0.5, 0.01), (0.25, 0.02)]:
        if h != 0.5:
            simu.mesh = mk(h)
        load(simu, ux)
        simu.Save_Iter()
        saved.append((simu.mesh.coord.copy(), simu.mesh.connect.copy(), simu.displacement))
    return simu, saved


bad = []


def restores(simu, saved, label):
    """Set_Iter(i) brings back the mesh and the displacement of iteration i, for i = 0, 1, 0."""
    for i in (0, 1, 0):
        try:
            simu.Set_Iter(i)
        except Exception as e:  # noqa
            print(f"  [{label}] Set_Iter({i}) raised {type(e).__name__}: {str(e)[:150]}")
            bad.append(f"[{label}] Set_Iter({i}) raised {type(e).__name__}")
            return
        coord, connect, u = saved[i]
        same = (
            simu.mesh.coord.shape == coord.shape
            and np.array_equal(simu.mesh.coord, coord)
            and np.array_equal(simu.mesh.connect, connect)
            and np.array_equal(simu.displacement, u)
        )
        print(f"  [{label}] Set_Iter({i}): Nn = {simu.mesh.Nn}, mesh and displacement as saved = {same}")
        if not same:
            bad.append(f"[{label}] Set_Iter({i}) did not bring back what was saved")


A = tempfile.mkdtemp(prefix="obs2_A_")
B = tempfile.mkdtemp(prefix="obs2_B_")
C = tempfile.mkdtemp(prefix="obs2_C_")

print("control: Save(A), Load_Simu(A), same folder all along")
simu, saved = build()
simu.Save(A)
restores(simu, saved, "live, folder = A")
restores(Load_Simu(A), saved, "Load_Simu(A)")

print("(a) second Save, to another folder")
try:
    simu.Save(B)
    print("  Save(B) ok")
except Exception as e:  # noqa
    print(f"  Save(B) raised {type(e).__name__}: {str(e)[:150]}")
    bad.append(f"Save(B) after Save(A) raised {type(e).__name__}")
restores(simu, saved, "live, after Save(B)")
restores(Load_Simu(A), saved, "Load_Simu(A) after Save(B)")

print("(b) simu.folder changed after Save / Load_Simu")
simu2, saved2 = build()
simu2.Save(C)
simu2.folder = ""  # the next iterations are kept in memory
restores(simu2, saved2, "live, Save(C) then folder = ''")
simu3 = Load_Simu(C)
simu3.folder = tempfile.mkdtemp(prefix="obs2_D_")  # the next iterations go to another folder
restores(simu3, saved2, "Load_Simu(C) then folder = D")

print("(a') B is complete on its own: A removed, Load_Simu(B)")
shutil.rmtree(A)
try:
    restores(Load_Simu(B), saved, "Load_Simu(B), A removed")
except Exception as e:  # noqa
    print(f"  Load_Simu(B) raised {type(e).__name__}: {str(e)[:150]}")
    bad.append(f"Load_Simu(B) raised {type(e).__name__}")

if bad:
    print("\nDEFECT SHOWN:")
    for b in bad:
        print(" -", b)
    sys.exit(1)
print("\nbehaves correctly: the saved mesh history survives another Save and a change of simu.folder")
sys.exit(0)
