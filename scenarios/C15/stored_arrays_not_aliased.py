"""Observation 3: aliasing between the iterations kept in memory (simu.folder == "") and what the
simulation hands out.

 A.  Get_results(i) of an in-memory iteration returns a shallow copy: writing in a returned array
     rewrites the stored iteration (an iteration kept on disk is unpickled anew at every call).
 A2. Set_Iter(i) installs the stored arrays as the live state: the same write also changes simu.displacement.
 A3. same as A. for the internal variables of Simulations.InElastic (a dict of arrays inside the entry).
 B.  Result(name, iter=i) leaves the simulation at iteration i. REPORTED ONLY (see report.md: this is how
     `iter` is implemented in every simulation class, not repaired here); `--strict` makes it count.

exit 0: A, A2, A3 behave correctly; exit 1: a stored iteration / the live state was altered
"""

import sys
import tempfile

import numpy as np

import EasyFEA
from EasyFEA import ElemType, Models, Simulations
from EasyFEA.Geoms import Domain, Point

print("EasyFEA from:", EasyFEA.__file__)
strict = "--strict" in sys.argv


def mk(h):
    return Domain(Point(), Point(1, 1), meshSize=h).Mesh_2D([], ElemType.TRI3)


def load(simu, ux):
    mesh = simu.mesh
    simu.Bc_Init()
    simu.add_dirichlet(mesh.Nodes_Conditions(lambda x, y, z: x == 0), [0, 0], ["x", "y"])
    simu.add_dirichlet(mesh.Nodes_Conditions(lambda x, y, z: x == 1), [ux], ["x"])
    simu.Solve()


def elastic(folder=""):
    mat = Models.Elastic.Isotropic(2, E=210e3, v=0.3, planeStress=True, thickness=1.0)
    simu = Simulations.Elastic(mk(0.5), mat, folder=folder, verbosity=False)
    load(simu, 0.01)
    simu.Save_Iter()
    return simu


def relChange(new, ref):
    return float(np.abs(new - ref).max() / np.abs(ref).max())


bad = []

for label, folder in [("memory", ""), ("disk", tempfile.mkdtemp(prefix="obs3_"))]:
    # A. write through the arrays handed out by Get_results
    simu = elastic(folder)
    u0 = simu.displacement
    svm0 = simu.Result("Svm", nodeValues=False)
    results = simu.Get_results(0)
    results["displacement"][:] = 0.0
    chg = relChange(simu.Get_results(0)["displacement"], u0)
    chgSvm = relChange(simu.Result("Svm", nodeValues=False, iter=0), svm0)
    print(f"A.  [{label}] stored displacement of iteration 0 after writing in Get_results(0): rel. change = {chg:.3e}")
    print(f"A.  [{label}] Result('Svm', iter=0) against the value at the time: rel. change = {chgSvm:.3e}")
    if chg > 0 or chgSvm > 0:
        bad.append(f"A. [{label}] the stored iteration was rewritten through Get_results (rel. change {chg:.3e})")

    # A2. after Set_Iter the live state is the stored array
    simu = elastic(folder)
    u0 = simu.displacement
    simu.Set_Iter(0)
    results = simu.Get_results(0)
    results["displacement"] *= 2
    chg = relChange(simu.displacement, u0)
    print(f"A2. [{label}] live displacement after Set_Iter(0) and a write in Get_results(0): rel. change = {chg:.3e}")
    if chg > 0:
        bad.append(f"A2. [{label}] the live displacement was changed through Get_results (rel. change {chg:.3e})")

# A3. internal variables of a history-dependent material (nested dict of arrays in the entry)
behaviour = Models.InElastic.Behavior(
    2,
    Models.Elastic.Isotropic(3, E=210e3, v=0.3),
    yieldSurface=Models.InElastic.Yield.VonMises(250.0),
    hardening=Models.InElastic.IsotropicHardening.Linear(2000.0),
    thickness=1.0,
)
simu = Simulations.InElastic(mk(0.5), behaviour, verbosity=False)
load(simu, 0.01)  # eps = 1e-2 > 250 / 210e3: the plate yields
simu.Save_Iter()
state0 = {et: z.copy() for et, z in simu.Get_results(0)["state"].items()}
assert max(np.abs(z).max() for z in state0.values()) > 0, "the plate did not yield"
for z in simu.Get_results(0)["state"].values():
    z[:] = 0.0
chg = max(relChange(simu.Get_results(0)["state"][et], z) for et, z in state0.items())
print(f"A3. [memory] stored internal variables of iteration 0 after writing in Get_results(0)['state']: rel. change = {chg:.3e}")
if chg > 0:
    bad.append(f"A3. [memory] the stored internal variables were rewritten through Get_results (rel. change {chg:.3e})")

# B. Result(..., iter=i) moves the simulation
simu = elastic()
load(simu, 0.02)
simu.Save_Iter()
u1 = simu.displacement
simu.Result("Svm", iter=0)
chg = relChange(simu.displacement, u1)
print(f"B.  [memory] live displacement after Result('Svm', iter=0): rel. change = {chg:.3e}" + ("" if strict else "   (reported only)"))
if chg > 0 and strict:
    bad.append(f"B. Result(iter=0) left the simulation at iteration 0 (rel. change {chg:.3e})")

if bad:
    print("\nDEFECT SHOWN:")
    for b in bad:
        print(" -", b)
    sys.exit(1)
print("\nbehaves correctly: what Get_results hands out is independent of the stored iterations and of the live state")
sys.exit(0)
