import EasyFEA; print("EasyFEA from", EasyFEA.__file__)
# Property: results queried for a saved iteration equal those obtained when it was saved.
# Phase-field simulation, 3 load steps with a load reversal; after each Solve()/Save_Iter() the
# deformation energy Result("Wdef") is recorded, later it is asked again with Result("Wdef", iter=k).
# Reference (independent of the assembled stiffness): Wdef = 1/2 int Sig:Eps (docstring of
# _Calc_Psi_Elas), evaluated from the public element results Sxx.. / Exx.. on TRI3 elements
# (constant strain, 1 Gauss point => sum_e area_e * 1/2 Sig_e:Eps_e is exact).
import sys
import numpy as np
from EasyFEA import Models, Simulations
from EasyFEA.Geoms import Domain

mesh = Domain((0, 0), (1, 1), 0.25).Mesh_2D()
assert mesh.elemType == "TRI3"
area_e = mesh.groupElem.area_e
bottom = mesh.Nodes_Conditions(lambda x, y, z: y == 0)
top = mesh.Nodes_Conditions(lambda x, y, z: y == 1)
material = Models.Elastic.Isotropic(2, E=210e3, v=0.3, planeStress=False, thickness=1)
loads = [2e-3, 4e-3, -3e-3]


def energy_from_fields(simu) -> float:
    """1/2 int Sig:Eps from the stress and strain results of the current state."""
    S = {c: simu.Result("S" + c, nodeValues=False) for c in ["xx", "yy", "xy"]}
    E = {c: simu.Result("E" + c, nodeValues=False) for c in ["xx", "yy", "xy"]}
    w_e = 0.5 * (S["xx"] * E["xx"] + S["yy"] * E["yy"] + 2 * S["xy"] * E["xy"])
    return float(np.sum(area_e * w_e))


worst = 0.0
for split in ["Bourdin", "Amor", "Miehe", "He"]:
    pfm = Models.PhaseField(material, split, "AT2", 2.7, 0.2)
    simu = Simulations.PhaseField(mesh, pfm)
    atSave, refSave = [], []
    for uy in loads:
        simu.Bc_Init()
        simu.add_dirichlet(bottom, [0, 0], ["x", "y"])
        simu.add_dirichlet(top, [uy / 2, uy], ["x", "y"])
        simu.Solve(tolConv=1, convOption=2)
        simu.Save_Iter()
        refSave.append(energy_from_fields(simu))  # reads the fields only
        atSave.append(simu.Result("Wdef"))
    for k in range(len(loads)):
        later = simu.Result("Wdef", iter=k)
        refLater = energy_from_fields(simu)  # state k is now the current one
        err = abs(atSave[k] - later) / abs(later)
        errRef = max(abs(later - refLater), abs(refSave[k] - refLater)) / abs(refLater)
        worst = max(worst, err, errRef)
        print(
            f"{split:8s} iter {k}: Wdef at save = {atSave[k]:.6f}, Wdef(iter={k}) = {later:.6f}, "
            f"1/2 int Sig:Eps at save = {refSave[k]:.6f}, restored = {refLater:.6f}, rel. diff = {err:.2e}"
        )

print(f"worst relative discrepancy = {worst:.3e}")
if worst > 1e-9:
    print("DEFECT: Wdef read when the iteration was saved is not the Wdef of the saved iteration")
    sys.exit(1)
print("OK: Wdef at save time == Wdef of the restored iteration == 1/2 int Sig:Eps")
sys.exit(0)
