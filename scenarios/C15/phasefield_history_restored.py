"""Observation 2: the phase-field history field (solver "History", the default of Models.PhaseField) is
neither stored by PhaseField.Save_Iter nor restored by PhaseField.Set_Iter.

Load path uy = 1e-3, 4e-3, 2e-3, 6e-3 (load, load, partial unload, load) on a unit square, one iteration saved
per step.

A. Result("psiP", iter=i) must equal the value obtained when iteration i was saved
   (history in memory, on disk, and after Save / Load_Simu).
B. Set_Iter(1) followed by the step uy = 2e-3 must reproduce iteration 2 (damage and displacement): the
   irreversibility memory seen by the damage problem must be that of iteration 1, not that of the last step.
C. the same as A with two meshes in one history (the stored field has another shape on each mesh).

exit 0 = behaves correctly, exit 1 = defect shown.
"""

import sys
import tempfile

import numpy as np

import EasyFEA
from EasyFEA import ElemType, Models, Simulations
from EasyFEA.Geoms import Domain, Point

print("EasyFEA from:", EasyFEA.__file__)

TOL = 1e-10
failures: list[str] = []


def check(ok: bool, msg: str):
    print(("  ok     " if ok else "  DEFECT ") + msg)
    if not ok:
        failures.append(msg)


def rel(x, ref):
    scale = np.abs(ref).max()
    return np.abs(x - ref).max() / (scale if scale > 0 else 1.0)


def mk(ms):
    return Domain(Point(), Point(1, 1), meshSize=ms).Mesh_2D([], ElemType.TRI3)


mat = Models.Elastic.Isotropic(2, E=210e3, v=0.3, planeStress=True, thickness=1.0)
pfm = Models.PhaseField(mat, "Miehe", "AT2", Gc=2.7, l0=0.1)
print("phase-field solver:", pfm.solver)

LOADS = [1e-3, 4e-3, 2e-3, 6e-3]


def step(simu: Simulations.PhaseField, i: int, uy: float, save=True):
    mesh = simu.mesh
    simu.Bc_Init()
    simu.add_dirichlet(
        mesh.Nodes_Conditions(lambda x, y, z: y == 0), [0, 0], ["x", "y"]
    )
    simu.add_dirichlet(mesh.Nodes_Conditions(lambda x, y, z: y == 1), [uy], ["y"])
    u, d, _ = simu.Solve()
    if save:
        simu.Save_Iter()
    return u.copy(), d.copy(), simu.Result("psiP", nodeValues=False).copy()


def run(folder: str, meshSizes=None):
    simu = Simulations.PhaseField(mk(0.2), pfm, folder=folder)
    atTheTime = []
    for i, uy in enumerate(LOADS):
        if meshSizes is not None and i > 0 and meshSizes[i] != meshSizes[i - 1]:
            simu.mesh = mk(meshSizes[i])
        atTheTime.append(step(simu, i, uy))
    return simu, atTheTime


for where in ["memory", "disk"]:
    folder = "" if where == "memory" else tempfile.mkdtemp(prefix="obs2_pf_")
    simu, atTheTime = run(folder)

    print(f"A. [{where}] Result('psiP', iter=i) vs the value obtained when iteration i was saved")
    for i in [0, 2, 1, 3]:
        q = simu.Result("psiP", nodeValues=False, iter=i)
        p = atTheTime[i][2]
        check(
            rel(q, p) < TOL,
            f"[{where}] iteration {i}: max psiP now = {q.max():.4e}, at the time = {p.max():.4e}, "
            f"rel. error = {rel(q, p):.3e}",
        )

    print(f"B. [{where}] Set_Iter(1), then the step uy = {LOADS[2]} again vs iteration 2")
    simu.Set_Iter(1)
    u2, d2, p2 = step(simu, 2, LOADS[2], save=False)
    check(
        rel(d2, atTheTime[2][1]) < TOL,
        f"[{where}] damage: max now = {d2.max():.4e}, at the time = {atTheTime[2][1].max():.4e}, "
        f"rel. error = {rel(d2, atTheTime[2][1]):.3e}",
    )
    check(
        rel(u2, atTheTime[2][0]) < TOL,
        f"[{where}] displacement: rel. error = {rel(u2, atTheTime[2][0]):.3e}",
    )
    check(
        rel(p2, atTheTime[2][2]) < TOL,
        f"[{where}] psiP: rel. error = {rel(p2, atTheTime[2][2]):.3e}",
    )
    # the replay must not have touched the stored iterations
    q = simu.Result("psiP", nodeValues=False, iter=3)
    check(
        rel(q, atTheTime[3][2]) < TOL,
        f"[{where}] iteration 3 after the replay: rel. error = {rel(q, atTheTime[3][2]):.3e}",
    )

print("A. [Save / Load_Simu] Result('psiP', iter=i) of the loaded simulation")
simu, atTheTime = run("")
folder = tempfile.mkdtemp(prefix="obs2_pf_save_")
simu.Results_Set_Iteration_Summary(3, LOADS[3], "mm")  # Save() writes this summary
simu.Save(folder)
loaded = Simulations.Load_Simu(folder)
for i in [0, 2]:
    q = loaded.Result("psiP", nodeValues=False, iter=i)
    p = atTheTime[i][2]
    check(
        rel(q, p) < TOL,
        f"[loaded] iteration {i}: max psiP now = {q.max():.4e}, at the time = {p.max():.4e}, "
        f"rel. error = {rel(q, p):.3e}",
    )

print("C. two meshes in one history (mesh sizes 0.2, 0.2, 0.25, 0.25)")
simu, atTheTime = run("", meshSizes=[0.2, 0.2, 0.25, 0.25])
for i in [1, 3, 2]:
    q = simu.Result("psiP", nodeValues=False, iter=i)
    p = atTheTime[i][2]
    check(
        q.shape == p.shape and rel(q, p) < TOL,
        f"[two meshes] iteration {i}: rel. error = {rel(q, p) if q.shape == p.shape else np.nan:.3e}",
    )

if failures:
    print("\nDEFECT SHOWN:")
    for f in failures:
        print(" -", f)
    sys.exit(1)
print("\nbehaves correctly")
sys.exit(0)
