"""Observation 1 (C15): a Beam simulation can be saved and loaded back.

exit 0 = `Simulations.Beam.Save` + `Load_Simu` give back the same mesh, history and results.
exit 1 = defect shown (Save raises, or the loaded simulation differs).

Only the public API is used (plus numpy).
"""

import contextlib
import io
import sys
import tempfile

import numpy as np

import EasyFEA
from EasyFEA import Models, Simulations, Mesher
from EasyFEA.Geoms import Domain, Point, Line
from EasyFEA.Simulations import Load_Simu

print("EasyFEA imported from", EasyFEA.__file__)

L, b, h, E, v = 120.0, 13.0, 13.0, 210000.0, 0.3
RESULTS = {2: ["ux", "uy", "rz", "N", "Ty", "Mz"], 3: ["ux", "uy", "uz", "N", "Ty", "Mz"]}


def Run(dim: int) -> int:
    """Solves two load steps of a cantilever beam, saves it, loads it back. Returns the number of mismatches."""
    mesher = Mesher()
    section = mesher.Mesh_2D(Domain(Point(-b / 2, -h / 2), Point(b / 2, h / 2)))
    p1, p2 = Point(), Point(x=L)
    beam = Models.Beam.Isotropic(dim, Line(p1, p2, L / 10), section, E, v)
    mesh = mesher.Mesh_Beams([beam], elemType="SEG2")
    simu = Simulations.Beam(mesh, Models.Beam.BeamStructure([beam]), verbosity=False)

    # the throw-away simulations of the shear correction factor must not stay attached to the section
    print(
        f"  dim={dim}: observers of the section:",
        [type(obs).__name__ for obs in section.observers],
    )

    saved = []
    for F in (-800.0, -1600.0):
        simu.Bc_Init()
        simu.add_dirichlet(
            mesh.Nodes_Point(p1), [0] * simu.Get_dof_n(), simu.Get_unknowns()
        )
        simu.add_neumann(mesh.Nodes_Point(p2), [F], ["y"])
        simu.Solve()
        simu.Save_Iter()
        saved.append(
            {
                "displacement": simu.displacement.copy(),
                **{r: np.array(simu.Result(r, nodeValues=False)) for r in RESULTS[dim]},
            }
        )

    bad = 0
    with tempfile.TemporaryDirectory() as tmp:
        try:
            with contextlib.redirect_stdout(io.StringIO()):
                simu.Save(tmp)
                loaded = Load_Simu(tmp)
        except Exception as err:
            print(f"  dim={dim}: Save / Load_Simu raised {type(err).__name__}: {err}")
            return 1

        print(f"  dim={dim}: saved and loaded, Niter = {loaded.Niter} (was {simu.Niter})")
        bad += loaded.Niter != simu.Niter
        dCoord = np.abs(loaded.mesh.coord - mesh.coord).max()
        sameConnect = np.array_equal(loaded.mesh.connect, mesh.connect)
        print(f"  dim={dim}: max|coord diff| = {dCoord:.3e}, same connect: {sameConnect}")
        bad += (dCoord != 0) + (not sameConnect)
        bad += loaded.mesh.Nn != mesh.Nn or loaded.mesh.Ne != mesh.Ne

        for i in (1, 0):
            loaded.Set_Iter(i)
            diff = np.abs(loaded.displacement - saved[i]["displacement"]).max()
            print(f"  dim={dim}: it {i}: max|displacement diff| = {diff:.3e}")
            bad += diff != 0
            for r in RESULTS[dim]:
                got = np.array(loaded.Result(r, nodeValues=False))
                diff = np.abs(got - saved[i][r]).max()
                ref = np.abs(saved[i][r]).max()
                print(f"  dim={dim}: it {i}: {r:>2}: max|diff| = {diff:.3e} (max|saved| = {ref:.3e})")
                bad += not diff <= 1e-12 * max(ref, 1.0)
    return bad


if __name__ == "__main__":
    bad = sum(Run(dim) for dim in (2, 3))
    if bad:
        print(f"\nDEFECT: {bad} problem(s): a Beam simulation is not saved / restored.")
        sys.exit(1)
    print("\nOK: the Beam simulations were saved and loaded back with the same mesh, history and results.")
    sys.exit(0)
