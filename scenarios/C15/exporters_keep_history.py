"""Observation 3: History solver. Exporting the results in the middle of a run (Paraview.Save_simu,
like the movie / GLTF / USD exporters, starts with simu.Set_Iter(0, resetAll=True) and ends on the
last iteration) and restoring the last saved step with Set_Iter(-1) must leave the
simulation in the state of the last saved step (an explicit Set_Iter(-1, resetAll=True) is the
documented request to reset the internal variables: printed, not judged): continuing the run gives the same driving energy
and damage as the run that was not interrupted.
exit 0 = behaves correctly, exit 1 = defect shown."""
import sys, tempfile, io, contextlib
import numpy as np
import EasyFEA
from EasyFEA import Models, Simulations, SolverType, Paraview
from EasyFEA.Geoms import Domain

print("EasyFEA from", EasyFEA.__file__)

a = 1.0
mesh = Domain((0, 0), (a, a), a / 10).Mesh_2D([], "TRI3")
n0 = mesh.Nodes_Conditions(lambda x, y, z: x == 0)
na = mesh.Nodes_Conditions(lambda x, y, z: x == a)
mat = Models.Elastic.Isotropic(2, E=210.0, v=0.3, planeStress=False)
loads = [0, 3e-3, 6e-3, 6e-3, 0.0, 0.0, 0.0]


def Run(interrupt, folder=""):
    pfm = Models.PhaseField(mat, "Miehe", "AT2", Gc=2.7e-3, l0=0.1, solver="History")
    simu = Simulations.PhaseField(mesh, pfm, folder=folder)
    simu.solver = SolverType.scipy
    Hs, ds = [], []
    for k, ud in enumerate(loads):
        if k == 5:
            if interrupt == "export":
                with contextlib.redirect_stdout(io.StringIO()):
                    Paraview.Save_simu(simu, tempfile.mkdtemp(), details=True)
            elif interrupt == "Set_Iter(-1, resetAll=True)":
                simu.Set_Iter(-1, resetAll=True)
            elif interrupt == "Set_Iter(2); Set_Iter(-1)":
                simu.Set_Iter(2)
                simu.Set_Iter(-1)
        simu.Bc_Init()
        simu.add_dirichlet(n0, [0, 0], ["x", "y"])
        simu.add_dirichlet(na, [ud], ["x"])
        simu.Solve()
        simu.Save_Iter()
        Hs.append(simu.Result("psiP", nodeValues=False))
        ds.append(simu.damage.copy())
    return Hs, ds, simu


ok = True
Hs_ref, ds_ref, simu_ref = Run(None)
print(f"{'uninterrupted run':>28}: max H per step", " ".join(f"{H.max():.3e}" for H in Hs_ref))
print(f"{'':>28}  max damage    ", " ".join(f"{d.max():9.4f}" for d in ds_ref))

for interrupt, folder in [
    ("export", ""),
    ("export", tempfile.mkdtemp()),  # iterations kept on disk
    ("Set_Iter(-1, resetAll=True)", ""),
    ("Set_Iter(2); Set_Iter(-1)", ""),
]:
    Hs, ds, simu = Run(interrupt, folder)
    name = interrupt + (" (folder)" if folder else "")
    print(f"{name + ' before step 5':>28}: max H per step", " ".join(f"{H.max():.3e}" for H in Hs))
    print(f"{'':>28}  max damage    ", " ".join(f"{d.max():9.4f}" for d in ds))
    dropH = max(float(np.max(Hs[k] - Hs[k + 1])) for k in range(len(Hs) - 1))
    errH = max(float(np.abs(H - Hr).max()) for H, Hr in zip(Hs, Hs_ref))
    errd = max(float(np.abs(d - dr).max()) for d, dr in zip(ds, ds_ref))
    print(f"{'':>28}  largest decrease of H between saved steps {dropH:.3e};"
          f" difference with the uninterrupted run: H {errH:.3e}, damage {errd:.3e}")
    if interrupt == "Set_Iter(-1, resetAll=True)":
        # documented: resetAll "resets the internal variables" on request. Reported, not part of the verdict
        print(f"{'':>28}  (explicit reset asked by the caller: informational)")
    elif dropH > 1e-12 or errH > 1e-12 or errd > 1e-10:
        ok = False

# post-processing a past iteration gives what the run gave when it was saved
Hs, ds, simu = Run(None)
errs = [float(np.abs(simu.Result("psiP", nodeValues=False, iter=i) - Hs[i]).max()) for i in range(simu.Niter)]
print("Result('psiP', iter=i) - value when step i was saved:", " ".join(f"{e:.1e}" for e in errs))
if max(errs) > 1e-12:
    ok = False

print("OK" if ok else "DEFECT: the accumulated history field is lost")
sys.exit(0 if ok else 1)
