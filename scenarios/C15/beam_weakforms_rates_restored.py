"""Observation 1: Set_Iter of Simulations.Beam / Simulations.WeakForms restores the displacement only.

A. Beam, Newmark, one mesh: run 6 steps, Set_Iter(1), Solve() -> must equal iteration 2 of a simulation
   that was run straight through (history in memory and on disk).
B. Beam, two meshes in one history: a static iteration on mesh A, a dynamic phase on mesh B, Set_Iter(0)
   -> the next Solve() must not fail on rate vectors sized by mesh B.
C. WeakForms: static preload saved under the elliptic scheme, dynamic phase, then Set_Iter(0) under the
   elliptic scheme (and under the parabolic scheme) -> v and a must be those current when iteration 0 was
   saved (zero), and replaying the first dynamic step must reproduce iteration 1.
D. PhaseField (information only, does not change the exit code): size of the protected rate vectors after
   a cross-mesh restore. They are not reachable through the public API and no scheme of a phase-field
   simulation reads them.

exit 0 = behaves correctly, exit 1 = defect shown.
"""

import sys
import tempfile

import numpy as np

import EasyFEA
from EasyFEA import ElemType, Mesher, Models, Simulations
from EasyFEA.FEM import BiLinearForm, Field, Sym_Grad, Trace
from EasyFEA.Geoms import Domain, Line, Point

print("EasyFEA from:", EasyFEA.__file__)

TOL = 1e-10
failures: list[str] = []


def check(ok: bool, msg: str):
    print(("  ok     " if ok else "  DEFECT ") + msg)
    if not ok:
        failures.append(msg)


def rel(x, ref):
    scale = np.abs(ref).max()
    return np.abs(x - ref).max() / (scale if scale > 0 else 1.0)


# ------------------------------------------------------------------------------------------------
# Beam
# ------------------------------------------------------------------------------------------------

L, h, E, nu, rho, dt = 120, 13, 210000, 0.3, 7850e-9, 1e-2
section = Domain((0, 0), (h, h), h / 5).Mesh_2D()
beam = Models.Beam.Isotropic(2, Line((0, 0), (L, 0), L / 10), section, E, nu)


def beam_bc(simu: Simulations.Beam, load: bool):
    mesh = simu.mesh
    simu.Bc_Init()
    simu.add_dirichlet(
        mesh.Nodes_Point((0, 0)), [0] * simu.Get_dof_n(), simu.Get_unknowns()
    )
    if load:
        simu.add_neumann(mesh.Nodes_Point((L, 0)), [-800], ["y"])


def beam_run(nSteps: int, folder: str = "") -> Simulations.Beam:
    """Cantilever released from its static deflection (examples/Beam/Beam7.py in 2D)."""
    mesh = Mesher().Mesh_Beams([beam])
    simu = Simulations.Beam(mesh, Models.Beam.BeamStructure([beam]), folder=folder)
    simu.rho = rho
    beam_bc(simu, True)
    simu.Solve()
    simu.Solver_Set_Hyperbolic_Algorithm(dt)
    beam_bc(simu, False)
    for _ in range(nSteps):
        simu.Solve()
        simu.Save_Iter()
    return simu


print("A. Beam, Newmark: Set_Iter(1) then Solve() vs iteration 2 of a straight run")
for where in ["memory", "disk"]:
    folder = "" if where == "memory" else tempfile.mkdtemp(prefix="obs1_beam_")
    ref = beam_run(3, folder and tempfile.mkdtemp(prefix="obs1_beamref_"))
    u1_ref = ref.Get_results(1)["displacement"]
    u2_ref = ref.Get_results(2)["displacement"]

    simu = beam_run(6, folder)
    simu.Set_Iter(1)
    check(
        np.array_equal(simu.displacement, u1_ref),
        f"[{where}] displacement of iteration 1 restored exactly",
    )
    u2 = simu.Solve()
    err = rel(u2, u2_ref)
    check(
        err < TOL,
        f"[{where}] recomputed iteration 2 vs straight run: rel. error = {err:.3e}",
    )

print("B. Beam, two meshes: static iteration on mesh A, dynamic phase on mesh B, Set_Iter(0)")
meshA = Mesher().Mesh_Beams([beam], ElemType.SEG2)
meshB = Mesher().Mesh_Beams([beam], ElemType.SEG3)
simu = Simulations.Beam(meshA, Models.Beam.BeamStructure([beam]))
simu.rho = rho
beam_bc(simu, True)
uA = simu.Solve()
simu.Save_Iter()  # iteration 0, mesh A, elliptic
simu.mesh = meshB
beam_bc(simu, True)
simu.Solve()
simu.Solver_Set_Hyperbolic_Algorithm(dt)
beam_bc(simu, False)
for _ in range(3):
    simu.Solve()
    simu.Save_Iter()  # iterations 1..3, mesh B, newmark
simu.Set_Iter(0)
check(
    np.array_equal(simu.mesh.coord, meshA.coord)
    and np.array_equal(simu.displacement, uA),
    "mesh and displacement of iteration 0 restored",
)
beam_bc(simu, False)
try:
    simu.Solve()
    check(True, "Solve() after the cross-mesh restore runs")
except Exception as e:  # noqa: BLE001
    check(
        False,
        f"Solve() after the cross-mesh restore raised {type(e).__name__}: {e}",
    )

# ------------------------------------------------------------------------------------------------
# WeakForms
# ------------------------------------------------------------------------------------------------

print("C. WeakForms: static preload (elliptic), dynamic phase, restore under elliptic / parabolic")
dim = 2
elastic = Models.Elastic.Isotropic(dim, 210000, 0.3, planeStress=True, thickness=h)
lmbda, mu, rhoW = elastic.get_lambda(), elastic.get_mu(), 8100e-9
mesh = Domain((0, 0), (L, h), h / 2).Mesh_2D([], ElemType.QUAD4, isOrganised=True)
nodesX0 = mesh.Nodes_Conditions(lambda x, y, z: x == 0)
nodesXL = mesh.Nodes_Conditions(lambda x, y, z: x == L)
field = Field(mesh.groupElem, dim)


def S(u: Field):
    Eps = Sym_Grad(u)
    return 2 * mu * Eps + lmbda * Trace(Eps) * np.eye(dim)


@BiLinearForm
def computeK(u: Field, v: Field):
    return S(u).ddot(Sym_Grad(v))


@BiLinearForm
def computeM(u: Field, v: Field):
    return rhoW * u.dot(v)


simu = Simulations.WeakForms(mesh, Models.WeakForms(field, computeK, None, computeM))
simu.add_dirichlet(nodesX0, [0] * dim, simu.Get_unknowns())
simu.add_dirichlet(nodesXL, [-10], ["y"])
simu.Solve()
simu.Save_Iter()  # iteration 0: static preload, saved under the elliptic scheme
saved = [(simu.u, simu.v, simu.a)]
simu.Solver_Set_Hyperbolic_Algorithm(dt)
simu.Bc_Init()
simu.add_dirichlet(nodesX0, [0] * dim, simu.Get_unknowns())
for _ in range(4):
    simu.Solve()
    simu.Save_Iter()
    saved.append((simu.u, simu.v, simu.a))

simu.Solver_Set_Elliptic_Algorithm()
simu.Set_Iter(0)
for name, now, then in zip("uva", (simu.u, simu.v, simu.a), saved[0]):
    check(
        np.array_equal(now, then),
        f"[elliptic] {name} after Set_Iter(0): max|restored| = {np.abs(now).max():.3e}, "
        f"max|saved| = {np.abs(then).max():.3e}",
    )
simu.Solver_Set_Hyperbolic_Algorithm(dt)
u1 = simu.Solve()
err = rel(u1, saved[1][0])
check(err < TOL, f"[elliptic] replayed iteration 1 vs original: rel. error = {err:.3e}")

simu.Set_Iter(4)
simu.Solver_Set_Parabolic_Algorithm(dt)
simu.Set_Iter(0)
for name, now, then in zip("uva", (simu.u, simu.v, simu.a), saved[0]):
    check(
        np.array_equal(now, then),
        f"[parabolic] {name} after Set_Iter(0): max|restored| = {np.abs(now).max():.3e}, "
        f"max|saved| = {np.abs(then).max():.3e}",
    )

# control: restoring under the hyperbolic scheme was already right and must stay so
simu.Solver_Set_Hyperbolic_Algorithm(dt)
for i in [0, 2, 4]:
    simu.Set_Iter(i)
    ok = all(
        np.array_equal(now, then)
        for now, then in zip((simu.u, simu.v, simu.a), saved[i])
    )
    check(ok, f"[hyperbolic, control] u, v, a of iteration {i} restored exactly")

# ------------------------------------------------------------------------------------------------
# PhaseField (information only)
# ------------------------------------------------------------------------------------------------

print("D. PhaseField, cross-mesh restore (information only)")


def mk(ms):
    return Domain(Point(), Point(1, 1), meshSize=ms).Mesh_2D([], ElemType.TRI3)


mat = Models.Elastic.Isotropic(2, E=210e3, v=0.3, planeStress=True, thickness=1.0)
pfm = Models.PhaseField(mat, "Miehe", "AT2", Gc=2.7, l0=0.1)
simu = Simulations.PhaseField(mk(0.25), pfm)


def pf_load(uy):
    m = simu.mesh
    simu.Bc_Init()
    simu.add_dirichlet(m.Nodes_Conditions(lambda x, y, z: y == 0), [0, 0], ["x", "y"])
    simu.add_dirichlet(m.Nodes_Conditions(lambda x, y, z: y == 1), [uy], ["y"])
    simu.Solve()
    simu.Save_Iter()


pf_load(1e-3)
simu.mesh = mk(0.2)
pf_load(2e-3)
simu.Set_Iter(0)
for pt in simu.Get_problemTypes():
    print(
        f"  info   {pt}: size u = {simu._Get_u_n(pt).size}, "
        f"v = {simu._Get_v_n(pt).size}, a = {simu._Get_a_n(pt).size} (protected, never read)"
    )
try:
    pf_load(3e-3)
    print("  info   Solve() after the cross-mesh restore runs")
except Exception as e:  # noqa: BLE001
    check(False, f"PhaseField Solve() after the cross-mesh restore raised {e!r}")

# ------------------------------------------------------------------------------------------------

if failures:
    print("\nDEFECT SHOWN:")
    for f in failures:
        print(" -", f)
    sys.exit(1)
print("\nbehaves correctly")
sys.exit(0)
