"""Observation 1: the `euler_explicit` time scheme must impose prescribed (Dirichlet) values on u.

exit 0 = constrained dofs hold their prescribed value after Solve(); exit 1 = defect shown.
Run with PYTHONPATH=<tree>.
"""

import sys
import numpy as np
import EasyFEA
from EasyFEA import ElemType, Models, Simulations, AlgoType
from EasyFEA.Geoms import Domain

print("EasyFEA from", EasyFEA.__file__)

mesh = Domain((0, 0), (1, 0.5), 0.25).Mesh_2D([], ElemType.TRI3, isOrganised=True)
mat = Models.Elastic.Isotropic(2, E=10.0, v=0.3, planeStress=True, thickness=1.0)
left = mesh.Nodes_Conditions(lambda x, y, z: x == 0)
right = mesh.Nodes_Conditions(lambda x, y, z: x == 1)
dt = 1e-3
bad = False


def new_simu(algo):
    simu = Simulations.Elastic(mesh, mat)
    simu.rho = 2.0
    simu.Solver_Set_Hyperbolic_Algorithm(dt, algo=algo)
    return simu


# (a) non-zero prescribed value, compared with an implicit scheme
for algo in [AlgoType.newmark, AlgoType.euler_explicit]:
    simu = new_simu(algo)
    simu.add_dirichlet(left, [0, 0], ["x", "y"])
    simu.add_dirichlet(right, [0.1], ["x"])
    dofs = simu.Bc_dofs_nodes(right, ["x"])
    for step in range(3):
        u = simu.Solve()
        err = np.abs(u[dofs] - 0.1).max()
        print(f"(a) {algo}: step {step}: prescribed ux=0.1, obtained {u[dofs]} (max error {err:.2e})")
        if not np.isfinite(u).all() or err > 1e-12:
            bad = True
    clamp = simu.Bc_dofs_nodes(left, ["x", "y"])
    if np.abs(u[clamp]).max() > 0:
        print("    clamp moved:", np.abs(u[clamp]).max())
        bad = True

# (b) a dof constrained twice holds the sum of the entered values (documented convention),
#     values given as a function of position
simu = new_simu(AlgoType.euler_explicit)
simu.add_dirichlet(left, [0, 0], ["x", "y"])
simu.add_dirichlet(right, [lambda x, y, z: 0.02 + 0.1 * y], ["y"])
simu.add_dirichlet(right[:1], [0.03], ["y"])
u = simu.Solve()
dofs = simu.Bc_dofs_nodes(right, ["y"])
expected = 0.02 + 0.1 * mesh.coord[right, 1]
expected[0] += 0.03
print("(b) euler_explicit, duplicates: expected", expected, "obtained", u[dofs])
if np.abs(u[dofs] - expected).max() > 1e-12:
    bad = True

# (c) the explicit step itself on the free dofs: M a = F - K u_n - C v_n, u1 = u0 + dt v0, v1 = v0 + dt a
rng = np.random.default_rng(0)
simu = new_simu(AlgoType.euler_explicit)
simu.add_dirichlet(left, [0, 0], ["x", "y"])
simu.add_dirichlet(right, [0.1], ["x"])
simu.add_neumann(right, [1e-2], ["y"])
known, free = simu.Bc_dofs_known_unknown(simu.problemType)
n = mesh.Nn * 2
u0, v0 = rng.normal(size=n) * 1e-3, rng.normal(size=n) * 1e-3
u0[known] = 0.0
v0[known] = 0.0
simu._Set_solutions(simu.problemType, u0.copy(), v0.copy(), np.zeros(n))
K, C, M, F = simu.Get_K_C_M_F()
u1 = simu.Solve().copy()
v1, a0 = simu.speed.copy(), simu.accel.copy()
b = simu.Bc_vector_Neumann() + F.toarray().ravel() - K @ u0 - C @ v0
res = np.abs((M @ a0 - b)[free]).max() / np.abs(b[free]).max()
eu = np.abs(u1[free] - (u0 + dt * v0)[free]).max()
ev = np.abs(v1 - (v0 + dt * a0)).max()
print(f"(c) free dofs: |M a - (F - K u - C v)|/|b| = {res:.2e}, |u1-(u0+dt v0)| = {eu:.2e}, |v1-(v0+dt a)| = {ev:.2e}")
if res > 1e-10 or eu > 1e-15 or ev > 1e-15:
    bad = True

print("DEFECT SHOWN" if bad else "OK")
sys.exit(1 if bad else 0)
