"""Observation 1 (C04): the iterative linear back ends "cg", "bicg", "gmres", "lgmres".

Public API only (+ numpy).  Three situations, each solved with every iterative back end and compared
with the direct back end ("scipy" = scipy.sparse.linalg.spsolve):

 (a) cantilever Euler-Bernoulli beam, 40 SEG2 elements, tip load (static);
 (b) linear patch test on a TRI3 plate (every boundary node prescribed, static);
 (c) one Newmark step with dt = 1e-6 on a small plate (dynamic).

A back end behaves correctly when it EITHER returns a solution that satisfies the stated system on the
free dofs / agrees with the direct solution to the accuracy below, OR tells the caller that it could not
(an exception or a warning).  A wrong result that is returned silently is the defect.

exit 0 = behaves correctly, exit 1 = defect shown.
"""

import sys
import warnings
import numpy as np

import EasyFEA
from EasyFEA import Mesher, ElemType, Models, Simulations
from EasyFEA.Geoms import Domain, Line, Point

print("EasyFEA from", EasyFEA.__file__)

ITERATIVE = ["cg", "bicg", "gmres", "lgmres"]
TOL_RES = 1e-8  # relative residual |(K u - F)_free| / |b_free| a user can rely on
TOL_SOL = 1e-6  # relative distance to the direct solution

defects = []


def run(label, solver, build):
    """build(solver) -> dict of numbers; returns (numbers | None, told) where told is the
    exception / warnings the caller received."""
    with warnings.catch_warnings(record=True) as rec:
        warnings.simplefilter("always")
        try:
            out = build(solver)
            err = None
        except Exception as e:  # the library tells the caller: acceptable
            out, err = None, f"{type(e).__name__}: {e}"
    told = [str(w.message) for w in rec if "converge" in str(w.message).lower()]
    if err is not None:
        told.append(err)
    return out, told


def judge(label, solver, out, told, bad):
    if out is None:
        print(f"  {solver:7s} no result, caller was told: {told[0]}")
        return
    txt = "  ".join(f"{k}={v:.3e}" for k, v in out.items())
    if bad and not told:
        print(f"  {solver:7s} {txt}   <-- WRONG, returned silently")
        defects.append(f"{label}/{solver}")
    elif bad:
        print(f"  {solver:7s} {txt}   (inaccurate, but the caller was told: {told[0]})")
    else:
        print(f"  {solver:7s} {txt}   ok")


# --------------------------------------------------------------------------------------
# (a) cantilever beam
# --------------------------------------------------------------------------------------
L = 1.0
line = Line(Point(0, 0), Point(L, 0), L / 40)
sect = Domain(Point(0, 0), Point(0.01, 0.01)).Mesh_2D()
beam = Models.Beam.Isotropic(2, line, sect, 210e9, 0.3)
meshBeam = Mesher().Mesh_Beams([beam], ElemType.SEG2)


def beam_case(solver):
    simu = Simulations.Beam(meshBeam, Models.Beam.BeamStructure([beam]), verbosity=False)
    simu.solver = solver
    simu.add_dirichlet(meshBeam.Nodes_Point(Point(0, 0)), [0, 0, 0], ["x", "y", "rz"])
    simu.add_neumann(meshBeam.Nodes_Point(Point(L, 0)), [-100.0], ["y"])
    u = simu.Solve()
    K = simu.Get_K_C_M_F()[0]
    F = np.asarray(simu.Bc_vector_Neumann()).ravel()
    _, free = simu.Bc_dofs_known_unknown(simu.problemType)
    res = np.linalg.norm((K @ u - F)[free]) / np.linalg.norm(F[free])
    return {"u": u, "res": res}


print("(a) cantilever beam, 40 SEG2 elements, tip load")
ref = beam_case("scipy")
print(f"  scipy   rel.residual={ref['res']:.3e}")
for s in ITERATIVE:
    out, told = run("beam", s, beam_case)
    if out is not None:
        out = {
            "rel.residual": out["res"],
            "|u-u_direct|/|u_direct|": np.linalg.norm(out["u"] - ref["u"]) / np.linalg.norm(ref["u"]),
        }
        bad = out["rel.residual"] > TOL_RES or out["|u-u_direct|/|u_direct|"] > TOL_SOL
    else:
        bad = False
    judge("beam", s, out, told, bad)

# --------------------------------------------------------------------------------------
# (b) patch test
# --------------------------------------------------------------------------------------
meshP = Domain(Point(0, 0), Point(1, 1), 0.1).Mesh_2D([], ElemType.TRI3)
rng = np.random.default_rng(0)
G = rng.uniform(-1, 1, (2, 2)) * 1e-3
U = meshP.coord[:, :2] @ G.T + 1e-3
bn = set()
for g in meshP.Get_list_groupElem(meshP.dim - 1):
    bn.update(np.unique(g.connect).tolist())
bn = np.array(sorted(bn))


def patch_case(solver):
    simu = Simulations.Elastic(meshP, Models.Elastic.Isotropic(2, 210e9, 0.3), verbosity=False)
    simu.solver = solver
    simu.add_dirichlet(bn, [U[bn, 0], U[bn, 1]], ["x", "y"])
    u = simu.Solve().reshape(-1, 2)
    return {"err": np.abs(u - U).max() / np.abs(U).max()}


print("(b) patch test, TRI3 plate, linear field prescribed on the boundary")
ref = patch_case("scipy")
print(f"  scipy   rel.error on u={ref['err']:.3e}")
for s in ITERATIVE:
    out, told = run("patch", s, patch_case)
    if out is not None:
        out = {"rel.error on u": out["err"]}
        bad = out["rel.error on u"] > TOL_SOL
    else:
        bad = False
    judge("patch", s, out, told, bad)

# --------------------------------------------------------------------------------------
# (c) one Newmark step with a small time step
# --------------------------------------------------------------------------------------
meshD = Mesher().Mesh_2D(Domain(Point(0, 0), Point(1.0, 0.5), 0.25), [], ElemType.TRI3)
mat = Models.Elastic.Isotropic(2, E=10.0, v=0.3, planeStress=True, thickness=1.0)
dt = 1e-6
nD = meshD.Nn * 2
rng = np.random.default_rng(1)
u0, v0, a0 = rng.normal(size=nD), rng.normal(size=nD), rng.normal(size=nD)
nodes0 = meshD.Nodes_Conditions(lambda x, y, z: x == 0)


def dyn_case(solver):
    simu = Simulations.Elastic(meshD, mat, verbosity=False)
    simu.rho = 2.0
    d = simu.Bc_dofs_nodes(nodes0, ["x", "y"])
    u, v, a = u0.copy(), v0.copy(), a0.copy()
    u[d] = v[d] = a[d] = 0
    simu._Set_solutions(simu.problemType, u.copy(), v.copy(), a.copy())
    simu.solver = solver
    simu.Solver_Set_Hyperbolic_Algorithm(dt)  # newmark, beta=1/4, gamma=1/2
    simu.add_dirichlet(nodes0, [0, 0], ["x", "y"])
    simu.Solve()
    return {
        "du": simu.displacement - u,
        "dv": simu.speed - v,
        "a": simu.accel.copy(),
        "dtv": dt * np.linalg.norm(v),
    }


print(f"(c) one Newmark step, dt={dt:g}")
ref = dyn_case("scipy")
print(
    f"  scipy   |u1-u0|={np.linalg.norm(ref['du']):.3e} (dt*|v0|={ref['dtv']:.3e})  "
    f"|v1-v0|={np.linalg.norm(ref['dv']):.3e}  |a1|={np.linalg.norm(ref['a']):.3e}"
)
for s in ITERATIVE:
    out, told = run("dyn", s, dyn_case)
    if out is not None:
        na = np.linalg.norm(out["a"])
        out = {
            "|u1-u0|": np.linalg.norm(out["du"]),
            "|v1-v0|": np.linalg.norm(out["dv"]),
            "|a1|": na,
            "|a1-a1_direct|/|a1_direct|": np.linalg.norm(out["a"] - ref["a"]) / np.linalg.norm(ref["a"]),
        }
        # the step must move (u1 != u0) and the acceleration must have the size the direct solver finds
        bad = out["|u1-u0|"] == 0.0 or out["|a1-a1_direct|/|a1_direct|"] > 1.0
    else:
        bad = False
    judge("dyn", s, out, told, bad)

print()
if defects:
    print("DEFECT: wrong result returned silently for", ", ".join(defects))
    sys.exit(1)
print("OK: every iterative back end either met the accuracy or told the caller")
sys.exit(0)
