"""Observation 2: add_dirichlet with an unknown name the problem does not have.

A 2-D elastic problem has the unknowns ["x", "y"]. add_dirichlet(nodes, [1.0], ["z"]) must not
register anything on a dof that was not named (add_neumann and the load functions refuse it).

exit 0 = the call is refused (exception) or leaves the set of conditions / the solution untouched;
exit 1 = a condition is registered on another dof and changes the solution.
Run with PYTHONPATH=<tree>.
"""

import sys
import numpy as np
import EasyFEA
from EasyFEA import ElemType, Models, Simulations
from EasyFEA.Geoms import Domain

print("EasyFEA from", EasyFEA.__file__)

mesh = Domain((0, 0), (1, 1), 0.25).Mesh_2D([], ElemType.QUAD4, isOrganised=True)
mat = Models.Elastic.Isotropic(2, E=210000, v=0.3)
left = mesh.Nodes_Conditions(lambda x, y, z: x == 0)
right = mesh.Nodes_Conditions(lambda x, y, z: x == 1)
bad = False

# reference: what the sibling function does with the same invalid name
simu = Simulations.Elastic(mesh, mat)
try:
    simu.add_neumann(right, [1.0], ["z"])
    print("add_neumann  (right, [1.0], ['z']): accepted")
except AssertionError as e:
    print("add_neumann  (right, [1.0], ['z']): AssertionError:", e)

simu = Simulations.Elastic(mesh, mat)
simu.add_dirichlet(left, [0, 0], ["x", "y"])
n0 = simu.Bc_dofs_Dirichlet().size
try:
    simu.add_dirichlet(right, [1.0], ["z"])  # typo: the 2-D problem has no "z"
    print("add_dirichlet(right, [1.0], ['z']): accepted")
except (AssertionError, ValueError, KeyError) as e:
    print("add_dirichlet(right, [1.0], ['z']):", type(e).__name__ + ":", e)

dofs = simu.Bc_dofs_Dirichlet()[n0:]
vals = simu.Bc_values_Dirichlet()[n0:]
print("dofs   registered by the invalid call:", dofs)
print("values registered by the invalid call:", vals)
u = simu.Solve()
clamp = simu.Bc_dofs_nodes(left, ["x", "y"])
print("max |u| on the clamped dofs:", np.abs(u[clamp]).max(), " u[dof 0] =", u[0])
if dofs.size > 0 or np.abs(u[clamp]).max() > 0:
    bad = True

# valid names are still accepted (2-D and, for a beam, rotations)
simu = Simulations.Elastic(mesh, mat)
simu.add_dirichlet(left, [0, 0], ["x", "y"])
simu.add_dirichlet(right, [1e-3], ["x"])
u = simu.Solve()
ok = np.allclose(u[simu.Bc_dofs_nodes(right, ["x"])], 1e-3, atol=0, rtol=1e-14)
print("valid names still accepted, ux(right) = 1e-3:", ok)
if not ok:
    bad = True

print("DEFECT SHOWN" if bad else "OK")
sys.exit(1 if bad else 0)
